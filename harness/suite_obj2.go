package main

import (
	"os"
	"bytes"
	"fmt"
	"math"
	"reflect"
	"strings"

	"github.com/polydawn/refmt"
	"github.com/polydawn/refmt/cbor"
	"github.com/polydawn/refmt/json"
	"github.com/polydawn/refmt/obj/atlas"
)

// ---------- remarshal (C12) ----------------------------------------------------------
// "<c|j> <line> <indent> <oracle> ; <env> <atlas> <type> <value>"
// d = M(v); x = U_untyped(d); d1 = M(x); v' = U_T(d1); x1 = U_untyped(d1); d2 = M(x1)

func isNativeValue(v reflect.Value) bool {
	switch v.Kind() {
	case reflect.Bool, reflect.Int, reflect.Float64, reflect.String:
		return v.Type().PkgPath() == "" || v.Type().Name() == v.Kind().String()
	case reflect.Slice:
		if v.Type() == reflect.TypeOf([]byte(nil)) {
			return true
		}
		if v.Type() != reflect.TypeOf([]interface{}(nil)) {
			return false
		}
		for i := 0; i < v.Len(); i++ {
			if !isNativeValue(v.Index(i)) {
				return false
			}
		}
		return true
	case reflect.Map:
		if v.Type() != reflect.TypeOf(map[string]interface{}(nil)) {
			return false
		}
		for _, k := range v.MapKeys() {
			if !isNativeValue(v.MapIndex(k)) {
				return false
			}
		}
		return true
	case reflect.Interface:
		if v.IsNil() {
			return true
		}
		return isNativeValue(v.Elem())
	}
	return false
}

func runRemarshal(payload string) string {
	fmtc, line, indent, rest := splitRT(payload)
	env, ad, t, vx, err := parseObjHeader(rest)
	if err != nil || len(vx) < 1 {
		return fmt.Sprintf("harness-error %v", err)
	}
	atl, err := ad.build()
	if err != nil {
		return "harness-error atlas: " + err.Error()
	}
	v, err := env.valueOfSx(t, vx[0])
	if err != nil {
		return "harness-error value: " + err.Error()
	}
	eo, do := encOpts(fmtc, line, indent), decOpts(fmtc)
	stage := 0
	var d, d1, d2 []byte
	var x, x1 interface{}
	target := reflect.New(t.rt)
	e, p := safely(func() error {
		var err error
		stage = 1
		if d, err = refmt.MarshalAtlased(eo, v.Interface(), atl); err != nil {
			return err
		}
		stage = 2
		if err = refmt.UnmarshalAtlased(do, d, &x, atl); err != nil {
			return err
		}
		stage = 3
		if d1, err = refmt.MarshalAtlased(eo, x, atl); err != nil {
			return err
		}
		stage = 4
		if err = refmt.UnmarshalAtlased(do, d1, target.Interface(), atl); err != nil {
			return err
		}
		stage = 5
		if err = refmt.UnmarshalAtlased(do, d1, &x1, atl); err != nil {
			return err
		}
		stage = 6
		d2, err = refmt.MarshalAtlased(eo, x1, atl)
		return err
	})
	if p {
		return fmt.Sprintf("panic%d", stage)
	}
	if e != nil {
		if stage <= 3 {
			if stage == 1 {
				return "err1"
			}
			return fmt.Sprintf("err%d d=%s", stage, hexOrDash(d))
		}
		if stage == 4 {
			return fmt.Sprintf("err4 d=%s d1=%s", hexOrDash(d), hexOrDash(d1))
		}
		return fmt.Sprintf("err%d", stage)
	}
	eq := approxEqual(t, v, target.Elem(), ad, fmtc == "j")
	native := isNativeValue(v)
	return fmt.Sprintf("ok d=%s d1=%s back=%s eq=%d fix=%d native=%d same1=%d", hexOrDash(d), hexOrDash(d1), printValue(t, target.Elem()),
		b2i(eq), b2i(bytes.Equal(d1, d2)), b2i(native), b2i(bytes.Equal(d, d1)))
}

func genRemarshal(g *G, tier string, emit func(string)) {
	n := 20000
	if tier == "thorough" {
		n = 400000
	}
	for _, f := range []string{"c ~ ~ -", "j ~ ~ -"} {
		for _, u := range []uint64{0, 1, math.MaxInt64, math.MaxInt64 + 1, math.MaxUint64} {
			emit(fmt.Sprintf("%s ; (env) (atlas 0) u64 (n %d)", f, u))
			emit(fmt.Sprintf("%s ; (env) (atlas 0) (sl a) (sl (a u64 (n %d)))", f, u))
		}
	}
	emit("j ~ ~ " + shortestOracle(math.Copysign(0, -1)) + " ; (env) (atlas 0) f64 (f 8000000000000000)")
	emit("c ~ ~ - ; (env) (atlas 0) f64 (f 8000000000000000)")
	emit("c ~ ~ - ; (env) (atlas 0) f64 (f 7ff8000000000001)")
	for i := 0; i < n; i++ {
		isJSON := i%2 == 1
		o := optsFull
		o.bad = false
		if isJSON {
			o = optsJSON
		}
		if i%3 == 0 { // native untyped values
			o.transforms, o.unions, o.embedded = false, false, false
		}
		c, t, v := g.newCase(o)
		if i%3 == 0 {
			t = &TD{k: "pt", elem: &TD{k: "a", rt: primKinds["a"]}, rt: reflect.PtrTo(primKinds["a"])}
			v = g.genValue(c, t, o, 0)
		}
		if !untypedSlotsOK(v, c.atl, false, !isJSON) {
			continue
		}
		atl, err := c.atl.build()
		if err != nil {
			continue
		}
		head := "c ~ ~ -"
		if isJSON {
			_, toks := marshalTokens(atl, v.Interface(), 20*valueSize(v)+50)
			head = "j ~ ~ " + floatOracleFor(toks)
		}
		emit(head + " ; " + c.header(t) + " " + printValue(t, v))
	}
}

// ---------- clone (C11) -----------------------------------------------------------------
// "<env> <atlas> <type> <value>"

// mutateAll changes every mutable location reachable from v (addressable).
func mutateAll(v reflect.Value, depth int) {
	if depth > 8 {
		return
	}
	switch v.Kind() {
	case reflect.Slice:
		if v.Type().Elem().Kind() == reflect.Uint8 {
			b := v.Bytes()
			for i := range b {
				b[i] ^= 0x5a
			}
			return
		}
		for i := 0; i < v.Len(); i++ {
			mutateAll(v.Index(i), depth+1)
		}
	case reflect.Array:
		for i := 0; i < v.Len(); i++ {
			mutateAll(v.Index(i), depth+1)
		}
	case reflect.Map:
		for _, k := range v.MapKeys() {
			ev := reflect.New(v.Type().Elem()).Elem()
			ev.Set(v.MapIndex(k))
			mutateAll(ev, depth+1)
			v.SetMapIndex(k, ev)
		}
		if v.Len() > 0 {
			v.SetMapIndex(v.MapKeys()[0], reflect.Value{}) // delete one entry
		}
	case reflect.Ptr:
		if !v.IsNil() {
			mutateAll(v.Elem(), depth+1)
		}
	case reflect.Interface:
		if !v.IsNil() {
			inner := reflect.New(v.Elem().Type()).Elem()
			inner.Set(v.Elem())
			mutateAll(inner, depth+1) // mutates shared referents (slices, maps, pointees)
		}
	case reflect.Struct:
		for i := 0; i < v.NumField(); i++ {
			if v.Field(i).CanSet() {
				mutateAll(v.Field(i), depth+1)
			}
		}
	case reflect.Int, reflect.Int8, reflect.Int16, reflect.Int32, reflect.Int64:
		if v.CanSet() {
			v.SetInt(v.Int() ^ 1)
		}
	case reflect.Uint, reflect.Uint8, reflect.Uint16, reflect.Uint32, reflect.Uint64, reflect.Uintptr:
		if v.CanSet() {
			v.SetUint(v.Uint() ^ 1)
		}
	case reflect.String:
		if v.CanSet() {
			v.SetString(v.String() + "!")
		}
	case reflect.Bool:
		if v.CanSet() {
			v.SetBool(!v.Bool())
		}
	case reflect.Float32, reflect.Float64:
		if v.CanSet() {
			v.SetFloat(v.Float() + 1)
		}
	}
}

func runClone(payload string) string {
	env, ad, t, vx, err := parseObjHeader(payload)
	if err != nil || len(vx) < 1 {
		return fmt.Sprintf("harness-error %v", err)
	}
	atl, err := ad.build()
	if err != nil {
		return "harness-error atlas: " + err.Error()
	}
	mk := func() reflect.Value {
		p := reflect.New(t.rt)
		v, _ := env.valueOfSx(t, vx[0])
		p.Elem().Set(v)
		giveCapacity(p.Elem(), 0) // empty byte slices get spare capacity, as buf[:0] has
		return p
	}
	run := func() (src, dst reflect.Value, res string) {
		src = mk()
		dst = reflect.New(t.rt)
		e, p := safely(func() error { return refmt.CloneAtlased(src.Elem().Interface(), dst.Interface(), atl) })
		if p {
			return src, dst, "panic"
		}
		if e != nil {
			return src, dst, "err"
		}
		return src, dst, "ok"
	}
	src, dst, res := run()
	if res != "ok" {
		return res
	}
	srcSnap, dstSnap := printValue(t, src.Elem()), printValue(t, dst.Elem())
	eq := approxEqual(t, src.Elem(), dst.Elem(), ad, false)
	// CloneAtlased(src.Elem().Interface()) hands over a copy of the top-level value, but everything it
	// refers to is shared with src: mutate through dst, look at src
	mutateAll(dst.Elem(), 0)
	indep1 := printValue(t, src.Elem()) == srcSnap
	src2, dst2, _ := run()
	mutateAll(src2.Elem(), 0)
	indep2 := printValue(t, dst2.Elem()) == dstSnap
	// storage identity (Alias.v): the addresses of all mutable storage reachable from either side
	src3, dst3, _ := run()
	sl, dl := map[uintptr]bool{}, map[uintptr]bool{}
	storageLocs(src3.Elem(), sl, 0)
	storageLocs(dst3.Elem(), dl, 0)
	shared := 0
	for a := range dl {
		if sl[a] {
			shared++
		}
	}
	return fmt.Sprintf("ok %s eq=%d indep=%d srcsame=%d shared=%d locs=%d", dstSnap, b2i(eq), b2i(indep1 && indep2), b2i(srcSnap == printValue(t, mk().Elem())), shared, len(dl))
}

// giveCapacity replaces every empty, non-nil byte slice it can set by one with spare capacity.
func giveCapacity(v reflect.Value, depth int) {
	if depth > 40 {
		return
	}
	switch v.Kind() {
	case reflect.Slice:
		if v.Type().Elem().Kind() == reflect.Uint8 {
			if !v.IsNil() && v.Len() == 0 && v.CanSet() {
				v.Set(reflect.MakeSlice(v.Type(), 0, 8))
			}
			return
		}
		for i := 0; i < v.Len(); i++ {
			giveCapacity(v.Index(i), depth+1)
		}
	case reflect.Array:
		for i := 0; i < v.Len(); i++ {
			giveCapacity(v.Index(i), depth+1)
		}
	case reflect.Struct:
		for i := 0; i < v.NumField(); i++ {
			giveCapacity(v.Field(i), depth+1)
		}
	case reflect.Ptr:
		if !v.IsNil() {
			giveCapacity(v.Elem(), depth+1)
		}
	case reflect.Interface:
		if !v.IsNil() && v.CanSet() {
			e := v.Elem()
			if e.Kind() == reflect.Slice && e.Type().Elem().Kind() == reflect.Uint8 && !e.IsNil() && e.Len() == 0 {
				v.Set(reflect.MakeSlice(e.Type(), 0, 8))
			}
		}
	}
}

// storageLocs collects the addresses of the mutable storage reachable from v: backing arrays of
// non-empty slices and byte slices, map tables, pointer targets (Alias.locs).
func storageLocs(v reflect.Value, out map[uintptr]bool, depth int) {
	if depth > 40 {
		return
	}
	switch v.Kind() {
	case reflect.Slice:
		if v.IsNil() || v.Cap() == 0 {
			return
		}
		if v.Type().Elem().Size() > 0 { // zero-size elements all live at runtime.zerobase
			out[v.Pointer()] = true
		}
		if v.Type().Elem().Kind() != reflect.Uint8 {
			for i := 0; i < v.Len(); i++ {
				storageLocs(v.Index(i), out, depth+1)
			}
		}
	case reflect.Array:
		for i := 0; i < v.Len(); i++ {
			storageLocs(v.Index(i), out, depth+1)
		}
	case reflect.Struct:
		for i := 0; i < v.NumField(); i++ {
			storageLocs(v.Field(i), out, depth+1)
		}
	case reflect.Map:
		if v.IsNil() {
			return
		}
		out[v.Pointer()] = true
		for _, k := range v.MapKeys() {
			storageLocs(v.MapIndex(k), out, depth+1)
		}
	case reflect.Ptr:
		if v.IsNil() {
			return
		}
		if v.Type().Elem().Size() > 0 { // zero-size targets all live at runtime.zerobase
			out[v.Pointer()] = true
		}
		storageLocs(v.Elem(), out, depth+1)
	case reflect.Interface:
		if !v.IsNil() {
			storageLocs(v.Elem(), out, depth+1)
		}
	}
}

func genClone(g *G, tier string, emit func(string)) {
	n := 20000
	if tier == "thorough" {
		n = 400000
	}
	for _, p := range []string{
		"(env) (atlas 0) x (x 010203)", "(env) (atlas 0) (sl x) (sl (x 0102) (x nil) (x -))", "(env) (atlas 0) (mp s x) (mp ((s 6b) (x 090807)))",
		"(env) (atlas 0) (pt x) (pt (x 01))", "(env) (atlas 0) (sl a) (sl (a x (x 0a0b)))", "(env) (atlas 0) (X 3) (X 010203)", "(env) (atlas 0) (pt (X 2)) (pt (X 0102))",
		"(env (100 x (sl i))) (atlas 0 (e (st 100) - (smap (fld 62 (0) x 0 0) (fld 6c (1) (sl i) 0 0)))) (st 100) (st (x 0102) (sl (n 1) (n 2)))",
		"(env) (atlas 0) (nm 4 x) (x 0505)", "(env (12 u8 u8)) (atlas 0 (e (st 12) - (tr 3 x))) (sl (st 12)) (sl (st (n 1) (n 2)))",
	} {
		emit(p)
	}
	for i := 0; i < n; i++ {
		o := optsFull
		o.bad = g.chance(0.05)
		c, t, v := g.newCase(o)
		if !untypedSlotsOK(v, c.atl, false, true) {
			continue
		}
		emit(c.header(t) + " " + printValue(t, v))
	}
}

// ---------- cbor-tags (C20) -------------------------------------------------------------
// "<env> <atlas> | <hex>" : foreign CBOR into an untyped variable

func runCborTags(payload string) string {
	head, hx, _ := strings.Cut(payload, "|")
	_, ad, _, _, err := parseObjHeader(head + " a")
	if err != nil {
		return fmt.Sprintf("harness-error %v", err)
	}
	atl, err := ad.build()
	if err != nil {
		return "harness-error atlas: " + err.Error()
	}
	in := optBytes(strings.TrimSpace(hx))
	var x interface{}
	e, p := safely(func() error { return refmt.UnmarshalAtlased(cbor.DecodeOptions{}, in, &x, atl) })
	if p {
		return "panic"
	}
	if e != nil {
		if os.Getenv("VERIF_DEBUG") != "" {
			return "err " + e.Error()
		}
		return "err"
	}
	at := &TD{k: "a", rt: primKinds["a"]}
	return "ok " + printValue(at, reflect.ValueOf(&x).Elem())
}

func genCborTags(g *G, tier string, emit func(string)) {
	// kept failures (D22): a null for a typed map / slice / array inside a tagged struct, then an untagged map or
	// array as the next sibling of the enclosing untyped container
	{
		hdr := "(env (16 s s) (102 (mp (st 16) i) (mp s i) (sl (mp (st 16) i)) (ar 2 (mp (st 16) i)))) (atlas 0 (e (st 16) 54 (tr 6 s)) (e (st 102) 92560 (smap (fld 6261 (0) (mp (st 16) i) 0 0) (fld 62 (1) (mp s i) 0 0) (fld 73 (2) (sl (mp (st 16) i)) 0 0) (fld 61 (3) (ar 2 (mp (st 16) i)) 0 0))))"
		for _, body := range []string{"a1626261f6", "a2626261f66162a1617801", "a16173f6", "a16161f6", "a3626261f66173f66161f6", "a2626261a1636b3a7601617381a0"} {
			for _, next := range []string{"a1617201", "8101", "a0", "a161726178"} {
				emit(hdr + " | a2636b6579da00016990" + body + "637a7a5f" + next)
				emit(hdr + " | 82da00016990" + body + next)
			}
		}
	}
	{
		hdr := "(env (101 (pt i8)) (16 s s) (102 (mp (st 16) i) (mp s i) (pt u) (mp s f64)) (20 i64) (17 s i64) (18 s i64) (100 (st 101) (st 102) (st 20) (st 17))) (atlas 0 (e (st 101) 65535 (smap (fld 6162 (0) (pt i8) 0 0))) (e (st 16) 54 (tr 6 s)) (e (mp s f64) - (mm 0)) (e (st 102) 92560 (smap (fld 42 (2) (pt u) 0 0) (fld 62 (1) (mp s i) 1 0) (fld 6261 (0) (mp (st 16) i) 0 0) (fld - (3) (mp s f64) 0 0))) (e (st 20) - (smap (fld 72 (0) i64 0 0))) (e (st 17) 60843 (tr 7 (st 18))) (e (st 18) 255 (smap (fld 6b (0) s 1 0) (fld 6e (1) i64 1 0))) (e (st 100) - (smap (fld 6261 (3) (st 17) 0 0) (fld 6b6579 (1) (st 102) 0 0) (fld 7a7a (0) (st 101) 1 0) (fld 7a7a5f (2) (st 20) 0 0))))"
		e2 := "636b6579da00016990a46142f66162a2603b7fffffffffffffff6278313a07ffffff626261f660f6"
		emit(hdr + " | a2" + e2 + "637a7a5fa161721b0400000000000002")
		emit(hdr + " | a2" + e2 + "637a7a5fa1617201")
		emit(hdr + " | a3" + e2 + "637a7a5fa161720161718101")
	}
	n := 4000
	if tier == "thorough" {
		n = 80000
	}
	for i := 0; i < n; i++ {
		o := optsFull
		o.bad = false
		c, t, v := g.newCase(o)
		// make sure several entries are tagged
		for _, e := range c.atl.entries {
			if (e.kind == "smap" || e.kind == "tr") && !e.tagd && g.chance(0.5) {
				e.tagd = true
				e.tag = c.freshTag(g)
			}
		}
		atl, err := c.atl.build()
		if err != nil {
			continue
		}
		bs, err := refmt.MarshalAtlased(cbor.EncodeOptions{}, v.Interface(), atl)
		if err != nil {
			continue
		}
		head := c.env.String() + " " + c.atl.String()
		emit(head + " | " + hexOrDash(bs))
		// retag: rewrite each tag head to another registered / unregistered number, or tag an untagged item
		for k := 0; k < 2 && len(bs) > 0; k++ {
			m := append([]byte{}, bs...)
			pos := g.intn(len(m))
			tagHead := []byte{0xc0 | byte(g.intn(24))}
			if g.chance(0.5) {
				for _, e := range c.atl.entries {
					if e.tagd && e.tag < 24 {
						tagHead = []byte{0xc0 | byte(e.tag)}
					} else if e.tagd && e.tag < 256 {
						tagHead = []byte{0xd8, byte(e.tag)}
					}
				}
			}
			m = append(m[:pos], append(tagHead, m[pos:]...)...)
			emit(head + " | " + hexOrDash(m))
		}
		var item []byte
		g.cborItem(0, &item)
		emit(head + " | " + hexOrDash(item))
		_ = t
		// the same document as foreign CBOR would frame it: arrays and maps of indefinite length (each with
		// probability 1/2; all of them; arrays only), tags in place
		for _, mode := range []int{0, 1, 2} {
			if out, ok := cborReframe(bs, g, mode); ok {
				emit(head + " | " + hexOrDash(out))
			}
		}
	}
	// directed: tagged and untagged items side by side in indefinite arrays, tagged indefinite containers
	{
		hdr := "(env (20 i64) (21 s (pt i))) (atlas 0 (e (st 20) 7 (smap (fld 72 (0) i64 0 0))) (e (st 21) 300 (smap (fld 73 (0) s 0 0) (fld 6e (1) (pt i) 0 0))))"
		circle := "c7a1617205"
		square := "d9012ca26173616161" + "6ef6"
		plain := []string{"01", "a1617206", "80", "6161", "f6"}
		for _, fr := range [][2]string{{"9f", "ff"}, {"82", ""}, {"83", ""}} {
			for _, a := range []string{circle, square} {
				for _, b := range append([]string{circle, square}, plain...) {
					items := a + b
					if fr[0] == "83" {
						items += a
					}
					emit(hdr + " | " + fr[0] + items + fr[1])
					emit(hdr + " | " + fr[0] + b + a + map[bool]string{true: b, false: ""}[fr[0] == "83"] + fr[1])
				}
			}
		}
		emit(hdr + " | c79fa1617205ff")
		emit(hdr + " | c79fc7a1617205ff")
		emit(hdr + " | 9f9fc7a161720501ff02ff")
		emit(hdr + " | bf6161c7a161720561620161639f" + circle + "01ffff")
	}
}

// cborReframe re-emits a well-formed definite-length CBOR item with its arrays and maps turned into
// indefinite-length ones: mode 0 each with probability 1/2, 1 all, 2 arrays only.
func cborReframe(in []byte, g *G, mode int) ([]byte, bool) {
	var out []byte
	var walk func(pos int) (int, bool)
	walk = func(pos int) (int, bool) {
		if pos >= len(in) {
			return 0, false
		}
		ib := in[pos]
		major, ai := ib>>5, ib&0x1f
		hl, val := 1, uint64(ai)
		switch {
		case ai < 24:
		case ai == 24:
			hl = 2
		case ai == 25:
			hl = 3
		case ai == 26:
			hl = 5
		case ai == 27:
			hl = 9
		default:
			return 0, false // indefinite or reserved: not produced by the marshaller
		}
		if pos+hl > len(in) {
			return 0, false
		}
		if hl > 1 {
			val = 0
			for _, b := range in[pos+1 : pos+hl] {
				val = val<<8 | uint64(b)
			}
		}
		switch major {
		case 0, 1, 7:
			out = append(out, in[pos:pos+hl]...)
			return pos + hl, true
		case 2, 3:
			end := pos + hl + int(val)
			if val > uint64(len(in)) || end > len(in) {
				return 0, false
			}
			out = append(out, in[pos:end]...)
			return end, true
		case 6:
			out = append(out, in[pos:pos+hl]...)
			return walk(pos + hl)
		}
		n := val
		if major == 5 {
			n *= 2
		}
		if val > uint64(len(in)) {
			return 0, false
		}
		indef := mode == 1 || (mode == 0 && g.chance(0.5)) || (mode == 2 && major == 4)
		if indef {
			out = append(out, major<<5|31)
		} else {
			out = append(out, in[pos:pos+hl]...)
		}
		p := pos + hl
		for i := uint64(0); i < n; i++ {
			var ok bool
			if p, ok = walk(p); !ok {
				return 0, false
			}
		}
		if indef {
			out = append(out, 0xff)
		}
		return p, true
	}
	end, ok := walk(0)
	if !ok || end != len(in) {
		return nil, false
	}
	return out, true
}

// ---------- history (C17) ---------------------------------------------------------------
// "<c|j> ; <env> <atlas> ; (it T V) (it T V) ..." : one long-lived Marshaller writing all items into
// one stream, one long-lived Unmarshaller reading them back one per call, one long-lived Cloner;
// every call is also made on a fresh instance.

func runHistory(payload string) string {
	parts := strings.SplitN(payload, ";", 3)
	fmtc := strings.TrimSpace(parts[0])
	hx, err := parseSx(parts[1])
	if err != nil || len(hx) < 2 {
		return "harness-error header"
	}
	env, err := parseEnvSx(hx[0])
	if err != nil {
		return "harness-error env"
	}
	ad, err := env.atlasOfSx(hx[1])
	if err != nil {
		return "harness-error atlas"
	}
	// a struct type with an empty struct map: cloning any non-empty map/struct into it is rejected
	// at the first KEY (between a key and its value on the marshalling side)
	emptyT := reflect.StructOf([]reflect.StructField{{Name: "ZZQ9", Type: reflect.TypeOf(false)}})
	{
		adx := *ad
		adx.entries = append(append([]*AD{}, ad.entries...), &AD{t: &TD{k: "st", n: 99, rt: emptyT}, kind: "smap",
			flds: []fldD{{name: "\x00never", route: []int{0}, t: &TD{k: "b", rt: reflect.TypeOf(false)}}}})
		ad = &adx
	}
	atl, err := ad.build()
	if err != nil {
		return "harness-error atlas build"
	}
	items, err := parseSx(parts[2])
	if err != nil {
		return "harness-error items"
	}
	type item struct {
		t *TD
		v reflect.Value
	}
	var its []item
	for _, ix := range items {
		t, err := env.typeOfSx(ix.list[1])
		if err != nil {
			return "harness-error type"
		}
		v, err := env.valueOfSx(t, ix.list[2])
		if err != nil {
			return "harness-error value"
		}
		its = append(its, item{t, v})
	}
	var eo refmt_EncodeOptions = cbor.EncodeOptions{}
	var do refmt_DecodeOptions = cbor.DecodeOptions{}
	if fmtc == "j" {
		eo, do = json.EncodeOptions{}, json.DecodeOptions{}
	}
	// (0) the same Go types used through ANOTHER atlas first (serial names rotated within each struct map):
	// instances hold their atlas by value, so nothing of this may leak into the calls below
	{
		adB := &atlasD{mode: (ad.mode + 1) % 3}
		for _, e := range ad.entries {
			eb := *e
			if e.kind == "smap" {
				var idx []int
				for i, f := range e.flds {
					if !f.ignore {
						idx = append(idx, i)
					}
				}
				eb.flds = append([]fldD{}, e.flds...)
				for k, i := range idx {
					eb.flds[i].name = e.flds[idx[(k+1)%len(idx)]].name
					eb.flds[i].omit = false // the other atlas never omits: nothing decided for it may be remembered per Go type
				}
			}
			if e.kind == "tr" && e.trk == 6 {
				eb.trk = 10 // the same Go key type, another string form
			}
			adB.entries = append(adB.entries, &eb)
		}
		if atlB, err := adB.build(); err == nil {
			for _, it := range its {
				safely(func() error {
					bs, err := refmt.MarshalAtlased(eo, it.v.Interface(), atlB)
					if err != nil {
						return err
					}
					return refmt.UnmarshalAtlased(do, bs, reflect.New(it.t.rt).Interface(), atlB)
				})
			}
		}
	}
	// (0b) atlases DERIVED from the one under test with the other key orders, and used: an Atlas is a value, deriving
	// one must leave the original as it was
	for _, mode := range sortModes {
		atlD := atl.WithMapMorphism(atlas.MapMorphism{KeySortMode: mode})
		for _, it := range its {
			safely(func() error { _, err := refmt.MarshalAtlased(eo, it.v.Interface(), atlD); return err })
		}
	}
	// (1) long-lived marshaller
	var stream bytes.Buffer
	var outs []string
	same := true
	fw := &faultOnceWriter{buf: &stream, failAt: -1}
	m := refmt.NewMarshallerAtlased(eo, fw, atl)
	var good []int
	for i, it := range its {
		start := stream.Len()
		if i%3 == 1 {
			// a call that fails because the writer fails once (an error, or a short count without one) at its
			// k-th write; what was written is discarded; the writer works again afterwards
			fw.calls, fw.failAt, fw.short = 0, (i/3)%6, (i/3)%2 == 1
			if _, p := safely(func() error { return m.Marshal(it.v.Interface()) }); p {
				return "panic"
			}
			fw.failAt = -1
			stream.Truncate(start)
		}
		e, p := safely(func() error { return m.Marshal(it.v.Interface()) })
		fresh, fe := []byte(nil), error(nil)
		_, fp := safely(func() error { fresh, fe = refmt.MarshalAtlased(eo, it.v.Interface(), atl); return fe })
		if p || fp {
			return "panic"
		}
		if e != nil {
			stream.Truncate(start)
			outs = append(outs, "merr")
			if fe == nil {
				same = false
			}
			continue
		}
		mine := append([]byte{}, stream.Bytes()[start:]...)
		if fe != nil || !bytes.Equal(mine, fresh) {
			same = false
		}
		if fmtc == "j" {
			stream.WriteByte(' ') // JSON values separated by whitespace
		}
		outs = append(outs, "m:"+hexOrDash(mine))
		good = append(good, i)
		if fmtc != "j" && i%2 == 0 {
			// a poison item follows: [1,"x"] / {"a":1,"b":"x"}, read below into []int64 / map[string]int64.  That call
			// fails on the item's LAST byte, so the stream is exactly at the next item while the failed call
			// was still inside a container
			if i%4 == 0 {
				stream.Write([]byte{0x82, 0x01, 0x61, 0x78})
			} else {
				stream.Write([]byte{0xa2, 0x61, 0x61, 0x01, 0x61, 0x62, 0x61, 0x78})
			}
			good = append(good, -1-i)
		}
		if fmtc == "j" && i%2 == 0 {
			// JSON poison items: each fails inside the number, string or literal scanner on its last byte
			// (the byte is consumed), leaving the stream at the separator before the next item
			stream.WriteString(jsonPoison[(i/2)%len(jsonPoison)] + " ")
			good = append(good, -1-i)
		}
	}
	// (2) long-lived unmarshaller over the whole stream
	u := refmt.NewUnmarshallerAtlased(do, bytes.NewReader(stream.Bytes()), atl)
	for _, i := range good {
		if i < 0 { // poison item: the call must fail, and must not disturb the calls after it
			var e error
			var p bool
			if fmtc == "j" {
				var bad interface{}
				e, p = safely(func() error { return u.Unmarshal(&bad) })
			} else if (-1-i)%4 == 0 {
				var bad []int64
				e, p = safely(func() error { return u.Unmarshal(&bad) })
			} else {
				var bad map[string]int64
				e, p = safely(func() error { return u.Unmarshal(&bad) })
			}
			if p {
				return "panic"
			}
			if e == nil {
				same = false
			}
			continue
		}
		it := its[i]
		// a call that fails before anything is read: the target is not a pointer (every third item)
		if i%3 == 2 && it.v.Kind() != reflect.Ptr {
			if e, p := safely(func() error { return u.Unmarshal(it.v.Interface()) }); p || e == nil {
				same = false
			}
		}
		target := reflect.New(it.t.rt)
		e, p := safely(func() error { return u.Unmarshal(target.Interface()) })
		if p {
			return "panic"
		}
		if e != nil {
			outs = append(outs, "uerr")
			same = false // every item of the stream was produced by a successful marshal of this very type
			continue
		}
		outs = append(outs, "u:"+printValue(it.t, target.Elem()))
		if !approxEqual(it.t, it.v, target.Elem(), ad, fmtc == "j") {
			same = false
		}
	}
	// one more call: the stream is exhausted -> an error, not a stale value
	{
		var x interface{}
		e, p := safely(func() error { return u.Unmarshal(&x) })
		if p {
			return "panic"
		}
		if e == nil {
			same = false
			outs = append(outs, "u-extra-ok")
		}
	}
	// (3) long-lived cloner, with failing calls in between (clone into a bool)
	cl := refmt.NewCloner(atl)
	for _, it := range its {
		// failing calls in between: into a bool (fails on the first token), and into containers of
		// bools / an empty struct (fail in the middle of the source's map, slice or struct)
		var wrong bool
		safely(func() error { return cl.Clone(it.v.Interface(), wrong) }) // not a pointer: fails before anything is marshalled
		safely(func() error { return cl.Clone(it.v.Interface(), &wrong) })
		var wrongM map[string]bool
		safely(func() error { return cl.Clone(it.v.Interface(), &wrongM) })
		var wrongS []bool
		safely(func() error { return cl.Clone(it.v.Interface(), &wrongS) })
		var wrongMM map[string]map[string]bool
		safely(func() error { return cl.Clone(it.v.Interface(), &wrongMM) })
		safely(func() error { return cl.Clone(it.v.Interface(), reflect.New(emptyT).Interface()) })
		safely(func() error { return cl.Clone(it.v.Interface(), reflect.New(reflect.SliceOf(emptyT)).Interface()) })
		safely(func() error { return cl.Clone(it.v.Interface(), reflect.New(reflect.MapOf(reflect.TypeOf(""), emptyT)).Interface()) })
		dst := reflect.New(it.t.rt)
		e, p := safely(func() error { return cl.Clone(it.v.Interface(), dst.Interface()) })
		fdst := reflect.New(it.t.rt)
		fe, fp := safely(func() error { return refmt.CloneAtlased(it.v.Interface(), fdst.Interface(), atl) })
		if p || fp {
			return "panic"
		}
		if (e == nil) != (fe == nil) {
			same = false
		}
		if e != nil {
			outs = append(outs, "cerr")
			continue
		}
		if printValue(it.t, dst.Elem()) != printValue(it.t, fdst.Elem()) {
			same = false
		}
		outs = append(outs, "c:"+printValue(it.t, dst.Elem()))
	}
	return strings.Join(outs, " ;; ") + fmt.Sprintf(" | same=%d", b2i(same))
}

// faultOnceWriter fails exactly one Write / WriteString call (the failAt-th, counted from 0) and works otherwise
type faultOnceWriter struct {
	buf    *bytes.Buffer
	calls  int
	failAt int
	short  bool
}

func (w *faultOnceWriter) Write(p []byte) (int, error) {
	w.calls++
	if w.calls-1 == w.failAt {
		if w.short && len(p) > 0 {
			return len(p) - 1, nil
		}
		return 0, fmt.Errorf("write fault")
	}
	return w.buf.Write(p)
}

func (w *faultOnceWriter) WriteString(s string) (int, error) { return w.Write([]byte(s)) }

var jsonPoison = []string{"-x", "\"ab\\q", "1.}", "\"\x01", "1e+", "\"\\u12G", "-", "tru", "\"\\q"}

func genHistory(g *G, tier string, emit func(string)) {
	n := 8000
	if tier == "thorough" {
		n = 200000
	}
	for i := 0; i < n; i++ {
		isJSON := i%2 == 1
		o := optsFull
		o.bad = g.chance(0.15)
		o.tags = !isJSON
		if isJSON {
			o = optsJSON
			o.bad = g.chance(0.15)
		}
		c := newObjCase()
		c.atl.mode = g.intn(3)
		k := 2 + g.intn(5)
		var its []string
		for j := 0; j < k; j++ {
			t := g.genType(c, o, 0)
			if t.k == "a" || t.k == "if" {
				t = &TD{k: "pt", elem: t, rt: reflect.PtrTo(t.rt)}
			}
			v := g.genValue(c, t, o, 0)
			if !untypedSlotsOK(v, c.atl, false, !isJSON) {
				continue
			}
			if isJSON {
				hasF := false
				var walk func(v reflect.Value)
				walk = func(v reflect.Value) {
					switch v.Kind() {
					case reflect.Float32, reflect.Float64:
						hasF = true
					case reflect.Slice, reflect.Array:
						for i := 0; i < v.Len(); i++ {
							walk(v.Index(i))
						}
					case reflect.Map:
						for _, k := range v.MapKeys() {
							walk(v.MapIndex(k))
						}
					case reflect.Ptr, reflect.Interface:
						if !v.IsNil() {
							walk(v.Elem())
						}
					case reflect.Struct:
						for i := 0; i < v.NumField(); i++ {
							walk(v.Field(i))
						}
					}
				}
				walk(v)
				if hasF {
					continue // keep the JSON histories free of the float oracle
				}
			}
			its = append(its, "(it "+t.String()+" "+printValue(t, v)+")")
		}
		if len(its) == 0 {
			continue
		}
		f := "c"
		if isJSON {
			f = "j"
		}
		emit(f + " ; " + c.env.String() + " " + c.atl.String() + " ; " + strings.Join(its, " "))
	}
}

var _ = atlas.KeySortMode_Default

func init() {
	register(&suite{name: "remarshal", gen: genRemarshal, run: runRemarshal})
	register(&suite{name: "clone", gen: genClone, run: runClone})
	register(&suite{name: "cbor-tags", gen: genCborTags, run: runCborTags})
	register(&suite{name: "history", gen: genHistory, run: runHistory})
}
