package main

// Token text syntax shared with /verif/modelrun/driver.ml:
//   [#<tag>]{<len>  }  [<len>  ]  n  s<hex>  x<hex>  bt bf  i<dec>  u<dec>  f<hex16>

import (
	"encoding/hex"
	"fmt"
	"math"
	"strconv"
	"strings"

	"github.com/polydawn/refmt/tok"
)

func printToken(t tok.Token) string {
	var sb strings.Builder
	if t.Tagged {
		sb.WriteString("#" + strconv.Itoa(t.Tag))
	}
	switch t.Type {
	case tok.TMapOpen:
		sb.WriteString("{" + strconv.Itoa(t.Length))
	case tok.TMapClose:
		sb.WriteString("}")
	case tok.TArrOpen:
		sb.WriteString("[" + strconv.Itoa(t.Length))
	case tok.TArrClose:
		sb.WriteString("]")
	case tok.TNull:
		sb.WriteString("n")
	case tok.TString:
		sb.WriteString("s" + hex.EncodeToString([]byte(t.Str)))
	case tok.TBytes:
		sb.WriteString("x" + hex.EncodeToString(t.Bytes))
	case tok.TBool:
		if t.Bool {
			sb.WriteString("bt")
		} else {
			sb.WriteString("bf")
		}
	case tok.TInt:
		sb.WriteString("i" + strconv.FormatInt(t.Int, 10))
	case tok.TUint:
		sb.WriteString("u" + strconv.FormatUint(t.Uint, 10))
	case tok.TFloat64:
		sb.WriteString(fmt.Sprintf("f%016x", math.Float64bits(t.Float64)))
	default:
		sb.WriteString("?")
	}
	return sb.String()
}

// Close tokens carry no meaningful tag: the projection drops it (the CBOR
// decoder leaves a stale Tagged flag on close tokens it fills into a reused slot).
func printTokenProjected(t tok.Token) string {
	if t.Type == tok.TMapClose || t.Type == tok.TArrClose {
		t.Tagged = false
	}
	return printToken(t)
}

func printTokens(ts []tok.Token) string {
	ss := make([]string, len(ts))
	for i, t := range ts {
		ss[i] = printToken(t)
	}
	return strings.Join(ss, " ")
}

func parseToken(w string) (tok.Token, error) {
	var t tok.Token
	if strings.HasPrefix(w, "#") {
		i := 1
		if i < len(w) && w[i] == '-' {
			i++
		}
		for i < len(w) && w[i] >= '0' && w[i] <= '9' {
			i++
		}
		n, err := strconv.Atoi(w[1:i])
		if err != nil {
			return t, err
		}
		t.Tagged = true
		t.Tag = n
		w = w[i:]
	}
	if len(w) == 0 {
		return t, fmt.Errorf("empty token")
	}
	rest := w[1:]
	var err error
	switch w[0] {
	case '{':
		t.Type = tok.TMapOpen
		t.Length, err = strconv.Atoi(rest)
	case '}':
		t.Type = tok.TMapClose
	case '[':
		t.Type = tok.TArrOpen
		t.Length, err = strconv.Atoi(rest)
	case ']':
		t.Type = tok.TArrClose
	case 'n':
		t.Type = tok.TNull
	case 's':
		t.Type = tok.TString
		var b []byte
		b, err = hex.DecodeString(rest)
		t.Str = string(b)
	case 'x':
		t.Type = tok.TBytes
		t.Bytes, err = hex.DecodeString(rest)
		if t.Bytes == nil {
			t.Bytes = []byte{}
		}
	case 'b':
		t.Type = tok.TBool
		t.Bool = rest == "t"
	case 'i':
		t.Type = tok.TInt
		t.Int, err = strconv.ParseInt(rest, 10, 64)
	case 'u':
		t.Type = tok.TUint
		t.Uint, err = strconv.ParseUint(rest, 10, 64)
	case 'f':
		t.Type = tok.TFloat64
		var u uint64
		u, err = strconv.ParseUint(rest, 16, 64)
		t.Float64 = math.Float64frombits(u)
	default:
		err = fmt.Errorf("bad token %q", w)
	}
	return t, err
}

func parseTokens(s string) ([]tok.Token, error) {
	fs := strings.Fields(s)
	out := make([]tok.Token, 0, len(fs))
	for _, f := range fs {
		t, err := parseToken(f)
		if err != nil {
			return nil, err
		}
		out = append(out, t)
	}
	return out, nil
}
