package main

// Harness: generates cases for a suite and runs the real refmt code on them.
//   harness -suite S -seed N -tier quick|thorough -cases FILE -impl FILE
//   harness -suite S -replay PAYLOAD        (prints the implementation's result)
// Every random choice derives from one PRNG seeded with -seed; ids are the
// case's index in generation order, so (suite, seed, tier, id) replays exactly.

import (
	"bufio"
	"flag"
	"fmt"
	"os"
	"sort"
	"time"
)

type suite struct {
	name string
	// gen emits payloads; stats may be updated with distribution counters.
	gen func(g *G, tier string, emit func(payload string))
	// run executes the implementation on one payload and returns the result text.
	run func(payload string) string
}

var suites = map[string]*suite{}

func register(s *suite) { suites[s.name] = s }

func main() {
	sname := flag.String("suite", "", "suite name")
	seed := flag.Int64("seed", 1, "PRNG seed")
	tier := flag.String("tier", "quick", "quick|thorough")
	casesPath := flag.String("cases", "", "output: case lines")
	implPath := flag.String("impl", "", "output: implementation result lines")
	statsPath := flag.String("stats", "", "output: generator statistics (json-ish lines)")
	replay := flag.String("replay", "", "run one payload and print the result")
	inPath := flag.String("in", "", "run the payloads of an existing case file instead of generating")
	list := flag.Bool("list", false, "list suites")
	flag.Parse()
	if *list {
		var ns []string
		for n := range suites {
			ns = append(ns, n)
		}
		sort.Strings(ns)
		for _, n := range ns {
			fmt.Println(n)
		}
		return
	}
	s, ok := suites[*sname]
	if !ok {
		fmt.Fprintf(os.Stderr, "unknown suite %q\n", *sname)
		os.Exit(2)
	}
	if *replay != "" {
		fmt.Println(runWatched(s, *replay))
		return
	}
	cf := mustCreate(*casesPath)
	defer cf.Close()
	imf := mustCreate(*implPath)
	defer imf.Close()
	cw := bufio.NewWriterSize(cf, 1<<20)
	iw := bufio.NewWriterSize(imf, 1<<20)
	defer cw.Flush()
	defer iw.Flush()
	id := 0
	syncOut := os.Getenv("VERIF_SYNC") != ""
	emit := func(payload string) {
		fmt.Fprintf(cw, "%s\t%d\t%s\n", s.name, id, payload)
		if syncOut { // the case is on disk before it runs: a run killed by the race detector names its case
			cw.Flush()
		}
		fmt.Fprintf(iw, "%d\t%s\n", id, runWatched(s, payload))
		if syncOut {
			iw.Flush()
		}
		id++
	}
	g := newG(*seed)
	if *inPath != "" {
		f, err := os.Open(*inPath)
		if err != nil {
			panic(err)
		}
		sc := bufio.NewScanner(f)
		sc.Buffer(make([]byte, 1<<20), 1<<28)
		for sc.Scan() {
			emit(sc.Text())
		}
	} else {
		s.gen(g, *tier, emit)
	}
	if *statsPath != "" {
		sf := mustCreate(*statsPath)
		defer sf.Close()
		g.writeStats(sf)
	}
}

// runWatched runs one case under a watchdog: code under test that never returns is reported as
// "hang" (the worker goroutine is abandoned and replaced; after a few of them the remaining cases
// are not started).  One long-lived worker and one timer serve all cases.
var (
	hangs     int
	wdReq     chan string
	wdRes     chan string
	wdTimer   *time.Timer
	wdLimit   time.Duration
	wdForSuit *suite
)

func wdStart(s *suite) {
	req, res := make(chan string), make(chan string, 1)
	wdReq, wdRes, wdForSuit = req, res, s
	go func() {
		for p := range req {
			res <- s.run(p)
		}
	}()
}

func runWatched(s *suite, payload string) string {
	if hangs >= 3 {
		return "not-run (earlier cases hang)"
	}
	if wdTimer == nil {
		wdLimit = 60 * time.Second
		if v := os.Getenv("VERIF_CASE_TIMEOUT"); v != "" {
			if d, err := time.ParseDuration(v); err == nil {
				wdLimit = d
			}
		}
		wdTimer = time.NewTimer(wdLimit)
		if !wdTimer.Stop() {
			<-wdTimer.C
		}
	}
	if wdForSuit != s {
		wdStart(s)
	}
	wdReq <- payload
	wdTimer.Reset(wdLimit)
	select {
	case r := <-wdRes:
		if !wdTimer.Stop() {
			<-wdTimer.C
		}
		return r
	case <-wdTimer.C:
		hangs++
		wdStart(s) // the stuck worker is abandoned
		return "hang"
	}
}

func mustCreate(p string) *os.File {
	if p == "" {
		f, err := os.OpenFile(os.DevNull, os.O_WRONLY, 0)
		if err != nil {
			panic(err)
		}
		return f
	}
	f, err := os.Create(p)
	if err != nil {
		panic(err)
	}
	return f
}
