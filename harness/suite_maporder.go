package main

import (
	"bytes"
	"fmt"
	"reflect"
	"strings"

	"github.com/polydawn/refmt"
)

// maporder (C08): "<c|j> <line> <indent> <oracle> ; <env> <atlas> <type> <value>"
// Marshal the value repeatedly, and again after rebuilding every map in it by different
// insertion orders; all outputs must be byte-identical (and equal to the model's).

// rebuild deep-copies v, inserting map entries in the order given by perm seeds drawn from g.
func rebuild(g *G, v reflect.Value) reflect.Value {
	out := reflect.New(v.Type()).Elem()
	switch v.Kind() {
	case reflect.Map:
		if v.IsNil() {
			return out
		}
		keys := v.MapKeys()
		m := reflect.MakeMapWithSize(v.Type(), g.intn(8))
		for _, i := range g.r.Perm(len(keys)) {
			m.SetMapIndex(keys[i], rebuild(g, v.MapIndex(keys[i])))
		}
		// churn: insert and delete an extra key to disturb the bucket layout
		if v.Type().Key().Kind() == reflect.String && g.chance(0.5) {
			extra := reflect.New(v.Type().Key()).Elem()
			extra.SetString("\x00churn")
			if !m.MapIndex(extra).IsValid() {
				m.SetMapIndex(extra, reflect.Zero(v.Type().Elem()))
				m.SetMapIndex(extra, reflect.Value{})
			}
		}
		out.Set(m)
	case reflect.Slice:
		if v.IsNil() {
			return out
		}
		s := reflect.MakeSlice(v.Type(), v.Len(), v.Len())
		for i := 0; i < v.Len(); i++ {
			s.Index(i).Set(rebuild(g, v.Index(i)))
		}
		out.Set(s)
	case reflect.Array:
		for i := 0; i < v.Len(); i++ {
			out.Index(i).Set(rebuild(g, v.Index(i)))
		}
	case reflect.Ptr:
		if v.IsNil() {
			return out
		}
		p := reflect.New(v.Type().Elem())
		p.Elem().Set(rebuild(g, v.Elem()))
		out.Set(p)
	case reflect.Interface:
		if v.IsNil() {
			return out
		}
		out.Set(rebuild(g, v.Elem()))
	case reflect.Struct:
		for i := 0; i < v.NumField(); i++ {
			out.Field(i).Set(rebuild(g, v.Field(i)))
		}
	default:
		out.Set(v)
	}
	return out
}

func runMapOrder(payload string) string {
	fmtc, line, indent, rest := splitRT(payload)
	env, ad, t, vx, err := parseObjHeader(rest)
	if err != nil || len(vx) < 1 {
		return fmt.Sprintf("harness-error %v", err)
	}
	atl, err := ad.build()
	if err != nil {
		return "harness-error atlas: " + err.Error()
	}
	// another atlas over the same Go types with every sort mode changed is built afterwards (and dropped): an
	// atlas is immutable once built, whatever other atlases the program builds later
	{
		adB := &atlasD{mode: (ad.mode + 1) % 3}
		for _, e := range ad.entries {
			eb := *e
			if e.kind == "mm" {
				eb.mode = (e.mode + 1) % 3
			}
			adB.entries = append(adB.entries, &eb)
		}
		adB.build()
	}
	v, err := env.valueOfSx(t, vx[0])
	if err != nil {
		return "harness-error value: " + err.Error()
	}
	eo := encOpts(fmtc, line, indent)
	var first []byte
	stable := true
	g := newG(int64(len(payload))*7919 + 17)
	res := "ok"
	for round := 0; round < 12; round++ {
		cur := v
		if round >= 3 {
			cur = rebuild(g, v)
		}
		var bs []byte
		e, p := safely(func() error {
			var err error
			bs, err = refmt.MarshalAtlased(eo, cur.Interface(), atl)
			return err
		})
		if p {
			return "panic"
		}
		if e != nil {
			res = "merr"
			break
		}
		if round == 0 {
			first = bs
		} else if !bytes.Equal(first, bs) {
			stable = false
		}
	}
	if res != "ok" {
		return res
	}
	return fmt.Sprintf("ok %s stable=%d", hexOrDash(first), b2i(stable))
}

func genMapOrder(g *G, tier string, emit func(string)) {
	n := 10000
	if tier == "thorough" {
		n = 200000
	}
	// fixed key sets: prefixes of each other, equal lengths, multi-byte UTF-8, empty key
	keysets := [][]string{{"a", "aa", "aaa", "b"}, {"b", "a", "ab", "ba"}, {"é", "e", "f", "zz"}, {"", "a", "\x00", "B"}, {"k10", "k9", "k1", "k"}, {"aaa", "ab", "b", "", "ba", "aab"}}
	for _, ks := range keysets {
		var ents []string
		for i, k := range ks {
			ents = append(ents, fmt.Sprintf("((s %s) (n %d))", hexOrDashS(k), i))
		}
		val := "(mp " + strings.Join(ents, " ") + ")"
		for mode := 0; mode < 3; mode++ {
			for _, f := range []string{"c ~ ~ -", "j ~ ~ -", "j 0a 09 -"} {
				emit(fmt.Sprintf("%s ; (env) (atlas %d) (mp s i) %s", f, mode, val))
				emit(fmt.Sprintf("%s ; (env) (atlas 0 (e (mp s i) - (mm %d))) (mp s i) %s", f, mode, val))
				emit(fmt.Sprintf("%s ; (env) (atlas %d) (sl (mp s i)) (sl %s %s)", f, mode, val, val))
			}
		}
	}
	// several map types side by side in one struct (sibling fields are served by one slab row): each field's
	// map type has its own morphism entry, or none (then the atlas default applies), in every combination
	{
		mts := []string{"(mp s i)", "(mp s i64)", "(mp s u8)"}
		mk := func(ks []string) string {
			var ents []string
			for i, k := range ks {
				ents = append(ents, fmt.Sprintf("((s %s) (n %d))", hexOrDashS(k), i))
			}
			return "(mp " + strings.Join(ents, " ") + ")"
		}
		vals := []string{mk([]string{"bb", "a", "aaa", "c"}), mk([]string{"zz", "y", "xxx", "é"}), mk([]string{"k10", "k9", "k", "kk"})}
		for combo := 0; combo < 64; combo++ { // per field: 0 = no entry, 1..3 = morphism with mode 0..2
			for amode := 0; amode < 3; amode++ {
				ents := ""
				for fi := 0; fi < 3; fi++ {
					if m := (combo >> (2 * uint(fi))) & 3; m > 0 {
						ents += fmt.Sprintf(" (e %s - (mm %d))", mts[fi], m-1)
					}
				}
				hdr := fmt.Sprintf("(env (100 %s %s %s)) (atlas %d (e (st 100) - (smap (fld 61 (0) %s 0 0) (fld 62 (1) %s 0 0) (fld 63 (2) %s 0 0)))%s)",
					mts[0], mts[1], mts[2], amode, mts[0], mts[1], mts[2], ents)
				val := fmt.Sprintf("(st %s %s %s)", vals[0], vals[1], vals[2])
				f := []string{"c ~ ~ -", "j ~ ~ -"}[combo%2]
				emit(fmt.Sprintf("%s ; %s (st 100) %s", f, hdr, val))
				if combo%8 == 0 {
					emit(fmt.Sprintf("%s ; %s (sl (st 100)) (sl %s %s)", f, hdr, val, val))
				}
			}
		}
	}
	for i := 0; i < n; i++ {
		isJSON := i%2 == 1
		o := optsFull
		o.bad = false
		if isJSON {
			o = optsJSON
		}
		c := newObjCase()
		c.atl.mode = g.intn(3)
		// map-heavy: a map at the top, whatever below
		el := g.genType(c, o, 1)
		kt := &TD{k: "s", rt: primKinds["s"]}
		if !isJSON && g.chance(0.2) {
			kt = c.zooTransform(16, o)
		}
		t := &TD{k: "mp", key: kt, elem: el, rt: reflect.MapOf(kt.rt, el.rt)}
		if g.chance(0.4) && !c.hasEntry(t) {
			c.atl.entries = append(c.atl.entries, &AD{t: t, kind: "mm", mode: g.intn(3)})
		}
		v := g.genValue(c, t, o, 0)
		if v.IsNil() || !untypedSlotsOK(v, c.atl, false, !isJSON) {
			continue
		}
		atl, err := c.atl.build()
		if err != nil {
			continue
		}
		head := "c ~ ~ -"
		if isJSON {
			_, toks := marshalTokens(atl, v.Interface(), 20*valueSize(v)+50)
			head = "j ~ ~ " + floatOracleFor(toks)
		}
		emit(head + " ; " + c.header(t) + " " + printValue(t, v))
	}
}

func init() {
	register(&suite{name: "maporder", gen: genMapOrder, run: runMapOrder})
}
