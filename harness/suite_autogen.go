//go:build verif && autogen

package main

// autogen suite (C19): struct type families generated as Go source
// (lib/autogen_gen.py), compiled into this binary, described back through
// reflect, and run through atlas.AutogenerateStructMapEntryUsingTags in all
// three sort modes, then marshalled and round-tripped through the mapping.
//
// payload:  <family id>:<family spec, hex json> | <root struct id> | <senv> | <env> | <variant seeds> | <values>
// result:   m0=<fields>;m1=..;m2=..;v0=<class> <n> | <tokens> # rt=<verdict>;v1=...

import (
	"encoding/hex"
	"fmt"
	"math/rand"
	"reflect"
	"strconv"
	"strings"
	"unsafe"

	"github.com/polydawn/refmt"
	"github.com/polydawn/refmt/cbor"
	"github.com/polydawn/refmt/json"
	"github.com/polydawn/refmt/obj/atlas"
)

type agFamily struct {
	id    string
	spec  string
	all   []reflect.Type // struct types, root first
	named []reflect.Type
	tds   map[reflect.Type]*TD
}

var agFamilies []*agFamily

func agFind(id string) *agFamily {
	for _, f := range agFamilies {
		if f.id == id {
			return f
		}
	}
	return nil
}

func (f *agFamily) td(rt reflect.Type) *TD {
	if f.tds == nil {
		f.tds = map[reflect.Type]*TD{}
	}
	if t, ok := f.tds[rt]; ok {
		return t
	}
	for i, n := range f.named {
		if n == rt {
			t := &TD{k: "nm", n: 2000 + i, rt: rt}
			f.tds[rt] = t
			t.elem = f.kindTD(rt)
			return t
		}
	}
	switch rt.Kind() {
	case reflect.Struct:
		for i, s := range f.all {
			if s == rt {
				t := &TD{k: "st", n: 1000 + i, rt: rt}
				f.tds[rt] = t
				for j := 0; j < rt.NumField(); j++ {
					t.field = append(t.field, f.td(rt.Field(j).Type))
					t.names = append(t.names, rt.Field(j).Name)
				}
				return t
			}
		}
		panic("struct type outside the family: " + rt.String())
	case reflect.Ptr:
		t := &TD{k: "pt", rt: rt}
		f.tds[rt] = t
		t.elem = f.td(rt.Elem())
		return t
	case reflect.Slice:
		t := &TD{k: "sl", rt: rt}
		f.tds[rt] = t
		t.elem = f.td(rt.Elem())
		return t
	}
	t := f.kindTD(rt)
	f.tds[rt] = t
	return t
}

func (f *agFamily) kindTD(rt reflect.Type) *TD {
	switch rt.Kind() {
	case reflect.Int64:
		return &TD{k: "i64", rt: primKinds["i64"]}
	case reflect.String:
		return &TD{k: "s", rt: primKinds["s"]}
	case reflect.Bool:
		return &TD{k: "b", rt: primKinds["b"]}
	}
	panic("unsupported field kind " + rt.String())
}

func (f *agFamily) senv() (string, string) {
	var sb, eb strings.Builder
	sb.WriteString("(senv")
	eb.WriteString("(env")
	for i, rt := range f.all {
		sb.WriteString(fmt.Sprintf(" (%d", 1000+i))
		eb.WriteString(fmt.Sprintf(" (%d", 1000+i))
		for j := 0; j < rt.NumField(); j++ {
			sf := rt.Field(j)
			sb.WriteString(fmt.Sprintf(" (f %s %d %d %s %s)", hexOrDashS(sf.Name), b2i(sf.PkgPath == ""), b2i(sf.Anonymous),
				hexOrDashS(sf.Tag.Get("refmt")), f.td(sf.Type).String()))
			eb.WriteString(" " + f.td(sf.Type).String())
		}
		sb.WriteString(")")
		eb.WriteString(")")
	}
	sb.WriteString(")")
	eb.WriteString(")")
	return sb.String(), eb.String()
}

// settable returns a settable view of a struct field of an addressable struct, exported or not.
func settable(fv reflect.Value) reflect.Value {
	if fv.CanSet() {
		return fv
	}
	return reflect.NewAt(fv.Type(), unsafe.Pointer(fv.UnsafeAddr())).Elem()
}

func agFill(v reflect.Value, r *rand.Rand, variant int, depth int) {
	switch v.Kind() {
	case reflect.Struct:
		for i := 0; i < v.NumField(); i++ {
			agFill(settable(v.Field(i)), r, variant, depth)
		}
	case reflect.Ptr:
		alloc := variant == 1 || (variant >= 2 && r.Intn(2) == 0)
		if variant == 0 || depth >= 4 || !alloc {
			return
		}
		p := reflect.New(v.Type().Elem())
		agFill(p.Elem(), r, variant, depth+1)
		v.Set(p)
	case reflect.Int64:
		if variant == 1 || (variant >= 2 && r.Intn(10) < 7) {
			v.SetInt(int64(1 + r.Intn(99)))
		}
	case reflect.String:
		if variant == 1 || (variant >= 2 && r.Intn(10) < 7) {
			v.SetString("s" + strconv.Itoa(r.Intn(10)))
		}
	case reflect.Bool:
		if variant == 1 || (variant >= 2 && r.Intn(2) == 0) {
			v.SetBool(true)
		}
	case reflect.Slice:
		switch {
		case variant == 0:
		case variant == 1 || r.Intn(3) == 0:
			s := reflect.MakeSlice(v.Type(), 2, 2)
			s.Index(0).SetString("a")
			s.Index(1).SetString("")
			v.Set(s)
		case r.Intn(2) == 0:
			v.Set(reflect.MakeSlice(v.Type(), 0, 0))
		}
	}
}

func (f *agFamily) value(seed int64) reflect.Value {
	v := reflect.New(f.all[0]).Elem()
	variant := int(seed % 4)
	agFill(v, rand.New(rand.NewSource(seed)), variant, 0)
	return v
}

func agAutogen(rt reflect.Type, mode int) (e *atlas.AtlasEntry, panicked bool) {
	defer func() {
		if r := recover(); r != nil {
			panicked = true
		}
	}()
	return atlas.AutogenerateStructMapEntryUsingTags(rt, "refmt", sortModes[mode]), false
}

func (f *agFamily) printFields(e *atlas.AtlasEntry) string {
	var parts []string
	for _, fe := range e.StructMap.Fields {
		rs := make([]string, len(fe.ReflectRoute))
		for i, r := range fe.ReflectRoute {
			rs[i] = strconv.Itoa(r)
		}
		parts = append(parts, fmt.Sprintf("(fld %s (%s) %s %d %d)", hexOrDashS(fe.SerialName), strings.Join(rs, " "), f.td(fe.Type).String(), b2i(fe.OmitEmpty), b2i(fe.Ignore)))
	}
	return strings.Join(parts, " ")
}

func agEmpty(v reflect.Value) bool {
	switch v.Kind() {
	case reflect.Slice, reflect.String:
		return v.Len() == 0
	case reflect.Bool:
		return !v.Bool()
	case reflect.Int64:
		return v.Int() == 0
	case reflect.Ptr:
		return v.IsNil()
	case reflect.Struct:
		for i := 0; i < v.NumField(); i++ {
			if !agEmpty(v.Field(i)) {
				return false
			}
		}
		return true
	}
	return false
}

// agEqual: a is the original, b what came back; structs are compared field-wise through their mapping.
func agEqual(a, b reflect.Value, depth int) string {
	if depth > 12 {
		return ""
	}
	switch a.Kind() {
	case reflect.Struct:
		e, p := agAutogen(a.Type(), 0)
		if p {
			return "autogen-panic"
		}
		for _, fe := range e.StructMap.Fields {
			av, bv := fe.ReflectRoute.TraverseToValue(a), fe.ReflectRoute.TraverseToValue(b)
			switch {
			case !av.IsValid():
				if bv.IsValid() && !agEmpty(bv) {
					return "appeared:" + fe.SerialName
				}
			case fe.OmitEmpty && agEmpty(av):
				if bv.IsValid() && !agEmpty(bv) {
					return "omitted-nonempty:" + fe.SerialName
				}
			default:
				if !bv.IsValid() {
					return "lost:" + fe.SerialName
				}
				if d := agEqual(av, bv, depth+1); d != "" {
					return fe.SerialName + "/" + d
				}
			}
		}
		return ""
	case reflect.Ptr:
		if a.IsNil() || serializesAsNull(a) {
			if !b.IsNil() {
				return "ptr-not-nil"
			}
			return ""
		}
		if b.IsNil() {
			return "ptr-nil"
		}
		return agEqual(a.Elem(), b.Elem(), depth+1)
	case reflect.Slice:
		if a.IsNil() != b.IsNil() || a.Len() != b.Len() {
			return "slice-shape"
		}
		for i := 0; i < a.Len(); i++ {
			if d := agEqual(a.Index(i), b.Index(i), depth+1); d != "" {
				return d
			}
		}
		return ""
	case reflect.Int64:
		if a.Int() != b.Int() {
			return "int"
		}
	case reflect.String:
		if a.String() != b.String() {
			return "string"
		}
	case reflect.Bool:
		if a.Bool() != b.Bool() {
			return "bool"
		}
	}
	return ""
}

// hasUnexportedEmbeddedPtr: some struct of the family embeds a pointer to an unexported struct type
// (reflect cannot allocate it: unmarshalling into a fresh value cannot reach the fields behind it).
func (f *agFamily) hasUnexportedEmbeddedPtr() bool {
	for _, rt := range f.all {
		for j := 0; j < rt.NumField(); j++ {
			sf := rt.Field(j)
			if sf.Anonymous && sf.PkgPath != "" && sf.Type.Kind() == reflect.Ptr {
				return true
			}
		}
	}
	return false
}

func (f *agFamily) roundtrip(atl atlas.Atlas, v reflect.Value, isJSON bool) string {
	var bs []byte
	var err error
	target := reflect.New(f.all[0])
	e, p := safely(func() error {
		if isJSON {
			bs, err = refmt.MarshalAtlased(json.EncodeOptions{}, v.Interface(), atl)
		} else {
			bs, err = refmt.MarshalAtlased(cbor.EncodeOptions{}, v.Interface(), atl)
		}
		return err
	})
	if p {
		return "marshal-panic"
	}
	if e != nil {
		return "marshal-err"
	}
	e, p = safely(func() error {
		if isJSON {
			return refmt.UnmarshalAtlased(json.DecodeOptions{}, bs, target.Interface(), atl)
		}
		return refmt.UnmarshalAtlased(cbor.DecodeOptions{}, bs, target.Interface(), atl)
	})
	if p {
		return "unmarshal-panic"
	}
	if e != nil {
		if strings.Contains(e.Error(), "cannot be allocated") && f.hasUnexportedEmbeddedPtr() {
			return "ok-unsettable"
		}
		return "unmarshal-err"
	}
	if d := agEqual(v, target.Elem(), 0); d != "" {
		return "diff:" + hex.EncodeToString([]byte(d))
	}
	return "ok"
}

func init() {
	register(&suite{
		name: "autogen",
		gen: func(g *G, tier string, emit func(string)) {
			for _, f := range agFamilies {
				senv, env := f.senv()
				nv := 4
				var seeds, vals []string
				for k := 0; k < nv; k++ {
					seed := int64(g.intn(1<<20))*4 + int64(k)
					seeds = append(seeds, strconv.FormatInt(seed, 10))
					vals = append(vals, printValue(f.td(f.all[0]), f.value(seed)))
				}
				g.count(fmt.Sprintf("structs=%d", len(f.all)))
				emit(fmt.Sprintf("%s:%s|1000|%s|%s|%s|%s", f.id, f.spec, senv, env, strings.Join(seeds, " "), strings.Join(vals, " ")))
			}
		},
		run: func(payload string) string {
			parts := strings.SplitN(payload, "|", 6)
			if len(parts) != 6 {
				return "bad-payload"
			}
			f := agFind(strings.SplitN(parts[0], ":", 2)[0])
			if f == nil {
				return "not-compiled"
			}
			var out []string
			// all three entries are generated first and printed afterwards: generating one mapping of a type
			// must not disturb another one of the same type (entries are per atlas)
			var es [3]*atlas.AtlasEntry
			var ps [3]bool
			for mode := 0; mode < 3; mode++ {
				es[mode], ps[mode] = agAutogen(f.all[0], mode)
			}
			for mode := 0; mode < 3; mode++ {
				if ps[mode] {
					out = append(out, fmt.Sprintf("m%d=panic", mode))
				} else {
					out = append(out, fmt.Sprintf("m%d=%s", mode, f.printFields(es[mode])))
				}
			}
			var ents []*atlas.AtlasEntry
			for _, rt := range f.all {
				e, p := agAutogen(rt, 0)
				if p {
					return strings.Join(append(out, "atlas=autogen-panic"), ";")
				}
				ents = append(ents, e)
			}
			atl, err := atlas.Build(ents...)
			if err != nil {
				return strings.Join(append(out, "atlas=build-err"), ";")
			}
			for k, s := range strings.Fields(parts[4]) {
				seed, _ := strconv.ParseInt(s, 10, 64)
				v := f.value(seed)
				class, toks := marshalTokens(atl, v.Interface(), 100000)
				rtc := f.roundtrip(atl, f.value(seed), false)
				rtj := f.roundtrip(atl, f.value(seed), true)
				out = append(out, fmt.Sprintf("v%d=%s %d | %s # %s %s", k, class, len(toks), projTokens(toks), rtc, rtj))
			}
			return strings.Join(out, ";")
		},
	})
}
