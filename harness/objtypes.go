package main

// Type / value / atlas descriptors for the object-layer suites.  The same text
// syntax is parsed by /verif/modelrun/driver.ml:
//
//  types : b i8 i16 i32 i64 i u8 u16 u32 u64 u up f32 f64 s x a bad
//          (X n) (sl T) (ar n T) (mp K V) (pt T) (st id) (nm id T) (if id)
//  values: (b 0|1) (n <dec>) (f <hex16>) (s <hex|->) (x <hex|-|nil>) (X <hex|->)
//          (sl nil | v...) (ar v...) (mp nil | (k v)...) (pt nil | v) (a nil | T v) (st v...)
//  env   : (env (id T...) ...)
//  atlas : (atlas mode (e T tag|- K)...)   K = (smap (fld name-hex (i...) T omit ignore)...)
//                                              | (tr kind T) | (un (name-hex T)...) | (mm mode)

import (
	"encoding/hex"
	"fmt"
	"math"
	"reflect"
	"sort"
	"strconv"
	"strings"

	"github.com/polydawn/refmt/obj/atlas"
)

// ---------- s-expressions -------------------------------------------------------

type sx struct {
	atom string
	list []*sx
	isL  bool
}

func parseSx(s string) ([]*sx, error) {
	var stack [][]*sx
	cur := []*sx{}
	i := 0
	for i < len(s) {
		c := s[i]
		switch {
		case c == ' ' || c == '\t':
			i++
		case c == '(':
			stack = append(stack, cur)
			cur = []*sx{}
			i++
		case c == ')':
			if len(stack) == 0 {
				return nil, fmt.Errorf("unbalanced )")
			}
			l := &sx{list: cur, isL: true}
			cur = append(stack[len(stack)-1], l)
			stack = stack[:len(stack)-1]
			i++
		default:
			j := i
			for j < len(s) && s[j] != ' ' && s[j] != '(' && s[j] != ')' && s[j] != '\t' {
				j++
			}
			cur = append(cur, &sx{atom: s[i:j]})
			i = j
		}
	}
	if len(stack) != 0 {
		return nil, fmt.Errorf("unbalanced (")
	}
	return cur, nil
}

// ---------- the zoo of compiled named types ------------------------------------

type NInt8 int8
type NU16 uint16
type NStr string
type NBytes []byte
type NArr3 [3]byte
type NF32 float32
type NBool bool

type TrName string
type TrPair struct{ A, B string }
type TrBlob struct{ X, Y uint8 }
type TrList struct{ P, Q int64 }
type TrWrap struct{ V string }
type TrWire struct{ W string }
type TrKey struct{ A, B string }
type TrBag struct {
	K string
	N int64
}
type TrBagWire struct {
	K string
	N int64
}
type TrRaw struct{ B []byte }
type TrAny struct{ V interface{} }
type Octet uint8 // a named byte: []Octet and [n]Octet are routed to the bytes machines by Kind
type TrShape struct{ S Shape } // transform whose serial form is the keyed union
type Disc struct{ V string }   // a union member with a transform entry of its own
type TrPtr struct{ V string }  // transform whose serial form is a pointer (*TrWire)

// real Go embedding, by value and by pointer: the fields of EmbIn and EmbPt are promoted into EmbOut, and a
// hand-built struct map names them by their promoted names (AddField("P", ...))
type EmbIn struct {
	P string
	Q int64
}
type EmbPt struct{ R int64 }
type EmbOut struct {
	EmbIn
	*EmbPt
	K string
}

type Shape interface{ isShape() }
type Circle struct{ R int64 }
type Square struct {
	S string
	N *int
}

func (Circle) isShape() {}
func (Square) isShape() {}
func (Disc) isShape()   {}

type zooType struct {
	id    int
	rt    reflect.Type
	desc  string   // full descriptor
	field []string // struct field descriptors (for env)
}

var zoo = []zooType{
	{1, reflect.TypeOf(NInt8(0)), "(nm 1 i8)", nil},
	{2, reflect.TypeOf(NU16(0)), "(nm 2 u16)", nil},
	{3, reflect.TypeOf(NStr("")), "(nm 3 s)", nil},
	{4, reflect.TypeOf(NBytes(nil)), "(nm 4 x)", nil},
	{5, reflect.TypeOf(NArr3{}), "(nm 5 (X 3))", nil},
	{6, reflect.TypeOf(NF32(0)), "(nm 6 f32)", nil},
	{7, reflect.TypeOf(NBool(false)), "(nm 7 b)", nil},
	{10, reflect.TypeOf(TrName("")), "(nm 10 s)", nil},
	{11, reflect.TypeOf(TrPair{}), "(st 11)", []string{"s", "s"}},
	{12, reflect.TypeOf(TrBlob{}), "(st 12)", []string{"u8", "u8"}},
	{13, reflect.TypeOf(TrList{}), "(st 13)", []string{"i64", "i64"}},
	{14, reflect.TypeOf(TrWrap{}), "(st 14)", []string{"s"}},
	{15, reflect.TypeOf(TrWire{}), "(st 15)", []string{"s"}},
	{16, reflect.TypeOf(TrKey{}), "(st 16)", []string{"s", "s"}},
	{17, reflect.TypeOf(TrBag{}), "(st 17)", []string{"s", "i64"}},
	{18, reflect.TypeOf(TrBagWire{}), "(st 18)", []string{"s", "i64"}},
	{19, reflect.TypeOf(TrRaw{}), "(st 19)", []string{"x"}},
	{22, reflect.TypeOf(TrAny{}), "(st 22)", []string{"a"}},
	{23, reflect.TypeOf(TrShape{}), "(st 23)", []string{"(if 30)"}},
	{24, reflect.TypeOf(Disc{}), "(st 24)", []string{"s"}},
	{25, reflect.TypeOf(TrPtr{}), "(st 25)", []string{"s"}},
	{26, reflect.TypeOf(EmbIn{}), "(st 26)", []string{"s", "i64"}},
	{27, reflect.TypeOf(EmbPt{}), "(st 27)", []string{"i64"}},
	{28, reflect.TypeOf(EmbOut{}), "(st 28)", []string{"(st 26)", "(pt (st 27))", "s"}},
	{20, reflect.TypeOf(Circle{}), "(st 20)", []string{"i64"}},
	{21, reflect.TypeOf(Square{}), "(st 21)", []string{"s", "(pt i)"}},
	{30, reflect.TypeOf((*Shape)(nil)).Elem(), "(if 30)", nil},
}

func octSlice() *TD { return &TD{k: "x", oct: true, rt: reflect.TypeOf([]Octet(nil))} }
func octArray(n int) *TD {
	return &TD{k: "X", n: n, oct: true, rt: reflect.ArrayOf(n, reflect.TypeOf(Octet(0)))}
}

func zooByID(id int) *zooType {
	for i := range zoo {
		if zoo[i].id == id {
			return &zoo[i]
		}
	}
	return nil
}

// ---------- type descriptors -----------------------------------------------------

type TD struct {
	k     string // b i8.. s x a bad X sl ar mp pt st nm if
	oct   bool   // x / X over the named byte type Octet (printed xo / XO; the model reads them as x / X)
	n     int    // X / ar length; st / nm / if id
	elem  *TD    // sl ar pt nm(under) mp(value)
	key   *TD    // mp key
	rt    reflect.Type
	field []*TD    // st: field types (from env)
	names []string // st: Go field names (generated structs)
}

var primKinds = map[string]reflect.Type{
	"b": reflect.TypeOf(false), "i8": reflect.TypeOf(int8(0)), "i16": reflect.TypeOf(int16(0)), "i32": reflect.TypeOf(int32(0)),
	"i64": reflect.TypeOf(int64(0)), "i": reflect.TypeOf(int(0)), "u8": reflect.TypeOf(uint8(0)), "u16": reflect.TypeOf(uint16(0)),
	"u32": reflect.TypeOf(uint32(0)), "u64": reflect.TypeOf(uint64(0)), "u": reflect.TypeOf(uint(0)), "up": reflect.TypeOf(uintptr(0)),
	"f32": reflect.TypeOf(float32(0)), "f64": reflect.TypeOf(float64(0)), "s": reflect.TypeOf(""), "x": reflect.TypeOf([]byte(nil)),
	"a": reflect.TypeOf((*interface{})(nil)).Elem(), "bad": reflect.TypeOf(make(chan int)),
}

func (t *TD) String() string {
	switch t.k {
	case "X":
		if t.oct {
			return fmt.Sprintf("(XO %d)", t.n)
		}
		return fmt.Sprintf("(X %d)", t.n)
	case "x":
		if t.oct {
			return "xo"
		}
	case "sl":
		return "(sl " + t.elem.String() + ")"
	case "ar":
		return fmt.Sprintf("(ar %d %s)", t.n, t.elem.String())
	case "mp":
		return "(mp " + t.key.String() + " " + t.elem.String() + ")"
	case "pt":
		return "(pt " + t.elem.String() + ")"
	case "st":
		return fmt.Sprintf("(st %d)", t.n)
	case "nm":
		return fmt.Sprintf("(nm %d %s)", t.n, t.elem.String())
	case "if":
		return fmt.Sprintf("(if %d)", t.n)
	}
	return t.k
}

// typeEnv holds struct definitions: generated (id >= 100) and zoo structs.
type typeEnv struct {
	structs map[int]*TD
	order   []int
}

func newEnv() *typeEnv { return &typeEnv{structs: map[int]*TD{}} }

func (e *typeEnv) String() string {
	var sb strings.Builder
	sb.WriteString("(env")
	for _, id := range e.order {
		t := e.structs[id]
		sb.WriteString(fmt.Sprintf(" (%d", id))
		for _, f := range t.field {
			sb.WriteString(" " + f.String())
		}
		sb.WriteString(")")
	}
	sb.WriteString(")")
	return sb.String()
}

func (e *typeEnv) addZoo(id int) *TD {
	if t, ok := e.structs[id]; ok {
		return t
	}
	z := zooByID(id)
	t := &TD{k: "st", n: id, rt: z.rt}
	e.structs[id] = t
	e.order = append(e.order, id)
	for i, fd := range z.field {
		ft := e.mustParseType(fd)
		t.field = append(t.field, ft)
		t.names = append(t.names, z.rt.Field(i).Name)
	}
	return t
}

func (e *typeEnv) mustParseType(s string) *TD {
	xs, err := parseSx(s)
	if err != nil || len(xs) != 1 {
		panic("bad type " + s)
	}
	t, err := e.typeOfSx(xs[0])
	if err != nil {
		panic(err)
	}
	return t
}

// typeOfSx builds a TD (with reflect.Type) from its s-expression; struct ids must be in the env or the zoo.
func (e *typeEnv) typeOfSx(x *sx) (*TD, error) {
	if !x.isL {
		if x.atom == "xo" {
			return octSlice(), nil
		}
		rt, ok := primKinds[x.atom]
		if !ok {
			return nil, fmt.Errorf("unknown type %q", x.atom)
		}
		return &TD{k: x.atom, rt: rt}, nil
	}
	if len(x.list) == 0 {
		return nil, fmt.Errorf("empty type")
	}
	h := x.list[0].atom
	num := func(i int) int { n, _ := strconv.Atoi(x.list[i].atom); return n }
	switch h {
	case "X":
		n := num(1)
		return &TD{k: "X", n: n, rt: reflect.ArrayOf(n, primKinds["u8"])}, nil
	case "XO":
		return octArray(num(1)), nil
	case "sl", "pt":
		el, err := e.typeOfSx(x.list[1])
		if err != nil {
			return nil, err
		}
		if h == "sl" {
			return &TD{k: "sl", elem: el, rt: reflect.SliceOf(el.rt)}, nil
		}
		return &TD{k: "pt", elem: el, rt: reflect.PtrTo(el.rt)}, nil
	case "ar":
		el, err := e.typeOfSx(x.list[2])
		if err != nil {
			return nil, err
		}
		return &TD{k: "ar", n: num(1), elem: el, rt: reflect.ArrayOf(num(1), el.rt)}, nil
	case "mp":
		kt, err := e.typeOfSx(x.list[1])
		if err != nil {
			return nil, err
		}
		vt, err := e.typeOfSx(x.list[2])
		if err != nil {
			return nil, err
		}
		return &TD{k: "mp", key: kt, elem: vt, rt: reflect.MapOf(kt.rt, vt.rt)}, nil
	case "st":
		id := num(1)
		if t, ok := e.structs[id]; ok {
			return t, nil
		}
		if zooByID(id) != nil {
			return e.addZoo(id), nil
		}
		return nil, fmt.Errorf("unknown struct id %d", id)
	case "nm":
		z := zooByID(num(1))
		if z == nil {
			return nil, fmt.Errorf("unknown named type %d", num(1))
		}
		under, err := e.typeOfSx(x.list[2])
		if err != nil {
			return nil, err
		}
		return &TD{k: "nm", n: z.id, elem: under, rt: z.rt}, nil
	case "if":
		z := zooByID(num(1))
		return &TD{k: "if", n: z.id, rt: z.rt}, nil
	}
	return nil, fmt.Errorf("unknown type head %q", h)
}

// parseEnv: (env (id T...)...) — generated structs get exported field names F0..Fn; a field
// whose type is a zoo struct (or pointer to one) and whose index is listed as embedded is not
// supported on replay: embedding is encoded in the name list kept alongside.
func parseEnvSx(x *sx) (*typeEnv, error) {
	e := newEnv()
	// two passes so that structs may refer to earlier ones
	for _, d := range x.list[1:] {
		id, _ := strconv.Atoi(d.list[0].atom)
		if zooByID(id) != nil {
			e.addZoo(id)
			continue
		}
		t := &TD{k: "st", n: id}
		var sf []reflect.StructField
		for i, fx := range d.list[1:] {
			ft, err := e.typeOfSx(fx)
			if err != nil {
				return nil, err
			}
			t.field = append(t.field, ft)
			name := fmt.Sprintf("F%d", i)
			t.names = append(t.names, name)
			sf = append(sf, reflect.StructField{Name: name, Type: ft.rt})
		}
		t.rt = reflect.StructOf(sf)
		e.structs[id] = t
		e.order = append(e.order, id)
		dynTypes[t.rt] = t
	}
	return e, nil
}

// ---------- values ---------------------------------------------------------------

func hexOrDashS(s string) string {
	if len(s) == 0 {
		return "-"
	}
	return hex.EncodeToString([]byte(s))
}

// printValue renders v (of static type t) in the descriptor syntax; map entries sorted by rendered key.
func printValue(t *TD, v reflect.Value) string {
	switch t.k {
	case "b":
		return fmt.Sprintf("(b %d)", b2i(v.Bool()))
	case "i8", "i16", "i32", "i64", "i":
		return fmt.Sprintf("(n %d)", v.Int())
	case "u8", "u16", "u32", "u64", "u", "up":
		return fmt.Sprintf("(n %d)", v.Uint())
	case "f32", "f64":
		return fmt.Sprintf("(f %016x)", math.Float64bits(v.Float()))
	case "s":
		return "(s " + hexOrDashS(v.String()) + ")"
	case "x":
		if v.IsNil() {
			return "(x nil)"
		}
		return "(x " + hexOrDash(v.Bytes()) + ")"
	case "X":
		b := make([]byte, v.Len())
		for i := range b {
			b[i] = byte(v.Index(i).Uint())
		}
		return "(X " + hexOrDash(b) + ")"
	case "sl":
		if v.IsNil() {
			return "(sl nil)"
		}
		fallthrough
	case "ar":
		parts := []string{t.k}
		for i := 0; i < v.Len(); i++ {
			parts = append(parts, printValue(t.elem, v.Index(i)))
		}
		return "(" + strings.Join(parts, " ") + ")"
	case "mp":
		if v.IsNil() {
			return "(mp nil)"
		}
		var ents []string
		for _, k := range v.MapKeys() {
			ents = append(ents, "("+printValue(t.key, k)+" "+printValue(t.elem, v.MapIndex(k))+")")
		}
		sort.Strings(ents)
		return "(" + strings.Join(append([]string{"mp"}, ents...), " ") + ")"
	case "pt":
		if v.IsNil() {
			return "(pt nil)"
		}
		return "(pt " + printValue(t.elem, v.Elem()) + ")"
	case "a", "if":
		if v.IsNil() {
			return "(a nil)"
		}
		dv := v.Elem()
		dt := describeDynType(dv.Type())
		if dt == nil {
			return "(a ? ?)"
		}
		return "(a " + dt.String() + " " + printValue(dt, dv) + ")"
	case "st":
		parts := []string{"st"}
		for i, ft := range t.field {
			parts = append(parts, printValue(ft, v.Field(i)))
		}
		return "(" + strings.Join(parts, " ") + ")"
	case "nm":
		return printValue(t.elem, v)
	}
	return "?"
}

// describeDynType maps a dynamic Go type found inside an interface back to a descriptor
// (the types the unmarshaller puts into untyped slots, zoo types, and what generators put there).
var dynTypes = map[reflect.Type]*TD{}

func describeDynType(rt reflect.Type) *TD {
	if t, ok := dynTypes[rt]; ok {
		return t
	}
	for k, prt := range primKinds {
		if prt == rt && k != "bad" {
			t := &TD{k: k, rt: rt}
			dynTypes[rt] = t
			return t
		}
	}
	for _, z := range zoo {
		if z.rt == rt {
			e := newEnv()
			t := e.mustParseType(z.desc)
			dynTypes[rt] = t
			return t
		}
	}
	switch rt.Kind() {
	case reflect.Slice:
		if el := describeDynType(rt.Elem()); el != nil {
			t := &TD{k: "sl", elem: el, rt: rt}
			dynTypes[rt] = t
			return t
		}
	case reflect.Map:
		k, el := describeDynType(rt.Key()), describeDynType(rt.Elem())
		if k != nil && el != nil {
			t := &TD{k: "mp", key: k, elem: el, rt: rt}
			dynTypes[rt] = t
			return t
		}
	case reflect.Ptr:
		if el := describeDynType(rt.Elem()); el != nil {
			t := &TD{k: "pt", elem: el, rt: rt}
			dynTypes[rt] = t
			return t
		}
	}
	return nil
}

func registerDynType(t *TD) { dynTypes[t.rt] = t }

// valueOfSx builds a reflect.Value of type t from its s-expression.
func (e *typeEnv) valueOfSx(t *TD, x *sx) (reflect.Value, error) {
	v := reflect.New(t.rt).Elem()
	if !x.isL || len(x.list) == 0 {
		return v, fmt.Errorf("bad value")
	}
	arg := func(i int) string {
		if i < len(x.list) {
			return x.list[i].atom
		}
		return ""
	}
	unhex := func(s string) []byte {
		if s == "-" || s == "" {
			return []byte{}
		}
		b, _ := hex.DecodeString(s)
		return b
	}
	tt := t
	for tt.k == "nm" {
		tt = tt.elem
	}
	switch tt.k {
	case "b":
		v.SetBool(arg(1) == "1")
	case "i8", "i16", "i32", "i64", "i":
		n, _ := strconv.ParseInt(arg(1), 10, 64)
		v.SetInt(n)
	case "u8", "u16", "u32", "u64", "u", "up":
		n, _ := strconv.ParseUint(arg(1), 10, 64)
		v.SetUint(n)
	case "f32", "f64":
		n, _ := strconv.ParseUint(arg(1), 16, 64)
		v.SetFloat(math.Float64frombits(n))
	case "s":
		v.SetString(string(unhex(arg(1))))
	case "x":
		if arg(1) != "nil" {
			v.SetBytes(unhex(arg(1)))
		}
	case "X":
		b := unhex(arg(1))
		for i := 0; i < v.Len() && i < len(b); i++ {
			v.Index(i).SetUint(uint64(b[i]))
		}
	case "sl":
		if arg(1) == "nil" && len(x.list) == 2 && !x.list[1].isL {
			return v, nil
		}
		s := reflect.MakeSlice(t.rt, 0, len(x.list)-1)
		for _, ex := range x.list[1:] {
			ev, err := e.valueOfSx(tt.elem, ex)
			if err != nil {
				return v, err
			}
			s = reflect.Append(s, ev)
		}
		v.Set(s)
	case "ar":
		for i, ex := range x.list[1:] {
			ev, err := e.valueOfSx(tt.elem, ex)
			if err != nil {
				return v, err
			}
			v.Index(i).Set(ev)
		}
	case "mp":
		if len(x.list) == 2 && !x.list[1].isL {
			return v, nil
		}
		m := reflect.MakeMap(t.rt)
		for _, ex := range x.list[1:] {
			kv, err := e.valueOfSx(tt.key, ex.list[0])
			if err != nil {
				return v, err
			}
			vv, err := e.valueOfSx(tt.elem, ex.list[1])
			if err != nil {
				return v, err
			}
			m.SetMapIndex(kv, vv)
		}
		v.Set(m)
	case "pt":
		if len(x.list) == 2 && !x.list[1].isL && arg(1) == "nil" {
			return v, nil
		}
		ev, err := e.valueOfSx(tt.elem, x.list[1])
		if err != nil {
			return v, err
		}
		p := reflect.New(tt.elem.rt)
		p.Elem().Set(ev)
		v.Set(p)
	case "a", "if":
		if len(x.list) == 2 && arg(1) == "nil" {
			return v, nil
		}
		dt, err := e.typeOfSx(x.list[1])
		if err != nil {
			return v, err
		}
		registerDynType(dt)
		dv, err := e.valueOfSx(dt, x.list[2])
		if err != nil {
			return v, err
		}
		v.Set(dv)
	case "st":
		for i, ft := range tt.field {
			fv, err := e.valueOfSx(ft, x.list[i+1])
			if err != nil {
				return v, err
			}
			v.Field(i).Set(fv)
		}
	case "bad":
		// leave zero (nil chan)
	}
	return v, nil
}

// ---------- atlas ----------------------------------------------------------------

type AD struct { // atlas entry descriptor
	t    *TD
	tag  int
	tagd bool
	kind string // smap tr un mm
	flds []fldD
	trk  int
	wire *TD
	mem  []memD
	mode int
}
type fldD struct {
	name   string
	route  []int
	t      *TD
	omit   bool
	ignore bool
}
type memD struct {
	name string
	t    *TD
}

func (a *AD) String() string {
	tag := "-"
	if a.tagd {
		tag = strconv.Itoa(a.tag)
	}
	var k string
	switch a.kind {
	case "smap":
		parts := []string{"smap"}
		for _, f := range a.flds {
			rs := make([]string, len(f.route))
			for i, r := range f.route {
				rs[i] = strconv.Itoa(r)
			}
			ft := "a"
			if f.t != nil {
				ft = f.t.String()
			}
			parts = append(parts, fmt.Sprintf("(fld %s (%s) %s %d %d)", hexOrDashS(f.name), strings.Join(rs, " "), ft, b2i(f.omit), b2i(f.ignore)))
		}
		k = "(" + strings.Join(parts, " ") + ")"
	case "tr":
		k = fmt.Sprintf("(tr %d %s)", a.trk, a.wire.String())
	case "un":
		parts := []string{"un"}
		for _, m := range a.mem {
			parts = append(parts, fmt.Sprintf("(%s %s)", hexOrDashS(m.name), m.t.String()))
		}
		k = "(" + strings.Join(parts, " ") + ")"
	case "mm":
		k = fmt.Sprintf("(mm %d)", a.mode)
	}
	return fmt.Sprintf("(e %s %s %s)", a.t.String(), tag, k)
}

var sortModes = []atlas.KeySortMode{atlas.KeySortMode_Default, atlas.KeySortMode_Strings, atlas.KeySortMode_RFC7049}

func splitOnce(s string, c byte) (string, string, bool) {
	i := strings.IndexByte(s, c)
	if i < 0 {
		return "", "", false
	}
	return s[:i], s[i+1:], true
}

// transform functions of the modelled family (GoVal.v tr_fwd / tr_bwd)
func transformFuncs(kind int) (interface{}, interface{}) {
	switch kind {
	case 1:
		return func(x TrName) (string, error) { return "n:" + string(x), nil },
			func(s string) (TrName, error) {
				if !strings.HasPrefix(s, "n:") {
					return "", fmt.Errorf("bad TrName")
				}
				return TrName(s[2:]), nil
			}
	case 2:
		return func(x TrPair) (string, error) { return x.A + "\x00" + x.B, nil },
			func(s string) (TrPair, error) {
				a, b, ok := splitOnce(s, 0)
				if !ok {
					return TrPair{}, fmt.Errorf("bad TrPair")
				}
				return TrPair{a, b}, nil
			}
	case 3:
		return func(x TrBlob) ([]byte, error) { return []byte{x.X, x.Y}, nil },
			func(b []byte) (TrBlob, error) {
				if len(b) != 2 {
					return TrBlob{}, fmt.Errorf("bad TrBlob")
				}
				return TrBlob{b[0], b[1]}, nil
			}
	case 4:
		return func(x TrList) ([]int64, error) { return []int64{x.P, x.Q}, nil },
			func(l []int64) (TrList, error) {
				if len(l) != 2 {
					return TrList{}, fmt.Errorf("bad TrList")
				}
				return TrList{l[0], l[1]}, nil
			}
	case 5:
		return func(x TrWrap) (TrWire, error) { return TrWire{x.V}, nil },
			func(w TrWire) (TrWrap, error) { return TrWrap{w.W}, nil }
	case 6:
		return func(x TrKey) (string, error) { return x.A + ":" + x.B, nil },
			func(s string) (TrKey, error) {
				a, b, ok := splitOnce(s, ':')
				if !ok {
					return TrKey{}, fmt.Errorf("bad TrKey")
				}
				return TrKey{a, b}, nil
			}
	case 7:
		return func(x TrBag) (TrBagWire, error) { return TrBagWire{x.K, x.N}, nil },
			func(w TrBagWire) (TrBag, error) { return TrBag{w.K, w.N}, nil }
	case 8:
		// deliberately no copying: the transform passes the slice through
		return func(x TrRaw) ([]byte, error) { return x.B, nil },
			func(b []byte) (TrRaw, error) { return TrRaw{b}, nil }
	case 10:
		// a second string form for TrKey (used only through the OTHER atlas of the history suite)
		return func(x TrKey) (string, error) { return x.B + "|" + x.A, nil },
			func(s string) (TrKey, error) {
				b, a, ok := splitOnce(s, '|')
				if !ok {
					return TrKey{}, fmt.Errorf("bad TrKey")
				}
				return TrKey{a, b}, nil
			}
	case 12:
		// the serial form is a keyed union (model kind 9: struct{X} <-> X)
		return func(x TrShape) (Shape, error) { return x.S, nil },
			func(v Shape) (TrShape, error) { return TrShape{v}, nil }
	case 13:
		// a union member that is itself transformed (model kind 5: struct{V string} <-> wire struct{W string})
		return func(x Disc) (TrWire, error) { return TrWire{x.V}, nil },
			func(w TrWire) (Disc, error) { return Disc{w.W}, nil }
	case 14:
		// the serial form is a pointer to the wire struct (model kind 5: the pointer is never nil on the
		// way out; a null on the way in leaves a struct zero and a pointer nil)
		return func(x TrPtr) (*TrWire, error) { return &TrWire{x.V}, nil },
			func(w *TrWire) (TrPtr, error) {
				if w == nil { // a null: the struct machine leaves its target zero
					return TrPtr{}, nil
				}
				return TrPtr{w.W}, nil
			}
	case 9:
		// the serial form is an untyped value
		return func(x TrAny) (interface{}, error) { return x.V, nil },
			func(v interface{}) (TrAny, error) { return TrAny{v}, nil }
	}
	panic("unknown transform kind")
}

// dottedPath turns a reflect route into the dotted field-name path AddField takes, when there is one: every
// hop but the last must be a struct-typed field (AddField resolves names with FieldByName hop by hop).
func dottedPath(rt reflect.Type, route []int) (string, bool) {
	// a field promoted from embedded structs (by value or by pointer) is named by its own name alone, when Go's
	// promotion rules resolve that name to this very route
	if len(route) > 1 && rt.Kind() == reflect.Struct {
		if f, ok := fieldAt(rt, route); ok {
			if sf, found := rt.FieldByName(f.Name); found && len(sf.Index) == len(route) {
				same := true
				for i := range route {
					same = same && sf.Index[i] == route[i]
				}
				if same {
					return f.Name, true
				}
			}
		}
	}
	var names []string
	for i, idx := range route {
		if rt.Kind() != reflect.Struct || idx >= rt.NumField() {
			return "", false
		}
		f := rt.Field(idx)
		names = append(names, f.Name)
		rt = f.Type
		if i < len(route)-1 && rt.Kind() != reflect.Struct {
			return "", false
		}
	}
	return strings.Join(names, "."), len(names) > 0
}

// fieldAt follows a route of field indices, through pointers to structs
func fieldAt(rt reflect.Type, route []int) (f reflect.StructField, ok bool) {
	for i, idx := range route {
		if rt.Kind() == reflect.Ptr {
			rt = rt.Elem()
		}
		if rt.Kind() != reflect.Struct || idx >= rt.NumField() {
			return f, false
		}
		f = rt.Field(idx)
		if i < len(route)-1 {
			rt = f.Type
		}
	}
	return f, true
}

var buildCounter int

// buildViaBuilder makes the entry through the builder API (BuildEntry / UseTag / StructMap().AddField / IgnoreKey /
// Transform()...), as applications do; nil when the entry cannot be expressed that way.
func (a *AD) buildViaBuilder() (ent *atlas.AtlasEntry) {
	defer func() {
		if recover() != nil {
			ent = nil
		}
	}()
	if a.t.rt.Kind() == reflect.Interface || a.t.rt.Kind() == reflect.Ptr {
		return nil
	}
	core := atlas.BuildEntry(reflect.Zero(a.t.rt).Interface())
	if a.tagd {
		core = core.UseTag(a.tag)
	}
	switch a.kind {
	case "smap":
		b := core.StructMap()
		for _, f := range a.flds {
			if f.ignore {
				b = b.IgnoreKey(f.name)
				continue
			}
			path, ok := dottedPath(a.t.rt, f.route)
			if !ok {
				return nil
			}
			b = b.AddField(path, atlas.StructMapEntry{SerialName: f.name, OmitEmpty: f.omit})
		}
		ent = b.Complete()
		return ent
	}
	return nil
}

func (a *AD) build(all []*AD) *atlas.AtlasEntry {
	buildCounter++
	if a.kind == "smap" && buildCounter%4 != 3 {
		if ent := a.buildViaBuilder(); ent != nil {
			return ent
		}
	}
	ent := &atlas.AtlasEntry{Type: a.t.rt, Tagged: a.tagd, Tag: a.tag}
	switch a.kind {
	case "smap":
		sm := &atlas.StructMap{}
		for _, f := range a.flds {
			e := atlas.StructMapEntry{SerialName: f.name, OmitEmpty: f.omit, Ignore: f.ignore}
			if !f.ignore {
				e.ReflectRoute = atlas.ReflectRoute(f.route)
				e.Type = f.t.rt
			}
			sm.Fields = append(sm.Fields, e)
		}
		ent.StructMap = sm
	case "tr":
		gk := a.trk
		// the same modelled pair serves several Go types: pick the Go functions by the Go type
		if a.trk == 9 && a.t.n == 23 {
			gk = 12
		}
		if a.trk == 5 && a.t.n == 24 {
			gk = 13
		}
		if a.trk == 5 && a.t.n == 25 {
			gk = 14
		}
		mf, uf := transformFuncs(gk)
		if buildCounter%4 != 3 && a.t.rt.Kind() != reflect.Interface && a.t.rt.Kind() != reflect.Ptr {
			// through the builder API
			core := atlas.BuildEntry(reflect.Zero(a.t.rt).Interface())
			if a.tagd {
				core = core.UseTag(a.tag)
			}
			mfn, mty := atlas.MakeMarshalTransformFunc(mf)
			ufn, uty := atlas.MakeUnmarshalTransformFunc(uf)
			return core.Transform().TransformMarshal(mfn, mty).TransformUnmarshal(ufn, uty).Complete()
		}
		ent.MarshalTransformFunc, ent.MarshalTransformTargetType = atlas.MakeMarshalTransformFunc(mf)
		ent.UnmarshalTransformFunc, ent.UnmarshalTransformTargetType = atlas.MakeUnmarshalTransformFunc(uf)
	case "un":
		members := map[string]*atlas.AtlasEntry{}
		for _, m := range a.mem {
			for _, o := range all {
				if o.t.rt == m.t.rt {
					members[m.name] = o.build(all)
				}
			}
		}
		return atlas.BuildEntry((*Shape)(nil)).KeyedUnion().Of(members)
	case "mm":
		// through the builder API, as applications do
		be := atlas.BuildEntry(reflect.Zero(a.t.rt).Interface()).MapMorphism().SetKeySortMode(sortModes[a.mode]).Complete()
		be.Tagged, be.Tag = a.tagd, a.tag
		return be
	}
	return ent
}

type atlasD struct {
	mode    int
	entries []*AD
}

func (a *atlasD) String() string {
	parts := []string{"atlas", strconv.Itoa(a.mode)}
	for _, e := range a.entries {
		parts = append(parts, e.String())
	}
	return "(" + strings.Join(parts, " ") + ")"
}

func (a *atlasD) build() (atl atlas.Atlas, err error) {
	defer func() {
		if r := recover(); r != nil {
			err = fmt.Errorf("atlas build panic: %v", r)
		}
	}()
	var ents []*atlas.AtlasEntry
	for _, e := range a.entries {
		ents = append(ents, e.build(a.entries))
	}
	atl, err = atlas.Build(ents...)
	if err == nil && a.mode != 0 {
		atl = atl.WithMapMorphism(atlas.MapMorphism{KeySortMode: sortModes[a.mode]})
	}
	return
}

func (e *typeEnv) atlasOfSx(x *sx) (*atlasD, error) {
	a := &atlasD{}
	a.mode, _ = strconv.Atoi(x.list[1].atom)
	for _, ex := range x.list[2:] {
		t, err := e.typeOfSx(ex.list[1])
		if err != nil {
			return nil, err
		}
		ad := &AD{t: t}
		if ex.list[2].atom != "-" {
			ad.tagd = true
			ad.tag, _ = strconv.Atoi(ex.list[2].atom)
		}
		kx := ex.list[3]
		ad.kind = kx.list[0].atom
		switch ad.kind {
		case "smap":
			for _, fx := range kx.list[1:] {
				f := fldD{}
				nb, _ := hex.DecodeString(strings.Replace(fx.list[1].atom, "-", "", 1))
				f.name = string(nb)
				for _, r := range fx.list[2].list {
					n, _ := strconv.Atoi(r.atom)
					f.route = append(f.route, n)
				}
				f.t, err = e.typeOfSx(fx.list[3])
				if err != nil {
					return nil, err
				}
				f.omit = fx.list[4].atom == "1"
				f.ignore = fx.list[5].atom == "1"
				ad.flds = append(ad.flds, f)
			}
		case "tr":
			ad.trk, _ = strconv.Atoi(kx.list[1].atom)
			ad.wire, err = e.typeOfSx(kx.list[2])
			if err != nil {
				return nil, err
			}
		case "un":
			for _, mx := range kx.list[1:] {
				nb, _ := hex.DecodeString(strings.Replace(mx.list[0].atom, "-", "", 1))
				mt, err := e.typeOfSx(mx.list[1])
				if err != nil {
					return nil, err
				}
				ad.mem = append(ad.mem, memD{string(nb), mt})
			}
		case "mm":
			ad.mode, _ = strconv.Atoi(kx.list[1].atom)
		}
		a.entries = append(a.entries, ad)
	}
	return a, nil
}
