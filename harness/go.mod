module verifharness

go 1.16

require github.com/polydawn/refmt v0.0.0

replace github.com/polydawn/refmt => /repo
