package main

import (
	"bytes"
	"encoding/hex"
	"fmt"
	"math"
	"math/big"
	"reflect"
	"strings"

	"github.com/polydawn/refmt"
	"github.com/polydawn/refmt/cbor"
	"github.com/polydawn/refmt/json"
	"github.com/polydawn/refmt/obj/atlas"
)

// roundtrip: "<c|j> <line> <indent> <oracle> ; <env> <atlas> <type> <value>"
// Marshal with the real library, unmarshal into a fresh variable of the same type,
// print bytes + the value that came back + the harness's own equality verdict.

func splitRT(payload string) (fmtc string, line, indent []byte, rest string) {
	head, rest, _ := strings.Cut(payload, ";")
	fs := strings.Fields(head)
	return fs[0], optBytes(fs[1]), optBytes(fs[2]), rest
}

func encOpts(fmtc string, line, indent []byte) refmt_EncodeOptions {
	if fmtc == "c" {
		return cbor.EncodeOptions{}
	}
	return json.EncodeOptions{Line: line, Indent: indent}
}

type refmt_EncodeOptions interface{ IsEncodeOptions() }
type refmt_DecodeOptions interface{ IsDecodeOptions() }

func decOpts(fmtc string) refmt_DecodeOptions {
	if fmtc == "c" {
		return cbor.DecodeOptions{}
	}
	return json.DecodeOptions{}
}

func safely(f func() error) (err error, panicked bool) {
	defer func() {
		if r := recover(); r != nil {
			err = fmt.Errorf("panic: %v", r)
			panicked = true
		}
	}()
	return f(), false
}

func runRoundtrip(payload string) string {
	fmtc, line, indent, rest := splitRT(payload)
	env, ad, t, vx, err := parseObjHeader(rest)
	if err != nil || len(vx) < 1 {
		return fmt.Sprintf("harness-error %v", err)
	}
	atl, err := ad.build()
	if err != nil {
		return "harness-error atlas: " + err.Error()
	}
	v, err := env.valueOfSx(t, vx[0])
	if err != nil {
		return "harness-error value: " + err.Error()
	}
	// with an empty atlas the atlas-less entry points say the same thing: taken in rotation
	// (refmt.Marshal / refmt.NewMarshaller / cbor.Marshal, json.Marshal; the Unmarshal side likewise)
	plain := len(ad.entries) == 0 && ad.mode == 0
	route := len(payload) % 4
	var bs []byte
	merr, mp := safely(func() error {
		var e error
		switch {
		case plain && route == 1:
			bs, e = refmt.Marshal(encOpts(fmtc, line, indent), v.Interface())
		case plain && route == 2:
			var buf bytes.Buffer
			e = refmt.NewMarshaller(encOpts(fmtc, line, indent), &buf).Marshal(v.Interface())
			bs = buf.Bytes()
		case plain && route == 3 && fmtc == "c":
			bs, e = cbor.Marshal(v.Interface())
		case plain && route == 3 && line == nil && indent == nil:
			bs, e = json.Marshal(v.Interface())
		default:
			bs, e = refmt.MarshalAtlased(encOpts(fmtc, line, indent), v.Interface(), atl)
		}
		return e
	})
	if mp {
		return "mpanic"
	}
	if merr != nil {
		return "merr"
	}
	target := reflect.New(t.rt)
	uerr, up := safely(func() error {
		switch {
		case plain && route == 1:
			return refmt.Unmarshal(decOpts(fmtc), bs, target.Interface())
		case plain && route == 2:
			return refmt.NewUnmarshaller(decOpts(fmtc), bytes.NewReader(bs)).Unmarshal(target.Interface())
		case plain && route == 3 && fmtc == "c":
			return cbor.Unmarshal(cbor.DecodeOptions{}, bs, target.Interface())
		case plain && route == 3:
			return json.Unmarshal(bs, target.Interface())
		}
		return refmt.UnmarshalAtlased(decOpts(fmtc), bs, target.Interface(), atl)
	})
	if up {
		return "upanic " + hexOrDash(bs)
	}
	if uerr != nil {
		return "uerr " + hexOrDash(bs)
	}
	eq := approxEqual(t, v, target.Elem(), ad, fmtc == "j")
	return fmt.Sprintf("ok %s %s eq=%d", hexOrDash(bs), printValue(t, target.Elem()), b2i(eq))
}

// ---------- equality up to what the wire formats cannot carry ------------------------

func serializesAsNull(v reflect.Value) bool {
	switch v.Kind() {
	case reflect.Ptr, reflect.Interface:
		if v.IsNil() {
			return true
		}
		return serializesAsNull(v.Elem())
	case reflect.Slice, reflect.Map:
		return v.IsNil()
	case reflect.Struct:
		// the zoo's pass-through transform struct{B []byte} <-> []byte (kind 8): a nil B serializes as null
		if v.Type() == reflect.TypeOf(TrRaw{}) {
			return v.Field(0).IsNil()
		}
		// ... and struct{V interface{}} <-> interface{} (kind 9): null when its content is
		if v.Type() == reflect.TypeOf(TrAny{}) {
			return serializesAsNull(v.Field(0))
		}
	}
	return false
}

func numVal(v reflect.Value) (*big.Float, bool) {
	switch v.Kind() {
	case reflect.Int, reflect.Int8, reflect.Int16, reflect.Int32, reflect.Int64:
		return new(big.Float).SetInt64(v.Int()), true
	case reflect.Uint, reflect.Uint8, reflect.Uint16, reflect.Uint32, reflect.Uint64, reflect.Uintptr:
		return new(big.Float).SetUint64(v.Uint()), true
	case reflect.Float32, reflect.Float64:
		f := v.Float()
		if math.IsNaN(f) || math.IsInf(f, 0) {
			return nil, false
		}
		return new(big.Float).SetFloat64(f), true
	}
	return nil, false
}

func isEmptyVal(v reflect.Value) bool {
	switch v.Kind() {
	case reflect.Array, reflect.Map, reflect.Slice, reflect.String:
		return v.Len() == 0
	case reflect.Bool:
		return !v.Bool()
	case reflect.Int, reflect.Int8, reflect.Int16, reflect.Int32, reflect.Int64:
		return v.Int() == 0
	case reflect.Uint, reflect.Uint8, reflect.Uint16, reflect.Uint32, reflect.Uint64, reflect.Uintptr:
		return v.Uint() == 0
	case reflect.Float32, reflect.Float64:
		return v.Float() == 0
	case reflect.Interface, reflect.Ptr:
		return v.IsNil()
	case reflect.Struct:
		for i := 0; i < v.NumField(); i++ {
			if !isEmptyVal(v.Field(i)) {
				return false
			}
		}
		return true
	}
	return false
}

// mappedEmpty: a struct with a struct-map entry all of whose mapped, reachable fields are empty.
func mappedEmpty(v reflect.Value, ad *atlasD) bool {
	if v.Kind() != reflect.Struct {
		return false
	}
	e := ad.entryFor(v.Type())
	if e == nil || e.kind != "smap" {
		return false
	}
	for _, f := range e.flds {
		if f.ignore {
			continue
		}
		fv := atlas.ReflectRoute(f.route).TraverseToValue(v)
		if fv.IsValid() && !isEmptyVal(fv) && !mappedEmpty(fv, ad) {
			return false
		}
	}
	return true
}

func (ad *atlasD) entryFor(rt reflect.Type) *AD {
	for _, e := range ad.entries {
		if e.t.rt == rt {
			return e
		}
	}
	return nil
}

// approxEqual: a is the original, b what came back.
func approxEqual(t *TD, a, b reflect.Value, ad *atlasD, isJSON bool) bool {
	if a.Type() != b.Type() {
		return false
	}
	switch a.Kind() {
	case reflect.Bool:
		return a.Bool() == b.Bool()
	case reflect.Int, reflect.Int8, reflect.Int16, reflect.Int32, reflect.Int64:
		return a.Int() == b.Int()
	case reflect.Uint, reflect.Uint8, reflect.Uint16, reflect.Uint32, reflect.Uint64, reflect.Uintptr:
		return a.Uint() == b.Uint()
	case reflect.Float32, reflect.Float64:
		x, y := a.Float(), b.Float()
		if isJSON && x == 0 && y == 0 {
			return true // -0 vs 0
		}
		return math.Float64bits(x) == math.Float64bits(y)
	case reflect.String:
		return a.String() == b.String()
	case reflect.Slice:
		if a.Type().Elem().Kind() == reflect.Uint8 {
			return a.IsNil() == b.IsNil() && bytes.Equal(a.Bytes(), b.Bytes())
		}
		if a.IsNil() != b.IsNil() || a.Len() != b.Len() {
			return false
		}
		for i := 0; i < a.Len(); i++ {
			if !approxEqual(nil, a.Index(i), b.Index(i), ad, isJSON) {
				return false
			}
		}
		return true
	case reflect.Array:
		for i := 0; i < a.Len(); i++ {
			if !approxEqual(nil, a.Index(i), b.Index(i), ad, isJSON) {
				return false
			}
		}
		return true
	case reflect.Map:
		if a.IsNil() != b.IsNil() || a.Len() != b.Len() {
			return false
		}
		for _, k := range a.MapKeys() {
			bv := b.MapIndex(k)
			if !bv.IsValid() || !approxEqual(nil, a.MapIndex(k), bv, ad, isJSON) {
				return false
			}
		}
		return true
	case reflect.Ptr:
		if serializesAsNull(a) {
			return b.IsNil()
		}
		if b.IsNil() {
			return false
		}
		return approxEqual(nil, a.Elem(), b.Elem(), ad, isJSON)
	case reflect.Interface:
		if a.Type().NumMethod() > 0 { // union
			if a.IsNil() || b.IsNil() {
				return a.IsNil() == b.IsNil()
			}
			return a.Elem().Type() == b.Elem().Type() && approxEqual(nil, a.Elem(), b.Elem(), ad, isJSON)
		}
		return anyEqual(a, b, ad, isJSON)
	case reflect.Struct:
		e := ad.entryFor(a.Type())
		if e == nil || e.kind != "smap" {
			// transform sources: compared field by field
			for i := 0; i < a.NumField(); i++ {
				if !approxEqual(nil, a.Field(i), b.Field(i), ad, isJSON) {
					return false
				}
			}
			return true
		}
		for _, f := range e.flds {
			if f.ignore {
				continue
			}
			fa := atlas.ReflectRoute(f.route).TraverseToValue(a)
			fb := atlas.ReflectRoute(f.route).TraverseToValue(b)
			if !fa.IsValid() {
				continue // behind a nil embedded pointer: not serialised
			}
			// "empty vs nil under omitempty" is judged on what is serialized: a struct whose mapped fields
			// are all empty counts as empty even when a field the atlas does not mention holds data
			// (re-marshalling the decoded value omits it: C12)
			if f.omit && (isEmptyVal(fa) || mappedEmpty(fa, ad)) {
				if fb.IsValid() && !isEmptyVal(fb) && !mappedEmpty(fb, ad) {
					return false
				}
				continue
			}
			if !fb.IsValid() || !approxEqual(nil, fa, fb, ad, isJSON) {
				return false
			}
		}
		return true
	}
	return false
}

// anyEqual: untyped slots; the concrete numeric type, and the element type of
// containers, are not carried by the wire.
func anyEqual(a, b reflect.Value, ad *atlasD, isJSON bool) bool {
	for a.Kind() == reflect.Interface || a.Kind() == reflect.Ptr {
		if a.IsNil() {
			break
		}
		a = a.Elem()
	}
	for b.Kind() == reflect.Interface || b.Kind() == reflect.Ptr {
		if b.IsNil() {
			break
		}
		b = b.Elem()
	}
	if serializesAsNull(a) {
		return serializesAsNull(b)
	}
	if na, ok := numVal(a); ok {
		nb, ok2 := numVal(b)
		return ok2 && na.Cmp(nb) == 0
	}
	switch a.Kind() {
	case reflect.Float32, reflect.Float64: // NaN / Inf
		return (b.Kind() == reflect.Float64 || b.Kind() == reflect.Float32) && math.Float64bits(a.Float()) == math.Float64bits(b.Float())
	case reflect.String:
		return b.Kind() == reflect.String && a.String() == b.String()
	case reflect.Bool:
		return b.Kind() == reflect.Bool && a.Bool() == b.Bool()
	case reflect.Slice, reflect.Array:
		if a.Type().Elem().Kind() == reflect.Uint8 {
			if b.Kind() != reflect.Slice || b.Type().Elem().Kind() != reflect.Uint8 {
				return false
			}
			ab := make([]byte, a.Len())
			for i := range ab {
				ab[i] = byte(a.Index(i).Uint())
			}
			return bytes.Equal(ab, b.Bytes())
		}
		if b.Kind() != reflect.Slice || a.Len() != b.Len() {
			return false
		}
		for i := 0; i < a.Len(); i++ {
			if !anyEqual(a.Index(i), b.Index(i), ad, isJSON) {
				return false
			}
		}
		return true
	case reflect.Map:
		if b.Kind() != reflect.Map || a.Len() != b.Len() {
			return false
		}
		for _, k := range a.MapKeys() {
			bv := b.MapIndex(reflect.ValueOf(fmt.Sprint(k.Interface())))
			if k.Kind() == reflect.String {
				bv = b.MapIndex(reflect.ValueOf(k.String()))
			}
			if !bv.IsValid() || !anyEqual(a.MapIndex(k), bv, ad, isJSON) {
				return false
			}
		}
		return true
	case reflect.Struct:
		if a.Type() == b.Type() {
			return approxEqual(nil, a, b, ad, isJSON)
		}
		return false
	}
	return false
}

// ---------- generator ------------------------------------------------------------------

// untaggedInAny reports whether the value places an atlas-typed value without a tag inside an
// untyped slot (such a value cannot come back as its own type: outside C01's quantifier).
func untypedSlotsOK(v reflect.Value, ad *atlasD, inAny bool, needTag bool) bool {
	switch v.Kind() {
	case reflect.Interface:
		if v.IsNil() {
			return true
		}
		if v.Type().NumMethod() > 0 {
			return untypedSlotsOK(v.Elem(), ad, inAny, needTag)
		}
		return untypedSlotsOK(v.Elem(), ad, true, needTag)
	case reflect.Ptr:
		if v.IsNil() {
			return true
		}
		return untypedSlotsOK(v.Elem(), ad, inAny, needTag)
	case reflect.Slice, reflect.Array:
		if inAny && v.Type().Elem().Kind() != reflect.Interface && v.Type().Elem().Kind() != reflect.Uint8 {
			return false
		}
		for i := 0; i < v.Len(); i++ {
			if !untypedSlotsOK(v.Index(i), ad, inAny, needTag) {
				return false
			}
		}
		return true
	case reflect.Map:
		if inAny && v.Type().Elem().Kind() != reflect.Interface {
			return false
		}
		for _, k := range v.MapKeys() {
			if !untypedSlotsOK(v.MapIndex(k), ad, inAny, needTag) {
				return false
			}
		}
		return true
	case reflect.Struct:
		if inAny {
			e := ad.entryFor(v.Type())
			if e == nil || !e.tagd {
				return false
			}
		}
		for i := 0; i < v.NumField(); i++ {
			if !untypedSlotsOK(v.Field(i), ad, false, needTag) {
				return false
			}
		}
		return true
	case reflect.String:
		if inAny {
			if e := ad.entryFor(v.Type()); e != nil && !e.tagd {
				return false
			}
		}
		return true
	}
	return true
}

func genRoundtrip(g *G, tier string, emit func(string)) {
	// values that cannot be represented: the helpers must return an error
	un := "(env (20 i64) (21 s (pt i))) (atlas 0 (e (st 20) - (smap (fld 72 (0) i64 0 0))) (e (st 21) 7 (smap (fld 73 (0) s 0 0) (fld 6e (1) (pt i) 0 0))) (e (if 30) - (un (636972636c65 (st 20)) (737175617265 (st 21)))))"
	for _, f := range []string{"c ~ ~ -", "j ~ ~ -"} {
		emit(f + " ; " + un + " (pt (if 30)) (pt (a nil))")
		emit(f + " ; " + un + " (sl (if 30)) (sl (a nil))")
		emit(f + " ; " + un + " (pt (if 30)) (pt (a (st 20) (st (n 7))))")
		emit(f + " ; (env) (atlas 0) (mp i s) (mp ((n 1) (s 61)))")
		emit(f + " ; (env) (atlas 0) (mp i s) (mp nil)")
		emit(f + " ; (env) (atlas 0) (sl (mp i s)) (sl (mp ((n 1) (s 61))))")
		emit(f + " ; (env (100 i)) (atlas 0) (st 100) (st (n 1))")
		emit(f + " ; (env (100 i)) (atlas 0) (pt (st 100)) (pt (st (n 1)))")
		emit(f + " ; (env) (atlas 0) bad (n 0)")
		emit(f + " ; (env) (atlas 0) (sl a) (sl (a bad (n 0)))")
	}
	emit("c ~ ~ - ; (env) (atlas 0) f64 (f 4415af1d78b58c40)")
	emit("j ~ ~ " + shortestOracle(1e20) + " ; (env) (atlas 0) f64 (f 4415af1d78b58c40)")
	emit("j ~ ~ " + shortestOracle(-9223372036854775808.0) + " ; (env) (atlas 0) f64 (f c3e0000000000000)")
	n := 30000
	if tier == "thorough" {
		n = 600000
	}
	for i := 0; i < n; i++ {
		isJSON := i%2 == 1
		o := optsFull
		o.bad = false
		if isJSON {
			o = optsJSON
		}
		c, t, v := g.newCase(o)
		if !untypedSlotsOK(v, c.atl, false, !isJSON) {
			continue
		}
		atl, err := c.atl.build()
		if err != nil {
			continue
		}
		head := "c ~ ~ -"
		if isJSON {
			ws := wsOptions[g.intn(len(wsOptions))]
			_, toks := marshalTokens(atl, v.Interface(), 20*valueSize(v)+50)
			head = "j " + ws[0] + " " + ws[1] + " " + floatOracleFor(toks)
		}
		emit(head + " ; " + c.header(t) + " " + printValue(t, v))
		g.count("rt." + head[:1] + "." + t.k)
	}
}

var _ = hex.EncodeToString

func init() {
	register(&suite{name: "roundtrip", gen: genRoundtrip, run: runRoundtrip})
}
