package main

import (
	"bytes"
	"encoding/hex"
	ejson "encoding/json"
	"fmt"
	"math"
	"math/big"
	"os"
	"os/exec"
	"sort"
	"strconv"
	"strings"
	"unicode/utf8"

	"github.com/polydawn/refmt"
	"github.com/polydawn/refmt/cbor"
	"github.com/polydawn/refmt/json"
	"github.com/polydawn/refmt/shared"
	"github.com/polydawn/refmt/tok"
)

// decodeAllTokens decodes one item with the real decoder of the given format.
func decodeTokens(format string, in []byte) ([]tok.Token, bool) {
	var src tokenSource
	if format == "c" {
		src = cbor.NewDecoder(cbor.DecodeOptions{}, bytes.NewReader(in))
	} else {
		src = json.NewDecoder(bytes.NewReader(in))
	}
	class, _, raw, _ := driveSourceRaw(src, 2*len(in)+10)
	return raw, class == "ok"
}

// canonical rendering of a token list as a value: map entries sorted by key, numbers by value
// (non-negative ints unify Int/Uint), floats by bits.
func canonTokens(ts []tok.Token) string {
	pos := 0
	var rec func() string
	rec = func() string {
		if pos >= len(ts) {
			return "?"
		}
		t := ts[pos]
		pos++
		switch t.Type {
		case tok.TMapOpen:
			var ents []string
			for pos < len(ts) && ts[pos].Type != tok.TMapClose {
				k := rec()
				v := rec()
				ents = append(ents, k+":"+v)
			}
			pos++
			sort.Strings(ents)
			return "{" + strings.Join(ents, ",") + "}"
		case tok.TArrOpen:
			var items []string
			for pos < len(ts) && ts[pos].Type != tok.TArrClose {
				items = append(items, rec())
			}
			pos++
			return "[" + strings.Join(items, ",") + "]"
		case tok.TNull:
			return "null"
		case tok.TBool:
			return fmt.Sprint(t.Bool)
		case tok.TString:
			return fmt.Sprintf("s%q", t.Str)
		case tok.TBytes:
			return "x" + hex.EncodeToString(t.Bytes)
		case tok.TInt:
			return fmt.Sprintf("i%d", t.Int)
		case tok.TUint:
			if t.Uint <= math.MaxInt64 {
				return fmt.Sprintf("i%d", t.Uint)
			}
			return fmt.Sprintf("u%d", t.Uint)
		case tok.TFloat64:
			// JSON re-types integral floats as ints: compare by mathematical value where exact
			f := t.Float64
			if f == math.Trunc(f) && math.Abs(f) < 1<<63 {
				return fmt.Sprintf("i%d", int64(f))
			}
			return fmt.Sprintf("f%016x", math.Float64bits(f))
		}
		return "?"
	}
	return rec()
}

// inCommonModel: string keys, no bytes, no tags, finite floats, valid UTF-8
func inCommonModel(ts []tok.Token) bool {
	depthIsMap := []bool{}
	expectKey := []bool{}
	keysSeen := []map[string]bool{}
	for _, t := range ts {
		if t.Tagged && t.Type != tok.TMapClose && t.Type != tok.TArrClose {
			return false
		}
		atKey := len(depthIsMap) > 0 && depthIsMap[len(depthIsMap)-1] && expectKey[len(expectKey)-1]
		switch t.Type {
		case tok.TBytes:
			return false
		case tok.TFloat64:
			if math.IsNaN(t.Float64) || math.IsInf(t.Float64, 0) {
				return false
			}
		case tok.TString:
			if !utf8.ValidString(t.Str) {
				return false
			}
		}
		if atKey && t.Type != tok.TMapClose && t.Type != tok.TString {
			return false
		}
		if atKey && t.Type == tok.TString {
			m := keysSeen[len(keysSeen)-1]
			if m[t.Str] {
				return false // duplicate key: no map value can hold it
			}
			m[t.Str] = true
		}
		switch t.Type {
		case tok.TMapOpen:
			if len(expectKey) > 0 {
				expectKey[len(expectKey)-1] = true
			}
			depthIsMap = append(depthIsMap, true)
			expectKey = append(expectKey, true)
			keysSeen = append(keysSeen, map[string]bool{})
		case tok.TArrOpen:
			if len(expectKey) > 0 {
				expectKey[len(expectKey)-1] = true
			}
			depthIsMap = append(depthIsMap, false)
			expectKey = append(expectKey, false)
			keysSeen = append(keysSeen, nil)
		case tok.TMapClose, tok.TArrClose:
			depthIsMap = depthIsMap[:len(depthIsMap)-1]
			expectKey = expectKey[:len(expectKey)-1]
			keysSeen = keysSeen[:len(keysSeen)-1]
		default:
			if len(depthIsMap) > 0 && depthIsMap[len(depthIsMap)-1] {
				expectKey[len(expectKey)-1] = !expectKey[len(expectKey)-1]
			}
		}
	}
	return true
}

var cliCounter int

func runCLI(sub string, in []byte) string {
	cli := os.Getenv("REFMT_CLI")
	if cli == "" {
		return "-"
	}
	cmd := exec.Command(cli, sub)
	cmd.Stdin = bytes.NewReader(in)
	var out, errb bytes.Buffer
	cmd.Stdout = &out
	cmd.Stderr = &errb
	if err := cmd.Run(); err != nil {
		return "err"
	}
	return "ok:" + hexOrDash(out.Bytes())
}

// transcode: "<j2c|c2j> <hex> [oracle]"
func runTranscode(payload string) string {
	fs := strings.Fields(payload)
	dir := fs[0]
	var in []byte
	if fs[1] != "-" {
		in, _ = hex.DecodeString(fs[1])
	}
	rd := bytes.NewReader(in)
	var w bytes.Buffer
	var pump shared.TokenPump
	srcFmt, dstFmt := "j", "c"
	var numRead func() int
	if dir == "j2c" {
		jd := json.NewDecoder(rd)
		numRead = jd.VerifNumRead
		pump = shared.TokenPump{TokenSource: jd, TokenSink: cbor.NewEncoder(&w)}
	} else {
		srcFmt, dstFmt = "c", "j"
		cd := cbor.NewDecoder(cbor.DecodeOptions{}, rd)
		numRead = cd.VerifNumRead
		pump = shared.TokenPump{TokenSource: cd, TokenSink: json.NewEncoder(&w, json.EncodeOptions{})}
	}
	var perr error
	func() {
		defer func() {
			if r := recover(); r != nil {
				perr = fmt.Errorf("panic: %v", r)
			}
		}()
		perr = pump.Run()
	}()
	cliCounter++
	cli := "-"
	if cliCounter%40 == 1 || len(in) < 4 || (len(in) < 90 && bytes.IndexByte(in, 0xc3) >= 0 && cliCounter%3 == 0) {
		sub := map[string]string{"j2c": "json=cbor", "c2j": "cbor=json"}[dir]
		cli = runCLI(sub, in)
		// the hex flavours of the same converters must say the same thing
		if dir == "j2c" {
			if h := runCLI("json=cbor.hex", in); strings.HasPrefix(h, "ok:") && strings.HasPrefix(cli, "ok:") {
				raw, _ := hex.DecodeString(h[3:])
				if dec, err := hex.DecodeString(strings.TrimSpace(string(raw))); err != nil || "ok:"+hexOrDash(dec) != cli {
					cli = "hexflavour-differs:" + h[3:]
				}
			} else if strings.HasPrefix(h, "ok:") != strings.HasPrefix(cli, "ok:") {
				cli = "hexflavour-differs:" + h
			}
		} else {
			if h := runCLI("cbor.hex=json", []byte(hex.EncodeToString(in))); h != cli {
				cli = "hexflavour-differs:" + h
			}
		}
	}
	if perr != nil {
		if strings.HasPrefix(perr.Error(), "panic") {
			return "panic | cli=" + cli
		}
		return "err | cli=" + cli
	}
	consumed := numRead()
	// (1) does the output denote the same value as the input?  (2) slow route agrees?
	inToks, inOK := decodeTokens(srcFmt, in)
	outToks, outOK := decodeTokens(dstFmt, w.Bytes())
	common := inOK && inCommonModel(inToks)
	val := false
	if dir == "j2c" {
		// the CBOR output (read by the real CBOR decoder) against encoding/json's reading of the input
		norm := append([]tok.Token{}, outToks...)
		for i := range norm {
			if norm[i].Type == tok.TUint && norm[i].Uint <= math.MaxInt64 {
				norm[i] = tok.Token{Type: tok.TInt, Int: int64(norm[i].Uint)}
			}
		}
		if inOK && outOK && ejson.Valid(in[:consumed]) {
			a, unrep := compareWithEncodingJSON(in[:consumed], norm)
			val = a && !unrep
		} else if inOK && outOK {
			val = canonTokens(inToks) == canonTokens(outToks) // lenient input (trailing comma): compare refmt's own readings
		}
	} else {
		// the JSON output read by encoding/json against the tokens of the CBOR input
		val = inOK && ejson.Valid(w.Bytes()) && sameValueAsTokens(w.Bytes(), inToks)
	}
	slow := "-"
	if common {
		var v interface{}
		var err error
		if dir == "j2c" {
			err = refmt.Unmarshal(json.DecodeOptions{}, in[:consumed], &v)
		} else {
			err = refmt.Unmarshal(cbor.DecodeOptions{}, in[:consumed], &v)
		}
		if err == nil {
			var sb []byte
			if dir == "j2c" {
				sb, err = refmt.Marshal(cbor.EncodeOptions{}, v)
			} else {
				sb, err = refmt.Marshal(json.EncodeOptions{}, v)
			}
			if err == nil {
				if dstFmt == "j" {
					slow = fmt.Sprint(b2i(canonJSONText(sb) == canonJSONText(w.Bytes())))
				} else {
					st, ok := decodeTokens(dstFmt, sb)
					slow = fmt.Sprint(b2i(ok && outOK && canonTokens(st) == canonTokens(outToks)))
				}
			} else {
				slow = "0"
			}
		} else {
			slow = "0"
		}
	}
	return fmt.Sprintf("ok %s @%d | common=%d val=%d slow=%s cli=%s", hexOrDash(w.Bytes()), consumed, b2i(common), b2i(val), slow, cli)
}

func genTranscode(g *G, tier string, emit func(string)) {
	n := 10000
	if tier == "thorough" {
		n = 200000
	}
	emitC := func(item []byte) {
		toks, _ := decodeTokens("c", item)
		emit("c2j " + hexOrDash(item) + " " + floatOracleFor(toks))
	}
	for _, d := range []string{`null`, `true`, `[1,2.5,"x"]`, `{"a":{"b":[null,-0.0,1e300]}}`, ` [ 1 , 2 , ] `, `"é😀é"`, `18446744073709551615`, `-9223372036854775808`, `1e20`, `{"a":1,"a":2}`, `[1e400]`, `{1:2}`, `nul`, `[1,2`, ``, `123456789012345678901234567890`} {
		emit("j2c " + hexOrDash([]byte(d)))
	}
	for _, d := range []string{"f6", "83010203", "9f0102ff", "a161616162", "bf61610161629f01ffff", "f93c00", "fa3fc00000", "fb3ff8000000000000", "fb4415af1d78b58c40", "1bffffffffffffffff", "3bffffffffffffff7f",
		"7f616161ff", "5f4161ff", "4161", "c24101", "a10102", "f97e00", "fb7ff0000000000000", "61ff", "8201", "ff", "", "a2616101616102", "826161f7"} {
		b, _ := hex.DecodeString(d)
		emitC(b)
	}
	for i := 0; i < n; i++ {
		var sb strings.Builder
		g.jsonDoc(0, &sb)
		doc := []byte(sb.String())
		emit("j2c " + hexOrDash(doc))
		if g.chance(0.15) && len(doc) > 1 {
			emit("j2c " + hexOrDash(doc[:g.intn(len(doc))]))
		}
		var item []byte
		g.cborItemCommon(0, &item, g.chance(0.8))
		emitC(item)
		if g.chance(0.15) && len(item) > 1 {
			emitC(item[:g.intn(len(item))])
		}
		// the error side: a head replaced by one with a reserved additional-information value (28..30),
		// or an arbitrary byte changed
		if g.chance(0.2) && len(item) > 0 {
			m := append([]byte{}, item...)
			k := g.intn(len(m))
			if g.chance(0.7) {
				m[k] = m[k]&0xe0 | byte(28+g.intn(3))
			} else {
				m[k] = byte(g.intn(256))
			}
			emitC(append(m, make([]byte, g.intn(3)*8)...))
		}
	}
	// strings and keys of every length around the readers' 32-byte scratch buffer, followed by more items
	for n := 0; n <= 70; n++ {
		str := strings.Repeat("k", n)
		val := strings.Repeat("v", n)
		emit("j2c " + hexOrDash([]byte(`{"`+str+`":"`+val+`","z":["`+val+`",1,"t"]}`)))
		var item []byte
		head := func(major byte, v int) {
			if v < 24 {
				item = append(item, major|byte(v))
			} else {
				item = append(item, major|24, byte(v))
			}
		}
		item = append(item, 0xa2)
		head(0x60, n)
		item = append(item, str...)
		head(0x60, n)
		item = append(item, val...)
		item = append(item, 0x61, 'z', 0x83)
		head(0x60, n)
		item = append(item, val...)
		item = append(item, 0x01, 0x61, 't')
		emitC(item)
		emit("j2c " + hexOrDash([]byte(`["é`+val+`","ü"]`))) // non-ASCII, through the command-line converters as well
	}
	// definite-length containers nested past every growth step of the decoder's bookkeeping (10, 20, 40 open
	// containers), each level followed by a sibling, so that a lost count re-nests the document
	for depth := 1; depth <= 45; depth++ {
		for shape := 0; shape < 3; shape++ {
			var item []byte
			for d := 0; d < depth; d++ {
				switch {
				case shape == 0 || (shape == 2 && d%2 == 0):
					item = append(item, 0x82) // [ <nested>, d ]
				default:
					item = append(item, 0xa2, 0x61, 'n') // { "n": <nested>, "s": d }
				}
			}
			item = append(item, 0x80)
			for d := depth - 1; d >= 0; d-- {
				if shape == 0 || (shape == 2 && d%2 == 0) {
					item = append(item, 0x18, byte(d))
				} else {
					item = append(item, 0x61, 's', 0x18, byte(d))
				}
			}
			emitC(item)
			emitC(append(append([]byte{}, item...), 0x01)) // more data follows
		}
	}
	// every escape class of the JSON string printer with ordinary text before, between and after: quotes,
	// backslash, controls, U+2028 / U+2029 (escaped unconditionally), invalid UTF-8, as values and as keys
	specials := []string{"\u2028", "\u2029", "\"", "\\", "\n", "\u0001", "\u007f", "é", "😀", "\u00ad", "\ufeff"}
	unq := func(e string) string { var r string; json2go(e, &r); return r }
	for _, a := range specials {
		for _, b := range specials {
			for _, pat := range []string{"head%stail", "%s", "h%s", "%st", "h%s%st", "%sm%s", "hh%smm%stt"} {
				str := strings.Replace(strings.Replace(pat, "%s", unq(a), 1), "%s", unq(b), 1)
				var item []byte
				item = append(item, 0xa1)
				item = appendCborText(item, str)
				item = append(item, 0x82)
				item = appendCborText(item, str)
				item = appendCborText(item, "z")
				emitC(item)
			}
		}
	}
	for major := 0; major < 8; major++ {
		for ai := 28; ai <= 31; ai++ {
			h := byte(major<<5 | ai)
			emitC(append([]byte{h}, make([]byte, 17)...))
			emitC(append([]byte{0x82, 0x01, h}, bytes.Repeat([]byte{0x07}, 17)...))
		}
	}
}

// cborItemCommon: like cborItem but (when common) restricted to the data model shared with JSON.
func (g *G) cborItemCommon(depth int, out *[]byte, common bool) {
	if !common {
		g.cborItem(depth, out)
		return
	}
	head := func(major byte, v uint64) {
		switch {
		case v < 24:
			*out = append(*out, major|byte(v))
		case v < 256:
			*out = append(*out, major|24, byte(v))
		default:
			*out = append(*out, major|25, byte(v>>8), byte(v))
		}
	}
	key := func() {
		s := []string{"a", "b", "key", "é", "", "k2"}[g.intn(6)]
		head(0x60, uint64(len(s)))
		*out = append(*out, s...)
	}
	k := g.intn(10)
	if depth >= 4 && k >= 6 {
		k = g.intn(6)
	}
	switch k {
	case 0:
		v := g.u64()
		*out = append(*out, 0x1b, byte(v>>56), byte(v>>48), byte(v>>40), byte(v>>32), byte(v>>24), byte(v>>16), byte(v>>8), byte(v))
	case 1:
		v := g.u64() & math.MaxInt64
		*out = append(*out, 0x3b, byte(v>>56), byte(v>>48), byte(v>>40), byte(v>>32), byte(v>>24), byte(v>>16), byte(v>>8), byte(v))
	case 2:
		s := []string{"", "x", "héllo", "😀", "a\"b\\c\n"}[g.intn(5)]
		if g.chance(0.3) {
			*out = append(*out, 0x7f)
			head(0x60, uint64(len(s)))
			*out = append(*out, s...)
			*out = append(*out, 0xff)
		} else {
			head(0x60, uint64(len(s)))
			*out = append(*out, s...)
		}
	case 3:
		switch g.intn(3) {
		case 0:
			v := uint16(g.r.Uint32())
			if v&0x7c00 == 0x7c00 {
				v &^= 0x0400
			}
			*out = append(*out, 0xf9, byte(v>>8), byte(v))
		case 1:
			v := g.r.Uint32()
			if v&0x7f800000 == 0x7f800000 {
				v &^= 0x00800000
			}
			*out = append(*out, 0xfa, byte(v>>24), byte(v>>16), byte(v>>8), byte(v))
		default:
			v := g.f64bits()
			if (v>>52)&0x7ff == 0x7ff {
				v &^= 1 << 52
			}
			*out = append(*out, 0xfb, byte(v>>56), byte(v>>48), byte(v>>40), byte(v>>32), byte(v>>24), byte(v>>16), byte(v>>8), byte(v))
		}
	case 4:
		*out = append(*out, []byte{0xf4, 0xf5, 0xf6}[g.intn(3)])
	case 5:
		head(0x00, uint64(g.intn(1000)))
	case 6:
		n := g.intn(4)
		head(0x80, uint64(n))
		for i := 0; i < n; i++ {
			g.cborItemCommon(depth+1, out, true)
		}
	case 7:
		n := g.intn(4)
		*out = append(*out, 0x9f)
		for i := 0; i < n; i++ {
			g.cborItemCommon(depth+1, out, true)
		}
		*out = append(*out, 0xff)
	case 8:
		n := g.intn(4)
		head(0xa0, uint64(n))
		for i := 0; i < n; i++ {
			key()
			g.cborItemCommon(depth+1, out, true)
		}
	default:
		n := g.intn(4)
		*out = append(*out, 0xbf)
		for i := 0; i < n; i++ {
			key()
			g.cborItemCommon(depth+1, out, true)
		}
		*out = append(*out, 0xff)
	}
}

func init() {
	register(&suite{name: "transcode", gen: genTranscode, run: runTranscode})
}

// canonJSONText: canonical rendering (sorted keys, numbers by value) of a JSON text read by encoding/json.
func canonJSONText(text []byte) string {
	d := ejson.NewDecoder(bytes.NewReader(text))
	d.UseNumber()
	var rec func() string
	rec = func() string {
		t, err := d.Token()
		if err != nil {
			return "?"
		}
		switch v := t.(type) {
		case ejson.Delim:
			if v == '{' {
				var ents []string
				for d.More() {
					k := rec()
					ents = append(ents, k+":"+rec())
				}
				d.Token()
				sort.Strings(ents)
				return "{" + strings.Join(ents, ",") + "}"
			}
			var items []string
			for d.More() {
				items = append(items, rec())
			}
			d.Token()
			return "[" + strings.Join(items, ",") + "]"
		case string:
			return fmt.Sprintf("s%q", v)
		case bool:
			return fmt.Sprint(v)
		case nil:
			return "null"
		case ejson.Number:
			s := string(v)
			if !strings.ContainsAny(s, ".eE") {
				bi, ok := new(big.Int).SetString(s, 10)
				if ok {
					return "i" + bi.String()
				}
			}
			f, _ := strconv.ParseFloat(s, 64)
			if f == math.Trunc(f) && !math.IsInf(f, 0) {
				bf := new(big.Float).SetFloat64(f)
				bi, _ := bf.Int(nil)
				return "i" + bi.String()
			}
			return fmt.Sprintf("f%016x", math.Float64bits(f))
		}
		return "?"
	}
	return rec()
}

// json2go reads a JSON string literal body written with \u escapes (generator-side helper: Go's strconv, not refmt).
func json2go(esc string, out *string) {
	r, err := strconv.Unquote(`"` + esc + `"`)
	if err != nil {
		r = esc
	}
	*out = r
}

func appendCborText(item []byte, s string) []byte {
	n := len(s)
	switch {
	case n < 24:
		item = append(item, 0x60|byte(n))
	case n < 256:
		item = append(item, 0x78, byte(n))
	default:
		item = append(item, 0x79, byte(n>>8), byte(n))
	}
	return append(item, s...)
}
