package main

import (
	"encoding/hex"
	"fmt"
	"io"
	"math"
	"strconv"
	"strings"

	"github.com/polydawn/refmt/cbor"
	"github.com/polydawn/refmt/tok"
)

// chunkWriter records every Write call.
type chunkWriter struct {
	buf    []byte
	chunks []int
}

func (w *chunkWriter) Write(p []byte) (int, error) {
	w.buf = append(w.buf, p...)
	w.chunks = append(w.chunks, len(p))
	return len(p), nil
}

func chunkLens(c []int) string {
	if len(c) == 0 {
		return "-"
	}
	ss := make([]string, len(c))
	for i, n := range c {
		ss[i] = strconv.Itoa(n)
	}
	return strings.Join(ss, ",")
}

type tokenSink interface {
	Step(*tok.Token) (bool, error)
}

// driveSink feeds tokens until done / error / panic, like TokenPump does.
// Each step gets its own copy of the token (a sink must not depend on the slot's identity).
func driveSink(sink tokenSink, ts []tok.Token) (class string, used int) {
	class = "starved"
	used = len(ts)
	defer func() {
		if r := recover(); r != nil {
			class = "panic"
		}
	}()
	for i := range ts {
		t := ts[i]
		used = i + 1
		done, err := sink.Step(&t)
		if err != nil {
			class = "err"
			return
		}
		if done {
			class = "fin"
			return
		}
	}
	used = len(ts)
	return
}

// poisonSink uses the encoder for something else first — a stream abandoned inside containers, right after
// a key, a complete container, a complete scalar, in rotation — and then calls Reset, which is documented to
// make the encoder ready for a new value whatever came before.
var sinkPoison int

func poisonSink(enc tokenSink) {
	r, ok := enc.(interface{ Reset() })
	if !ok {
		return
	}
	sinkPoison++
	seqs := [][]tok.Token{
		{{Type: tok.TMapOpen, Length: -1}, {Type: tok.TString, Str: "k"}, {Type: tok.TArrOpen, Length: -1}, {Type: tok.TInt, Int: 1}},
		{{Type: tok.TArrOpen, Length: 1}, {Type: tok.TMapOpen, Length: 0}, {Type: tok.TMapClose}, {Type: tok.TArrClose}},
		{{Type: tok.TMapOpen, Length: 1}, {Type: tok.TString, Str: "k"}},
		{{Type: tok.TInt, Int: 5}},
		{{Type: tok.TArrOpen, Length: 2}, {Type: tok.TInt, Int: 1}},
		{{Type: tok.TMapOpen, Length: 1}, {Type: tok.TString, Str: "k"}, {Type: tok.TArrOpen, Length: 0}, {Type: tok.TArrClose}, {Type: tok.TMapClose}},
	}
	// every fourth time: a document nested past the encoders' pre-sized stacks (10 levels; 11, 12, 25, 45 deep in rotation),
	// completed or abandoned at the bottom
	seq := seqs[sinkPoison%len(seqs)]
	if sinkPoison%4 == 3 {
		depth := []int{11, 12, 25, 45}[(sinkPoison/4)%4]
		seq = nil
		for d := 0; d < depth; d++ {
			if (d+sinkPoison/16)%2 == 0 {
				seq = append(seq, tok.Token{Type: tok.TArrOpen, Length: -1 + 2*((sinkPoison/32)%2)})
			} else {
				seq = append(seq, tok.Token{Type: tok.TMapOpen, Length: -1 + 2*((sinkPoison/32)%2)}, tok.Token{Type: tok.TString, Str: "k"})
			}
		}
		seq = append(seq, tok.Token{Type: tok.TInt, Int: 1})
		if (sinkPoison/64)%2 == 0 {
			for d := depth - 1; d >= 0; d-- {
				if (d+sinkPoison/16)%2 == 0 {
					seq = append(seq, tok.Token{Type: tok.TArrClose})
				} else {
					seq = append(seq, tok.Token{Type: tok.TMapClose})
				}
			}
		}
	}
	for _, t := range seq {
		slot := t
		func() {
			defer func() { recover() }()
			enc.Step(&slot)
		}()
	}
	r.Reset()
}

func runCborEnc(payload string) string {
	ts, err := parseTokens(payload)
	if err != nil {
		return "harness-error " + err.Error()
	}
	w := &chunkWriter{}
	var dst io.Writer = w
	if len(payload)%2 == 1 {
		dst = struct{ io.Writer }{w} // a writer without WriteString: the encoder's other way of writing strings
	}
	enc := cbor.NewEncoder(dst)
	poisonSink(enc)
	w.buf, w.chunks = nil, nil
	class, used := driveSink(enc, ts)
	res := fmt.Sprintf("%s %d %s %s", class, used, hexOrDash(w.buf), chunkLens(w.chunks))
	if class == "fin" {
		// round trip through the real decoder, with trailing bytes that must be left alone
		// (delivered whole, a byte at a time, in halves, or with the error arriving together with the last bytes)
		via := []string{" whole", " one", " half", " dataerr"}[len(w.buf)%4]
		res += " | rt: " + runCborDec("0 "+hex.EncodeToString(w.buf)+"0102"+via)
	}
	return res
}

var cborTreeOpts = treeOpts{maxDepth: 5, maxTokens: 120, tags: true, bytes: true, keyKinds: "ssiu", indef: true, def: true, floats: true, uints: true}

func genCborEnc(g *G, tier string, emit func(string)) {
	// (a) every head-size boundary +-2, on every place a head occurs
	var bs []uint64
	for _, b := range []uint64{0, 23, 24, 255, 256, 65535, 65536, 1<<32 - 1, 1 << 32, 1<<63 - 1, 1 << 63, math.MaxUint64} {
		for d := -2; d <= 2; d++ {
			v := b + uint64(d)
			bs = append(bs, v)
		}
	}
	for _, v := range bs {
		emit("u" + strconv.FormatUint(v, 10))
		if v <= math.MaxInt64 {
			emit("i" + strconv.FormatInt(int64(v), 10))
			emit("i" + strconv.FormatInt(-1-int64(v), 10))
			emit("#" + strconv.FormatUint(v, 10) + "n")
			emit("#" + strconv.FormatUint(v, 10) + "[0 ]")
			emit("[1 #" + strconv.FormatUint(v, 10) + "s61 ]")
			// declared lengths (the encoder does not count entries)
			emit("[" + strconv.FormatUint(v, 10) + " ]")
			emit("{" + strconv.FormatUint(v, 10) + " }")
		}
		if v <= 70000 {
			emit("s" + strings.Repeat("61", int(v)))
			emit("x" + strings.Repeat("00", int(v)))
		}
	}
	// all values below 2^24 (thorough) / a stride (quick)
	lim, stride := uint64(1<<24), uint64(1021)
	if tier == "thorough" {
		stride = 1
	}
	for v := uint64(0); v < lim; v += stride {
		emit("u" + strconv.FormatUint(v, 10))
		emit("i" + strconv.FormatInt(-1-int64(v), 10))
	}
	// floats
	for _, b := range floatSpecials {
		emit("f" + pad16(strconv.FormatUint(b, 16)))
	}
	// (b) random trees
	n := 20000
	if tier == "thorough" {
		n = 400000
	}
	for i := 0; i < n; i++ {
		var out []string
		g.tree(cborTreeOpts, 0, &out)
		emit(strings.Join(out, " "))
	}
	// (c) deep nesting
	for _, depth := range []int{100, 1000, 5000} {
		var out []string
		for i := 0; i < depth; i++ {
			if i%2 == 0 {
				out = append(out, "[-1")
			} else {
				out = append(out, "{1", "s6b")
			}
		}
		out = append(out, "n")
		for i := depth - 1; i >= 0; i-- {
			if i%2 == 0 {
				out = append(out, "]")
			} else {
				out = append(out, "}")
			}
		}
		emit(strings.Join(out, " "))
	}
	// (d) all token sequences up to a bounded length over a structural alphabet,
	// as a prefix tree: a prefix is extended only while the encoder neither erred nor finished.
	maxLen := 5
	if tier == "thorough" {
		maxLen = 7
	}
	genSeqTree(encAlphabet, maxLen, emit, func(p string) bool {
		r := runCborEnc(p)
		return strings.HasPrefix(r, "starved")
	})
	genDeep(emit)
	genLengths(emit)
	// (e) strings of every length around the decoder-side scratch buffer followed by further items (the round trip
	// reads them back through the real decoder and looks at the tokens when the run is over); floats after heads of
	// every size (the encoder's scratch bytes are re-sliced per head)
	for n := 0; n <= 70; n++ {
		for _, k := range []string{"s", "x"} {
			one := k + strings.Repeat(fmt.Sprintf("%02x", 'a'+n%26), n)
			emit("[4 " + one + " " + k + "56414c5545 u1000 " + one + " ]")
			emit("{2 s6b " + one + " s" + one[1:] + "7a f3ff8000000000001 }")
			emit("[-1 " + one + " u70000 " + one + " f3ff8000000000001 ]")
		}
	}
	for _, v := range []uint64{0, 23, 24, 255, 256, 65535, 65536, 1<<32 - 1, 1 << 32} {
		u := strconv.FormatUint(v, 10)
		emit("[2 u" + u + " f3ff8000000000001 ]")
		emit("[2 i-" + strconv.FormatUint(v+1, 10) + " fbff0000000000000 ]")
		emit("[" + u + " f3ff8000000000001")
		emit("#" + u + "f3ff8000000000001")
		emit("{1 s" + strings.Repeat("61", int(v%300)) + " f3ff8000000000001 }")
	}
	// (f) definite containers nested 1..45 deep, each level followed by a sibling
	for depth := 1; depth <= 45; depth++ {
		for shape := 0; shape < 3; shape++ {
			var out, tail []string
			for d := 0; d < depth; d++ {
				if shape == 0 || (shape == 2 && d%2 == 0) {
					out = append(out, "[2")
					tail = append([]string{"u" + strconv.Itoa(d), "]"}, tail...)
				} else {
					out = append(out, "{2", "s6e")
					tail = append([]string{"s73", "u" + strconv.Itoa(d), "}"}, tail...)
				}
			}
			out = append(out, "[0", "]")
			emit(strings.Join(append(out, tail...), " "))
		}
	}
}

var encAlphabet = []string{"{1", "{-1", "}", "[2", "[-1", "]", "n", "s6b", "x00", "bt", "i-1", "u24", "f3ff0000000000000", "#7s6b", "#7[-1", "#7{0"}

// genSeqTree enumerates all sequences over alphabet up to maxLen, extending a
// prefix only while extend(prefix) says the consumer still wants tokens.
func genSeqTree(alphabet []string, maxLen int, emit func(string), extend func(string) bool) {
	var rec func(prefix []string)
	rec = func(prefix []string) {
		for _, a := range alphabet {
			seq := append(append([]string{}, prefix...), a)
			p := strings.Join(seq, " ")
			emit(p)
			if len(seq) < maxLen && extend(p) {
				rec(seq)
			}
		}
	}
	rec(nil)
}

func init() {
	register(&suite{name: "cbor-enc", gen: genCborEnc, run: runCborEnc})
}

func hexOrDash(b []byte) string {
	if len(b) == 0 {
		return "-"
	}
	return hex.EncodeToString(b)
}
