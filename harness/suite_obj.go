package main

import (
	"fmt"
	"math"
	"reflect"
	"strconv"
	"strings"

	"github.com/polydawn/refmt/obj"
	"github.com/polydawn/refmt/obj/atlas"
	"github.com/polydawn/refmt/tok"
)

// ---------- obj-marshal -----------------------------------------------------------

var poisonOrder int

// marshalTokens drives obj.Marshaller over v; returns class, tokens emitted.
func marshalTokens(atl atlas.Atlas, v interface{}, budget int) (class string, toks []tok.Token) {
	defer func() {
		if r := recover(); r != nil {
			class = "panic"
		}
	}()
	m := obj.NewMarshaller(atl)
	// a long-lived instance: an earlier call that failed in the middle of a nested value must not matter
	func() {
		defer func() { recover() }()
		if m.Bind(map[string]interface{}{"a": []interface{}{1, map[string]interface{}{"b": make(chan int)}}, "z": 1}) == nil {
			var slot tok.Token
			for i := 0; i < 20; i++ {
				if done, err := m.Step(&slot); done || err != nil {
					break
				}
			}
		}
	}()
	// ... and streams the consumer abandoned at every early point (right after a map key, inside a nested
	// list, ...): Bind is a full reset
	// (the LAST abandoned stream ends right after a key: of the top-level map or of the nested one, alternately)
	poisonOrder++
	stops := []int{1, 3, 5, 6, 4, 2}
	if poisonOrder%2 == 0 {
		stops = []int{1, 3, 5, 6, 2, 4}
	}
	for _, stop := range stops {
		func() {
			defer func() { recover() }()
			if m.Bind(map[string]interface{}{"a": map[string]interface{}{"k": []interface{}{1, 2}}, "b": 2}) == nil {
				var slot tok.Token
				for i := 0; i < stop; i++ {
					if done, err := m.Step(&slot); done || err != nil {
						break
					}
				}
			}
		}()
	}
	if err := m.Bind(v); err != nil {
		return "binderr", nil
	}
	var slot tok.Token
	for i := 0; i < budget; i++ {
		done, err := m.Step(&slot)
		if err != nil {
			return "err", toks
		}
		t := slot
		if t.Type == tok.TBytes && t.Bytes != nil {
			t.Bytes = append([]byte{}, t.Bytes...)
		}
		toks = append(toks, t)
		if done {
			return "ok", toks
		}
	}
	return "hang", toks
}

func projTokens(ts []tok.Token) string {
	ss := make([]string, len(ts))
	for i, t := range ts {
		ss[i] = printTokenProjected(t)
	}
	return strings.Join(ss, " ")
}

func valueSize(v reflect.Value) int {
	n := 1
	switch v.Kind() {
	case reflect.Slice, reflect.Array:
		for i := 0; i < v.Len(); i++ {
			n += valueSize(v.Index(i))
		}
	case reflect.Map:
		for _, k := range v.MapKeys() {
			n += 1 + valueSize(v.MapIndex(k))
		}
	case reflect.Ptr, reflect.Interface:
		if !v.IsNil() {
			n += valueSize(v.Elem())
		}
	case reflect.Struct:
		for i := 0; i < v.NumField(); i++ {
			n += valueSize(v.Field(i))
		}
	}
	return n
}

func runObjMarshal(payload string) string {
	env, ad, t, rest, err := parseObjHeader(payload)
	if err != nil || len(rest) < 1 {
		return fmt.Sprintf("harness-error %v", err)
	}
	atl, err := ad.build()
	if err != nil {
		return "harness-error atlas: " + err.Error()
	}
	v, err := env.valueOfSx(t, rest[0])
	if err != nil {
		return "harness-error value: " + err.Error()
	}
	class, toks := marshalTokens(atl, v.Interface(), 20*valueSize(v)+50)
	return fmt.Sprintf("%s %d | %s", class, len(toks), projTokens(toks))
}

// ---------- obj-unmarshal ---------------------------------------------------------

func runObjUnmarshal(payload string) (res string) {
	head, tokS, _ := strings.Cut(payload, "|")
	_, ad, t, _, err := parseObjHeader(head)
	if err != nil {
		return fmt.Sprintf("harness-error %v", err)
	}
	atl, err := ad.build()
	if err != nil {
		return "harness-error atlas: " + err.Error()
	}
	ts, err := parseTokens(tokS)
	if err != nil {
		return "harness-error tokens: " + err.Error()
	}
	target := reflect.New(t.rt)
	step := 0
	defer func() {
		if r := recover(); r != nil {
			res = fmt.Sprintf("panic %d", step)
		}
	}()
	u := obj.NewUnmarshaller(atl)
	// a long-lived instance: an earlier call abandoned in the middle of a nested value must not matter
	func() {
		defer func() { recover() }()
		var junk map[string][]map[string]int
		if u.Bind(&junk) == nil {
			pre, _ := parseTokens("{-1 s61 [-1 {-1 s62 i1 s63 bt")
			for i := range pre {
				if done, err := u.Step(&pre[i]); done || err != nil {
					break
				}
			}
		}
	}()
	if err := u.Bind(target.Interface()); err != nil {
		return "binderr"
	}
	for i := range ts {
		step = i + 1
		tk := ts[i]
		done, err := u.Step(&tk)
		if err != nil {
			return fmt.Sprintf("err %d", step)
		}
		if done {
			return fmt.Sprintf("done %d %s", step, printValue(t, target.Elem()))
		}
	}
	return "starved"
}

// ---------- token trees (for rendering variations) -------------------------------

type tnode struct {
	open  tok.Token
	leaf  bool
	isMap bool
	kids  []*tnode // arrays: items; maps: k0 v0 k1 v1 ...
}

func buildTree(ts []tok.Token, pos *int) *tnode {
	if *pos >= len(ts) {
		return nil
	}
	t := ts[*pos]
	*pos++
	switch t.Type {
	case tok.TMapOpen, tok.TArrOpen:
		n := &tnode{open: t, isMap: t.Type == tok.TMapOpen}
		closer := tok.TArrClose
		if n.isMap {
			closer = tok.TMapClose
		}
		for *pos < len(ts) && ts[*pos].Type != closer {
			k := buildTree(ts, pos)
			if k == nil {
				return nil
			}
			n.kids = append(n.kids, k)
		}
		*pos++
		return n
	case tok.TMapClose, tok.TArrClose:
		return nil
	}
	return &tnode{open: t, leaf: true}
}

// render flattens a tree with spelling choices drawn from g.
func (g *G) render(n *tnode, vary bool, out *[]string) {
	t := n.open
	if n.leaf {
		if vary {
			switch t.Type {
			case tok.TInt:
				if t.Int >= 0 && g.chance(0.4) {
					t = tok.Token{Type: tok.TUint, Uint: uint64(t.Int), Tagged: t.Tagged, Tag: t.Tag}
				}
			case tok.TUint:
				if t.Uint <= math.MaxInt64 && g.chance(0.4) {
					t = tok.Token{Type: tok.TInt, Int: int64(t.Uint), Tagged: t.Tagged, Tag: t.Tag}
				}
			case tok.TFloat64:
				f := t.Float64
				if f == math.Trunc(f) && math.Abs(f) < 1<<53 && g.chance(0.4) {
					t = tok.Token{Type: tok.TInt, Int: int64(f), Tagged: t.Tagged, Tag: t.Tag}
				}
			}
		}
		*out = append(*out, printToken(t))
		return
	}
	if vary && g.chance(0.5) {
		t.Length = -1
	}
	*out = append(*out, printToken(t))
	if n.isMap {
		np := len(n.kids) / 2
		order := make([]int, np)
		for i := range order {
			order[i] = i
		}
		if vary {
			order = g.r.Perm(np)
		}
		for _, i := range order {
			g.render(n.kids[2*i], false, out) // keys are rendered as they are
			g.render(n.kids[2*i+1], vary, out)
		}
		*out = append(*out, "}")
	} else {
		for _, k := range n.kids {
			g.render(k, vary, out)
		}
		*out = append(*out, "]")
	}
}

var objTokenAlphabet = []string{"{-1", "{1", "}", "[-1", "[2", "]", "n", "s61", "s6b", "s72", "x0102", "bt", "i-1", "i300", "u7", "u18446744073709551615", "f3ff8000000000000", "#50s61", "#7{-1", "#99n"}

// ---------- generators ---------------------------------------------------------------

var optsFull = genOpts{transforms: true, unions: true, tags: true, bad: true, embedded: true}
var optsJSON = genOpts{jsonSafe: true, transforms: true, unions: true, tags: false, embedded: true}

func (g *G) newCase(o genOpts) (*objCase, *TD, reflect.Value) {
	c := newObjCase()
	c.atl.mode = []int{0, 0, 1, 2}[g.intn(4)]
	t := g.genType(c, o, 0)
	if t.k == "a" || t.k == "if" {
		// a value of static interface type can only be handed to Bind behind a pointer
		t = &TD{k: "pt", elem: t, rt: reflect.PtrTo(t.rt)}
	}
	if o.tags {
		g.tagTransforms(c)
	}
	v := g.genValue(c, t, o, 0)
	return c, t, v
}

func genObjMarshal(g *G, tier string, emit func(string)) {
	n := 40000
	if tier == "thorough" {
		n = 800000
	}
	for i := 0; i < n; i++ {
		c, t, v := g.newCase(optsFull)
		emit(c.header(t) + " " + printValue(t, v))
		g.count("type." + t.k)
	}
	// structs with every emptiness combination of omitempty fields
	for nf := 1; nf <= 4; nf++ {
		for mask := 0; mask < 1<<uint(nf); mask++ {
			for omitMask := 0; omitMask < 1<<uint(nf); omitMask++ {
				c := newObjCase()
				st := &TD{k: "st", n: 100}
				var sf []reflect.StructField
				kinds := []string{"i", "s", "(sl i)", "(pt i)"}
				for i := 0; i < nf; i++ {
					ft := c.env.mustParseType(kinds[i%4])
					st.field = append(st.field, ft)
					st.names = append(st.names, fmt.Sprintf("F%d", i))
					sf = append(sf, reflect.StructField{Name: fmt.Sprintf("F%d", i), Type: ft.rt})
				}
				st.rt = reflect.StructOf(sf)
				c.env.structs[100] = st
				c.env.order = append(c.env.order, 100)
				ad := &AD{t: st, kind: "smap"}
				for i := 0; i < nf; i++ {
					ad.flds = append(ad.flds, fldD{name: fmt.Sprintf("k%d", i), route: []int{i}, t: st.field[i], omit: omitMask&(1<<uint(i)) != 0})
				}
				c.atl.entries = append(c.atl.entries, ad)
				v := reflect.New(st.rt).Elem()
				for i := 0; i < nf; i++ {
					if mask&(1<<uint(i)) != 0 {
						switch i % 4 {
						case 0:
							v.Field(i).SetInt(5)
						case 1:
							v.Field(i).SetString("x")
						case 2:
							v.Field(i).Set(reflect.ValueOf([]int{1}))
						case 3:
							x := 0
							v.Field(i).Set(reflect.ValueOf(&x))
						}
					}
				}
				emit(c.header(st) + " " + printValue(st, v))
			}
		}
	}
}

func genObjUnmarshal(g *G, tier string, emit func(string)) {
	n := 6000
	if tier == "thorough" {
		n = 120000
	}
	for i := 0; i < n; i++ {
		o := optsFull
		o.bad = g.chance(0.1)
		c, t, v := g.newCase(o)
		atl, err := c.atl.build()
		if err != nil {
			continue
		}
		class, toks := marshalTokens(atl, v.Interface(), 20*valueSize(v)+50)
		if class != "ok" {
			// still exercise the target with something
			emit(c.header(t) + " | n")
			emit(c.header(t) + " | {-1 }")
			continue
		}
		pos := 0
		tree := buildTree(toks, &pos)
		if tree == nil {
			continue
		}
		head := c.header(t)
		// (1) the canonical rendering and a varied spelling
		var out []string
		g.render(tree, false, &out)
		emit(head + " | " + strings.Join(out, " "))
		out = nil
		g.render(tree, true, &out)
		emit(head + " | " + strings.Join(out, " "))
		// (2) every proper prefix (short renderings) / a random prefix
		if len(out) <= 12 {
			for k := 1; k < len(out); k++ {
				emit(head + " | " + strings.Join(out[:k], " "))
			}
		} else {
			emit(head + " | " + strings.Join(out[:g.intn(len(out))], " "))
		}
		// (3) single mutations: replace / delete / insert / duplicate a token
		for k := 0; k < 3 && len(out) > 0; k++ {
			m := append([]string{}, out...)
			p := g.intn(len(m))
			switch g.intn(5) {
			case 0:
				m[p] = objTokenAlphabet[g.intn(len(objTokenAlphabet))]
			case 1:
				m = append(m[:p], m[p+1:]...)
			case 2:
				m = append(m[:p], append([]string{objTokenAlphabet[g.intn(len(objTokenAlphabet))]}, m[p:]...)...)
			case 3:
				m = append(m[:p], append([]string{m[p]}, m[p:]...)...)
			default:
				// wrong declared length
				if strings.HasPrefix(m[p], "{") || strings.HasPrefix(m[p], "[") {
					m[p] = m[p][:1] + strconv.Itoa(g.intn(4))
				}
			}
			emit(head + " | " + strings.Join(m, " "))
		}
	}
	// (4) exhaustive short sequences against fixed targets
	maxLen := 3
	if tier == "thorough" {
		maxLen = 4
	}
	for _, target := range fixedTargets() {
		var rec func(prefix []string)
		rec = func(prefix []string) {
			for _, a := range objTokenAlphabet {
				seq := append(append([]string{}, prefix...), a)
				p := target + " | " + strings.Join(seq, " ")
				emit(p)
				if len(seq) < maxLen && runObjUnmarshal(p) == "starved" {
					rec(seq)
				}
			}
		}
		rec(nil)
	}
	// (4b) under an ignored struct key: every short token sequence over containers, closers and scalars
	// (well-formed or not), then the rest of the struct
	{
		target := fixedTargets()[7]
		alpha := []string{"[-1", "]", "{-1", "}", "[1", "{1", "i1", "s6b", "n"}
		var rec func(prefix []string)
		rec = func(prefix []string) {
			for _, a := range alpha {
				seq := append(append([]string{}, prefix...), a)
				emit(target + " | {-1 s69676e " + strings.Join(seq, " ") + " }")
				emit(target + " | {-1 s69676e " + strings.Join(seq, " ") + " s6b s61 }")
				emit(target + " | {2 s6b s61 s69676e " + strings.Join(seq, " ") + " }")
				if len(seq) < 3 {
					rec(seq)
				}
			}
		}
		rec(nil)
	}
	// (4c) a tagged transform type whose serial form is untyped, holding values of its own type (same tag)
	// directly inside the containers of its serial form
	{
		hdr := "(env (22 a)) (atlas 0 (e (st 22) 40 (tr 9 a))) "
		for _, tgt := range []string{"a", "(st 22)", "(sl (st 22))", "(mp s a)"} {
			for _, body := range []string{
				"#40[-1 #40i1 ]", "#40[2 #40i1 #40s61 ]", "#40[-1 #40[-1 #40s61 ] ]", "#40{-1 s6b #40i1 }", "#40{1 s6b #40[1 #40n ] }",
				"#40[-1 i1 #40i1 ]", "#40[-1 #40i1 i1 ]", "#40[-1 #41i1 ]", "#40[-1 #40{-1 s6b #40i2 s6a i3 } ]",
			} {
				switch tgt {
				case "(sl (st 22))":
					emit(hdr + tgt + " | [-1 " + body + " " + body + " ]")
				case "(mp s a)":
					emit(hdr + tgt + " | {-1 s78 " + body + " s79 " + body + " }")
				default:
					emit(hdr + tgt + " | " + body)
				}
			}
		}
	}
	// (5) numbers into every integer kind: boundaries +-2 (quick) and a sweep (thorough)
	kinds := []string{"i8", "i16", "i32", "i64", "i", "u8", "u16", "u32", "u64", "u", "up", "f32", "f64", "a", "(nm 1 i8)", "(nm 2 u16)"}
	var nums []string
	add := func(z int64) {
		nums = append(nums, "i"+strconv.FormatInt(z, 10))
		if z >= 0 {
			nums = append(nums, "u"+strconv.FormatUint(uint64(z), 10))
		}
	}
	for _, b := range []int64{0, 127, 128, 255, 256, 32767, 32768, 65535, 65536, math.MaxInt32, math.MaxInt32 + 1, math.MaxUint32, math.MaxUint32 + 1, math.MaxInt64, 1 << 53, 1<<53 + 1, 1 << 24, 1<<24 + 1} {
		for d := int64(-2); d <= 2; d++ {
			if b+d >= b-2 { // no overflow
				add(b + d)
				add(-(b + d))
			}
		}
	}
	add(math.MinInt64)
	for _, u := range []uint64{math.MaxInt64 + 1, math.MaxInt64 + 2, math.MaxUint64 - 1, math.MaxUint64} {
		nums = append(nums, "u"+strconv.FormatUint(u, 10))
	}
	nums = append(nums, "f3ff8000000000000", "f4024000000000000", "f7ff8000000000000", "f47efffffe0000000", "f47effffff0000000", "f36a0000000000000", "f3690000000000000", "f3ff0000010000000", "f3ff0000030000000")
	lim := int64(300)
	if tier == "thorough" {
		lim = 70000
	}
	for z := -lim; z <= lim; z++ {
		nums = append(nums, "i"+strconv.FormatInt(z, 10))
		if z >= 0 && z%3 == 0 {
			nums = append(nums, "u"+strconv.FormatInt(z, 10))
		}
	}
	for _, k := range kinds {
		hd := "(env) (atlas 0) " + k
		for _, nz := range nums {
			emit(hd + " | " + nz)
		}
	}
}

func fixedTargets() []string {
	st := "(env (100 s (sl i) (pt i8))) (atlas 0 (e (st 100) - (smap (fld 6b () s 0 0) (fld 72 (1) (sl i) 1 0) (fld 61 (2) (pt i8) 0 0) (fld 69676e () a 0 1))))"
	st = strings.Replace(st, "(fld 6b () s 0 0)", "(fld 6b (0) s 0 0)", 1)
	return []string{
		"(env) (atlas 0) a",
		"(env) (atlas 0) (mp s i)",
		"(env) (atlas 0) (sl s)",
		"(env) (atlas 0) (ar 1 b)",
		"(env) (atlas 0) (pt (pt i8))",
		"(env) (atlas 0) (X 2)",
		"(env) (atlas 0) x",
		st + " (st 100)",
		"(env (15 s) (14 s)) (atlas 0 (e (st 15) - (smap (fld 77 (0) s 0 0))) (e (st 14) 50 (tr 5 (st 15)))) a",
		"(env (20 i64) (21 s (pt i))) (atlas 0 (e (st 20) - (smap (fld 72 (0) i64 0 0))) (e (st 21) 7 (smap (fld 73 (0) s 0 0) (fld 6e (1) (pt i) 0 0))) (e (if 30) - (un (636972636c65 (st 20)) (737175617265 (st 21))))) (if 30)",
		"(env) (atlas 0 (e (nm 10 s) 50 (tr 1 s))) (sl (nm 10 s))",
		// sibling fields served by one slab row: a map with transformed struct keys, then plain string-keyed maps
		"(env (16 s s) (100 (mp (st 16) i) (mp s i) (mp s s))) (atlas 0 (e (st 16) - (tr 6 s)) (e (st 100) - (smap (fld 61 (0) (mp (st 16) i) 0 0) (fld 62 (1) (mp s i) 0 0) (fld 63 (2) (mp s s) 0 0)))) (st 100)",
		"(env (16 s s)) (atlas 0 (e (st 16) - (tr 6 s))) (sl a)",
		// kinds that cannot be serialized, below the top level: an error on the first token that reaches them
		"(env) (atlas 0) (sl bad)",
		"(env) (atlas 0) (mp s bad)",
		"(env) (atlas 0) (mp i s)",
	}
}

func init() {
	register(&suite{name: "obj-marshal", gen: genObjMarshal, run: runObjMarshal})
	register(&suite{name: "obj-unmarshal", gen: genObjUnmarshal, run: runObjUnmarshal})
}
