package main

import (
	"encoding/hex"
	"fmt"
	"io"
	"strconv"
	"strings"

	"github.com/polydawn/refmt/cbor"
	"github.com/polydawn/refmt/json"
	"github.com/polydawn/refmt/tok"
)

// faultyWriter: the k-th Write call (1-based) misbehaves; stop = every later call too.
type faultyWriter struct {
	k, calls int
	stop     bool
	kind     string // err | short | both
}

func (w *faultyWriter) Write(p []byte) (int, error) {
	w.calls++
	if w.calls == w.k || (w.stop && w.calls >= w.k) {
		switch w.kind {
		case "err":
			return len(p), errInjected
		case "short":
			if len(p) > 0 {
				return len(p) - 1, nil
			}
		default:
			return 0, errInjected
		}
	}
	return len(p), nil
}
func (w *faultyWriter) WriteString(s string) (int, error) { return w.Write([]byte(s)) }

func driveSinkErrIndex(sink tokenSink, ts []tok.Token) (res string) {
	defer func() {
		if r := recover(); r != nil {
			res = "panic"
		}
	}()
	for i := range ts {
		t := ts[i]
		done, err := sink.Step(&t)
		if err != nil {
			return fmt.Sprintf("err %d", i+1)
		}
		if done {
			return fmt.Sprintf("fin %d", i+1)
		}
	}
	return "starved"
}

// wfault: "<c|j> <err|short|both> <stop|once> <k> | <tokens>" (json: json-enc payload after the bar)
func runWFault(payload string) string {
	head, body, _ := strings.Cut(payload, "|")
	fs := strings.Fields(head)
	k, _ := strconv.Atoi(fs[3])
	w := &faultyWriter{k: k, stop: fs[2] == "stop", kind: fs[1]}
	if fs[0] == "c" {
		ts, err := parseTokens(body)
		if err != nil {
			return "harness-error " + err.Error()
		}
		return driveSinkErrIndex(cbor.NewEncoder(w), ts)
	}
	line, indent, toks := splitJsonEncPayload(body)
	ts, err := parseTokens(toks)
	if err != nil {
		return "harness-error " + err.Error()
	}
	return driveSinkErrIndex(json.NewEncoder(w, json.EncodeOptions{Line: line, Indent: indent}), ts)
}

// faultReader delivers data[:k] freely, then fails (once, or forever).
type faultReader struct {
	data     []byte
	pos, k   int
	stop     bool
	failed   bool
	withData bool // the call that delivers the last bytes before k returns the error along with them
}

func (r *faultReader) Read(p []byte) (int, error) {
	if len(p) == 0 {
		return 0, nil
	}
	if r.pos >= r.k && (r.stop || !r.failed) {
		r.failed = true
		return 0, errInjected
	}
	lim := len(r.data)
	if r.pos < r.k {
		lim = r.k
	}
	if r.pos >= len(r.data) {
		return 0, io.EOF
	}
	n := copy(p, r.data[r.pos:lim])
	r.pos += n
	if r.withData && r.pos == r.k && !r.failed {
		r.failed = true
		return n, errInjected
	}
	return n, nil
}

// rfault: "<c|j> <hex> | <k> <stop|once|stopd>"
func runRFault(payload string) string {
	head, tail, _ := strings.Cut(payload, "|")
	fs := strings.Fields(head)
	in, _ := hex.DecodeString(fs[1])
	tf := strings.Fields(tail)
	k, _ := strconv.Atoi(tf[0])
	rd := &faultReader{data: in, k: k, stop: tf[1] == "stop" || tf[1] == "stopd", withData: tf[1] == "stopd"}
	budget := 2*len(in) + 10
	var class string
	var toks []string
	var err error
	num := 0
	if fs[0] == "c" {
		dec := cbor.NewDecoder(cbor.DecodeOptions{}, rd)
		class, toks, err = driveSource(dec, budget)
		num = dec.VerifNumRead()
	} else {
		dec := json.NewDecoder(rd)
		class, toks, err = driveSource(dec, budget)
		num = dec.VerifNumRead()
	}
	switch class {
	case "ok":
		return fmt.Sprintf("ok @%d %s", num, strings.Join(toks, " "))
	case "err":
		return fmt.Sprintf("err %s %d", rerrName(err), len(toks))
	}
	return class
}

func genWFault(g *G, tier string, emit func(string)) {
	ndocs := 150
	if tier == "thorough" {
		ndocs = 3000
	}
	fixedC := []string{"n", "s6162", "x0001", "[2 i1 u300 ]", "[-1 s61 ]", "{1 s6b #7f3ff0000000000000 }", "{-1 s6b [0 ] }", "#5s" + strings.Repeat("61", 300), "[-1 [-1 [2 bt bf ] ] i-70000 ]", "s", "x"}
	fixedJ := []string{"n", "s6162", "s0a22", "[-1 i1 u300 ]", "{-1 s6b f3ff8000000000000 }", "{-1 s6b [-1 ] }", "[-1 [-1 [-1 bt bf ] ] i-70000 ]", "s", "s" + hexs("a\"b\\c\x01d é \xff"), "[-1 {-1 } {-1 s61 n } ]"}
	emitAll := func(fmtc string, body string, nwrites int) {
		for k := 1; k <= nwrites+1; k++ {
			for _, kind := range []string{"err", "short", "both"} {
				for _, mode := range []string{"stop", "once"} {
					emit(fmt.Sprintf("%s %s %s %d |%s", fmtc, kind, mode, k, body))
				}
			}
		}
	}
	countC := func(toks string) int {
		ts, _ := parseTokens(toks)
		w := &faultyWriter{k: -1}
		driveSinkErrIndex(cbor.NewEncoder(w), ts)
		return w.calls
	}
	countJ := func(body string) int {
		line, indent, toks := splitJsonEncPayload(body)
		ts, _ := parseTokens(toks)
		w := &faultyWriter{k: -1}
		driveSinkErrIndex(json.NewEncoder(w, json.EncodeOptions{Line: line, Indent: indent}), ts)
		return w.calls
	}
	for _, d := range fixedC {
		emitAll("c", d, countC(d))
	}
	for _, d := range fixedJ {
		for _, ws := range [][2]string{{"~", "~"}, {"0a", "09"}, {"-", "-"}} {
			body := mkJsonEncPayload(ws[0], ws[1], d)
			emitAll("j", body, countJ(body))
		}
	}
	small := cborTreeOpts
	small.maxTokens = 25
	smallJ := jsonTreeOpts
	smallJ.maxTokens = 25
	for i := 0; i < ndocs; i++ {
		var out []string
		g.tree(small, 0, &out)
		d := strings.Join(out, " ")
		emitAll("c", d, countC(d))
		out = nil
		g.tree(smallJ, 0, &out)
		ws := wsOptions[g.intn(len(wsOptions))]
		body := mkJsonEncPayload(ws[0], ws[1], strings.Join(out, " "))
		emitAll("j", body, countJ(body))
	}
}

func genRFault(g *G, tier string, emit func(string)) {
	ndocs := 400
	if tier == "thorough" {
		ndocs = 8000
	}
	var docs []string
	for _, d := range []string{"182a", "6161", "83010203", "9f0102ff", "a16161f6", "bf616101ff", "5f41614162ff", "7f616161ff", "fb3ff0000000000000", "f93c00", "c24101", "1b0000000100000000", "7f62616263ff", "5f42010243030405ff"} {
		docs = append(docs, "c "+d)
	}
	for _, d := range []string{`"ab"`, `[1,2]`, `{"a":1}`, `null`, `true`, `false`, `-12.5e3`, `123`, `[null,true,false]`, `{"k":[null,"x\n"]}`, `"é😀"`, `[1, 2 ,]`, ` [ ] `} {
		docs = append(docs, "j "+hex.EncodeToString([]byte(d)))
	}
	for i := 0; i < ndocs; i++ {
		if i%2 == 0 {
			var item []byte
			g.cborItem(0, &item)
			if len(item) <= 60 {
				docs = append(docs, "c "+hex.EncodeToString(item))
			}
		} else {
			var sb strings.Builder
			g.jsonDoc(0, &sb)
			if sb.Len() <= 60 {
				docs = append(docs, "j "+hex.EncodeToString([]byte(sb.String())))
			}
		}
	}
	for _, d := range docs {
		n := len(strings.Fields(d)[1]) / 2
		for k := 0; k <= n; k++ {
			emit(fmt.Sprintf("%s | %d stop", d, k))
			emit(fmt.Sprintf("%s | %d once", d, k))
			if k > 0 && k < n {
				// the same fail-stop fault, announced together with the last bytes delivered (a legal io.Reader)
				emit(fmt.Sprintf("%s | %d stopd", d, k))
			}
		}
	}
}

func init() {
	register(&suite{name: "wfault", gen: genWFault, run: runWFault})
	register(&suite{name: "rfault", gen: genRFault, run: runRFault})
}
