package main

// Generators of (type environment, atlas, type, value) for the object-layer suites.

import (
	"fmt"
	"math"
	"reflect"
	"strconv"
	"strings"
)

type objCase struct {
	env   *typeEnv
	atl   *atlasD
	t     *TD
	nextS int
}

func newObjCase() *objCase { return &objCase{env: newEnv(), atl: &atlasD{}, nextS: 100} }

func (c *objCase) hasEntry(t *TD) bool {
	for _, e := range c.atl.entries {
		if e.t.rt == t.rt {
			return true
		}
	}
	return false
}

var primNames = []string{"b", "i8", "i16", "i32", "i64", "i", "u8", "u16", "u32", "u64", "u", "up", "f32", "f64", "s", "x"}

type genOpts struct {
	jsonSafe   bool // no byte strings / byte arrays / NaN / Inf, valid UTF-8 strings
	transforms bool
	unions     bool
	tags       bool
	bad        bool // allow unsupported kinds / structs without atlas entries
	embedded   bool // embedded zoo structs (by value / by pointer) in generated structs
	nativeTop  bool // the next untyped slot holds a native value, not a typed (tagged) one
}

// genType builds a random type; struct types get atlas entries (unless c is told otherwise).
func (g *G) genType(c *objCase, o genOpts, depth int) *TD {
	if o.embedded && depth <= 2 && g.chance(0.04) {
		return c.zooEmb(g)
	}
	pick := g.intn(20)
	if depth >= 3 && pick >= 8 {
		pick = g.intn(8)
	}
	prim := func() *TD {
		for {
			k := primNames[g.intn(len(primNames))]
			if o.jsonSafe && k == "x" {
				continue
			}
			return &TD{k: k, rt: primKinds[k]}
		}
	}
	switch {
	case pick < 6:
		return prim()
	case pick == 6:
		if o.jsonSafe {
			return prim()
		}
		n := []int{0, 1, 3, 24}[g.intn(4)]
		if g.chance(0.3) {
			if g.chance(0.3) {
				return octSlice()
			}
			return octArray(n)
		}
		return &TD{k: "X", n: n, rt: reflect.ArrayOf(n, primKinds["u8"])}
	case pick == 7:
		// named prim from the zoo
		ids := []int{1, 2, 3, 6, 7}
		if !o.jsonSafe {
			ids = append(ids, 4, 5)
		}
		z := zooByID(ids[g.intn(len(ids))])
		return c.env.mustParseType(z.desc)
	case pick == 8 || pick == 9:
		el := g.genType(c, o, depth+1)
		if el.k == "u8" { // []uint8 IS []byte
			if o.jsonSafe {
				el = &TD{k: "u16", rt: primKinds["u16"]}
			} else {
				return &TD{k: "x", rt: primKinds["x"]}
			}
		}
		return &TD{k: "sl", elem: el, rt: reflect.SliceOf(el.rt)}
	case pick == 10:
		el := g.genType(c, o, depth+1)
		n := g.intn(4)
		if el.k == "u8" { // [n]uint8 IS [n]byte
			if o.jsonSafe {
				el = &TD{k: "u16", rt: primKinds["u16"]}
			} else {
				return &TD{k: "X", n: n, rt: reflect.ArrayOf(n, primKinds["u8"])}
			}
		}
		return &TD{k: "ar", n: n, elem: el, rt: reflect.ArrayOf(n, el.rt)}
	case pick == 11 || pick == 12:
		el := g.genType(c, o, depth+1)
		kt := &TD{k: "s", rt: primKinds["s"]}
		if g.chance(0.15) {
			kt = c.env.mustParseType("(nm 3 s)")
		} else if o.transforms && g.chance(0.15) {
			kt = c.zooTransform(16, o) // TrKey struct keys via transform to string
		} else if o.bad && g.chance(0.2) {
			kt = &TD{k: "i", rt: primKinds["i"]} // a key type that has no string form: an error, both ways
		}
		t := &TD{k: "mp", key: kt, elem: el, rt: reflect.MapOf(kt.rt, el.rt)}
		if g.chance(0.25) && !c.hasEntry(t) {
			c.atl.entries = append(c.atl.entries, &AD{t: t, kind: "mm", mode: g.intn(3)})
		}
		return t
	case pick == 13 || pick == 14:
		el := g.genType(c, o, depth+1)
		return &TD{k: "pt", elem: el, rt: reflect.PtrTo(el.rt)}
	case pick == 15:
		return &TD{k: "a", rt: primKinds["a"]}
	case pick == 16 || pick == 17:
		return g.genStruct(c, o, depth)
	case pick == 18:
		if o.transforms {
			kinds := []int{10, 11, 13, 14, 17, 17, 22, 25}
			if o.unions {
				kinds = append(kinds, 23, 23)
			}
			if !o.jsonSafe {
				kinds = append(kinds, 12, 19)
			}
			return c.zooTransform(kinds[g.intn(len(kinds))], o)
		}
		return prim()
	default:
		if o.unions {
			return c.zooUnion(o)
		}
		if o.bad && g.chance(0.5) {
			return &TD{k: "bad", rt: primKinds["bad"]}
		}
		return prim()
	}
}

var transformOfZoo = map[int][2]interface{}{} // unused; kept for clarity

// zooTransform returns the zoo type with the given id and registers its transform entry.
func (c *objCase) zooTransform(id int, o genOpts) *TD {
	z := zooByID(id)
	t := c.env.mustParseType(z.desc)
	if c.hasEntry(t) {
		return t
	}
	kindOf := map[int]int{10: 1, 11: 2, 12: 3, 13: 4, 14: 5, 16: 6, 17: 7, 19: 8, 22: 9, 23: 9, 24: 5, 25: 5}
	wireOf := map[int]string{10: "s", 11: "s", 12: "x", 13: "(sl i64)", 14: "(st 15)", 16: "s", 17: "(st 18)", 19: "x", 22: "a", 23: "(if 30)", 24: "(st 15)", 25: "(st 15)"}
	if id == 23 {
		c.zooUnion(o) // the serial form's own entry
	}
	ad := &AD{t: t, kind: "tr", trk: kindOf[id], wire: c.env.mustParseType(wireOf[id])}
	c.atl.entries = append(c.atl.entries, ad)
	if id == 17 { // wire struct with omitempty fields: omitted fields must not leak between sibling values
		w := c.env.addZoo(18)
		if !c.hasEntry(w) {
			c.atl.entries = append(c.atl.entries, &AD{t: w, kind: "smap", flds: []fldD{{name: "k", route: []int{0}, t: w.field[0], omit: true}, {name: "n", route: []int{1}, t: w.field[1], omit: true}}})
		}
	}
	if id == 14 || id == 24 || id == 25 { // the wire struct needs its own struct map
		w := c.env.addZoo(15)
		if !c.hasEntry(w) {
			c.atl.entries = append(c.atl.entries, &AD{t: w, kind: "smap", flds: []fldD{{name: "w", route: []int{0}, t: w.field[0]}}})
		}
	}
	return t
}

func (c *objCase) zooStructEntry(id int, names []string) *TD {
	t := c.env.addZoo(id)
	if !c.hasEntry(t) {
		ad := &AD{t: t, kind: "smap"}
		for i, f := range t.field {
			ad.flds = append(ad.flds, fldD{name: names[i], route: []int{i}, t: f})
		}
		c.atl.entries = append(c.atl.entries, ad)
	}
	return t
}

// zooEmb: the struct with real embedded fields and a struct map over the promoted fields (some omitempty)
func (c *objCase) zooEmb(g *G) *TD {
	t := c.env.addZoo(28)
	if !c.hasEntry(t) {
		in, pt := t.field[0], t.field[1].elem
		c.atl.entries = append(c.atl.entries, &AD{t: t, kind: "smap", flds: []fldD{
			{name: "p", route: []int{0, 0}, t: in.field[0], omit: g.chance(0.3)},
			{name: "r", route: []int{1, 0}, t: pt.field[0], omit: g.chance(0.3)},
			{name: "k", route: []int{2}, t: t.field[2]},
			{name: "q", route: []int{0, 1}, t: in.field[1], omit: g.chance(0.3)},
		}})
	}
	return t
}

func (c *objCase) zooUnion(o genOpts) *TD {
	circle := c.zooStructEntry(20, []string{"r"})
	square := c.zooStructEntry(21, []string{"s", "n"})
	t := &TD{k: "if", n: 30, rt: zooByID(30).rt}
	if !c.hasEntry(t) {
		mem := []memD{{"circle", circle}, {"square", square}}
		if o.transforms {
			// a member that is itself a transform (its machine and the union's share a slab row)
			ad := &AD{t: t, kind: "un"}
			c.atl.entries = append(c.atl.entries, ad) // registered first: zooTransform may look the union up
			mem = append(mem, memD{"disc", c.zooTransform(24, o)})
			ad.mem = mem
			return t
		}
		c.atl.entries = append(c.atl.entries, &AD{t: t, kind: "un", mem: mem})
	}
	return t
}

var keyNamePool = []string{"a", "b", "ab", "k", "key", "x1", "é", "", "zz", "B", "aa", "ba"}

// genStruct creates a fresh struct type via reflect.StructOf with a struct-map atlas entry.
func (g *G) genStruct(c *objCase, o genOpts, depth int) *TD {
	id := c.nextS
	c.nextS++
	nf := g.intn(5)
	wide := g.chance(0.08)
	if wide {
		nf = 9 + g.intn(4) // wide structs: more than 8 mapped fields
	}
	t := &TD{k: "st", n: id}
	var sf []reflect.StructField
	// sometimes: a map with transformed struct keys and a plain string-keyed map side by side (sibling
	// field values are served by one slab row, one after the other)
	sibs := -1
	if o.transforms && !wide && !o.jsonSafe && g.chance(0.06) {
		nf += 2
		sibs = g.intn(nf - 1)
	}
	// sometimes: two fields of the keyed-union type with an atlas struct between them (the union's
	// member machine and the struct field's machine come out of the same slab row)
	sibsU := -1
	if o.unions && !wide && sibs < 0 && g.chance(0.08) {
		nf += 3
		sibsU = g.intn(nf - 2)
	}
	for i := 0; i < nf; i++ {
		var ft *TD
		if sibsU >= 0 && i >= sibsU && i <= sibsU+2 {
			if i == sibsU+1 {
				c.zooUnion(o) // the members' entries come first, with their own names
				mid := []int{20, 21, 15}[g.intn(3)]
				ft = c.zooStructEntry(mid, map[int][]string{20: {"r"}, 21: {"s", "n"}, 15: {"w"}}[mid])
			} else {
				ft = c.zooUnion(o)
			}
		} else if sibs >= 0 && (i == sibs || i == sibs+1) {
			el := &TD{k: "i", rt: primKinds["i"]}
			kt := &TD{k: "s", rt: primKinds["s"]}
			if i == sibs {
				kt = c.zooTransform(16, o)
			}
			ft = &TD{k: "mp", key: kt, elem: el, rt: reflect.MapOf(kt.rt, el.rt)}
		} else if o.embedded && g.chance(0.2) {
			// a field holding a zoo struct by value or by pointer: routes may pass through it
			zs := c.zooStructEntry(20, []string{"r"})
			if g.chance(0.4) { // two promoted fields behind one embedded struct (or pointer)
				zs = c.zooStructEntry(21, []string{"s", "n"})
			}
			if g.chance(0.5) {
				ft = &TD{k: "pt", elem: zs, rt: reflect.PtrTo(zs.rt)}
			} else {
				ft = zs
			}
		} else if wide {
			k := []string{"i", "s", "b", "u16", "i64", "f64"}[g.intn(6)]
			ft = &TD{k: k, rt: primKinds[k]}
		} else {
			ft = g.genType(c, o, depth+1)
		}
		t.field = append(t.field, ft)
		name := fmt.Sprintf("F%d", i)
		t.names = append(t.names, name)
		sf = append(sf, reflect.StructField{Name: name, Type: ft.rt})
	}
	t.rt = reflect.StructOf(sf)
	for _, oid := range c.env.order { // identical shapes are the same Go type: reuse the descriptor
		if c.env.structs[oid].rt == t.rt {
			return c.env.structs[oid]
		}
	}
	c.env.structs[id] = t
	c.env.order = append(c.env.order, id)
	if o.bad && g.chance(0.1) {
		return t // a struct without an atlas entry: unrepresentable
	}
	ad := &AD{t: t, kind: "smap"}
	used := map[string]bool{}
	perm := g.r.Perm(nf)
	for _, i := range perm {
		ft := t.field[i]
		name := keyNamePool[g.intn(len(keyNamePool))]
		for used[name] {
			name += "_"
		}
		used[name] = true
		// a route through an embedded zoo struct: map its inner field directly
		inner := ft
		if inner.k == "pt" {
			inner = inner.elem
		}
		if inner.k == "st" && inner.n == 20 && g.chance(0.7) {
			ad.flds = append(ad.flds, fldD{name: name, route: []int{i, 0}, t: inner.field[0], omit: g.chance(0.3)})
			continue
		}
		if o.embedded && inner.k == "st" && inner.n == 21 && g.chance(0.7) {
			for j := range inner.field {
				if j > 0 {
					name += "2"
					for used[name] {
						name += "_"
					}
					used[name] = true
				}
				ad.flds = append(ad.flds, fldD{name: name, route: []int{i, j}, t: inner.field[j], omit: g.chance(0.3)})
			}
			continue
		}
		if g.chance(0.1) && !wide {
			continue // unmapped field
		}
		ad.flds = append(ad.flds, fldD{name: name, route: []int{i}, t: ft, omit: g.chance(0.35)})
	}
	if g.chance(0.15) {
		name := "ign"
		if !used[name] {
			ad.flds = append(ad.flds, fldD{name: name, ignore: true})
		}
	}
	if o.tags && g.chance(0.25) {
		ad.tagd = true
		ad.tag = c.freshTag(g)
	}
	c.atl.entries = append(c.atl.entries, ad)
	return t
}

func (c *objCase) freshTag(g *G) int {
	for {
		tg := []int{0, 1, 23, 24, 255, 256, 65535, 65536, 50, 54, 1 << 32, math.MaxInt64}[g.intn(12)]
		if g.chance(0.3) {
			tg = g.intn(100000)
		}
		ok := true
		for _, e := range c.atl.entries {
			if e.tagd && e.tag == tg {
				ok = false
			}
		}
		if ok {
			return tg
		}
	}
}

// maybe tag the transform entries
func (g *G) tagTransforms(c *objCase) {
	for _, e := range c.atl.entries {
		if e.kind == "tr" && !e.tagd && g.chance(0.4) {
			e.tagd = true
			e.tag = c.freshTag(g)
		}
	}
}

// ---------- values -----------------------------------------------------------------

func (g *G) jsonSafeStr() string {
	return []string{"", "a", "hello", "é", "😀", "a\"b\\c", "line\nbreak", " ", "k1", "x y"}[g.intn(10)]
}

// zeroish builds a value that is empty all the way down but not nil where it need not be: zero scalars, empty
// strings, non-nil pointers to such values, empty (sometimes nil) slices and maps.  Emptiness — omitempty, the
// counting of emitted fields, null versus empty — is decided on exactly these.
func (g *G) zeroish(c *objCase, t *TD, o genOpts, depth int) reflect.Value {
	v := reflect.New(t.rt).Elem()
	tt := t
	for tt.k == "nm" {
		tt = tt.elem
	}
	switch tt.k {
	case "pt":
		if depth < 5 && g.chance(0.85) {
			p := reflect.New(tt.elem.rt)
			p.Elem().Set(g.zeroish(c, tt.elem, o, depth+1))
			v.Set(p)
		}
	case "st":
		if len(tt.field) != v.NumField() {
			return g.genValue(c, t, o, depth+1)
		}
		for i, ft := range tt.field {
			v.Field(i).Set(g.zeroish(c, ft, o, depth+1))
		}
	case "sl":
		if g.chance(0.5) {
			v.Set(reflect.MakeSlice(v.Type(), 0, 0))
		}
	case "mp":
		if g.chance(0.5) {
			v.Set(reflect.MakeMap(v.Type()))
		}
	case "ar":
		for i := 0; i < v.Len(); i++ {
			v.Index(i).Set(g.zeroish(c, tt.elem, o, depth+1))
		}
	case "x":
		if g.chance(0.5) {
			v.Set(reflect.MakeSlice(v.Type(), 0, 0))
		}
	case "if":
		return g.genValue(c, t, o, depth+1) // a union always holds a member
	}
	return v
}

func (g *G) genValue(c *objCase, t *TD, o genOpts, depth int) reflect.Value {
	if depth == 0 && g.chance(0.08) {
		return g.zeroish(c, t, o, 1)
	}
	v := reflect.New(t.rt).Elem()
	tt := t
	for tt.k == "nm" {
		tt = tt.elem
	}
	intIn := func(min, max int64) int64 {
		switch g.intn(5) {
		case 0:
			return min
		case 1:
			return max
		case 2:
			return 0
		default:
			x := g.i64()
			if x < min || x > max {
				x = min + int64(uint64(x)%uint64(max-min+1))
			}
			return x
		}
	}
	uintIn := func(max uint64) uint64 {
		switch g.intn(4) {
		case 0:
			return max
		case 1:
			return 0
		default:
			x := g.u64()
			if x > max {
				x %= max + 1
			}
			return x
		}
	}
	switch tt.k {
	case "b":
		v.SetBool(g.chance(0.5))
	case "i8":
		v.SetInt(intIn(-128, 127))
	case "i16":
		v.SetInt(intIn(-32768, 32767))
	case "i32":
		v.SetInt(intIn(math.MinInt32, math.MaxInt32))
	case "i64", "i":
		v.SetInt(g.i64())
	case "u8":
		v.SetUint(uintIn(255))
	case "u16":
		v.SetUint(uintIn(65535))
	case "u32":
		v.SetUint(uintIn(math.MaxUint32))
	case "u64", "u", "up":
		v.SetUint(g.u64())
	case "f32":
		f := math.Float64frombits(g.f64bits())
		if o.jsonSafe && (math.IsNaN(f) || math.IsInf(f, 0)) {
			f = 1.5
		}
		v.SetFloat(f) // rounds to float32
		if o.jsonSafe && math.IsInf(v.Float(), 0) {
			v.SetFloat(3.5)
		}
	case "f64":
		f := math.Float64frombits(g.f64bits())
		if o.jsonSafe && (math.IsNaN(f) || math.IsInf(f, 0)) {
			f = -2.25
		}
		v.SetFloat(f)
	case "s":
		if o.jsonSafe {
			v.SetString(g.jsonSafeStr())
		} else {
			v.SetString(g.str())
		}
	case "x":
		if g.chance(0.2) {
			return v
		}
		v.SetBytes([]byte(g.str()))
	case "X":
		for i := 0; i < v.Len(); i++ {
			v.Index(i).SetUint(uint64(g.intn(256)))
		}
	case "sl":
		if g.chance(0.15) {
			return v
		}
		n := g.intn(4)
		if depth > 3 {
			n = g.intn(2)
		}
		s := reflect.MakeSlice(t.rt, n, n)
		for i := 0; i < n; i++ {
			s.Index(i).Set(g.genValue(c, tt.elem, o, depth+1))
		}
		v.Set(s)
	case "ar":
		for i := 0; i < v.Len(); i++ {
			v.Index(i).Set(g.genValue(c, tt.elem, o, depth+1))
		}
	case "mp":
		if g.chance(0.15) {
			return v
		}
		m := reflect.MakeMap(t.rt)
		n := g.intn(4)
		for i := 0; i < n; i++ {
			m.SetMapIndex(g.genKey(c, tt.key), g.genValue(c, tt.elem, o, depth+1))
		}
		v.Set(m)
	case "pt":
		if g.chance(0.25) {
			return v
		}
		p := reflect.New(tt.elem.rt)
		p.Elem().Set(g.genValue(c, tt.elem, o, depth+1))
		v.Set(p)
	case "a":
		if g.chance(0.2) || depth > 3 {
			if g.chance(0.5) {
				return v
			}
		}
		// native untyped contents: what an untyped unmarshal produces, plus (sometimes) typed things
		var dt *TD
		pickAny := g.intn(8)
		if o.nativeTop { // the serial form of a tagged transform: an item carries one tag only
			pickAny = g.intn(7)
			o.nativeTop = false
		}
		switch pickAny {
		case 0:
			dt = &TD{k: "s", rt: primKinds["s"]}
		case 1:
			dt = &TD{k: "i", rt: primKinds["i"]}
		case 2:
			dt = &TD{k: "f64", rt: primKinds["f64"]}
		case 3:
			dt = &TD{k: "b", rt: primKinds["b"]}
		case 4:
			a := &TD{k: "a", rt: primKinds["a"]}
			dt = &TD{k: "sl", elem: a, rt: reflect.SliceOf(a.rt)}
		case 5:
			a := &TD{k: "a", rt: primKinds["a"]}
			st := &TD{k: "s", rt: primKinds["s"]}
			dt = &TD{k: "mp", key: st, elem: a, rt: reflect.MapOf(st.rt, a.rt)}
		case 6:
			if o.jsonSafe {
				dt = &TD{k: "u64", rt: primKinds["u64"]}
			} else {
				dt = &TD{k: "x", rt: primKinds["x"]}
			}
		default:
			// a typed value from the atlas (tagged types reconstruct through the tag)
			var cands []*TD
			for _, e := range c.atl.entries {
				if e.kind == "smap" || e.kind == "tr" {
					cands = append(cands, e.t)
				}
			}
			if len(cands) == 0 {
				dt = &TD{k: "i", rt: primKinds["i"]}
			} else {
				dt = cands[g.intn(len(cands))]
			}
		}
		registerDynType(dt)
		dv := g.genValue(c, dt, o, depth+1)
		if dt.k == "x" && dv.IsNil() {
			dv = reflect.ValueOf([]byte{})
		}
		v.Set(dv)
	case "if":
		// union member
		if dt := c.env.mustParseType("(st 24)"); c.hasEntry(dt) && g.chance(0.4) {
			v.Set(g.genValue(c, dt, o, depth+1))
		} else if g.chance(0.5) {
			ct := c.env.addZoo(20)
			v.Set(g.genValue(c, ct, o, depth+1))
		} else {
			st := c.env.addZoo(21)
			v.Set(g.genValue(c, st, o, depth+1))
		}
	case "st":
		if tt.n == 17 {
			v.Field(0).SetString([]string{"", "", "tip", "usd"}[g.intn(4)])
			v.Field(1).SetInt([]int64{0, 0, 7, -3}[g.intn(4)])
			return v
		}
		if tt.n == 22 { // TrAny: its untyped content is the serial form itself
			oo := o
			oo.nativeTop = true
			v.Field(0).Set(g.genValue(c, tt.field[0], oo, depth+1))
			return v
		}
		if tt.n == 11 || tt.n == 16 { // transform sources: first component must not contain the separator
			v.Field(0).SetString([]string{"", "a", "left", "é"}[g.intn(4)])
			v.Field(1).SetString(g.jsonSafeStr())
			return v
		}
		for i, ft := range tt.field {
			v.Field(i).Set(g.genValue(c, ft, o, depth+1))
		}
	}
	return v
}

func (g *G) genKey(c *objCase, kt *TD) reflect.Value {
	v := reflect.New(kt.rt).Elem()
	tt := kt
	for tt.k == "nm" {
		tt = tt.elem
	}
	if tt.k == "s" {
		v.SetString(keyNamePool[g.intn(len(keyNamePool))])
		return v
	}
	if tt.k == "i" {
		v.SetInt(int64(g.intn(5)))
		return v
	}
	// TrKey
	v.Field(0).SetString([]string{"", "a", "b", "ab"}[g.intn(4)])
	v.Field(1).SetString([]string{"", "x", "y:z", "é"}[g.intn(4)])
	return v
}

// header renders "<env> <atlas> <type>"
func (c *objCase) header(t *TD) string {
	return c.env.String() + " " + c.atl.String() + " " + t.String()
}

// parseObjHeader parses "<env> <atlas> <type> [<value>]" and returns the pieces.
func parseObjHeader(s string) (*typeEnv, *atlasD, *TD, []*sx, error) {
	xs, err := parseSx(s)
	if err != nil {
		return nil, nil, nil, nil, err
	}
	if len(xs) < 3 {
		return nil, nil, nil, nil, fmt.Errorf("short obj header")
	}
	env, err := parseEnvSx(xs[0])
	if err != nil {
		return nil, nil, nil, nil, err
	}
	atl, err := env.atlasOfSx(xs[1])
	if err != nil {
		return nil, nil, nil, nil, err
	}
	t, err := env.typeOfSx(xs[2])
	if err != nil {
		return nil, nil, nil, nil, err
	}
	return env, atl, t, xs[3:], nil
}

var _ = strconv.Itoa
var _ = strings.Join
