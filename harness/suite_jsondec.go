package main

import (
	"bytes"
	ejson "encoding/json"
	"encoding/hex"
	"fmt"
	"io"
	"math"
	"strconv"
	"strings"
	"testing/iotest"

	"github.com/polydawn/refmt/json"
	"github.com/polydawn/refmt/tok"
)

// decodeItems decodes up to max successive items from one reader with one decoder (Reset between items).
func decodeJsonItems(in []byte, max int) (results []string, firstToks []tok.Token, firstOK bool, restAfterFirst int) {
	// delivered whole, a byte at a time, in halves, or with io.EOF arriving together with the last bytes — in
	// rotation: what the text says does not depend on it (the consumed count comes from the decoder's own counter)
	var rd io.Reader = bytes.NewReader(in)
	switch len(in) % 4 {
	case 1:
		rd = iotest.OneByteReader(rd)
	case 2:
		rd = iotest.HalfReader(rd)
	case 3:
		rd = iotest.DataErrReader(rd)
	}
	dec := json.NewDecoder(rd)
	restAfterFirst = -1
	for i := 0; i < max; i++ {
		dec.Reset()
		class, toks, rawToks, err := driveSourceRaw(dec, 2*len(in)+10)
		switch class {
		case "ok":
			results = append(results, fmt.Sprintf("ok @%d %s", dec.VerifNumRead(), strings.Join(toks, " ")))
			if i == 0 {
				firstOK = true
				firstToks = rawToks
				restAfterFirst = len(in) - dec.VerifNumRead()
			}
		case "err":
			results = append(results, fmt.Sprintf("err %s %d", errClass(err), len(toks)))
			return
		default:
			results = append(results, class)
			return
		}
	}
	return
}

func driveSourceRaw(src tokenSource, budget int) (class string, toks []string, raw []tok.Token, err error) {
	defer func() {
		if r := recover(); r != nil {
			class = "panic"
			err = fmt.Errorf("%v", r)
		}
	}()
	var slot tok.Token
	for i := 0; i < budget; i++ {
		done, e := src.Step(&slot)
		if e != nil {
			return "err", toks, raw, e
		}
		toks = append(toks, printTokenProjected(slot))
		raw = append(raw, slot)
		if done {
			return "ok", toks, raw, nil
		}
	}
	return "hang", toks, raw, nil
}

// stripTrailingCommas deletes commas (outside strings) that are followed, after optional
// whitespace, by ']' or '}' — refmt's one deliberate leniency.
func stripTrailingCommas(in []byte) []byte {
	var out []byte
	inStr, esc := false, false
	for i := 0; i < len(in); i++ {
		c := in[i]
		if inStr {
			out = append(out, c)
			if esc {
				esc = false
			} else if c == '\\' {
				esc = true
			} else if c == '"' {
				inStr = false
			}
			continue
		}
		if c == '"' {
			inStr = true
			out = append(out, c)
			continue
		}
		if c == ',' {
			j := i + 1
			for j < len(in) && (in[j] == ' ' || in[j] == '\t' || in[j] == '\r' || in[j] == '\n') {
				j++
			}
			if j < len(in) && (in[j] == ']' || in[j] == '}') {
				continue // drop the comma
			}
		}
		out = append(out, c)
	}
	return out
}

// compareWithEncodingJSON walks encoding/json's token stream of a VALID text alongside refmt's tokens.
func compareWithEncodingJSON(text []byte, toks []tok.Token) (agree bool, unrep bool) {
	d := ejson.NewDecoder(bytes.NewReader(text))
	d.UseNumber()
	i := 0
	agree = true
	next := func() *tok.Token {
		if i < len(toks) {
			i++
			return &toks[i-1]
		}
		return nil
	}
	for {
		et, err := d.Token()
		if err == io.EOF {
			break
		}
		if err != nil {
			return false, unrep
		}
		switch v := et.(type) {
		case ejson.Delim:
			t := next()
			want := map[rune]tok.TokenType{'{': tok.TMapOpen, '}': tok.TMapClose, '[': tok.TArrOpen, ']': tok.TArrClose}[rune(v)]
			if t == nil || t.Type != want {
				agree = false
			}
		case string:
			t := next()
			if t == nil || t.Type != tok.TString || t.Str != v {
				agree = false
			}
		case bool:
			t := next()
			if t == nil || t.Type != tok.TBool || t.Bool != v {
				agree = false
			}
		case nil:
			t := next()
			if t == nil || t.Type != tok.TNull {
				agree = false
			}
		case ejson.Number:
			s := string(v)
			isInt := !strings.ContainsAny(s, ".eE")
			if isInt {
				if iv, err := strconv.ParseInt(s, 10, 64); err == nil {
					t := next()
					if t == nil || t.Type != tok.TInt || t.Int != iv {
						agree = false
					}
				} else if uv, err := strconv.ParseUint(s, 10, 64); err == nil {
					t := next()
					if t == nil || t.Type != tok.TUint || t.Uint != uv {
						agree = false
					}
				} else {
					unrep = true
					next()
				}
			} else {
				fv, err := strconv.ParseFloat(s, 64)
				if err != nil {
					unrep = true
					next()
				} else {
					t := next()
					if t == nil || t.Type != tok.TFloat64 || math.Float64bits(t.Float64) != math.Float64bits(fv) {
						agree = false
					}
				}
			}
		}
	}
	if i != len(toks) {
		agree = false
	}
	return
}

func onlyWS(b []byte) bool {
	for _, c := range b {
		if c != ' ' && c != '\t' && c != '\r' && c != '\n' {
			return false
		}
	}
	return true
}

func b2i(b bool) int {
	if b {
		return 1
	}
	return 0
}

func runJsonDec(payload string) string {
	in, err := hex.DecodeString(strings.TrimSpace(payload))
	if err != nil {
		return "harness-error " + err.Error()
	}
	results, firstToks, firstOK, restLen := decodeJsonItems(in, 4)
	// acceptance in the sense of C05: one item decoded and only whitespace left
	acc := false
	if firstOK {
		acc = onlyWS(in[len(in)-restLen:])
	}
	valid := ejson.Valid(in)
	lvalid := valid || ejson.Valid(stripTrailingCommas(in))
	agree, unrep := "-", false
	if valid {
		a, u := compareWithEncodingJSON(in, firstToks)
		unrep = u
		if firstOK {
			agree = strconv.Itoa(b2i(a))
		}
	}
	return fmt.Sprintf("%s | ej: v=%d lv=%d acc=%d agree=%s unrep=%d", strings.Join(results, " ;; "), b2i(valid), b2i(lvalid), b2i(acc), agree, b2i(unrep))
}

var jsonAlphabet = []byte("{}[],:\"\\u01-+.eEtrnfals ")

func (g *G) jsonDoc(depth int, sb *strings.Builder) {
	ws := func() {
		for g.chance(0.2) {
			sb.WriteByte(" \t\r\n"[g.intn(4)])
		}
	}
	str := func() {
		sb.WriteByte('"')
		n := g.intn(5)
		for i := 0; i < n; i++ {
			switch g.intn(8) {
			case 0:
				sb.WriteString([]string{`\n`, `\"`, `\\`, `\/`, `\b`, `\f`, `\r`, `\t`}[g.intn(8)])
			case 1:
				// either case of the hex digits, and mixed
				switch g.intn(3) {
				case 0:
					sb.WriteString(fmt.Sprintf(`\u%04x`, g.intn(0x10000)))
				case 1:
					sb.WriteString(fmt.Sprintf(`\u%04X`, g.intn(0x10000)))
				default:
					sb.WriteString(fmt.Sprintf(`\u%02x%02X`, g.intn(0x100), g.intn(0x100)))
				}
			case 2:
				if g.chance(0.5) {
					sb.WriteString(fmt.Sprintf(`\ud8%02x\udc%02x`, g.intn(4)*64+g.intn(64), g.intn(256)))
				} else {
					sb.WriteString(fmt.Sprintf(`\uD8%02X\uDC%02X`, g.intn(4)*64+g.intn(64), g.intn(256)))
				}
			case 3:
				sb.WriteString(string(rune(0x80 + g.intn(0x2000))))
			case 4:
				sb.WriteString("😀")
			default:
				sb.WriteByte(byte('a' + g.intn(26)))
			}
		}
		sb.WriteByte('"')
	}
	ws()
	k := g.intn(9)
	if depth >= 4 && k >= 7 {
		k = g.intn(7)
	}
	switch k {
	case 0:
		g.count("json.null")
		sb.WriteString("null")
	case 1:
		g.count("json.bool")
		sb.WriteString([]string{"true", "false"}[g.intn(2)])
	case 2, 3:
		g.count("json.string")
		str()
	case 4:
		g.count("json.int")
		sb.WriteString(strconv.FormatInt(g.i64(), 10))
	case 5:
		g.count("json.float")
		b := g.f64bits()
		f := math.Float64frombits(b)
		if math.IsNaN(f) || math.IsInf(f, 0) {
			f = 1.5
		}
		switch g.intn(3) {
		case 0:
			sb.WriteString(strconv.FormatFloat(f, 'e', -1, 64))
		case 1:
			sb.WriteString(strconv.FormatFloat(f, 'g', -1, 64))
		default:
			sb.WriteString(strconv.FormatFloat(f, 'E', g.intn(20), 64))
		}
	case 6:
		if g.chance(0.4) {
			// a long run of digits with a fraction and/or an exponent: float syntax whose integer-looking
			// prefix is beyond 64 bits
			g.count("json.longnum")
			if g.chance(0.4) {
				sb.WriteByte('-')
			}
			sb.WriteByte(byte('1' + g.intn(9)))
			for k := 10 + g.intn(30); k > 0; k-- {
				sb.WriteByte(byte('0' + g.intn(10)))
			}
			if g.chance(0.5) {
				sb.WriteByte('.')
				for k := 1 + g.intn(5); k > 0; k-- {
					sb.WriteByte(byte('0' + g.intn(10)))
				}
			}
			if g.chance(0.6) {
				sb.WriteString([]string{"e", "E", "e+", "E-", "e-"}[g.intn(5)])
				sb.WriteString(strconv.Itoa(g.intn(200)))
			}
			break
		}
		g.count("json.numtext")
		sb.WriteString([]string{"0", "-0", "0.0", "-0.0", "1e5", "1E+5", "1e-5", "0.1", "123456789012345678901234567890", "18446744073709551615", "18446744073709551616",
			"9223372036854775807", "9223372036854775808", "-9223372036854775808", "-9223372036854775809", "1e308", "1e309", "1.7976931348623157e308", "1.7976931348623159e308",
			"4.9e-324", "2.4e-324", "2.5e-324", "1e-400", "0e999999999", "1.0000000000000000000000000000000000001", "9007199254740993", "9007199254740993.0", "0.000001", "1e21", "1e-7",
			"2.2250738585072011e-308", "5e-324", "1.00000000000000011102230246251565404236316680908203125", "1.00000000000000011102230246251565404236316680908203124",
			"123456789012345678901.5", "700368744177663000000E+13", "18446744073709551616e0", "18446744073709551616.0", "-9223372036854775809.0", "99999999999999999999e-5"}[g.intn(40)])
	case 7:
		g.count("json.array")
		sb.WriteByte('[')
		n := g.intn(4)
		for i := 0; i < n; i++ {
			if i > 0 {
				ws()
				sb.WriteByte(',')
			}
			g.jsonDoc(depth+1, sb)
		}
		ws()
		if n > 0 && g.chance(0.1) {
			sb.WriteByte(',')
			ws()
		}
		sb.WriteByte(']')
	default:
		g.count("json.object")
		sb.WriteByte('{')
		n := g.intn(4)
		for i := 0; i < n; i++ {
			if i > 0 {
				ws()
				sb.WriteByte(',')
			}
			ws()
			str()
			ws()
			sb.WriteByte(':')
			g.jsonDoc(depth+1, sb)
		}
		ws()
		if n > 0 && g.chance(0.1) {
			sb.WriteByte(',')
			ws()
		}
		sb.WriteByte('}')
	}
	ws()
}

func genJsonDec(g *G, tier string, emit func(string)) {
	// every byte value in every position between tokens (whitespace is exactly 0x20 0x09 0x0a 0x0d)
	for b := 0; b < 256; b++ {
		c := string([]byte{byte(b)})
		for _, t := range []string{c + "1", "1" + c, "[" + c + "]", "[1" + c + "]", "[1," + c + "2]", "[1" + c + ",2]", `{"a"` + c + `:1}`, `{"a":` + c + `1}`, `{` + c + `"a":1}`, `{"a":1` + c + `}`, `{"a":1,` + c + `"b":2}`, c + `"x"`, `"x"` + c, `[true` + c + `]`, `[null` + c + `,1]`} {
			emit(hexOrDash([]byte(t)))
		}
	}

	// every byte value in each of the four digit positions of a \u escape
	for pos := 0; pos < 4; pos++ {
		for b := 0; b < 256; b++ {
			d := []byte("0041")
			d[pos] = byte(b)
			emit(hexOrDash(append(append([]byte(`"\u`), d...), '"')))
			emit(hexOrDash(append(append([]byte(`{"\u`), d...), []byte(`":1}`)...)))
		}
	}
	// every kind of token where a key is due, in the first, second and third entry of an object, at the top and nested
	// (a key must be a string wherever it stands)
	for _, k := range []string{`1`, `-1`, `1.5`, `null`, `true`, `false`, `[]`, `{}`, `"k"`, `x`, `,`, `:`} {
		for _, doc := range []string{`{K:1}`, `{"a":1,K:2}`, `{"a":1, K :2}`, `{"a":1,"b":2,K:3}`, `{"a":{"b":1,K:2}}`, `[{"a":[1],K:0}]`, `{"a":1,K}`, `{"a":"x",K:"y","c":3}`} {
			emit(hexOrDash([]byte(strings.Replace(doc, "K", k, 1))))
		}
	}
	em := func(b []byte) { emit(hex.EncodeToString(b)) }
	// (a) all strings up to L over the JSON alphabet, as a prefix tree: a prefix is extended
	// only while the decoder has not definitively rejected it
	L := 5
	if tier == "thorough" {
		L = 6 // (7 is 4 x 10^8 cases and some 40 GB of case files)
	}
	var rec func(prefix []byte)
	rec = func(prefix []byte) {
		for _, a := range jsonAlphabet {
			s := append(append([]byte{}, prefix...), a)
			em(s)
			if len(s) < L {
				res, _, _, _ := decodeJsonItems(s, 1)
				if !strings.HasPrefix(res[0], "err other") {
					// (not definitively rejected: ok, or an error caused by running out of input)
					rec(s)
				}
			}
		}
	}
	rec(nil)
	em(nil)
	// (b) every single byte as a document and inside a string; all \uXXXX (stride in quick)
	for b := 0; b < 256; b++ {
		em([]byte{byte(b)})
		em([]byte{'"', byte(b), '"'})
		em([]byte{'"', '\\', byte(b), '"'})
		em([]byte{'[', '1', byte(b), '2', ']'})
		em([]byte{'1', byte(b)})
	}
	st := 17
	if tier == "thorough" {
		st = 1
	}
	for v := 0; v < 65536; v += st {
		em([]byte(fmt.Sprintf(`"\u%04x"`, v)))
	}
	for hi := 0xd7fe; hi <= 0xe001; hi++ {
		for _, lo := range []int{0xdbff, 0xdc00, 0xdc01, 0xdfff, 0xe000, 0x0041, 0xd800} {
			em([]byte(fmt.Sprintf(`"\u%04x\u%04x"`, hi, lo)))
			em([]byte(fmt.Sprintf(`"\u%04xx"`, hi)))
		}
	}
	// (c) generated valid documents, single-edit mutations and every proper prefix
	n := 4000
	if tier == "thorough" {
		n = 80000
	}
	for i := 0; i < n; i++ {
		var sb strings.Builder
		g.jsonDoc(0, &sb)
		doc := []byte(sb.String())
		em(doc)
		em(append(append([]byte{}, doc...), []byte(" [2]")...))
		if len(doc) <= 60 {
			for k := 0; k < len(doc); k++ {
				em(doc[:k])
			}
		}
		for k := 0; k < 4 && len(doc) > 0; k++ {
			m := append([]byte{}, doc...)
			pos := g.intn(len(m))
			switch g.intn(4) {
			case 0:
				m = append(m[:pos], m[pos+1:]...)
			case 1:
				m = append(m[:pos], append([]byte{jsonAlphabet[g.intn(len(jsonAlphabet))]}, m[pos:]...)...)
			case 2:
				m[pos] = jsonAlphabet[g.intn(len(jsonAlphabet))]
			default:
				if pos+1 < len(m) {
					m[pos], m[pos+1] = m[pos+1], m[pos]
				}
			}
			em(m)
		}
	}
	// (d) literal misspellings and number edge texts
	for _, s := range []string{"nxyz", "n", "nu", "nul", "null", "nulll", "tru", "true", "trux", "falsX", "fals", "false", "f", "t", "[nul]", "[nulx]", "{\"a\":tru}",
		"[1.]", "1.", "1.e5", "1e", "1e+", "-", "-a", "[-]", "01", "1 2", "{1:2}", "{[:1}}", "{\"a\"}", "{\"a\":}", "{,}", "[,]", "[1,,2]", "[1 2]", "{\"a\":1 \"b\":2}", "[1,]", "{\"a\":1,}", "[1, ]", "[1 ,]",
		"\"abc", "\"\\", "\"\\u12", "\"\\u12g4\"", "\"\\x\"", "\"\t\"", "[", "{", "[[", "{\"a\":[", "]", "}", ":", ",", "[}", "{]", "\"\\ud800\"", "\"\\udc00\\ud800\"", "\"\xff\"", "\"\xc0\x80\"", "\"\xed\xa0\x80\""} {
		em([]byte(s))
		em([]byte(" " + s + " "))
		em([]byte("[" + s + "]"))
	}
	// deep nesting
	for _, depth := range []int{50, 1000, 5000} {
		doc := strings.Repeat("[", depth) + "1" + strings.Repeat("]", depth)
		em([]byte(doc))
		em([]byte(doc[:len(doc)-1]))
		doc2 := strings.Repeat("{\"k\":", depth) + "null" + strings.Repeat("}", depth)
		em([]byte(doc2))
	}
}

func init() {
	register(&suite{name: "json-dec", gen: genJsonDec, run: runJsonDec})
}
