package main

import (
	"bytes"
	ejson "encoding/json"
	"encoding/hex"
	"io"
	"fmt"
	"math"
	"strconv"
	"strings"

	"github.com/polydawn/refmt/json"
	"github.com/polydawn/refmt/pretty"
	"github.com/polydawn/refmt/tok"
)

// optional byte string syntax: "~" = nil, "-" = empty non-nil, else hex
func optBytes(s string) []byte {
	switch s {
	case "~":
		return nil
	case "-":
		return []byte{}
	}
	b, _ := hex.DecodeString(s)
	return b
}

// shortestOracle returns "<bits hex16>:<digits>:<dp>" for a finite float: the
// shortest decimal digits strconv produces (precision -1) and the position of
// the decimal point (value = 0.digits * 10^dp); zero is ":0" (no digits).
// It also checks the oracle hypothesis: the digits read back as the same float.
func shortestOracle(f float64) string {
	bits := math.Float64bits(f)
	a := math.Abs(f)
	if a == 0 {
		return fmt.Sprintf("%016x::0", bits)
	}
	s := strconv.FormatFloat(a, 'e', -1, 64) // d.ddddde±XX
	mant, exps, _ := strings.Cut(s, "e")
	digits := strings.Replace(mant, ".", "", 1)
	e, _ := strconv.Atoi(exps)
	back, err := strconv.ParseFloat("0."+digits+"e"+strconv.Itoa(e+1), 64)
	if err != nil || back != a || digits[0] == '0' {
		return fmt.Sprintf("%016x:ORACLE-HYPOTHESIS-FAILED:0", bits)
	}
	return fmt.Sprintf("%016x:%s:%d", bits, digits, e+1)
}

func floatOracleFor(ts []tok.Token) string {
	var parts []string
	seen := map[uint64]bool{}
	for _, t := range ts {
		if t.Type == tok.TFloat64 && !math.IsNaN(t.Float64) && !math.IsInf(t.Float64, 0) {
			b := math.Float64bits(t.Float64)
			if !seen[b] {
				seen[b] = true
				parts = append(parts, shortestOracle(t.Float64))
			}
		}
	}
	if len(parts) == 0 {
		return "-"
	}
	return strings.Join(parts, ",")
}

// payload: "<line> <indent> <oracle>|<tokens>"
func splitJsonEncPayload(payload string) (line, indent []byte, toks string) {
	head, rest, _ := strings.Cut(payload, "|")
	fs := strings.Fields(head)
	return optBytes(fs[0]), optBytes(fs[1]), rest
}

func mkJsonEncPayload(line, indent string, tokens string) string {
	ts, _ := parseTokens(tokens)
	return line + " " + indent + " " + floatOracleFor(ts) + "|" + tokens
}

// chunk writer that also counts WriteString calls
func (w *chunkWriter) WriteString(s string) (int, error) { return w.Write([]byte(s)) }

func runJsonEnc(payload string) string {
	line, indent, toks := splitJsonEncPayload(payload)
	ts, err := parseTokens(toks)
	if err != nil {
		return "harness-error " + err.Error()
	}
	w := &chunkWriter{}
	enc := json.NewEncoder(w, json.EncodeOptions{Line: line, Indent: indent})
	poisonSink(enc)
	w.buf, w.chunks = nil, nil
	class, used := driveSink(enc, ts)
	res := fmt.Sprintf("%s %d %s %s", class, used, hexOrDash(w.buf), chunkLens(w.chunks))
	if class == "fin" {
		// (1) read the text back with the real decoder (followed by a second document that must be left alone)
		items, _, _, _ := decodeJsonItems(append(append([]byte{}, w.buf...), []byte(" [7]")...), 1)
		res += " | rt: " + items[0]
		// (2) independent parser: valid RFC 8259, same value; pretty output differs from compact only in whitespace
		valid := ejson.Valid(w.buf)
		same := false
		if valid {
			same = sameValueAsTokens(w.buf, ts[:used])
		}
		w2 := &chunkWriter{}
		driveSink(json.NewEncoder(w2, json.EncodeOptions{}), ts)
		var cb bytes.Buffer
		wsonly := ejson.Compact(&cb, w.buf) == nil && bytes.Equal(cb.Bytes(), w2.buf)
		res += fmt.Sprintf(" | ej: valid=%d same=%d wsonly=%d", b2i(valid), b2i(same), b2i(wsonly))
	}
	return res
}

// sameValueAsTokens: does encoding/json read [text] as the value the tokens denote
// (strings with invalid UTF-8 coerced to U+FFFD per offending byte; numbers compared numerically)?
func sameValueAsTokens(text []byte, ts []tok.Token) bool {
	d := ejson.NewDecoder(bytes.NewReader(text))
	d.UseNumber()
	for _, t := range ts {
		et, err := d.Token()
		if err != nil {
			return false
		}
		switch t.Type {
		case tok.TMapOpen:
			if et != ejson.Delim('{') {
				return false
			}
		case tok.TMapClose:
			if et != ejson.Delim('}') {
				return false
			}
		case tok.TArrOpen:
			if et != ejson.Delim('[') {
				return false
			}
		case tok.TArrClose:
			if et != ejson.Delim(']') {
				return false
			}
		case tok.TNull:
			if et != nil {
				return false
			}
		case tok.TBool:
			if b, ok := et.(bool); !ok || b != t.Bool {
				return false
			}
		case tok.TString:
			if s, ok := et.(string); !ok || s != string([]rune(t.Str)) {
				return false
			}
		case tok.TInt:
			n, ok := et.(ejson.Number)
			if !ok {
				return false
			}
			if v, err := strconv.ParseInt(string(n), 10, 64); err != nil || v != t.Int {
				return false
			}
		case tok.TUint:
			n, ok := et.(ejson.Number)
			if !ok {
				return false
			}
			if v, err := strconv.ParseUint(string(n), 10, 64); err != nil || v != t.Uint {
				return false
			}
		case tok.TFloat64:
			n, ok := et.(ejson.Number)
			if !ok {
				return false
			}
			if v, err := strconv.ParseFloat(string(n), 64); err != nil || math.Float64bits(v) != math.Float64bits(t.Float64) {
				return false
			}
		default:
			return false
		}
	}
	_, err := d.Token()
	return err == io.EOF
}

func runPrettyEnc(payload string) string {
	ts, err := parseTokens(payload)
	if err != nil {
		return "harness-error " + err.Error()
	}
	w := &chunkWriter{}
	enc := pretty.NewEncoder(w)
	poisonSink(enc)
	w.buf, w.chunks = nil, nil
	class, used := driveSink(enc, ts)
	return fmt.Sprintf("%s %d", class, used)
}

var jsonTreeOpts = treeOpts{maxDepth: 5, maxTokens: 80, tags: false, bytes: false, keyKinds: "s", indef: true, def: true, floats: true, finiteOnly: true, uints: true}

var wsOptions = [][2]string{{"~", "~"}, {"0a", "09"}, {"0a", "2020"}, {"-", "-"}, {"0a", "~"}, {"~", "20"}, {"0d0a", "20"}, {"20", "0a"}, {"0a", "-"}}

func genJsonEnc(g *G, tier string, emit func(string)) {
	// strings: every single byte, every 2-byte sequence (thorough) / a stride (quick), UTF-8 class boundaries
	for b := 0; b < 256; b++ {
		emit(mkJsonEncPayload("~", "~", "s"+fmt.Sprintf("%02x", b)))
		emit(mkJsonEncPayload("~", "~", "s61"+fmt.Sprintf("%02x", b)+"62"))
	}
	stride := 7
	if tier == "thorough" {
		stride = 1
	}
	for v := 0; v < 65536; v += stride {
		emit(mkJsonEncPayload("~", "~", "s"+fmt.Sprintf("%04x", v)))
	}
	cps := []rune{0, 0x1f, 0x20, 0x22, 0x5c, 0x7e, 0x7f, 0x80, 0x7ff, 0x800, 0xfff, 0x1000, 0x2027, 0x2028, 0x2029, 0x202a, 0xd7ff, 0xe000, 0xfffd, 0xfffe, 0xffff, 0x10000, 0x10ffff}
	if tier == "thorough" {
		for c := rune(0); c <= 0x10ffff; c += 1 {
			if c >= 0xd800 && c <= 0xdfff {
				continue
			}
			emit(mkJsonEncPayload("~", "~", "s"+hexs(string(c))))
		}
	} else {
		for c := rune(0); c <= 0x10ffff; c += 257 {
			if c >= 0xd800 && c <= 0xdfff {
				continue
			}
			cps = append(cps, c)
		}
	}
	// code points whose low sixteen bits are those of a character the printer treats specially, in every plane
	for plane := rune(1); plane <= 16; plane++ {
		for _, low := range []rune{0x22, 0x5c, 0x0a, 0x1f, 0x7f, 0x2027, 0x2028, 0x2029, 0x202a, 0xd800, 0xfffd, 0xfeff} {
			cps = append(cps, plane<<16|low)
		}
	}
	for _, c := range cps {
		emit(mkJsonEncPayload("~", "~", "s"+hexs(string(c))))
		emit(mkJsonEncPayload("~", "~", "s"+hexs("a"+string(c)+"\"")))
	}
	for _, s := range []string{"eda080", "edbfbf", "f4908080", "c080", "e08080", "f08080", "e2", "e282", "f09f98", "ff", "fe", "c2", "e28028", "e280a8e280a9", "5c75", "5c5c", "2f"} {
		emit(mkJsonEncPayload("~", "~", "s"+s))
		emit(mkJsonEncPayload("~", "~", "s61"+s+"7a"))
	}
	// numbers
	for _, b := range headBoundaries {
		emit(mkJsonEncPayload("~", "~", "u"+strconv.FormatUint(b, 10)))
		if b <= math.MaxInt64 {
			emit(mkJsonEncPayload("~", "~", "i"+strconv.FormatInt(int64(b), 10)))
			emit(mkJsonEncPayload("~", "~", "i"+strconv.FormatInt(-1-int64(b), 10)))
		}
	}
	for _, b := range floatSpecials {
		emit(mkJsonEncPayload("~", "~", "f"+pad16(strconv.FormatUint(b, 16))))
		emit(mkJsonEncPayload("~", "~", "f"+pad16(strconv.FormatUint(b^(1<<63), 16))))
	}
	for e := -330; e <= 310; e++ {
		f, _ := strconv.ParseFloat("1e"+strconv.Itoa(e), 64)
		for _, d := range []uint64{0, 1, ^uint64(0)} {
			b := math.Float64bits(f) + d
			emit(mkJsonEncPayload("~", "~", "f"+pad16(strconv.FormatUint(b, 16))))
		}
		f2, _ := strconv.ParseFloat("123456789e"+strconv.Itoa(e), 64)
		if !math.IsInf(f2, 0) {
			emit(mkJsonEncPayload("~", "~", "f"+pad16(strconv.FormatUint(math.Float64bits(-f2), 16))))
		}
	}
	nf := 3000
	if tier == "thorough" {
		nf = 200000
	}
	for i := 0; i < nf; i++ {
		emit(mkJsonEncPayload("~", "~", "f"+pad16(strconv.FormatUint(g.f64bits(), 16))))
	}
	// nesting shapes with every whitespace option
	shapes := []string{"[-1 ]", "{-1 }", "[-1 [-1 ] ]", "[-1 {-1 } {-1 } ]", "{-1 s61 [-1 ] s62 {-1 } }", "[-1 n bt ]", "{-1 s6b i1 }",
		"[-1 [-1 [-1 i1 ] ] i2 ]", "{-1 s61 {-1 s62 {-1 } } s63 n }", "[-1 [-1 ] [-1 ] ]", "[-1 i1 [-1 ] i2 ]", "n", "s", "[-1 s ]"}
	for _, sh := range shapes {
		for _, ws := range wsOptions {
			emit(mkJsonEncPayload(ws[0], ws[1], sh))
		}
	}
	// indentation of every width around the encoder's scratch space (64 bytes), by line ending, at every depth to 9,
	// in containers with several entries: separators are assembled from comma, line and depth x indent
	for _, w := range []int{1, 2, 7, 8, 9, 21, 31, 32, 33, 62, 63, 64, 65, 100, 130} {
		for _, line := range []string{"~", "0a", "0d0a", "-"} {
			for depth := 1; depth <= 9; depth += 2 {
				arr, obj := "", ""
				for d := 0; d < depth; d++ {
					arr += "[-1 i1 "
					obj += "{-1 s61 i1 s62 "
				}
				arr += "[-1 i7 i8 ]"
				obj += "{-1 s63 i7 s64 i8 }"
				for d := 0; d < depth; d++ {
					arr += " i2 ]"
					obj += " s65 i2 }"
				}
				ind := strings.Repeat("20", w)
				emit(mkJsonEncPayload(line, ind, arr))
				emit(mkJsonEncPayload(line, ind, obj))
			}
		}
	}
	// random trees with random options
	n := 8000
	if tier == "thorough" {
		n = 200000
	}
	for i := 0; i < n; i++ {
		var out []string
		g.tree(jsonTreeOpts, 0, &out)
		ws := wsOptions[g.intn(len(wsOptions))]
		emit(mkJsonEncPayload(ws[0], ws[1], strings.Join(out, " ")))
	}
	// trees outside JSON's model too (bytes, tags, int keys, NaN): acceptance only
	for i := 0; i < n/4; i++ {
		var out []string
		g.tree(cborTreeOpts, 0, &out)
		emit(mkJsonEncPayload("~", "~", strings.Join(out, " ")))
	}
	// all token sequences up to a bounded length (prefix tree)
	maxLen := 5
	if tier == "thorough" {
		maxLen = 7
	}
	genSeqTree(encAlphabet, maxLen, func(p string) { emit(mkJsonEncPayload("~", "~", p)) }, func(p string) bool {
		return strings.HasPrefix(runJsonEnc(mkJsonEncPayload("~", "~", p)), "starved")
	})
	genDeep(func(p string) { emit(mkJsonEncPayload("0a", "20", p)) })
	genLengths(func(p string) { emit(mkJsonEncPayload("~", "~", p)) })
}

// deep nesting sequences (valid, and with a stray close at depth)
func genDeep(emit func(string)) {
	for _, depth := range []int{15, 16, 17, 18, 40, 300, 2000} {
		var out []string
		for i := 0; i < depth; i++ {
			if i%2 == 0 {
				out = append(out, "[-1")
			} else {
				out = append(out, "{-1", "s6b")
			}
		}
		body := append(append([]string{}, out...), "i7")
		for i := depth - 1; i >= 0; i-- {
			if i%2 == 0 {
				body = append(body, "]")
			} else {
				body = append(body, "}")
			}
		}
		emit(strings.Join(body, " "))
		// stray close of the wrong kind at depth
		stray := "}"
		if depth%2 == 0 {
			stray = "]"
		}
		emit(strings.Join(append(append([]string{}, out...), stray), " "))
	}
}

func genPrettyEnc(g *G, tier string, emit func(string)) {
	maxLen := 5
	if tier == "thorough" {
		maxLen = 7
	}
	genSeqTree(encAlphabet, maxLen, emit, func(p string) bool {
		return strings.HasPrefix(runPrettyEnc(p), "starved")
	})
	n := 5000
	if tier == "thorough" {
		n = 100000
	}
	for i := 0; i < n; i++ {
		var out []string
		g.tree(cborTreeOpts, 0, &out)
		emit(strings.Join(out, " "))
	}
	genDeep(emit)
	genLengths(emit)
	// strings with every byte value at the start, in the middle and at the end (the printer's escape classes and the
	// runs of ordinary text between them), as values and as keys
	for b := 0; b < 258; b++ {
		h := fmt.Sprintf("%02x", b)
		if b >= 256 {
			h = []string{"e280a8", "e280a9"}[b-256] // U+2028 / U+2029: escaped unconditionally
		}
		for _, str := range []string{h, "61" + h, h + "62", "6161" + h + "6262" + h} {
			emit("s" + str)
			emit("{1 s" + str + " s" + str + " }")
		}
	}
}

// genLengths: string and byte-string tokens of every length around the encoders' scratch buffers (pretty: 64 bytes,
// hex doubles the length), in every position a value or a key can take, followed by more tokens
func genLengths(emit func(string)) {
	var ns []int
	for n := 0; n <= 140; n++ {
		ns = append(ns, n)
	}
	ns = append(ns, 255, 256, 257, 511, 512, 513, 1000, 4095, 4096, 4097)
	for _, n := range ns {
		body := strings.Repeat(fmt.Sprintf("%02x", 'a'+n%26), n)
		for _, k := range []string{"s", "x"} {
			one := k + body
			emit(one)
			emit("[2 " + one + " " + one + " ]")
			emit("[-1 " + one + " i1 ]")
			emit("{1 s" + body + " " + one + " }")
			emit("{-1 s6b " + one + " s6b32 " + one + " }")
			emit("#7" + one)
		}
	}
}

func init() {
	register(&suite{name: "json-enc", gen: genJsonEnc, run: runJsonEnc})
	register(&suite{name: "pretty-enc", gen: genPrettyEnc, run: runPrettyEnc})
}
