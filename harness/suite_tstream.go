package main

// tstream suite (C10 over streams): ONE decoder and ONE encoder pumping a stream of documents, Reset before
// each, as a converter reading document after document does.  Some documents are malformed and fail on their
// last byte; what they leave behind must not reach the documents after them.
//
// payload: "<j2c|c2j> <oracle> <piece>,<piece>,..."   piece = hex, "!hex" for a piece that must fail
// result : "ok <out hex> ;; err ;; ..."  (one entry per piece)

import (
	"bytes"
	"encoding/hex"
	"fmt"
	"strings"

	"github.com/polydawn/refmt/cbor"
	"github.com/polydawn/refmt/json"
	"github.com/polydawn/refmt/shared"
	"github.com/polydawn/refmt/tok"
)

func runTStream(payload string) string {
	fs := strings.Fields(payload)
	if len(fs) != 3 {
		return "harness-error fields"
	}
	var stream []byte
	pieces := strings.Split(fs[2], ",")
	for _, p := range pieces {
		b, err := hex.DecodeString(strings.TrimPrefix(p, "!"))
		if err != nil {
			return "harness-error hex"
		}
		stream = append(stream, b...)
		if fs[0] == "j2c" {
			stream = append(stream, ' ')
		}
	}
	rd := bytes.NewReader(stream)
	var w bytes.Buffer
	var src interface {
		shared.TokenSource
		Reset()
	}
	var sink interface {
		shared.TokenSink
		Reset()
	}
	if fs[0] == "j2c" {
		src, sink = json.NewDecoder(rd), cbor.NewEncoder(&w)
	} else {
		src, sink = cbor.NewDecoder(cbor.DecodeOptions{}, rd), json.NewEncoder(&w, json.EncodeOptions{})
	}
	var outs []string
	for range pieces {
		w.Reset()
		src.Reset()
		sink.Reset()
		err, panicked := safely(func() error { return shared.TokenPump{TokenSource: src, TokenSink: sink}.Run() })
		switch {
		case panicked:
			outs = append(outs, "panic")
		case err != nil:
			outs = append(outs, "err")
		default:
			outs = append(outs, "ok "+hexOrDash(w.Bytes()))
		}
	}
	return strings.Join(outs, " ;; ")
}

var cborPoison = [][]byte{{0x1c}, {0xfc}, {0xff}, {0x3e}, {0xdd}}

func genTStream(g *G, tier string, emit func(string)) {
	n := 2500
	if tier == "thorough" {
		n = 60000
	}
	for i := 0; i < n; i++ {
		k := 2 + g.intn(5)
		var pieces []string
		var all []tok.Token
		isJ := i%2 == 0
		for j := 0; j < k; j++ {
			if j < k-1 && g.chance(0.4) {
				if isJ {
					pieces = append(pieces, "!"+hex.EncodeToString([]byte(jsonPoison[g.intn(len(jsonPoison))])))
				} else {
					pieces = append(pieces, "!"+hex.EncodeToString(cborPoison[g.intn(len(cborPoison))]))
				}
				continue
			}
			if isJ {
				var sb strings.Builder
				g.jsonDoc(0, &sb)
				doc := strings.TrimSpace(sb.String())
				if doc == "" {
					doc = "null"
				}
				pieces = append(pieces, hex.EncodeToString([]byte(doc)))
			} else {
				var item []byte
				g.cborItemCommon(0, &item, true)
				toks, _ := decodeTokens("c", item)
				all = append(all, toks...)
				pieces = append(pieces, hex.EncodeToString(item))
			}
		}
		dir, oracle := "j2c", "-"
		if !isJ {
			dir, oracle = "c2j", floatOracleFor(all)
		}
		emit(fmt.Sprintf("%s %s %s", dir, oracle, strings.Join(pieces, ",")))
	}
	// every JSON poison before every kind of follower
	followers := []string{`"abc"`, `12`, `-0.5`, `[1,"x"]`, `{"k":"v","n":3}`, `true`, `"éx"`, `1e3`}
	for _, p := range jsonPoison {
		for _, f := range followers {
			for _, f2 := range followers[:3] {
				emit(fmt.Sprintf("j2c - %s,!%s,%s,%s", hex.EncodeToString([]byte(f2)), hex.EncodeToString([]byte(p)), hex.EncodeToString([]byte(f)), hex.EncodeToString([]byte(f2))))
			}
		}
	}
}

func init() {
	register(&suite{name: "tstream", gen: genTStream, run: runTStream})
}
