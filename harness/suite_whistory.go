package main

// whistory suite (C17 with write faults): ONE long-lived cbor / json encoder, Reset before every call as the
// Marshallers do, a writer whose fault plan changes from call to call.  Every call must end as the same call on a
// fresh encoder would (ReuseFault.history / jhistory on the model side).
//
// payload: "<c|j> <line> <indent> <oracle> ;; <err|short|both> <stop|once> <k> | <tokens> ;; ..."   (k = 0: healthy)
// result : "<err n|fin n|starved|panic> ;; ..."

import (
	"fmt"
	"strconv"
	"strings"

	"github.com/polydawn/refmt/cbor"
	"github.com/polydawn/refmt/json"
	"github.com/polydawn/refmt/tok"
)

func runWHistory(payload string) string {
	parts := strings.Split(payload, ";;")
	hd := strings.Fields(parts[0])
	if len(hd) != 4 {
		return "harness-error head"
	}
	w := &faultyWriter{k: -1}
	var sink interface {
		tokenSink
		Reset()
	}
	if hd[0] == "c" {
		sink = cbor.NewEncoder(w)
	} else {
		sink = json.NewEncoder(w, json.EncodeOptions{Line: optBytes(hd[1]), Indent: optBytes(hd[2])})
	}
	var outs []string
	for _, call := range parts[1:] {
		head, body, ok := strings.Cut(call, "|")
		fs := strings.Fields(head)
		if !ok || len(fs) != 3 {
			return "harness-error call"
		}
		k, _ := strconv.Atoi(fs[2])
		ts, err := parseTokens(body)
		if err != nil {
			return "harness-error " + err.Error()
		}
		*w = faultyWriter{k: k, stop: fs[1] == "stop", kind: fs[0]}
		if k == 0 {
			w.k = -1
		}
		sink.Reset()
		outs = append(outs, driveSinkErrIndex(sink, ts))
	}
	return strings.Join(outs, " ;; ")
}

func genWHistory(g *G, tier string, emit func(string)) {
	n := 3000
	if tier == "thorough" {
		n = 80000
	}
	small := cborTreeOpts
	small.maxTokens = 20
	smallJ := jsonTreeOpts
	smallJ.maxTokens = 20
	kinds := []string{"err", "short", "both"}
	for i := 0; i < n; i++ {
		isJSON := i%2 == 1
		var calls []string
		var all []tok.Token
		ncalls := 2 + g.intn(5)
		for c := 0; c < ncalls; c++ {
			var out []string
			switch {
			case g.chance(0.15): // an invalid or abandoned sequence
				for k := 1 + g.intn(4); k > 0; k-- {
					out = append(out, encAlphabet[g.intn(len(encAlphabet))])
				}
			case isJSON:
				g.tree(smallJ, 0, &out)
			default:
				g.tree(small, 0, &out)
			}
			toks := strings.Join(out, " ")
			ts, _ := parseTokens(toks)
			all = append(all, ts...)
			plan := "err once 0" // healthy
			if g.chance(0.55) {
				mode := "once"
				if g.chance(0.4) {
					mode = "stop"
				}
				plan = fmt.Sprintf("%s %s %d", kinds[g.intn(3)], mode, 1+g.intn(10))
			}
			calls = append(calls, plan+" | "+toks)
		}
		// the last call always has a healthy writer: it is the one that shows what the earlier ones left behind
		last := calls[len(calls)-1]
		calls[len(calls)-1] = "err once 0 |" + strings.SplitN(last, "|", 2)[1]
		head := "c ~ ~ -"
		if isJSON {
			ws := wsOptions[g.intn(len(wsOptions))]
			head = "j " + ws[0] + " " + ws[1] + " " + floatOracleFor(all)
		}
		emit(head + " ;; " + strings.Join(calls, " ;; "))
	}
	// every write position of a few fixed documents, each followed by a healthy call of every fixed document
	fixedC := []string{"n", "s6162", "[2 i1 u300 ]", "{1 s6b #7f3ff0000000000000 }", "[-1 [-1 [2 bt bf ] ] i-70000 ]"}
	fixedJ := []string{"n", "s6162", "[-1 i1 u300 ]", "{-1 s6b f3ff8000000000000 }", "[-1 {-1 } {-1 s61 n } ]"}
	for _, set := range [][]string{fixedC, fixedJ} {
		fmtc := "c ~ ~ -"
		if &set[0] == &fixedJ[0] {
			var all []tok.Token
			for _, d := range set {
				ts, _ := parseTokens(d)
				all = append(all, ts...)
			}
			fmtc = "j ~ ~ " + floatOracleFor(all)
		}
		for _, d := range set {
			for k := 1; k <= 12; k++ {
				for _, kind := range kinds {
					for _, mode := range []string{"once", "stop"} {
						for _, d2 := range set {
							emit(fmt.Sprintf("%s ;; %s %s %d | %s ;; err once 0 | %s", fmtc, kind, mode, k, d, d2))
						}
					}
				}
			}
		}
	}
}

func init() {
	register(&suite{name: "whistory", gen: genWHistory, run: runWHistory})
}
