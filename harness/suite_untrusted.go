package main

import (
	"bytes"
	"encoding/hex"
	"fmt"
	"io"
	"math"
	"reflect"
	"runtime"
	"strings"
	"time"

	"github.com/polydawn/refmt"
	"github.com/polydawn/refmt/cbor"
	"github.com/polydawn/refmt/json"
	"github.com/polydawn/refmt/shared"
)

// untrusted (C06): "<c|j> <mode> <env> <atlas> <type> | <hex>"   mode: u = Unmarshal into the type, p = pump into the other format
// (U / P: the same, and the measured allocation is held to the tight bound of 2 MiB + 128 bytes per input byte)
// result: "<class> alloc=<bytes> len=<n>"  class: ok | err | panic | hang

func runUntrusted(payload string) string {
	head, hx, _ := strings.Cut(payload, "|")
	fs := strings.SplitN(strings.TrimSpace(head), " ", 3)
	fmtc, mode := fs[0], fs[1]
	tight := mode == "U" || mode == "P" // inputs whose cost must stay close to their length (chunk floods)
	mode = strings.ToLower(mode)
	_, ad, t, _, err := parseObjHeader(fs[2])
	if err != nil {
		return fmt.Sprintf("harness-error %v", err)
	}
	atl, err := ad.build()
	if err != nil {
		return "harness-error atlas: " + err.Error()
	}
	in := optBytes(strings.TrimSpace(hx))
	done := make(chan string, 1)
	var ms0, ms1 runtime.MemStats
	runtime.ReadMemStats(&ms0)
	go func() {
		class := "ok"
		e, p := safely(func() error {
			if mode == "t" || mode == "w" {
				// into the JSON encoder with indentation (a tab / two spaces per level), from either format
				eo := json.EncodeOptions{Line: []byte{'\n'}, Indent: []byte{'\t'}}
				if mode == "w" {
					eo = json.EncodeOptions{Indent: []byte("  ")}
				}
				// (the indented output of a document nested d deep is d*d/2 indent bytes long by its nature: it is
				// written to a sink that keeps nothing, so that what is measured is what the library allocates)
				var src shared.TokenSource = json.NewDecoder(bytes.NewReader(in))
				if fmtc == "c" {
					src = cbor.NewDecoder(cbor.DecodeOptions{}, bytes.NewReader(in))
				}
				return shared.TokenPump{TokenSource: src, TokenSink: json.NewEncoder(io.Discard, eo)}.Run()
			}
			if mode == "p" {
				var w bytes.Buffer
				if fmtc == "c" {
					return shared.TokenPump{TokenSource: cbor.NewDecoder(cbor.DecodeOptions{}, bytes.NewReader(in)), TokenSink: json.NewEncoder(&w, json.EncodeOptions{})}.Run()
				}
				return shared.TokenPump{TokenSource: json.NewDecoder(bytes.NewReader(in)), TokenSink: cbor.NewEncoder(&w)}.Run()
			}
			target := reflect.New(t.rt)
			return refmt.UnmarshalAtlased(decOpts(fmtc), in, target.Interface(), atl)
		})
		if p {
			class = "panic"
		} else if e != nil {
			class = "err"
		}
		done <- class
	}()
	class := "hang"
	select {
	case class = <-done:
	case <-time.After(10 * time.Second):
	}
	runtime.ReadMemStats(&ms1)
	if tight {
		return fmt.Sprintf("%s alloc=%d len=%d tight=1", class, ms1.TotalAlloc-ms0.TotalAlloc, len(in))
	}
	return fmt.Sprintf("%s alloc=%d len=%d", class, ms1.TotalAlloc-ms0.TotalAlloc, len(in))
}

func be(n int, v uint64) []byte {
	b := make([]byte, n)
	for i := n - 1; i >= 0; i-- {
		b[i] = byte(v)
		v >>= 8
	}
	return b
}

func genUntrusted(g *G, tier string, emit func(string)) {
	targets := []string{
		"(env) (atlas 0) a", "(env) (atlas 0) (mp s a)", "(env) (atlas 0) (sl a)", "(env) (atlas 0) (sl (sl i))", "(env) (atlas 0) (ar 2 s)", "(env) (atlas 0) x", "(env) (atlas 0) s",
		"(env) (atlas 0) (pt (pt i8))", "(env) (atlas 0) (X 4)", "(env) (atlas 0) (mp s (sl x))",
	}
	targets = append(targets, fixedTargets()[7:]...)
	em := func(f, mode, tgt string, b []byte) { emit(f + " " + mode + " " + tgt + " | " + hexOrDash(b)) }
	// adversarial length headers on every major type, with little or no payload
	var adv [][]byte
	for _, major := range []byte{0x40, 0x60, 0x80, 0xa0, 0xc0} {
		for _, v := range []uint64{23, 24, 255, 65535, 1 << 20, 33554431, 33554432, 33554433, 1 << 31, 1<<32 - 1, 1 << 32, 1 << 40, 1<<63 - 1, 1 << 63, math.MaxUint64} {
			for _, ai := range []int{1, 2, 4, 8} {
				if ai < 8 && v >= 1<<(uint(ai)*8) {
					continue
				}
				h := append([]byte{major | byte(map[int]int{1: 24, 2: 25, 4: 26, 8: 27}[ai])}, be(ai, v)...)
				adv = append(adv, h, append(append([]byte{}, h...), 0x61, 0x61, 0x01), append([]byte{0x9f}, h...), append([]byte{0xbf, 0x61, 0x6b}, h...))
			}
		}
	}
	// indefinite strings made of many chunks / declared-large chunks
	for _, n := range []int{1, 100, 5000} {
		var b []byte
		b = append(b, 0x7f)
		for i := 0; i < n; i++ {
			b = append(b, 0x61, 0x78)
		}
		adv = append(adv, append(append([]byte{}, b...), 0xff), b, append(append([]byte{}, b...), 0x7a, 0x02, 0x00, 0x00, 0x00))
	}
	// chunk floods: thousands of one- and two-byte chunks in one indefinite string; the accumulated
	// item must not be re-copied per chunk (total allocation stays linear in the input)
	bytesTargets := []string{"(env) (atlas 0) a", "(env) (atlas 0) s", "(env) (atlas 0) x", "(env) (atlas 0) xo", "(env) (atlas 0) (sl a)", "(env) (atlas 0) (mp s a)"}
	for _, nch := range []int{6000, 10000} {
		for _, sig := range []byte{0x7f, 0x5f} {
			for _, clen := range []int{1, 2} {
				b := []byte{sig}
				for i := 0; i < nch; i++ {
					b = append(b, (sig&0xe0)|byte(clen))
					for k := 0; k < clen; k++ {
						b = append(b, 'a'+byte(i%26))
					}
				}
				b = append(b, 0xff)
				for _, tgt := range bytesTargets[:4] {
					em("c", "U", tgt, b)
				}
				em("c", "P", bytesTargets[0], b)
				em("c", "U", bytesTargets[4], append(append([]byte{0x9f}, b...), 0xff))
				em("c", "U", bytesTargets[5], append([]byte{0xa1, 0x61, 0x6b}, b...))
				em("c", "U", bytesTargets[0], b[:len(b)-1]) // cut before the break
			}
		}
	}
	// byte strings of every small length (definite and chunked), text, nulls and arrays into every bytes-like target,
	// the arrays of a named byte type included (routed to the bytes machine by Kind)
	fixedBytes := []string{"(env) (atlas 0) (X 4)", "(env) (atlas 0) (XO 4)", "(env) (atlas 0) (XO 0)", "(env) (atlas 0) xo", "(env) (atlas 0) (sl (XO 1))", "(env) (atlas 0) (mp s (XO 3))", "(env) (atlas 0) (pt (XO 4))", "(env) (atlas 0) (ar 2 (XO 1))"}
	for _, tgt := range fixedBytes {
		for n := 0; n <= 5; n++ {
			pl := bytes.Repeat([]byte{0x07}, n)
			def := append([]byte{0x40 + byte(n)}, pl...)
			ind := append(append([]byte{0x5f, 0x40 + byte(n)}, pl...), 0xff)
			txt := append([]byte{0x60 + byte(n)}, bytes.Repeat([]byte{0x61}, n)...)
			arr := append([]byte{0x80 + byte(n)}, bytes.Repeat([]byte{0x07}, n)...)
			for _, item := range [][]byte{def, ind, txt, arr, {0xf6}, append([]byte{0xc1}, def...)} {
				em("c", "u", tgt, item)
				em("c", "u", tgt, append([]byte{0x81}, item...))
				em("c", "u", tgt, append([]byte{0x82}, append(append([]byte{}, item...), item...)...))
				em("c", "u", tgt, append([]byte{0xa1, 0x61, 0x6b}, item...))
			}
		}
	}
	// deep nesting
	depths := []int{100, 2000}
	if tier == "thorough" {
		depths = append(depths, 20000)
	}
	for _, d := range depths {
		adv = append(adv, bytes.Repeat([]byte{0x81}, d), append(bytes.Repeat([]byte{0x9f}, d), 0x00), append(bytes.Repeat([]byte{0xa1, 0x61, 0x6b}, d), 0xf6), bytes.Repeat([]byte{0xc1}, d))
	}
	for _, a := range adv {
		for _, tgt := range targets[:4] {
			em("c", "u", tgt, a)
		}
		em("c", "p", targets[0], a)
		em("c", "t", targets[0], a)
		em("c", "w", targets[0], a)
	}
	// nesting of every depth to 300 (then coarser) through the pumps with indentation: a pre-sized indent buffer overflows
	// at one particular depth
	for d := 1; d <= 1200; d++ {
		if d > 300 && d%50 != 0 {
			continue
		}
		doc := append(bytes.Repeat([]byte{0x81}, d-1), 0x80)
		mix := append(append([]byte{}, bytes.Repeat([]byte{0xa1, 0x61, 0x6b, 0x9f}, d/2)...), 0xf6)
		for i := 0; i < d/2; i++ {
			mix = append(mix, 0xff)
		}
		jdoc := []byte(strings.Repeat("[", d) + strings.Repeat("]", d))
		for _, mode := range []string{"p", "t", "w"} {
			em("c", mode, targets[0], doc)
			em("c", mode, targets[0], mix)
			em("j", mode, targets[0], jdoc)
		}
	}
	// huge declared counts, nested, into targets whose elements are wide: nothing may be sized from a declared length
	// (mode U: these inputs are at most some seventy bytes long and are held to the tight bound, so that a pre-sizing that is
	// clamped by an entry count — a few thousand entries of a wide element — shows as well as an unclamped one)
	wide := []string{"(env) (atlas 0) (sl (ar 32 i64))", "(env) (atlas 0) (sl (sl (ar 16 i64)))", "(env) (atlas 0) a", "(env) (atlas 0) (sl a)", "(env) (atlas 0) (mp s (sl (ar 32 i64)))",
		"(env) (atlas 0) (sl (ar 512 i64))", "(env) (atlas 0) (sl (sl (ar 512 i64)))", "(env) (atlas 0) (mp s (ar 512 i64))", "(env) (atlas 0) (sl (ar 512 s))"}
	for _, cnt := range []uint64{1 << 10, 1 << 12, 1 << 16, 1<<16 + 1, 1 << 20, 1<<20 + 1, 1 << 24, 1 << 32, 1 << 40, 1<<63 - 1} {
		for depth := 1; depth <= 7; depth++ {
			var b []byte
			for d := 0; d < depth; d++ {
				b = append(b, 0x9b)
				b = append(b, be(8, cnt)...)
			}
			for _, tgt := range wide {
				em("c", "U", tgt, b)
			}
			em("c", "U", wide[4], append([]byte{0xbb}, append(be(8, cnt), append([]byte{0x61, 0x6b}, b...)...)...))
			em("c", "U", wide[7], append([]byte{0xbb}, append(be(8, cnt), append([]byte{0x61, 0x6b}, b...)...)...))
		}
	}
	// every half float (zeros, subnormals, infinities, NaNs), every initial byte alone and followed by zeros,
	// float32 / float64 specials: terminal decoders with loops of their own
	for h := 0; h < 65536; h++ {
		if tier != "thorough" && h%16 != 0 && h&0x7fff > 0x0410 && h&0x7c00 != 0x7c00 {
			continue // quick: all zeros / subnormals / inf / NaN, every 16th normal
		}
		b := []byte{0xf9, byte(h >> 8), byte(h)}
		em("c", "u", targets[0], b)
		if h%64 == 0 {
			em("c", "p", targets[0], b)
		}
	}
	for ib := 0; ib < 256; ib++ {
		em("c", "u", targets[0], []byte{byte(ib)})
		em("c", "u", targets[0], append([]byte{byte(ib)}, make([]byte, 16)...))
		em("c", "p", targets[0], append([]byte{byte(ib)}, bytes.Repeat([]byte{0xff}, 16)...))
	}
	for _, f := range [][]byte{{0xfa, 0, 0, 0, 0}, {0xfa, 0x80, 0, 0, 0}, {0xfa, 0, 0, 0, 1}, {0xfa, 0x7f, 0x80, 0, 0}, {0xfa, 0xff, 0xc0, 0, 1},
		{0xfb, 0, 0, 0, 0, 0, 0, 0, 0}, {0xfb, 0x80, 0, 0, 0, 0, 0, 0, 0}, {0xfb, 0, 0, 0, 0, 0, 0, 0, 1}, {0xfb, 0x7f, 0xf0, 0, 0, 0, 0, 0, 0}, {0xfb, 0x7f, 0xf8, 0, 0, 0, 0, 0, 1}} {
		em("c", "u", targets[0], f)
		em("c", "p", targets[0], f)
	}
	var jadv [][]byte
	for _, d := range depths {
		jadv = append(jadv, bytes.Repeat([]byte("["), d), []byte(strings.Repeat("[", d)+strings.Repeat("]", d)), []byte(strings.Repeat(`{"k":`, d)+"1"+strings.Repeat("}", d)), []byte(strings.Repeat(`{"k":`, d)))
	}
	jadv = append(jadv, []byte(`"`+strings.Repeat("\xff", 5000)+strings.Repeat("a", 20000)+`"`), []byte(`"`+strings.Repeat(`\ud800`, 3000)+`"`), []byte(strings.Repeat("9", 5000)), []byte("1e"+strings.Repeat("9", 400)), []byte("0."+strings.Repeat("0", 5000)+"1"),
		[]byte(strings.Repeat(" ", 50000)+"1"), []byte(`{"a":`+strings.Repeat(" ", 10000)), []byte("-"), []byte("["+strings.Repeat("1,", 20000)+"1]"))
	for _, a := range jadv {
		for _, tgt := range targets[:4] {
			em("j", "u", tgt, a)
		}
		em("j", "p", targets[0], a)
	}
	// random, structure-biased and mutated inputs into every target
	n := 6000
	if tier == "thorough" {
		n = 200000
	}
	for i := 0; i < n; i++ {
		tgt := targets[g.intn(len(targets))]
		if g.chance(0.5) {
			var item []byte
			switch g.intn(3) {
			case 0:
				g.cborItem(0, &item)
			case 1:
				g.cborItem(0, &item)
				for k := 0; k < 1+g.intn(3) && len(item) > 0; k++ {
					item[g.intn(len(item))] = cborStructAlphabet[g.intn(len(cborStructAlphabet))]
				}
			default:
				item = make([]byte, g.intn(12))
				for k := range item {
					if g.chance(0.6) {
						item[k] = cborStructAlphabet[g.intn(len(cborStructAlphabet))]
					} else {
						item[k] = byte(g.intn(256))
					}
				}
			}
			em("c", []string{"u", "u", "p"}[g.intn(3)], tgt, item)
		} else {
			var sb strings.Builder
			g.jsonDoc(0, &sb)
			doc := []byte(sb.String())
			for k := 0; k < g.intn(3) && len(doc) > 0; k++ {
				doc[g.intn(len(doc))] = jsonAlphabet[g.intn(len(jsonAlphabet))]
			}
			em("j", []string{"u", "u", "p"}[g.intn(3)], tgt, doc)
		}
	}
}

var _ = hex.EncodeToString

func init() {
	register(&suite{name: "untrusted", gen: genUntrusted, run: runUntrusted})
}
