package main

// conc suite (C18): N goroutines, each with its own marshaller / unmarshaller / cloner, share one
// Atlas, refmt's package-level state and read-only source values.  Every goroutine must obtain what
// sequential execution gives (and what the model says); the binary is built with -race
// (GORACE=halt_on_error=1 exitcode=66), so a data race kills the run on the case that raced.
//
// payload: <c|j> ; <env> <atlas> ; (it T v)... ; T | tokens || T | tokens ...
// result : m:.. ;; u:.. ;; c:.. ;; d:.. | conc=<1|0 detail>

import (
	"bytes"
	"fmt"
	"math/rand"
	"os"
	"reflect"
	"runtime"
	"strconv"
	"strings"
	"sync"

	"github.com/polydawn/refmt"
	"github.com/polydawn/refmt/cbor"
	"github.com/polydawn/refmt/json"
	"github.com/polydawn/refmt/obj/atlas"
	"github.com/polydawn/refmt/tok"
)

type concItem struct {
	t *TD
	v reflect.Value
}
type concDoc struct {
	t  *TD
	bs []byte
}

type concWork struct {
	isJSON bool
	atl    atlas.Atlas // used by the sequential reference run
	atlC   atlas.Atlas // a fresh atlas built from the same entries: its first use is the concurrent one
	items  []concItem
	mbytes [][]byte // sequential marshal results (nil: error)
	docs   []concDoc
}

func (w *concWork) opts() (refmt_EncodeOptions, refmt_DecodeOptions) {
	if w.isJSON {
		return json.EncodeOptions{}, json.DecodeOptions{}
	}
	return cbor.EncodeOptions{}, cbor.DecodeOptions{}
}

// one job = one result string; kind 0 marshal item i, 1 unmarshal item i's bytes, 2 clone item i, 3 unmarshal doc i
// detail carries the text of the error, which is compared between the sequential and the concurrent runs (never with the model)
func (w *concWork) job(atl atlas.Atlas, kind, i int, m refmt.Marshaller, mbuf *bytes.Buffer, cl refmt.Cloner) (res, detail string) {
	defer func() {
		if r := recover(); r != nil {
			res = "panic"
		}
	}()
	eo, do := w.opts()
	switch kind {
	case 0:
		it := w.items[i]
		var bs []byte
		var err error
		if m != nil { // a long-lived marshaller owned by this goroutine
			mbuf.Reset()
			err = m.Marshal(it.v.Interface())
			bs = append([]byte{}, mbuf.Bytes()...)
		} else {
			bs, err = refmt.MarshalAtlased(eo, it.v.Interface(), atl)
		}
		if err != nil {
			return "merr", err.Error()
		}
		return "m:" + hexOrDash(bs), ""
	case 1:
		it := w.items[i]
		if w.mbytes[i] == nil {
			return "", ""
		}
		target := reflect.New(it.t.rt)
		if err := refmt.UnmarshalAtlased(do, w.mbytes[i], target.Interface(), atl); err != nil {
			return "uerr", err.Error()
		}
		return "u:" + printValue(it.t, target.Elem()), ""
	case 2:
		it := w.items[i]
		dst := reflect.New(it.t.rt)
		var err error
		if cl != nil {
			err = cl.Clone(it.v.Interface(), dst.Interface())
		} else {
			err = refmt.CloneAtlased(it.v.Interface(), dst.Interface(), atl)
		}
		if err != nil {
			return "cerr", err.Error()
		}
		return "c:" + printValue(it.t, dst.Elem()), ""
	default:
		d := w.docs[i]
		target := reflect.New(d.t.rt)
		if err := refmt.UnmarshalAtlased(cbor.DecodeOptions{}, d.bs, target.Interface(), atl); err != nil {
			return "derr", err.Error()
		}
		return "d:" + printValue(d.t, target.Elem()), ""
	}
}

type concJob struct{ kind, i int }

func (w *concWork) jobs() []concJob {
	var js []concJob
	for k := 0; k < 3; k++ {
		for i := range w.items {
			js = append(js, concJob{k, i})
		}
	}
	for i := range w.docs {
		js = append(js, concJob{3, i})
	}
	return js
}

func encodeTokensCBOR(toks []tok.Token) ([]byte, bool) {
	// stepped directly (a document cut short is wanted too: the bytes written so far)
	var buf bytes.Buffer
	enc := cbor.NewEncoder(&buf)
	class, _ := driveSink(enc, toks)
	return buf.Bytes(), class == "fin" || class == "starved"
}

type tokenSourceFunc func(*tok.Token) (bool, error)

func (f tokenSourceFunc) Step(t *tok.Token) (bool, error) { return f(t) }

func parseConc(payload string) (*concWork, string) {
	parts := strings.SplitN(payload, ";", 4)
	if len(parts) != 4 {
		return nil, "harness-error parts"
	}
	w := &concWork{isJSON: strings.TrimSpace(parts[0]) == "j"}
	hx, err := parseSx(parts[1])
	if err != nil || len(hx) < 2 {
		return nil, "harness-error header"
	}
	env, err := parseEnvSx(hx[0])
	if err != nil {
		return nil, "harness-error env"
	}
	ad, err := env.atlasOfSx(hx[1])
	if err != nil {
		return nil, "harness-error atlas"
	}
	if w.atl, err = ad.build(); err != nil {
		return nil, "harness-error atlas build"
	}
	if w.atlC, err = ad.build(); err != nil {
		return nil, "harness-error atlas build"
	}
	items, err := parseSx(parts[2])
	if err != nil {
		return nil, "harness-error items"
	}
	for _, ix := range items {
		t, err := env.typeOfSx(ix.list[1])
		if err != nil {
			return nil, "harness-error type"
		}
		v, err := env.valueOfSx(t, ix.list[2])
		if err != nil {
			return nil, "harness-error value"
		}
		w.items = append(w.items, concItem{t, v})
	}
	for _, ds := range strings.Split(parts[3], "||") {
		if strings.TrimSpace(ds) == "" {
			continue
		}
		tp, ts, ok := splitOnce(ds, '|')
		if !ok {
			return nil, "harness-error doc"
		}
		t, err := env.typeOfSx(mustSx(tp))
		if err != nil {
			return nil, "harness-error doc type"
		}
		toks, err := parseTokens(strings.TrimSpace(ts))
		if err != nil {
			return nil, "harness-error doc tokens"
		}
		bs, ok := encodeTokensCBOR(toks)
		if !ok {
			return nil, "harness-error doc encode"
		}
		w.docs = append(w.docs, concDoc{t, bs})
	}
	return w, ""
}

func mustSx(s string) *sx {
	xs, err := parseSx(s)
	if err != nil || len(xs) != 1 {
		return &sx{atom: "?"}
	}
	return xs[0]
}

func runConc(payload string) string {
	w, e := parseConc(payload)
	if w == nil {
		return e
	}
	eo, _ := w.opts()
	// sequential reference run (fresh instances per call)
	w.mbytes = make([][]byte, len(w.items))
	for i, it := range w.items {
		func() {
			defer func() { recover() }()
			if bs, err := refmt.MarshalAtlased(eo, it.v.Interface(), w.atl); err == nil {
				w.mbytes[i] = bs
			}
		}()
	}
	js := w.jobs()
	seq := make([]string, len(js))
	seqErr := make([]string, len(js))
	for k, j := range js {
		seq[k], seqErr[k] = w.job(w.atl, j.kind, j.i, nil, nil, nil)
		if seq[k] == "panic" {
			return "panic"
		}
	}
	// the text of an error is held against the concurrent runs only where a second sequential run repeats it
	for k, j := range js {
		if seqErr[k] != "" {
			if _, again := w.job(w.atl, j.kind, j.i, nil, nil, nil); again != seqErr[k] {
				seqErr[k] = "?"
			}
		}
	}
	// concurrent runs, under varying GOMAXPROCS
	defer runtime.GOMAXPROCS(runtime.GOMAXPROCS([]int{2, 4, 8, 0}[len(payload)%4]))
	workers := concWorkers
	if workers <= 0 {
		workers = 4 * runtime.NumCPU()
	}
	rounds := concRounds
	var mu sync.Mutex
	diff := ""
	var wg sync.WaitGroup
	start := make(chan struct{})
	for g := 0; g < workers; g++ {
		wg.Add(1)
		go func(g int) {
			defer wg.Done()
			r := rand.New(rand.NewSource(int64(g)*7919 + 1))
			var mbuf bytes.Buffer
			m := refmt.NewMarshallerAtlased(eo, &mbuf, w.atlC)
			cl := refmt.NewCloner(w.atlC)
			<-start
			for round := 0; round < rounds; round++ {
				order := r.Perm(len(js))
				for _, k := range order {
					j := js[k]
					var got, gotErr string
					if (g+round)%2 == 0 {
						got, gotErr = w.job(w.atlC, j.kind, j.i, m, &mbuf, cl) // this goroutine's long-lived instances
					} else {
						got, gotErr = w.job(w.atlC, j.kind, j.i, nil, nil, nil) // package-level helpers (fresh instances)
					}
					if got == seq[k] && seqErr[k] != "?" && gotErr != seqErr[k] {
						got = got + " with error text " + gotErr
					}
					if k == 0 && round == 0 {
						// the atlas-less package-level helper too, on a plain value
						src := map[string][]int{"a": {1, 2, g}, "b": nil}
						var dst map[string][]int
						if err := refmt.Clone(src, &dst); err != nil || len(dst) != 2 || len(dst["a"]) != 3 || dst["a"][2] != g {
							got = fmt.Sprintf("refmt.Clone of a plain map gave %v (err %v)", dst, err)
						}
					}
					if got != seq[k] {
						mu.Lock()
						if diff == "" {
							diff = fmt.Sprintf("goroutine %d round %d job %d/%d: got %.200s want %.120s %.200s", g, round, j.kind, j.i, got, seq[k], seqErr[k])
						}
						mu.Unlock()
						return
					}
				}
			}
		}(g)
	}
	close(start)
	wg.Wait()
	var outs []string
	for _, s := range seq {
		if s != "" {
			outs = append(outs, s)
		}
	}
	res := strings.Join(outs, " ;; ")
	if diff != "" {
		return res + " | conc=0 " + diff
	}
	return res + " | conc=1"
}

var concWorkers, concRounds = 0, 3

func genConc(g *G, tier string, emit func(string)) {
	n := 600
	if tier == "thorough" {
		n = 12000
	}
	if s := os.Getenv("VERIF_CONC_ROUNDS"); s != "" {
		concRounds, _ = strconv.Atoi(s)
	}
	for i := 0; i < n; i++ {
		isJSON := i%3 == 2
		o := optsFull
		o.tags = !isJSON
		if isJSON {
			o = optsJSON
		}
		c := newObjCase()
		c.atl.mode = g.intn(3)
		k := 2 + g.intn(4)
		var its, docs []string
		for j := 0; j < k; j++ {
			t := g.genType(c, o, 0)
			if t.k == "a" || t.k == "if" {
				t = &TD{k: "pt", elem: t, rt: reflect.PtrTo(t.rt)}
			}
			v := g.genValue(c, t, o, 0)
			if !untypedSlotsOK(v, c.atl, false, !isJSON) {
				continue
			}
			if isJSON && hasFloat(v) {
				continue
			}
			its = append(its, "(it "+t.String()+" "+printValue(t, v)+")")
			// a document for the same type that carries every ignored key of its struct map
			if atl, err := c.atl.build(); err == nil {
				if class, toks := marshalTokens(atl, v.Interface(), 100000); class == "ok" && len(toks) > 0 {
					// failing documents: every error path reads the shared atlas too (member lists, field names)
					if len(toks) >= 2 {
						var strs, scal []int
						for p, tk := range toks {
							switch tk.Type {
							case tok.TString:
								strs = append(strs, p)
							case tok.TInt, tok.TUint, tok.TBool, tok.TFloat64, tok.TBytes:
								scal = append(scal, p)
							}
						}
						mutate := func(p int, f func(*tok.Token)) {
							nt := append([]tok.Token{}, toks...)
							f(&nt[p])
							g.count("doc-mutated")
							docs = append(docs, t.String()+" | "+printTokens(nt))
						}
						for n := 0; n < 3 && len(strs) > 0; n++ {
							mutate(strs[g.intn(len(strs))], func(tk *tok.Token) { tk.Str = "no such name" })
						}
						if len(scal) > 0 {
							p := scal[g.intn(len(scal))]
							nt := append(append(append([]tok.Token{}, toks[:p]...), tok.Token{Type: tok.TArrOpen, Length: 0}, tok.Token{Type: tok.TArrClose}), toks[p+1:]...)
							g.count("doc-mutated")
							docs = append(docs, t.String()+" | "+printTokens(nt))
						}
					}
					st := t
					for st.k == "pt" {
						st = st.elem
					}
					for _, e := range c.atl.entries {
						if toks[0].Type != tok.TMapOpen || e.kind != "smap" || e.t.rt != st.rt {
							continue
						}
						var extra []tok.Token
						for _, f := range e.flds {
							if f.ignore {
								extra = append(extra, tok.Token{Type: tok.TString, Str: f.name})
								switch g.intn(3) {
								case 0:
									extra = append(extra, tok.Token{Type: tok.TInt, Int: int64(g.intn(1000))})
								case 1:
									extra = append(extra, tok.Token{Type: tok.TArrOpen, Length: 2}, tok.Token{Type: tok.TString, Str: "ig"}, tok.Token{Type: tok.TBool, Bool: true}, tok.Token{Type: tok.TArrClose})
								default:
									extra = append(extra, tok.Token{Type: tok.TMapOpen, Length: 1}, tok.Token{Type: tok.TString, Str: "k"}, tok.Token{Type: tok.TNull}, tok.Token{Type: tok.TMapClose})
								}
								toks[0].Length++
							}
						}
						if len(extra) > 0 {
							g.count("doc-with-ignored-keys")
							nt := append([]tok.Token{toks[0]}, append(extra, toks[1:]...)...)
							docs = append(docs, t.String()+" | "+printTokens(nt))
						}
					}
				}
			}
		}
		if len(its) == 0 {
			continue
		}
		f := "c"
		if isJSON {
			f = "j"
		}
		g.count(fmt.Sprintf("items=%d", len(its)))
		emit(f + " ; " + c.env.String() + " " + c.atl.String() + " ; " + strings.Join(its, " ") + " ; " + strings.Join(docs, " || "))
	}
}

func hasFloat(v reflect.Value) bool {
	switch v.Kind() {
	case reflect.Float32, reflect.Float64:
		return true
	case reflect.Slice, reflect.Array:
		for i := 0; i < v.Len(); i++ {
			if hasFloat(v.Index(i)) {
				return true
			}
		}
	case reflect.Map:
		for _, k := range v.MapKeys() {
			if hasFloat(v.MapIndex(k)) {
				return true
			}
		}
	case reflect.Ptr, reflect.Interface:
		if !v.IsNil() {
			return hasFloat(v.Elem())
		}
	case reflect.Struct:
		for i := 0; i < v.NumField(); i++ {
			if hasFloat(v.Field(i)) {
				return true
			}
		}
	}
	return false
}

func init() {
	register(&suite{name: "conc", gen: genConc, run: runConc})
}
