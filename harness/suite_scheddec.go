package main

import (
	"bytes"
	"encoding/hex"
	"fmt"
	"strconv"
	"strings"

	"github.com/polydawn/refmt/cbor"
	"github.com/polydawn/refmt/json"
)

// sched-dec: "<c|j> <hex doc> | <schedule>": decode one item through a scheduling reader.
func runSchedDec(payload string) string {
	head, _, _ := strings.Cut(payload, "|")
	// the same document through the given schedule, and from memory (one Read delivers everything)
	return runSchedDec1(payload) + " | mem: " + runSchedDec1(head+"|")
}

func runSchedDec1(payload string) string {
	head, sc, _ := strings.Cut(payload, "|")
	fs := strings.Fields(head)
	var in []byte
	if len(fs) > 1 && fs[1] != "-" {
		in, _ = hex.DecodeString(fs[1])
	}
	rd := &schedReader{data: append([]byte{}, in...), sched: parseSched(sc)}
	budget := 2*len(in) + 10
	if fs[0] == "c" {
		dec := cbor.NewDecoder(cbor.DecodeOptions{}, rd)
		class, toks, err := driveSource(dec, budget)
		switch class {
		case "ok":
			return fmt.Sprintf("ok @%d %s", dec.VerifNumRead(), strings.Join(toks, " "))
		case "err":
			return fmt.Sprintf("err %s %d", rerrName(err), len(toks))
		}
		return class
	}
	dec := json.NewDecoder(rd)
	class, toks, err := driveSource(dec, budget)
	switch class {
	case "ok":
		return fmt.Sprintf("ok @%d %s", dec.VerifNumRead(), strings.Join(toks, " "))
	case "err":
		return fmt.Sprintf("err %s %d", rerrName(err), len(toks))
	}
	return class
}

func genSchedDec(g *G, tier string, emit func(string)) {
	docs := []string{}
	// short documents of both formats, valid and invalid
	for _, d := range []string{"182a", "6161", "83010203", "9f0102ff", "a16161f6", "bf616101ff", "5f41614162ff", "7f616161ff", "fb3ff0000000000000", "f93c00", "c24101", "3903e7",
		"1b0000000100000000", "82", "9f01", "a161", "7f6161", "5f4161", "fb3ff0", "ff", "1c", "c1c200",
		// cut right after a head that announces a payload of several bytes (the reader's multi-byte path starts on an empty stream)
		"19", "1a", "1b", "39", "62", "42", "5802", "7803", "f9", "fa", "fb", "c219", "8119", "a16162", "5f42", "7f62", "d819"} {
		docs = append(docs, "c "+d)
	}
	for _, d := range []string{`"ab"`, `[1,2]`, `{"a":1}`, `null`, `true`, `false`, `-12.5e3`, `123 `, `"é\n"`, `[1, 2 ,]`, `{"k":[null,"x"]}`, `"é😀"`,
		`nul`, `[1,`, `{"a"`, `"ab`, `tru`, `1.`, `[1.]`, `nxyz`, `{1:2}`, ` 7`, `7`, `[]`, `{}`, `t`, `n`, `f`, `[t`, `{"a":n`} {
		docs = append(docs, "j "+hex.EncodeToString([]byte(d)))
	}
	maxSplit := 10
	if tier == "thorough" {
		maxSplit = 14
	}
	for _, d := range docs {
		fs := strings.Fields(d)
		n := len(fs[1]) / 2
		if n > maxSplit {
			continue
		}
		// every composition of n into chunk sizes, x EOF-with-data, x a run of zero reads at one position
		var rec func(left int, cur []int)
		rec = func(left int, cur []int) {
			if left == 0 {
				for _, ewd := range []bool{false, true} {
					for zi := -1; zi <= len(cur); zi++ {
						if zi >= 0 && len(cur) > 5 && tier != "thorough" {
							break
						}
						var ws []string
						for i, k := range cur {
							if i == zi {
								ws = append(ws, "0", "0", "0")
							}
							w := strconv.Itoa(k)
							if ewd {
								w += "E"
							}
							ws = append(ws, w)
						}
						if zi == len(cur) {
							ws = append(ws, "0")
						}
						emit(d + " | " + strings.Join(ws, " "))
					}
				}
				return
			}
			for k := 1; k <= left; k++ {
				rec(left-k, append(cur, k))
			}
		}
		rec(n, nil)
	}
	// readers that answer (0, nil) after their last byte and only then report the end of input ("Z", a zero-length
	// read like "0"): the whole document, or one byte at a time, then one to three such reads — every document
	// above, the cut ones included
	for _, d := range docs {
		n := len(strings.Fields(d)[1]) / 2
		for z := 1; z <= 3; z++ {
			zs := strings.Repeat(" Z", z)
			emit(d + " | " + strconv.Itoa(n) + zs)
			emit(d + " |" + strings.Repeat(" 1", n) + zs)
			emit(d + " |" + strings.Repeat(" 0 1", n) + zs)
		}
	}
	// a long string delivered one byte at a time with a zero-length read before every byte
	{
		long := append([]byte{0x78, 140}, bytes.Repeat([]byte{0x61}, 140)...)
		var ws []string
		for i := 0; i < len(long)+2; i++ {
			ws = append(ws, "0", "1")
		}
		emit("c " + hex.EncodeToString(long) + " | " + strings.Join(ws, " "))
		emit("c 5f" + hex.EncodeToString(long) + "ff | " + strings.Join(ws, " "))
		jl := []byte(`"` + strings.Repeat("ab", 80) + `"`)
		emit("j " + hex.EncodeToString(jl) + " | " + strings.Join(ws, " "))
	}
	// long random documents under random schedules
	nr := 3000
	if tier == "thorough" {
		nr = 60000
	}
	for i := 0; i < nr; i++ {
		if g.chance(0.5) {
			var item []byte
			g.cborItem(0, &item)
			if g.chance(0.2) && len(item) > 0 {
				item = item[:g.intn(len(item))]
			}
			emit("c " + hexOrDash(item) + " | " + g.randSched(g.intn(30), true, false))
		} else {
			var sb strings.Builder
			g.jsonDoc(0, &sb)
			doc := []byte(sb.String())
			if g.chance(0.2) && len(doc) > 0 {
				doc = doc[:g.intn(len(doc))]
			}
			emit("j " + hexOrDash(doc) + " | " + g.randSched(g.intn(30), true, false))
		}
	}
}

func init() {
	register(&suite{name: "sched-dec", gen: genSchedDec, run: runSchedDec})
}
