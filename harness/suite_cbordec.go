package main

import (
	"bytes"
	"encoding/hex"
	"fmt"
	"io"
	"math"
	"strconv"
	"strings"
	"testing/iotest"

	"github.com/polydawn/refmt/cbor"
	"github.com/polydawn/refmt/tok"
)

type tokenSource interface {
	Step(*tok.Token) (bool, error)
}

func errClass(err error) string {
	switch err {
	case io.EOF:
		return "eof"
	case io.ErrUnexpectedEOF:
		return "ueof"
	}
	return "other"
}

// driveSource steps a decoder with one reused token slot (as TokenPump does)
// until done / error / panic / budget.
func driveSource(src tokenSource, budget int) (class string, toks []string, err error) {
	defer func() {
		if r := recover(); r != nil {
			class = "panic"
			err = fmt.Errorf("%v", r)
		}
	}()
	// the tokens are kept as they were handed out and only looked at when the run is over, as a consumer
	// collecting them would: a byte-string token must not be a view of a buffer the decoder reuses
	var slot tok.Token
	if _, isCbor := src.(*cbor.Decoder); isCbor {
		// the slot is the caller's and may hold anything from earlier use (a pump reuses one slot; a consumer reading item
		// after item does too): a decoder that has tags says for every token whether it carries one
		slot = tok.Token{Type: tok.TString, Str: "stale", Bytes: []byte("stale"), Length: 7, Int: 7, Uint: 7, Float64: 7, Bool: true, Tagged: true, Tag: 77}
	}
	var kept []tok.Token
	render := func() []string {
		out := make([]string, len(kept))
		for i, t := range kept {
			out[i] = printTokenProjected(t)
		}
		return out
	}
	for i := 0; i < budget; i++ {
		done, e := src.Step(&slot)
		if e != nil {
			return "err", render(), e
		}
		kept = append(kept, slot)
		if done {
			return "ok", render(), nil
		}
	}
	return "hang", render(), nil
}

func runCborDec(payload string) string {
	fs := strings.Fields(payload)
	coerce := fs[0] == "1"
	var in []byte
	if len(fs) > 1 {
		var err error
		in, err = hex.DecodeString(fs[1])
		if err != nil {
			return "harness-error " + err.Error()
		}
	}
	rd := bytes.NewReader(in)
	// an optional third field picks how the bytes are delivered (the verdict must not depend on it)
	var src io.Reader = rd
	// (not said: in rotation by the length of the input)
	via := []string{"whole", "one", "half", "dataerr"}[len(in)%4]
	if len(fs) > 2 {
		via = fs[2]
	}
	switch via {
	case "one":
		src = iotest.OneByteReader(rd)
	case "half":
		src = iotest.HalfReader(rd)
	case "dataerr":
		src = iotest.DataErrReader(rd)
	}
	dec := cbor.NewDecoder(cbor.DecodeOptions{CoerceUndefToNull: coerce}, src)
	class, toks, err := driveSource(dec, 2*len(in)+10)
	switch class {
	case "ok":
		consumed := len(in) - rd.Len()
		if via == "dataerr" {
			consumed = dec.VerifNumRead() // this reader reads ahead of what it hands out
		}
		return fmt.Sprintf("ok %d %s", consumed, strings.Join(toks, " "))
	case "err":
		return fmt.Sprintf("err %s %d", errClass(err), len(toks))
	}
	return class
}

// ---- generators -------------------------------------------------------------

var cborStructAlphabet = []byte{0x00, 0x01, 0x17, 0x18, 0x19, 0x1a, 0x1b, 0x1c, 0x1f, 0x20, 0x38, 0x3b, 0x40, 0x41, 0x58, 0x5f, 0x60, 0x61, 0x7f,
	0x80, 0x81, 0x82, 0x98, 0x9f, 0xa0, 0xa1, 0xb8, 0xbf, 0xc0, 0xc1, 0xd8, 0xdb, 0xdf, 0xe0, 0xf4, 0xf5, 0xf6, 0xf7, 0xf8, 0xf9, 0xfa, 0xfb, 0xfc, 0xff, 0x7f ^ 0x80, 0x02}

// cborItem appends one random well-formed item in a random spelling.
func (g *G) cborItem(depth int, out *[]byte) {
	head := func(major byte, v uint64) {
		// random non-shortest spellings too
		minSize := 0
		switch {
		case v < 24:
			minSize = 0
		case v < 1<<8:
			minSize = 1
		case v < 1<<16:
			minSize = 2
		case v < 1<<32:
			minSize = 3
		default:
			minSize = 4
		}
		size := minSize
		if g.chance(0.3) {
			size = minSize + g.intn(5-minSize)
		}
		switch size {
		case 0:
			*out = append(*out, major|byte(v))
		case 1:
			*out = append(*out, major|24, byte(v))
		case 2:
			*out = append(*out, major|25, byte(v>>8), byte(v))
		case 3:
			*out = append(*out, major|26, byte(v>>24), byte(v>>16), byte(v>>8), byte(v))
		default:
			*out = append(*out, major|27, byte(v>>56), byte(v>>48), byte(v>>40), byte(v>>32), byte(v>>24), byte(v>>16), byte(v>>8), byte(v))
		}
	}
	if g.chance(0.12) {
		g.count("cbor.tag")
		head(0xc0, g.u64()&math.MaxInt64)
	}
	k := g.intn(12)
	if depth >= 4 && k >= 8 {
		k = g.intn(8)
	}
	switch k {
	case 0:
		g.count("cbor.uint")
		head(0x00, g.u64())
	case 1:
		g.count("cbor.negint")
		head(0x20, g.u64()) // may exceed the int64 range: an error case
	case 2:
		g.count("cbor.bytes")
		s := g.str()
		if g.chance(0.25) {
			*out = append(*out, 0x5f)
			for len(s) > 0 {
				n := 1 + g.intn(len(s))
				head(0x40, uint64(n))
				*out = append(*out, s[:n]...)
				s = s[n:]
				if g.chance(0.2) {
					head(0x40, 0)
				}
			}
			*out = append(*out, 0xff)
		} else {
			head(0x40, uint64(len(s)))
			*out = append(*out, s...)
		}
	case 3:
		g.count("cbor.text")
		s := g.str()
		if g.chance(0.25) {
			*out = append(*out, 0x7f)
			for len(s) > 0 {
				n := 1 + g.intn(len(s))
				head(0x60, uint64(n))
				*out = append(*out, s[:n]...)
				s = s[n:]
			}
			*out = append(*out, 0xff)
		} else {
			head(0x60, uint64(len(s)))
			*out = append(*out, s...)
		}
	case 4:
		g.count("cbor.float")
		switch g.intn(3) {
		case 0:
			v := uint16(g.r.Uint32())
			*out = append(*out, 0xf9, byte(v>>8), byte(v))
		case 1:
			v := g.r.Uint32()
			if g.chance(0.3) {
				v = []uint32{0, 0x80000000, 0x7f800000, 0xff800000, 0x7fc00000, 0x7f800001, 0x7fa00000, 1, 0x007fffff, 0x00800000, 0x3f800000}[g.intn(11)]
			}
			*out = append(*out, 0xfa, byte(v>>24), byte(v>>16), byte(v>>8), byte(v))
		default:
			v := g.f64bits()
			*out = append(*out, 0xfb, byte(v>>56), byte(v>>48), byte(v>>40), byte(v>>32), byte(v>>24), byte(v>>16), byte(v>>8), byte(v))
		}
	case 5:
		g.count("cbor.simple")
		*out = append(*out, []byte{0xf4, 0xf5, 0xf6, 0xf7}[g.intn(4)])
	case 6, 7:
		g.count("cbor.uint")
		head(0x00, uint64(g.intn(30)))
	case 8:
		g.count("cbor.array")
		n := g.intn(4)
		head(0x80, uint64(n))
		for i := 0; i < n; i++ {
			g.cborItem(depth+1, out)
		}
	case 9:
		g.count("cbor.array-indef")
		n := g.intn(4)
		*out = append(*out, 0x9f)
		for i := 0; i < n; i++ {
			g.cborItem(depth+1, out)
		}
		*out = append(*out, 0xff)
	case 10:
		g.count("cbor.map")
		n := g.intn(4)
		head(0xa0, uint64(n))
		for i := 0; i < 2*n; i++ {
			g.cborItem(depth+1, out)
		}
	default:
		g.count("cbor.map-indef")
		n := g.intn(4)
		*out = append(*out, 0xbf)
		for i := 0; i < 2*n; i++ {
			g.cborItem(depth+1, out)
		}
		*out = append(*out, 0xff)
	}
}

func genCborDec(g *G, tier string, emit func(string)) {
	both := func(b []byte) {
		h := hex.EncodeToString(b)
		emit("0 " + h)
		emit("1 " + h)
	}
	// (a) all byte strings up to 2 bytes (quick) / 3 bytes (thorough)
	both(nil)
	for a := 0; a < 256; a++ {
		both([]byte{byte(a)})
		for b := 0; b < 256; b++ {
			emit("0 " + hex.EncodeToString([]byte{byte(a), byte(b)}))
		}
	}
	if tier == "thorough" {
		for a := 0; a < 256; a++ {
			for b := 0; b < 256; b++ {
				for c := 0; c < 256; c++ {
					emit("0 " + hex.EncodeToString([]byte{byte(a), byte(b), byte(c)}))
				}
			}
		}
	}
	// (b) all strings up to length L over the structural alphabet
	L := 3
	if tier == "thorough" {
		L = 4
	}
	var rec func(prefix []byte)
	rec = func(prefix []byte) {
		for _, a := range cborStructAlphabet {
			s := append(append([]byte{}, prefix...), a)
			emit("0 " + hex.EncodeToString(s))
			if len(s) < L {
				rec(s)
			}
		}
	}
	rec(nil)
	// (c) all 65536 half floats; singles: specials + sample (thorough: a 2^24 stride sweep)
	for v := 0; v < 65536; v++ {
		emit("0 f9" + fmt.Sprintf("%04x", v))
	}
	step := uint64(1 << 16)
	if tier == "thorough" {
		step = 1 << 9
	}
	for v := uint64(0); v < 1<<32; v += step + uint64(g.intn(7)) {
		emit("0 fa" + fmt.Sprintf("%08x", v))
	}
	for _, e := range []uint32{0, 1, 254, 255} {
		for m := uint32(0); m < 1<<23; m += 1<<23/64 + 1 {
			for _, s := range []uint32{0, 1} {
				emit("0 fa" + fmt.Sprintf("%08x", s<<31|e<<23|m))
				emit("0 fa" + fmt.Sprintf("%08x", s<<31|e<<23|(m^1)))
			}
		}
	}
	// (d) head boundaries on every major, incl. the int64 / maxInt / cap edges
	for _, major := range []byte{0x00, 0x20, 0x40, 0x60, 0x80, 0xa0, 0xc0} {
		for _, v := range []uint64{0, 23, 24, 255, 256, 65535, 65536, 1<<32 - 1, 1 << 32, 33554431, 33554432, 33554433,
			1<<63 - 1, 1 << 63, 1<<63 + 1, math.MaxUint64 - 1, math.MaxUint64} {
			for _, ai := range []byte{24, 25, 26, 27} {
				b := []byte{major | ai}
				switch ai {
				case 24:
					b = append(b, byte(v))
				case 25:
					b = append(b, byte(v>>8), byte(v))
				case 26:
					b = append(b, byte(v>>24), byte(v>>16), byte(v>>8), byte(v))
				default:
					b = append(b, byte(v>>56), byte(v>>48), byte(v>>40), byte(v>>32), byte(v>>24), byte(v>>16), byte(v>>8), byte(v))
				}
				both(b)
				both(append(b, 0x00))
				both(append(append([]byte{}, b...), 0x61, 0x62, 0xff))
			}
		}
	}
	// (e) generated valid items, every proper prefix, single-byte mutations
	n := 6000
	if tier == "thorough" {
		n = 100000
	}
	for i := 0; i < n; i++ {
		var item []byte
		g.cborItem(0, &item)
		both(item)
		both(append(append([]byte{}, item...), byte(g.intn(256)), 0x01))
		if len(item) <= 40 {
			for k := 0; k < len(item); k++ {
				emit("0 " + hex.EncodeToString(item[:k]))
			}
		}
		for k := 0; k < 3 && len(item) > 0; k++ {
			m := append([]byte{}, item...)
			pos := g.intn(len(m))
			switch g.intn(4) {
			case 0:
				m[pos] = cborStructAlphabet[g.intn(len(cborStructAlphabet))]
			case 1:
				m[pos] ^= 1 << uint(g.intn(8))
			case 2:
				m = append(m[:pos], m[pos+1:]...)
			default:
				m = append(m[:pos], append([]byte{cborStructAlphabet[g.intn(len(cborStructAlphabet))]}, m[pos:]...)...)
			}
			emit(strconv.Itoa(g.intn(2)) + " " + hex.EncodeToString(m))
		}
	}
	// (f) deep nesting and long definite containers
	for _, depth := range []int{50, 500, 3000} {
		var b []byte
		for i := 0; i < depth; i++ {
			b = append(b, []byte{0x81, 0x9f, 0xa1, 0xbf}[i%4])
			if i%4 >= 2 {
				b = append(b, 0x61, 0x6b)
			}
		}
		b = append(b, 0xf6)
		for i := depth - 1; i >= 0; i-- {
			if i%2 == 1 {
				b = append(b, 0xff)
			}
		}
		both(b)
		both(b[:len(b)-1])
	}
	// (g) strings of every length around the reader's scratch buffer (32 bytes; twice that too), each followed by
	// further items that are read through the same scratch space: a token handed out earlier must not change
	for n := 0; n <= 70; n++ {
		for _, major := range []byte{0x40, 0x60} {
			str := bytes.Repeat([]byte{'a' + byte(n%26)}, n)
			hd := []byte{major | byte(n)}
			if n >= 24 {
				hd = []byte{major | 24, byte(n)}
			}
			one := append(append([]byte{}, hd...), str...)
			var item []byte
			item = append(item, 0x84)
			item = append(item, one...)
			item = append(item, major|5, 'V', 'A', 'L', 'U', 'E', 0x19, 0x03, 0xe8)
			item = append(item, one...)
			both(item)
			item = append([]byte{0xa2, 0x61, 'k'}, one...)
			if major == 0x60 {
				item = append(append(item, one...), 0xfb, 0x3f, 0xf8, 0, 0, 0, 0, 0, 1)
			} else {
				item = append(item, 0x61, 'f', 0xfb, 0x3f, 0xf8, 0, 0, 0, 0, 0, 1)
			}
			both(item)
			item = append([]byte{0x9f, major | 31}, one...)
			item = append(item, major|2, 'x', 'y', 0xff, 0x1a, 0, 1, 0, 0)
			item = append(append(item, one...), 0xff)
			both(item)
		}
	}
	// (h) definite-length containers nested past every growth step of the decoder's bookkeeping (10, 20, 40 open
	// containers), each level followed by a sibling, so that a lost count re-nests the item
	for depth := 1; depth <= 45; depth++ {
		for shape := 0; shape < 3; shape++ {
			var item []byte
			for d := 0; d < depth; d++ {
				if shape == 0 || (shape == 2 && d%2 == 0) {
					item = append(item, 0x82)
				} else {
					item = append(item, 0xa2, 0x61, 'n')
				}
			}
			item = append(item, 0x80)
			for d := depth - 1; d >= 0; d-- {
				if shape == 0 || (shape == 2 && d%2 == 0) {
					item = append(item, 0x18, byte(d))
				} else {
					item = append(item, 0x61, 's', 0x18, byte(d))
				}
			}
			both(item)
			both(append(append([]byte{}, item...), 0x01))
			// one element per level (the shape of a lost decrement at the innermost level)
			var lean []byte
			for d := 0; d < depth; d++ {
				lean = append(lean, 0x81)
			}
			lean = append(lean, 0x07)
			both(lean)
			both(append(lean, 0x07))
		}
	}
	// (i) chunked strings: some bytes accumulated, then a chunk whose declared length lies about the rest —
	// around the cap, around 2^31 / 2^32, and within the accumulated length of the largest int
	for _, major := range []byte{0x40, 0x60} {
		for _, acc := range []int{0, 1, 2, 5, 23, 31, 32, 33, 64} {
			var ns []uint64
			for _, base := range []uint64{33554432, 1 << 31, 1 << 32, 1 << 62, 1<<63 - 1} {
				for _, d := range []int64{-int64(acc) - 1, -int64(acc), -int64(acc) + 1, -1, 0, 1} {
					ns = append(ns, base+uint64(d))
				}
			}
			for _, n := range ns {
				item := []byte{major | 31}
				if acc > 0 {
					if acc < 24 {
						item = append(item, major|byte(acc))
					} else {
						item = append(item, major|24, byte(acc))
					}
					item = append(item, bytes.Repeat([]byte{'a'}, acc)...)
				}
				item = append(item, major|27, byte(n>>56), byte(n>>48), byte(n>>40), byte(n>>32), byte(n>>24), byte(n>>16), byte(n>>8), byte(n))
				both(item)
				both(append(append([]byte{}, item...), 'x', 'y', 0xff))
			}
		}
	}
}

func init() {
	register(&suite{name: "cbor-dec", gen: genCborDec, run: runCborDec})
}
