package main

import (
	"bytes"
	"io"
	"testing/iotest"
	"math"
	"math/big"
	"reflect"
	"strings"

	"github.com/polydawn/refmt"
	"github.com/polydawn/refmt/cbor"
	"github.com/polydawn/refmt/json"
)

// wirenum (C09, wire level): "<c|j> <kind> <decimal integer>": the integer is serialized by hand
// (JSON: its decimal text; CBOR: major type 0 / 1 head) and unmarshalled into the kind.

func wireOf(fmtc string, z *big.Int) []byte {
	if fmtc == "j" {
		return []byte(z.String())
	}
	major := byte(0x00)
	arg := new(big.Int).Set(z)
	if z.Sign() < 0 {
		major = 0x20
		arg.Neg(z)
		arg.Sub(arg, big.NewInt(1))
	}
	if !arg.IsUint64() {
		return nil
	}
	v := arg.Uint64()
	switch {
	case v < 24:
		return []byte{major | byte(v)}
	case v < 1<<8:
		return []byte{major | 24, byte(v)}
	case v < 1<<16:
		return append([]byte{major | 25}, be(2, v)...)
	case v < 1<<32:
		return append([]byte{major | 26}, be(4, v)...)
	}
	return append([]byte{major | 27}, be(8, v)...)
}

var wireNumRot int

func runWireNum(payload string) string {
	fs := strings.Fields(payload)
	e := newEnv()
	t := e.mustParseType(fs[1])
	z, ok := new(big.Int).SetString(fs[2], 10)
	if !ok {
		return "harness-error number"
	}
	w := wireOf(fs[0], z)
	if w == nil {
		return "nowire"
	}
	target := reflect.New(t.rt)
	// the same bytes from memory, one byte per Read, half-size Reads, and with the last data arriving together
	// with io.EOF, in rotation: the number stored must not depend on how the reader delivers it
	wireNumRot++
	err, p := safely(func() error {
		var rd io.Reader
		switch wireNumRot % 4 {
		case 1:
			rd = iotest.OneByteReader(bytes.NewReader(w))
		case 2:
			rd = iotest.DataErrReader(bytes.NewReader(w))
		case 3:
			rd = iotest.HalfReader(bytes.NewReader(w))
		}
		if rd != nil {
			if fs[0] == "c" {
				return refmt.NewUnmarshaller(cbor.DecodeOptions{}, rd).Unmarshal(target.Interface())
			}
			return refmt.NewUnmarshaller(json.DecodeOptions{}, rd).Unmarshal(target.Interface())
		}
		if fs[0] == "c" {
			return refmt.Unmarshal(cbor.DecodeOptions{}, w, target.Interface())
		}
		return refmt.Unmarshal(json.DecodeOptions{}, w, target.Interface())
	})
	if p {
		return "panic"
	}
	if err != nil {
		return "err " + hexOrDash(w)
	}
	return "done " + printValue(t, target.Elem()) + " " + hexOrDash(w)
}

func genWireNum(g *G, tier string, emit func(string)) {
	kinds := []string{"i8", "i16", "i32", "i64", "i", "u8", "u16", "u32", "u64", "u", "up", "a", "f64", "f32"}
	var nums []*big.Int
	add := func(z *big.Int) { nums = append(nums, z) }
	for _, k := range []uint{0, 7, 8, 15, 16, 31, 32, 53, 63, 64} {
		b := new(big.Int).Lsh(big.NewInt(1), k)
		for d := int64(-2); d <= 2; d++ {
			x := new(big.Int).Add(b, big.NewInt(d))
			add(x)
			add(new(big.Int).Neg(x))
		}
	}
	for _, s := range []string{"9999999999999999999", "10000000000000000000", "-9999999999999999999", "99999999999999999999", "1000000000000000000", "-1000000000000000000", "12345678901234567890", "-12345678901234567890"} {
		z, _ := new(big.Int).SetString(s, 10)
		add(z)
	}
	lim := int64(300)
	if tier == "thorough" {
		lim = 70000
	}
	for z := -lim; z <= lim; z++ {
		add(big.NewInt(z))
	}
	for i := 0; i < 300; i++ {
		add(new(big.Int).SetUint64(g.u64()))
		add(big.NewInt(g.i64()))
	}
	for _, k := range kinds {
		for _, z := range nums {
			if (k == "a" || strings.HasPrefix(k, "f")) && z.BitLen() < 6 && z.Sign() > 0 && z.Int64()%2 == 0 {
				continue
			}
			emit("c " + k + " " + z.String())
			emit("j " + k + " " + z.String())
		}
	}
	_ = math.MaxInt64
}

func init() {
	register(&suite{name: "wirenum", gen: genWireNum, run: runWireNum})
}
