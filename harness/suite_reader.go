package main

import (
	"encoding/hex"
	"errors"
	"fmt"
	"io"
	"strconv"
	"strings"

	"github.com/polydawn/refmt/shared"
)

var errInjected = errors.New("injected reader fault")

// schedReader delivers data according to a schedule (see Reader.v: src_read).
type schedReader struct {
	data  []byte
	sched []schedEntry
}

type schedEntry struct {
	n     int
	ewd   bool
	fault bool
	zend  bool // "Z": the same as "0", a zero-length read (also after the last byte: the end of input is reported by a later Read)
}

func (r *schedReader) Read(p []byte) (int, error) {
	if len(p) == 0 {
		return 0, nil
	}
	var e *schedEntry
	if len(r.sched) > 0 {
		e = &r.sched[0]
		r.sched = r.sched[1:]
	}
	if len(r.data) == 0 {
		if e != nil && e.fault {
			return 0, errInjected
		}
		if e != nil && (e.zend || e.n == 0) {
			return 0, nil // a zero-length read even here: the end is reported by a later Read (Reader.v: SChunk 0 on empty data)
		}
		return 0, io.EOF
	}
	if e == nil {
		n := copy(p, r.data)
		r.data = r.data[n:]
		return n, nil
	}
	if e.fault {
		return 0, errInjected
	}
	m := e.n
	if m > len(p) {
		m = len(p)
	}
	n := copy(p[:m], r.data)
	r.data = r.data[n:]
	if len(r.data) == 0 && e.ewd && n > 0 {
		return n, io.EOF
	}
	return n, nil
}

func parseSched(s string) []schedEntry {
	var out []schedEntry
	for _, w := range strings.Fields(s) {
		if w == "F" {
			out = append(out, schedEntry{fault: true})
			continue
		}
		if w == "Z" {
			out = append(out, schedEntry{zend: true})
			continue
		}
		ewd := strings.HasSuffix(w, "E")
		n, _ := strconv.Atoi(strings.TrimSuffix(w, "E"))
		out = append(out, schedEntry{n: n, ewd: ewd})
	}
	return out
}

func rerrName(err error) string {
	switch err {
	case io.EOF:
		return "eof"
	case io.ErrUnexpectedEOF:
		return "ueof"
	case io.ErrNoProgress:
		return "noprogress"
	case errInjected:
		return "fault"
	}
	return "other"
}

func runReader(payload string) (res string) {
	parts := strings.Split(payload, "|")
	if len(parts) != 3 {
		return "harness-error bad payload"
	}
	var data []byte
	if h := strings.TrimSpace(parts[0]); h != "-" {
		data, _ = hex.DecodeString(h)
	}
	r := shared.NewReader(&schedReader{data: data, sched: parseSched(parts[1])})
	var outs []string
	defer func() {
		if rec := recover(); rec != nil {
			outs = append(outs, "!panic")
			res = strings.Join(outs, " ") + fmt.Sprintf(" @%d", r.NumRead())
		}
	}()
	for _, op := range strings.Fields(parts[2]) {
		switch op[0] {
		case '1':
			b, err := r.Readn1()
			if err != nil {
				outs = append(outs, "!"+rerrName(err))
				return strings.Join(outs, " ") + fmt.Sprintf(" @%d", r.NumRead())
			}
			outs = append(outs, fmt.Sprintf("1:%02x", b))
		case 'b':
			k, _ := strconv.Atoi(op[1:])
			var bs []byte
			var err error
			switch k % 3 { // exercise all three bulk entry points
			case 0:
				bs, err = r.Readnzc(k)
			case 1:
				bs, err = r.Readn(k)
			default:
				bs = make([]byte, k)
				err = r.Readb(bs)
			}
			if err != nil {
				outs = append(outs, "!"+rerrName(err))
				return strings.Join(outs, " ") + fmt.Sprintf(" @%d", r.NumRead())
			}
			outs = append(outs, "b:"+hexOrDash(bs))
		case 'u':
			r.Unreadn1()
			outs = append(outs, ".")
		case 't':
			r.Track()
			outs = append(outs, ".")
		case 's':
			outs = append(outs, "b:"+hexOrDash(r.StopTrack()))
		}
	}
	return strings.Join(outs, " ") + fmt.Sprintf(" @%d", r.NumRead())
}

func (g *G) randSched(n int, zeros bool, faults bool) string {
	var ws []string
	for i := 0; i < n; i++ {
		switch {
		case zeros && g.chance(0.2):
			for k := 0; k <= g.intn(3); k++ {
				ws = append(ws, "0")
			}
		case faults && g.chance(0.05):
			ws = append(ws, "F")
		default:
			w := strconv.Itoa(1 + g.intn(5))
			if g.chance(0.3) {
				w += "E"
			}
			ws = append(ws, w)
		}
	}
	return strings.Join(ws, " ")
}

func (g *G) randOps(n int) string {
	var ws []string
	tracking := false
	canUnread := false
	for i := 0; i < n; i++ {
		switch k := g.intn(10); {
		case k < 4:
			ws = append(ws, "1")
			canUnread = true
		case k < 7:
			ws = append(ws, "b"+strconv.Itoa(g.intn(6)))
			canUnread = false
		case k == 7 && canUnread:
			ws = append(ws, "u")
			canUnread = false
		case k == 8 && !tracking:
			ws = append(ws, "t")
			tracking = true
		case k == 9 && tracking:
			ws = append(ws, "s")
			tracking = false
		default:
			ws = append(ws, "1")
			canUnread = true
		}
	}
	return strings.Join(ws, " ")
}

func genReader(g *G, tier string, emit func(string)) {
	// exhaustive: every split of short data into chunks x EOF style, under fixed op scripts
	scripts := []string{"1 1 1 1 1 1 1", "b3 1 b2 1", "1 u 1 b4 1", "t 1 1 u s 1 1", "b1 b2 b3", "1 b5 1", "t b2 1 s b9", "b7"}
	maxLen := 6
	if tier == "thorough" {
		maxLen = 10
	}
	for n := 0; n <= maxLen; n++ {
		data := make([]byte, n)
		for i := range data {
			data[i] = byte(0x10 + i)
		}
		hx := "-"
		if n > 0 {
			hx = hex.EncodeToString(data)
		}
		// compositions of n
		var comps [][]int
		var rec func(left int, cur []int)
		rec = func(left int, cur []int) {
			if left == 0 {
				comps = append(comps, append([]int{}, cur...))
				return
			}
			for k := 1; k <= left; k++ {
				rec(left-k, append(cur, k))
			}
		}
		rec(n, nil)
		for _, c := range comps {
			for _, ewd := range []bool{false, true} {
				for zi := -1; zi <= len(c); zi++ { // position of an inserted run of zero reads (-1: none)
					if zi >= 0 && tier != "thorough" && n > 4 {
						continue
					}
					var ws []string
					for i, k := range c {
						if i == zi {
							ws = append(ws, "0", "0")
						}
						w := strconv.Itoa(k)
						if ewd {
							w += "E"
						}
						ws = append(ws, w)
					}
					if zi == len(c) {
						ws = append(ws, "0")
					}
					for _, sc := range scripts {
						emit(hx + " | " + strings.Join(ws, " ") + " | " + sc)
					}
				}
			}
		}
	}
	// random
	nr := 20000
	if tier == "thorough" {
		nr = 300000
	}
	for i := 0; i < nr; i++ {
		n := g.intn(20)
		data := make([]byte, n)
		for j := range data {
			data[j] = byte(g.intn(256))
		}
		hx := "-"
		if n > 0 {
			hx = hex.EncodeToString(data)
		}
		emit(hx + " | " + g.randSched(g.intn(12), true, g.chance(0.3)) + " | " + g.randOps(1+g.intn(12)))
	}
}

func init() {
	register(&suite{name: "reader", gen: genReader, run: runReader})
}
