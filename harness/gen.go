package main

import (
	"encoding/json"
	"io"
	"math"
	"math/rand"
	"sort"
	"strconv"
	"strings"
)

// G is the single PRNG plus distribution counters.
type G struct {
	r     *rand.Rand
	stats map[string]int
}

func newG(seed int64) *G { return &G{r: rand.New(rand.NewSource(seed)), stats: map[string]int{}} }

func (g *G) count(k string) { g.stats[k]++ }
func (g *G) intn(n int) int  { return g.r.Intn(n) }
func (g *G) chance(p float64) bool { return g.r.Float64() < p }
func (g *G) pick(xs []string) string { return xs[g.r.Intn(len(xs))] }

func (g *G) writeStats(w io.Writer) {
	ks := make([]string, 0, len(g.stats))
	for k := range g.stats {
		ks = append(ks, k)
	}
	sort.Strings(ks)
	m := map[string]int{}
	for _, k := range ks {
		m[k] = g.stats[k]
	}
	b, _ := json.Marshal(m)
	w.Write(b)
}

// ---------- interesting numbers -------------------------------------------

var headBoundaries = []uint64{0, 1, 23, 24, 25, 255, 256, 257, 65535, 65536, 65537,
	1<<32 - 1, 1 << 32, 1<<32 + 1, 1<<63 - 1, 1 << 63, 1<<63 + 1, math.MaxUint64 - 1, math.MaxUint64}

func (g *G) u64() uint64 {
	switch g.intn(4) {
	case 0:
		return headBoundaries[g.intn(len(headBoundaries))]
	case 1:
		return uint64(g.intn(300))
	case 2:
		// 2^k + delta
		k := uint(g.intn(64))
		return (uint64(1) << k) + uint64(g.intn(5)) - 2
	default:
		return g.r.Uint64() >> uint(g.intn(64))
	}
}

func (g *G) i64() int64 {
	u := g.u64()
	if g.chance(0.5) {
		return int64(u)
	}
	return -1 - int64(u&math.MaxInt64)
}

var floatSpecials = []uint64{
	0x0000000000000000, 0x8000000000000000, 0x3ff0000000000000, 0xbff0000000000000,
	0x7ff0000000000000, 0xfff0000000000000, 0x7ff8000000000000, 0x7ff8000000000001, 0xfff8000000000000, 0x7ff0000000000001,
	0x0000000000000001, 0x000fffffffffffff, 0x0010000000000000, 0x7fefffffffffffff,
	0x3eb0c6f7a0b5ed8d, // 1e-6
	0x3eb0c6f7a0b5ed8c, 0x444b1ae4d6e2ef50, // 1e21
	0x444b1ae4d6e2ef4f, 0x43e0000000000000, // 2^63
	0x43f0000000000000, // 2^64
	0x4340000000000000, // 2^53
	0x4059000000000000, // 100
	0x3fb999999999999a, // 0.1
	0x4415af1d78b58c40, // 1e20
}

func (g *G) f64bits() uint64 {
	switch g.intn(3) {
	case 0:
		return floatSpecials[g.intn(len(floatSpecials))]
	case 1:
		return math.Float64bits(float64(g.i64()))
	default:
		return g.r.Uint64()
	}
}

var stringPool = []string{"", "a", "b", "ab", "key", "k1", "k2", "\x00", "\"", "\\", "é", " ", "😀", "\xff", "\xc0\x80", "\xed\xa0\x80", "hello world"}

func (g *G) str() string {
	switch g.intn(4) {
	case 0, 1:
		return stringPool[g.intn(len(stringPool))]
	case 2:
		n := g.intn(6)
		b := make([]byte, n)
		for i := range b {
			b[i] = byte(g.intn(256))
		}
		return string(b)
	default:
		// length near a head boundary
		ls := []int{22, 23, 24, 25, 254, 255, 256, 257}
		n := ls[g.intn(len(ls))]
		return strings.Repeat(string(rune('a'+g.intn(26))), n)
	}
}

// ---------- token trees -----------------------------------------------------

type treeOpts struct {
	maxDepth   int
	maxTokens  int // soft cap on the number of tokens per tree
	tags       bool // allow tags
	bytes      bool // allow byte strings
	keyKinds   string // "s" (string keys only) or "siu"
	indef      bool // allow indefinite (-1) lengths
	def        bool // allow definite lengths
	floats     bool
	finiteOnly bool
	uints      bool
}

func itoa(i int) string { return strconv.Itoa(i) }

func (g *G) tagPrefix(o treeOpts) string {
	if o.tags && g.chance(0.15) {
		return "#" + strconv.FormatUint(g.u64()&math.MaxInt64, 10)
	}
	return ""
}

func hexs(s string) string {
	const hexd = "0123456789abcdef"
	b := make([]byte, 0, 2*len(s))
	for i := 0; i < len(s); i++ {
		b = append(b, hexd[s[i]>>4], hexd[s[i]&15])
	}
	return string(b)
}

func (g *G) scalar(o treeOpts) string {
	for {
		switch g.intn(7) {
		case 0:
			g.count("tok.null")
			return "n"
		case 1:
			g.count("tok.str")
			return "s" + hexs(g.str())
		case 2:
			if !o.bytes {
				continue
			}
			g.count("tok.bytes")
			return "x" + hexs(g.str())
		case 3:
			g.count("tok.bool")
			if g.chance(0.5) {
				return "bt"
			}
			return "bf"
		case 4:
			g.count("tok.int")
			return "i" + strconv.FormatInt(g.i64(), 10)
		case 5:
			if !o.uints {
				continue
			}
			g.count("tok.uint")
			return "u" + strconv.FormatUint(g.u64(), 10)
		default:
			if !o.floats {
				continue
			}
			b := g.f64bits()
			if o.finiteOnly && (b>>52)&0x7ff == 0x7ff {
				continue
			}
			g.count("tok.float")
			return "f" + pad16(strconv.FormatUint(b, 16))
		}
	}
}

func pad16(s string) string { return strings.Repeat("0", 16-len(s)) + s }

func (g *G) key(o treeOpts) string {
	k := o.keyKinds[g.intn(len(o.keyKinds))]
	switch k {
	case 'i':
		return "i" + strconv.FormatInt(g.i64(), 10)
	case 'u':
		return "u" + strconv.FormatUint(g.u64(), 10)
	default:
		return "s" + hexs(g.str())
	}
}

// tree appends the tokens of one random value to out.
func (g *G) tree(o treeOpts, depth int, out *[]string) {
	if depth >= o.maxDepth || g.chance(0.45) || len(*out) > o.maxTokens {
		*out = append(*out, g.tagPrefix(o)+g.scalar(o))
		return
	}
	n := g.intn(4)
	if g.chance(0.1) {
		n = g.intn(30)
	}
	definite := o.def && (!o.indef || g.chance(0.5))
	ln := -1
	if definite {
		ln = n
	}
	if g.chance(0.5) {
		g.count("tok.arr")
		*out = append(*out, g.tagPrefix(o)+"["+itoa(ln))
		for i := 0; i < n; i++ {
			g.tree(o, depth+1, out)
		}
		*out = append(*out, "]")
	} else {
		g.count("tok.map")
		*out = append(*out, g.tagPrefix(o)+"{"+itoa(ln))
		for i := 0; i < n; i++ {
			*out = append(*out, g.tagPrefix(o)+g.key(o))
			g.tree(o, depth+1, out)
		}
		*out = append(*out, "}")
	}
}
