#!/bin/bash
# seedconfirm.sh <worktree> <k> <seed-id> <property>
# Confirms a sub-agent's mutant in its scratch worktree (suite passes with the
# change, demo fails with it and passes without), then files it under /verif/seeded/<seed-id>/.
set -u
WT=$1; K=$2; ID=$3; PROP=$4
export GOFLAGS=-mod=mod GOPROXY=off GOSUMDB=off GOTOOLCHAIN=local
S=$WT/SEEDS/$K
cd $WT || exit 2
git checkout -q -- . ; git clean -fdq -e SEEDS
place=$(head -5 $S/demo_test.go | grep -o '[A-Za-z0-9_/.]*_test\.go' | grep -v '^demo_test.go$' | head -1)
[ -z "$place" ] && place=seed_demo_${K}_test.go
runcmd=$(head -8 $S/demo_test.go | grep -o 'go test[^`"]*' | head -1)
[ -z "$runcmd" ] && runcmd="go test -vet=off -count=1 -run TestSeedDemo$K ."
pkgs=$(go list ./... | grep -v /SEEDS)
# clean tree: demo passes
mkdir -p $(dirname $place); cp $S/demo_test.go $place
( eval "$runcmd" ) > /tmp/seedconf.$ID.clean 2>&1; clean_rc=$?
# with patch
git apply $S/patch.diff || { echo "$ID: patch does not apply"; exit 1; }
( eval "$runcmd" ) > /tmp/seedconf.$ID.mut 2>&1; mut_rc=$?
rm -f $place
go build ./... > /tmp/seedconf.$ID.build 2>&1; build_rc=$?
go test -vet=off -count=1 $pkgs > /tmp/seedconf.$ID.suite 2>&1; suite_rc=$?
git checkout -q -- . ; git clean -fdq -e SEEDS
echo "$ID: demo-clean rc=$clean_rc demo-mutant rc=$mut_rc build rc=$build_rc suite rc=$suite_rc (place=$place cmd=$runcmd)"
if [ $clean_rc -eq 0 ] && [ $mut_rc -ne 0 ] && [ $build_rc -eq 0 ] && [ $suite_rc -eq 0 ]; then
  D=/verif/seeded/$ID; mkdir -p $D
  cp $S/patch.diff $D/patch.diff; cp $S/demo_test.go $D/demo_test.go.txt; cp $S/notes.txt $D/notes.txt
  python3 - "$D" "$ID" "$PROP" "$place" "$runcmd" <<'PY'
import json,sys
d,i,p,place,cmd=sys.argv[1:6]
notes=open(d+'/notes.txt').read()
json.dump(dict(id=i,property=p,breaks=p,needs_to_manifest=notes.strip()[:1500],demo_placement=place,demo_cmd=cmd,
  confirmed=dict(suite_passes_with_change=True,demo_fails_with_change=True,demo_passes_without_change=True,
  how="lib/seedconfirm.sh in a scratch worktree: go build ./... ; go test -vet=off -count=1 (all packages) with the patch; the demo with and without the patch"),
  origin="fresh sub-agent given only the property text and a scratch worktree",detected_by=None),open(d+'/meta.json','w'),indent=1)
PY
  echo "$ID: KEPT"
else
  echo "$ID: REJECTED"; tail -5 /tmp/seedconf.$ID.clean /tmp/seedconf.$ID.mut /tmp/seedconf.$ID.suite | tail -30
fi
