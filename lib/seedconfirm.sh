#!/bin/bash
# seedconfirm.sh <worktree> <k> <seed-id> <property>
# Confirms a sub-agent's mutant in its scratch worktree (suite passes with the
# change, demo fails with it and passes without), then files it under /verif/seeded/<seed-id>/.
# Nothing from the sub-agent's files is executed as shell text: the go test command is built
# here from a validated test-function name and a validated package directory.
set -u
WT=$1; K=$2; ID=$3; PROP=$4
export GOFLAGS=-mod=mod GOPROXY=off GOSUMDB=off GOTOOLCHAIN=local
S=$WT/SEEDS/$K
cd "$WT" || exit 2
git checkout -q -- . ; git clean -fdq -e SEEDS
# placement: a *_test.go path mentioned in the first lines of the demo (validated), default repo root
place=$(head -8 "$S/demo_test.go" | grep -o '[A-Za-z0-9_/.-]*_test\.go' | grep -v '^demo_test.go$' | head -1)
if ! [[ "$place" =~ ^[A-Za-z0-9_./-]+_test\.go$ ]] || [[ "$place" == *..* ]] || [[ "$place" == /* ]]; then place=seed_demo_${K}_test.go; fi
pkgdir=$(dirname "$place")
# test function names defined in the demo file (validated identifiers only)
tests=$(grep -o '^func Test[A-Za-z0-9_]*' "$S/demo_test.go" | sed 's/^func //' | grep -E '^Test[A-Za-z0-9_]+$' | paste -sd'|')
if [ -z "$tests" ]; then echo "$ID: no test function found"; exit 1; fi
race=""
if head -8 "$S/demo_test.go" | grep -q -- '-race'; then race="-race"; export CGO_ENABLED=1; fi
rundemo() { go test $race -vet=off -count=1 -run "^($tests)\$" "./$pkgdir"; }
pkgs=$(go list ./... | grep -v /SEEDS)
mkdir -p "$pkgdir"; cp "$S/demo_test.go" "$place"
rundemo > /tmp/seedconf.$ID.clean 2>&1; clean_rc=$?
git apply "$S/patch.diff" || { echo "$ID: patch does not apply"; rm -f "$place"; exit 1; }
rundemo > /tmp/seedconf.$ID.mut 2>&1; mut_rc=$?
rm -f "$place"
go build ./... > /tmp/seedconf.$ID.build 2>&1; build_rc=$?
go test -vet=off -count=1 $pkgs > /tmp/seedconf.$ID.suite 2>&1; suite_rc=$?
git checkout -q -- . ; git clean -fdq -e SEEDS
echo "$ID: demo-clean rc=$clean_rc demo-mutant rc=$mut_rc build rc=$build_rc suite rc=$suite_rc (place=$place tests=$tests $race)"
if [ $clean_rc -eq 0 ] && [ $mut_rc -ne 0 ] && [ $build_rc -eq 0 ] && [ $suite_rc -eq 0 ]; then
  D=/verif/seeded/$ID; mkdir -p $D
  cp "$S/patch.diff" $D/patch.diff; cp "$S/demo_test.go" $D/demo_test.go.txt; cp "$S/notes.txt" $D/notes.txt
  python3 - "$D" "$ID" "$PROP" "$place" "go test $race -vet=off -count=1 -run '^($tests)\$' ./$pkgdir" <<'PY'
import json,sys
d,i,p,place,cmd=sys.argv[1:6]
notes=open(d+'/notes.txt').read()
json.dump(dict(id=i,property=p,breaks=p,needs_to_manifest=notes.strip()[:1500],demo_placement=place,demo_cmd=cmd,
  confirmed=dict(suite_passes_with_change=True,demo_fails_with_change=True,demo_passes_without_change=True,
  how="lib/seedconfirm.sh in a scratch worktree: go build ./... ; go test -vet=off -count=1 (all packages) with the patch; the demo with and without the patch"),
  origin="fresh sub-agent given only the property text and a scratch worktree",detected_by=None),open(d+'/meta.json','w'),indent=1)
PY
  echo "$ID: KEPT"
else
  echo "$ID: REJECTED"; tail -5 /tmp/seedconf.$ID.clean /tmp/seedconf.$ID.mut /tmp/seedconf.$ID.suite | tail -30
fi
