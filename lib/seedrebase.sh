#!/bin/bash
# seedrebase.sh <worktree> <seed-id> <rebased.diff> <note>
# Re-confirms a seed whose patch had to be rebased onto a later fix commit: the demo passes
# without it, fails with it, the suite passes with it; then replaces patch.diff and records `rebased`.
set -u
WT=$1; ID=$2; NEW=$3; NOTE=$4
export GOFLAGS=-mod=mod GOPROXY=off GOSUMDB=off GOTOOLCHAIN=local
D=/verif/seeded/$ID
cd "$WT" || exit 2
git checkout -q -- . ; git clean -fdq
place=$(python3 -c "import json,sys;print(json.load(open(sys.argv[1]))['demo_placement'])" $D/meta.json)
if ! [[ "$place" =~ ^[A-Za-z0-9_./-]+_test\.go$ ]] || [[ "$place" == *..* ]] || [[ "$place" == /* ]]; then echo "$ID: bad placement"; exit 1; fi
pkgdir=$(dirname "$place")
tests=$(grep -o '^func Test[A-Za-z0-9_]*' "$D/demo_test.go.txt" | sed 's/^func //' | grep -E '^Test[A-Za-z0-9_]+$' | paste -sd'|')
race=""
if head -8 "$D/demo_test.go.txt" | grep -q -- '-race'; then race="-race"; export CGO_ENABLED=1; fi
rundemo() { go test $race -vet=off -count=1 -run "^($tests)\$" "./$pkgdir"; }
mkdir -p "$pkgdir"; cp "$D/demo_test.go.txt" "$place"
rundemo > /tmp/seedreb.$ID.clean 2>&1; clean_rc=$?
git apply "$NEW" || { echo "$ID: rebased patch does not apply"; rm -f "$place"; exit 1; }
rundemo > /tmp/seedreb.$ID.mut 2>&1; mut_rc=$?
rm -f "$place"
go build ./... >/dev/null 2>&1; build_rc=$?
go test -vet=off -count=1 ./... > /tmp/seedreb.$ID.suite 2>&1; suite_rc=$?
git checkout -q -- . ; git clean -fdq
echo "$ID: demo-clean rc=$clean_rc demo-mutant rc=$mut_rc build rc=$build_rc suite rc=$suite_rc"
if [ $clean_rc -eq 0 ] && [ $mut_rc -ne 0 ] && [ $build_rc -eq 0 ] && [ $suite_rc -eq 0 ]; then
  cp "$NEW" $D/patch.diff
  python3 - "$D/meta.json" "$NOTE" <<'PY'
import json,sys
p,note=sys.argv[1:3]
m=json.load(open(p)); r=m.get('rebased'); 
m['rebased']=(r+'; ' if isinstance(r,str) and r else '')+note
json.dump(m,open(p,'w'),indent=1)
PY
  echo "$ID: REBASED"
else
  echo "$ID: REBASE FAILED"; tail -5 /tmp/seedreb.$ID.clean /tmp/seedreb.$ID.mut /tmp/seedreb.$ID.suite | tail -30
fi
