#!/bin/bash
# ROUND=<n> seedconfirm7.sh <prop>... — confirm the mutants SEEDS/1, SEEDS/2 of /tmp/seedwt7-<prop> under the next free ids
for P in "$@"; do
  WT=/tmp/seedwt${ROUND:-7}-$P
  for K in 1 2; do
    [ -f $WT/SEEDS/$K/patch.diff ] || { echo "$P/$K: no patch"; continue; }
    max=$(ls /verif/seeded | grep "^$P-" | sed "s/^$P-//" | sort -n | tail -1)
    ID=$P-$((max+1))
    /verif/lib/seedconfirm.sh $WT $K $ID $P 2>&1 | tail -1
  done
done
