#!/bin/bash
# seedrun2.sh <seed-id> <property> [tier] — like seedrun.sh, but against the scratch worktree /tmp/seedrepo of /repo's HEAD
# (VERIF_REPO), so that it can run while a sweep is using /repo.  Evidence files are restored afterwards.
ID=$1; PROP=$2; TIER=${3:-quick}
D=/verif/seeded/$ID
W=/tmp/seedrepo
[ -d $W ] || git -C /repo worktree add -q --detach $W || exit 2
cd $W || exit 2
git checkout -q --detach $(git -C /repo rev-parse HEAD); git checkout -q -- . ; git clean -fdq
git apply $D/patch.diff || { echo "$ID: patch does not apply to current /repo"; exit 3; }
cp /verif/evidence/$PROP.json /tmp/seedrun.$ID.$PROP.evidence 2>/dev/null
cd /verif && VERIF_REPO=$W ./check $PROP --tier $TIER > /tmp/seedrun.$ID.$PROP.out 2>&1; rc=$?
cp /tmp/seedrun.$ID.$PROP.evidence /verif/evidence/$PROP.json 2>/dev/null
git -C $W checkout -q -- . ; git -C $W clean -fdq
v=$(grep -m1 '^VIOLATION' /tmp/seedrun.$ID.$PROP.out)
echo "$ID vs $PROP ($TIER): rc=$rc ${v}"
python3 - "$D/meta.json" "$PROP" "$TIER" "$rc" "$v" <<'PY'
import json,sys
p,prop,tier,rc,v=sys.argv[1:6]
m=json.load(open(p))
runs=m.setdefault('check_runs',{})
runs[prop+':'+tier]=dict(exit=int(rc),violation_line=v)
m['detected_by']=sorted(k for k,r in runs.items() if r['exit']==1 and r['violation_line'])
json.dump(m,open(p,'w'),indent=1)
PY
