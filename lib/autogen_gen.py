#!/usr/bin/env python3
"""Generator of struct type families for the C19 (autogen) suite.

A family is a declarative spec (JSON): a root struct type and the struct / named
types it embeds.  spec_to_go renders specs as Go source; the autogen harness
binary is the ordinary harness plus that generated file (build tag 'autogen').
A spec is self-contained, so a replay regenerates the one family it needs.
"""
import json, random, hashlib, os, sys, itertools

NAMES_EXP = ["X", "Y", "Z", "Xy", "A", "Éa", "Ωm", "Жк", "Ø", "Ёж"]
NAMES_UNEXP = ["x", "y", "éa", "zz"]
TAGS = ["", "", "", "", "", "X", "Y", "x", "y", "xy", "-", ",omitempty", "x,omitempty", "X,omitempty", "-,",
        "a b", "q;", "é", "Éa", ",omitempty,foo", "y,foo,omitempty", ",omit", "z", "Z", "x,", "a.b-c_d", "0"]
PLAIN_TYPES = ["int64", "string", "*int64", "[]string", "bool"]


def fam_id(spec_body):
    return "F" + hashlib.md5(json.dumps(spec_body, sort_keys=True, ensure_ascii=True).encode()).hexdigest()[:10]


def finish(structs, named):
    body = dict(structs=structs, named=named)
    return dict(id=fam_id(body), structs=structs, named=named)


def gen_family(rng, maxdepth=3, maxfields=3):
    structs = []   # index 0 is the root; each: dict(exp=bool, fields=[...])
    named = []     # dict(exp=bool, under=str)

    def new_struct(depth, exp):
        idx = len(structs)
        st = dict(exp=exp, fields=[])
        structs.append(st)
        nfields = rng.choice([0, 1, 2, 2, 3, 3][:maxfields + 3]) if maxfields >= 3 else rng.randint(0, maxfields)
        used = set()
        for _ in range(nfields):
            r = rng.random()
            if depth < maxdepth and r < 0.45:
                ptr = rng.random() < 0.5
                tgt = None
                if len(structs) > 1 and rng.random() < 0.3:
                    cands = [i for i in range(len(structs)) if (ptr or i > idx)]
                    if cands:
                        tgt = rng.choice(cands)
                if tgt is None:
                    tgt = new_struct(depth + 1, rng.random() < 0.7)
                key = ("s", tgt)
                if key in used:
                    continue
                used.add(key)
                st["fields"].append(dict(e=1, s=tgt, ptr=ptr, tag=rng.choice(TAGS) if rng.random() < 0.25 else ""))
            elif r < 0.53:
                if named and rng.random() < 0.5:
                    ni = rng.randrange(len(named))
                else:
                    ni = len(named)
                    named.append(dict(exp=rng.random() < 0.5, under=rng.choice(["int64", "string"])))
                key = ("n", ni)
                if key in used:
                    continue
                used.add(key)
                st["fields"].append(dict(e=1, n=ni, ptr=rng.random() < 0.2, tag=rng.choice(TAGS) if rng.random() < 0.3 else ""))
            else:
                pool = NAMES_EXP if rng.random() < 0.85 else NAMES_UNEXP
                nm = rng.choice(pool)
                key = ("f", nm)
                if key in used:
                    continue
                used.add(key)
                ty = rng.choice(PLAIN_TYPES)
                if rng.random() < 0.08 and len(structs) > 1:
                    # a named (non-embedded) field of struct type
                    cands = [i for i in range(len(structs)) if i > idx]
                    if cands:
                        ty = dict(s=rng.choice(cands), ptr=rng.random() < 0.5)
                st["fields"].append(dict(e=0, name=nm, t=ty, tag=rng.choice(TAGS) if rng.random() < 0.55 else ""))
        return idx

    new_struct(0, True)
    return finish(structs, named)


def gen_wide(rng):
    """many fields (sort.Sort is an insertion sort only up to 12 elements), names of few distinct lengths"""
    letters = "abxyzAB"
    n = rng.randint(13, 40)
    tags = set()
    while len(tags) < n:
        tags.add("".join(rng.choice(letters) for _ in range(rng.choice([1, 2, 2, 2, 3]))))
    tags = sorted(tags)
    rng.shuffle(tags)
    k = rng.randint(0, n // 2)
    inner = [dict(e=0, name="G%d" % i, t=rng.choice(PLAIN_TYPES), tag=t) for i, t in enumerate(tags[:k])]
    root = [dict(e=0, name="F%d" % i, t=rng.choice(PLAIN_TYPES), tag=t + (",omitempty" if rng.random() < 0.2 else "")) for i, t in enumerate(tags[k:])]
    if inner:
        root.insert(rng.randint(0, len(root)), dict(e=1, s=1, ptr=rng.random() < 0.5, tag=""))
        return finish([dict(exp=True, fields=root), dict(exp=True, fields=inner)], [])
    return finish([dict(exp=True, fields=root)], [])


def gen_deep(rng):
    """a chain of embeddings four deep with several fields at the bottom levels (long routes, siblings)"""
    structs = []
    depth = rng.randint(3, 5)
    for d in range(depth + 1):
        fields = [dict(e=0, name=nm, t=rng.choice(PLAIN_TYPES), tag="") for nm in rng.sample(["X", "Y", "Z", "Xy", "A"], rng.randint(0, 3))]
        if d < depth:
            fields.insert(rng.randint(0, len(fields)), dict(e=1, s=d + 1, ptr=rng.random() < 0.4, tag=""))
        structs.append(dict(exp=True, fields=fields))
    # distinct names at the bottom so that they survive
    structs[-1]["fields"] = [dict(e=0, name="B%d" % i, t=rng.choice(PLAIN_TYPES), tag="") for i in range(rng.randint(2, 4))]
    structs[-2]["fields"] += [dict(e=0, name="C%d" % i, t=rng.choice(PLAIN_TYPES), tag="") for i in range(rng.randint(1, 3))]
    return finish(structs, [])


def gen_diamond(rng):
    """a struct reachable along two (or three) equal-depth paths, with tagged / untagged / nested fields below it"""
    def fields(names):
        return [dict(e=0, name=nm, t=rng.choice(PLAIN_TYPES), tag=rng.choice(TAGS) if rng.random() < 0.6 else "") for nm in names]
    k = rng.choice([2, 2, 3])
    shared = 1 + k
    root = [dict(e=1, s=1 + i, ptr=rng.random() < 0.4, tag="") for i in range(k)] + fields(rng.sample(NAMES_EXP, rng.randint(0, 2)))
    rng.shuffle(root)
    structs = [dict(exp=True, fields=root)]
    for i in range(k):
        mid = [dict(e=1, s=shared, ptr=rng.random() < 0.4, tag="")] + fields(rng.sample(NAMES_EXP, rng.randint(0, 1)))
        rng.shuffle(mid)
        structs.append(dict(exp=rng.random() < 0.8, fields=mid))
    sh = fields(rng.sample(NAMES_EXP, rng.randint(1, 3)))
    if rng.random() < 0.5:
        sh.append(dict(e=1, s=shared + 1, ptr=rng.random() < 0.4, tag=""))
        structs.append(dict(exp=True, fields=sh))
        structs.append(dict(exp=True, fields=fields(rng.sample(NAMES_EXP, rng.randint(1, 2)))))
    else:
        structs.append(dict(exp=True, fields=sh))
    return finish(structs, [])


def fixed_families():
    """hand-written shapes that must always be covered"""
    F = []
    f = lambda name, t="int64", tag="": dict(e=0, name=name, t=t, tag=tag)
    emb = lambda s, ptr=False, tag="": dict(e=1, s=s, ptr=ptr, tag=tag)
    embn = lambda n, ptr=False, tag="": dict(e=1, n=n, ptr=ptr, tag=tag)
    S = lambda fields, exp=True: dict(exp=exp, fields=fields)
    # shallower hides deeper
    F.append(finish([S([f("X"), emb(1)]), S([f("X", "string"), f("Y")])], []))
    # equal depth: ambiguous dropped; tagged wins
    F.append(finish([S([emb(1), emb(2)]), S([f("X")]), S([f("X")])], []))
    F.append(finish([S([emb(1), emb(2)]), S([f("X", tag="x")]), S([f("X")])], []))
    F.append(finish([S([emb(1), emb(2)]), S([f("X", tag="x")]), S([f("Q" if False else "Y", tag="x")])], []))
    # diamond: the same type along two paths, and fields below it
    F.append(finish([S([emb(1), emb(2)]), S([emb(3)]), S([emb(3)]), S([f("X"), emb(4)]), S([f("Y")])], []))
    F.append(finish([S([emb(1, True), emb(2, True)]), S([emb(3, True)]), S([emb(3, True)]), S([emb(4, True)]), S([f("Y"), f("Z", tag=",omitempty")])], []))
    F.append(finish([S([emb(1), emb(2)]), S([emb(3)]), S([emb(3)]), S([f("X", tag="x"), f("Y", tag="y,omitempty"), f("Z")])], []))
    # non-ASCII initial letters, default names
    F.append(finish([S([f("Éa"), f("Ωm", "string"), f("Жк"), f("Ø"), f("Ёж")])], []))
    # embedded non-struct types, exported and not, by value and by pointer
    F.append(finish([S([embn(0), embn(1), f("X")])], [dict(exp=True, under="int64"), dict(exp=False, under="int64")]))
    F.append(finish([S([embn(0, True), embn(1, True), f("X")])], [dict(exp=True, under="string"), dict(exp=False, under="string")]))
    # unexported embedded structs with exported fields, by value and pointer
    F.append(finish([S([emb(1), emb(2, True)]), S([f("X"), f("x")], exp=False), S([f("Y")], exp=False)], []))
    # recursive embedding through a pointer
    F.append(finish([S([f("X"), emb(0, True)])], []))
    F.append(finish([S([emb(1, True)]), S([f("X"), emb(0, True)])], []))
    # "-" and omitempty, tagged embedded struct (a regular field then)
    F.append(finish([S([f("X", tag="-"), f("Y", tag=",omitempty"), emb(1, tag="inner"), emb(2, True, tag="p,omitempty")]), S([f("X")]), S([f("Z", "string")])], []))
    # many fields, for the sort modes
    F.append(finish([S([f(n, tag=t) for n, t in zip(["X", "Y", "Z", "Xy", "A"], ["zzzz", "b", "aaa", "", "bb"])] +
                       [emb(1)]), S([f(n, "string", tag=t) for n, t in zip(["X", "Y", "Z", "Xy", "A"], ["c", "dddd", "a", "ee", "zz"])] + [emb(2)]),
                     S([f(n, "bool", tag=t) for n, t in zip(["X", "Y", "Z", "Xy", "A"], ["f", "gg", "hhh", "i", "jjjjj"])])], []))
    return F


def enumerate_small():
    """every two-level shape over a tiny alphabet: root with up to 2 slots, one embedded struct with up to 2 fields"""
    out = []
    names = ["X", "Y"]
    tags = ["", "x", "y", "-", ",omitempty"]
    leaf_fields = [dict(e=0, name=n, t="int64", tag=t) for n in names for t in tags]
    inner_sets = [[a] for a in leaf_fields] + [[a, b] for a in leaf_fields for b in leaf_fields if a["name"] < b["name"]]
    for inner in inner_sets:
        for ptr in (False, True):
            for exp in (True, False):
                for top in [[]] + [[a] for a in leaf_fields]:
                    for embtag in ("", "e"):
                        structs = [dict(exp=True, fields=top + [dict(e=1, s=1, ptr=ptr, tag=embtag)]), dict(exp=exp, fields=inner)]
                        out.append(finish(structs, []))
    return out


def families(seed, tier):
    rng = random.Random(seed)
    fams = fixed_families()
    n = 4000 if tier == "quick" else 40000
    for _ in range(n):
        fams.append(gen_family(rng))
    for _ in range(n // 15):
        fams.append(gen_wide(rng))
        fams.append(gen_deep(rng))
        fams.append(gen_diamond(rng))
        fams.append(gen_diamond(rng))
    if tier != "quick":
        fams += enumerate_small()
    else:
        small = enumerate_small()
        rng.shuffle(small)
        fams += small[:300]
    seen, out = set(), []
    for f in fams:
        if f["id"] not in seen:
            seen.add(f["id"])
            out.append(f)
    return out


def tname(fid, kind, idx, exp):
    if kind == "s" and idx == 0:
        return fid + "_T"
    p = fid if exp else fid.lower()
    return "%s_%s%d" % (p, ("A" if kind == "s" else "N") if exp else ("a" if kind == "s" else "n"), idx)


def spec_to_go(fam):
    fid = fam["id"]
    out = []
    for i, n in enumerate(fam["named"]):
        out.append("type %s %s" % (tname(fid, "n", i, n["exp"]), n["under"]))
    for i, st in enumerate(fam["structs"]):
        lines = ["type %s struct {" % tname(fid, "s", i, st["exp"])]
        for fd in st["fields"]:
            tag = (" `refmt:\"%s\"`" % fd["tag"]) if fd["tag"] != "" else ""
            if fd["e"]:
                if "s" in fd:
                    tn = tname(fid, "s", fd["s"], fam["structs"][fd["s"]]["exp"])
                else:
                    tn = tname(fid, "n", fd["n"], fam["named"][fd["n"]]["exp"])
                lines.append("\t%s%s%s" % ("*" if fd["ptr"] else "", tn, tag))
            else:
                ty = fd["t"]
                if isinstance(ty, dict):
                    ty = ("*" if ty["ptr"] else "") + tname(fid, "s", ty["s"], fam["structs"][ty["s"]]["exp"])
                lines.append("\t%s %s%s" % (fd["name"], ty, tag))
        lines.append("}")
        out.append("\n".join(lines))
    alls = ", ".join("reflect.TypeOf(%s{})" % tname(fid, "s", i, st["exp"]) for i, st in enumerate(fam["structs"]))
    nameds = ", ".join("reflect.TypeOf(%s(%s))" % (tname(fid, "n", i, n["exp"]), '""' if n["under"] == "string" else "0") for i, n in enumerate(fam["named"]))
    spec_hex = json.dumps(fam, sort_keys=True, ensure_ascii=True, separators=(",", ":")).encode().hex()
    out.append("func init() {\n\tagFamilies = append(agFamilies, &agFamily{id: %s, spec: %s,\n\t\tall: []reflect.Type{%s},\n\t\tnamed: []reflect.Type{%s}})\n}" %
               (json.dumps(fid), json.dumps(spec_hex), alls, nameds))
    return "\n".join(out)


def write_go(fams, path):
    with open(path, "w", encoding="utf-8") as f:
        f.write("//go:build verif && autogen\n\n// Code generated by /verif/lib/autogen_gen.py. DO NOT EDIT.\n\npackage main\n\nimport \"reflect\"\n\n")
        for fam in fams:
            f.write(spec_to_go(fam))
            f.write("\n\n")


if __name__ == "__main__":
    seed, tier, path = int(sys.argv[1]), sys.argv[2], sys.argv[3]
    fs = families(seed, tier)
    write_go(fs, path)
    print(len(fs))
