#!/bin/bash
# coqgoals.sh FILE.v LINE  — show the goals after processing FILE.v up to (and including) line LINE
F=$1; L=$2
cd /verif/coq
head -n $L $F > /tmp/_cg.v
echo "Show." >> /tmp/_cg.v
timeout ${3:-120} coqtop -R . Refmt -batch -l /tmp/_cg.v 2>&1 | tail -${4:-60}
