#!/bin/bash
# seedrun.sh <seed-id> <property> [tier]  — apply a seeded change to /repo, run the property's check, undo, record the outcome.
ID=$1; PROP=$2; TIER=${3:-quick}
D=/verif/seeded/$ID
cd /repo || exit 2
if [ -n "$(git status --porcelain)" ]; then echo "/repo not clean"; exit 2; fi
git apply $D/patch.diff || { echo "$ID: patch does not apply to current /repo"; exit 3; }
cp /verif/evidence/$PROP.json /tmp/seedrun.$ID.$PROP.evidence 2>/dev/null
cd /verif && ./check $PROP --tier $TIER > /tmp/seedrun.$ID.$PROP.out 2>&1; rc=$?
# evidence files record clean-tree runs only
cp /tmp/seedrun.$ID.$PROP.evidence /verif/evidence/$PROP.json 2>/dev/null
git -C /repo checkout -- . ; git -C /repo clean -fdq
v=$(grep -m1 '^VIOLATION' /tmp/seedrun.$ID.$PROP.out)
echo "$ID vs $PROP ($TIER): rc=$rc ${v}"
python3 - "$D/meta.json" "$PROP" "$TIER" "$rc" "$v" <<'PY'
import json,sys
p,prop,tier,rc,v=sys.argv[1:6]
m=json.load(open(p))
runs=m.setdefault('check_runs',{})
runs[prop+':'+tier]=dict(exit=int(rc),violation_line=v)
m['detected_by']=sorted(k for k,r in runs.items() if r['exit']==1 and r['violation_line'])
json.dump(m,open(p,'w'),indent=1)
PY
