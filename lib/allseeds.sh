#!/bin/bash
export GOFLAGS=-mod=mod GOPROXY=off GOSUMDB=off GOTOOLCHAIN=local
cd /verif
for d in seeded/*/; do id=$(basename $d); prop=$(python3 -c "import json;print(json.load(open('/verif/seeded/$id/meta.json'))['property'])"); /verif/lib/seedrun.sh $id $prop 2>&1 | cut -c1-130; done
git -C /repo status --short | head -3
