"""common.py — build steps, suite execution, comparison plumbing for ./check."""
import fcntl, glob, hashlib, json, os, re, subprocess, sys, time
from concurrent.futures import ThreadPoolExecutor
from contextlib import contextmanager

VERIF = os.path.dirname(os.path.dirname(os.path.abspath(__file__)))
BUILD = os.path.join(VERIF, "build")
COQ = os.path.join(VERIF, "coq")
REPO = "/repo"
# development aid only (never set by the registered commands, which always check /repo itself): run the checks against a
# scratch worktree of /repo, so that seeded changes can be tried while a long sweep is using /repo
if os.environ.get("VERIF_REPO"):
    REPO = os.environ["VERIF_REPO"]
NCPU = 16

GOENV = dict(os.environ, GOFLAGS="-mod=mod", GOPROXY="off", GOSUMDB="off", GOTOOLCHAIN="local",
             CGO_ENABLED=os.environ.get("CGO_ENABLED", "0"), REFMT_CLI=os.path.join(BUILD, "refmt-cli"))

FORBIDDEN = re.compile(r"\b(Admitted|admit|Axiom|Parameter|Conjecture|Admit Obligations|bypass_check)\b|Unset Guard Checking|Unset Positivity Checking|Unset Universe Checking|-type-in-type|-impredicative-set")


@contextmanager
def build_lock():
    os.makedirs(BUILD, exist_ok=True)
    with open(os.path.join(BUILD, ".lock"), "w") as lf:
        fcntl.flock(lf, fcntl.LOCK_EX)
        try:
            yield
        finally:
            fcntl.flock(lf, fcntl.LOCK_UN)


def sh(cmd, cwd=None, env=None, timeout=3600, inp=None):
    try:
        p = subprocess.run(cmd, cwd=cwd, env=env, stdout=subprocess.PIPE, stderr=subprocess.STDOUT,
                           timeout=timeout, input=inp, shell=isinstance(cmd, str))
    except subprocess.TimeoutExpired as e:
        out = (e.stdout or b"").decode("utf-8", "replace") if isinstance(e.stdout, (bytes, bytearray)) else ""
        return -9, out + "\n[timed out after %s s]" % timeout
    return p.returncode, p.stdout.decode("utf-8", "replace")


def newest_mtime(paths):
    m = 0
    for p in paths:
        try:
            m = max(m, os.path.getmtime(p))
        except OSError:
            pass
    return m


# ---------------------------------------------------------------------------
# builds
# ---------------------------------------------------------------------------

_state = dict(harness_ok=False, harness_log="", coq_ok=False, coq_log="", gen_log="")


def harness_ok():
    return _state["harness_ok"]


def harness_log():
    return _state["harness_log"]


def modflags():
    """-modfile for the harness builds when the checks run against a scratch worktree (VERIF_REPO)."""
    cover = []
    if os.environ.get("VERIF_COVER"):
        # development aid only: statement coverage of the library by the harness (GOCOVERDIR says where it is written)
        cover = ["-cover", "-coverpkg=github.com/polydawn/refmt/..."]
    if REPO == "/repo":
        return cover
    os.makedirs(BUILD, exist_ok=True)
    alt = os.path.join(BUILD, "alt-go.mod")
    with open(os.path.join(VERIF, "harness", "go.mod")) as f:
        mod = f.read().replace("=> /repo", "=> " + REPO)
    with open(alt, "w") as f:
        f.write(mod)
    try:
        with open(os.path.join(REPO, "go.sum")) as f, open(os.path.join(BUILD, "alt-go.sum"), "w") as g:
            g.write(f.read())
    except OSError:
        pass
    return cover + ["-modfile=" + alt]


def build_harness():
    hdir = os.path.join(VERIF, "harness")
    try:
        with open(os.path.join(REPO, "go.sum"), "rb") as f:
            data = f.read()
        with open(os.path.join(hdir, "go.sum"), "wb") as f:
            f.write(data)
    except OSError:
        pass
    rc, out = sh(["go", "build"] + modflags() + ["-tags", "verif", "-o", os.path.join(BUILD, "harness"), "."],
                 cwd=hdir, env=GOENV, timeout=900)
    _state["harness_ok"] = rc == 0
    _state["harness_log"] = out
    if rc == 0:
        # the refmt command-line tool, for the black-box part of C10
        rc2, out2 = sh(["go", "build", "-o", os.path.join(BUILD, "refmt-cli"), "."],
                       cwd=os.path.join(REPO, "cmd", "refmt"), env=GOENV, timeout=900)
        if rc2 != 0:
            try:
                os.remove(os.path.join(BUILD, "refmt-cli"))
            except OSError:
                pass
            out += out2
    return rc == 0, out


def regen_sources():
    """Regenerate the Coq files derived from /repo's current source (coq/gen/*.v)."""
    gdir = os.path.join(COQ, "gen")
    os.makedirs(gdir, exist_ok=True)
    log = ""
    tool = os.path.join(BUILD, "sharedscan")
    rc, out = sh(["go", "build", "-o", tool, "."], cwd=os.path.join(VERIF, "lib", "sharedscan"), env=GOENV, timeout=600)
    log += out
    if rc == 0:
        tmp = os.path.join(gdir, "SharedState.v.new")
        rc, out = sh([tool, REPO, tmp], env=GOENV, timeout=300)
        log += out
        if rc == 0:
            dst = os.path.join(gdir, "SharedState.v")
            try:
                same = open(tmp).read() == open(dst).read()
            except OSError:
                same = False
            if same:
                os.remove(tmp)       # keep the timestamp: nothing to re-check
            else:
                os.replace(tmp, dst)
    _state["gen_log"] = log
    return log


def build_coq(clean=False):
    if clean:
        sh("rm -f *.vo *.vok *.vos *.glob .*.aux gen/*.vo gen/*.glob gen/.*.aux Makefile Makefile.conf .Makefile.d", cwd=COQ)
    mk = os.path.join(COQ, "Makefile")
    if not os.path.exists(mk) or os.path.getmtime(mk) < os.path.getmtime(os.path.join(COQ, "_CoqProject")):
        sh(["coq_makefile", "-f", "_CoqProject", "-o", "Makefile"], cwd=COQ)
    rc, out = sh(["timeout", "3000", "make", "-k", "-j%d" % NCPU], cwd=COQ, timeout=3100)
    _state["coq_ok"] = rc == 0
    _state["coq_log"] = out
    return rc == 0, out


def build_model():
    """Extract the model to OCaml and build build/modelrun (only when stale)."""
    target = os.path.join(BUILD, "modelrun")
    srcs = glob.glob(os.path.join(COQ, "*.v")) + glob.glob(os.path.join(COQ, "gen", "*.v")) + \
        [os.path.join(VERIF, "modelrun", "driver.ml")]
    if os.path.exists(target) and os.path.getmtime(target) >= newest_mtime(srcs):
        return True, "modelrun up to date"
    xdir = os.path.join(BUILD, "extract")
    os.makedirs(xdir, exist_ok=True)
    rc, out = sh(["coqc", "-R", COQ, "Refmt", "-o", os.path.join(xdir, "Extract.vo"),
                  os.path.join(COQ, "Extract.v")], cwd=xdir, timeout=900)
    if rc != 0:
        return False, out
    sh(["cp", os.path.join(VERIF, "modelrun", "driver.ml"), xdir])
    rc, out2 = sh(["ocamlfind", "ocamlopt", "-O3", "-unboxed-types", "-package", "zarith", "-linkpkg", "-w", "-a",
                   "model.mli", "model.ml", "driver.ml", "-o", target + ".new"], cwd=xdir, timeout=900)
    if rc != 0:
        rc, out2 = sh(["ocamlfind", "ocamlopt", "-package", "zarith", "-linkpkg", "-w", "-a",
                       "model.mli", "model.ml", "driver.ml", "-o", target + ".new"], cwd=xdir, timeout=900)
    if rc != 0:
        return False, out + out2
    os.replace(target + ".new", target)
    return True, out + out2


def build_all(clean=False):
    log = ""
    ok_h, out = build_harness()
    log += out
    log += regen_sources()
    if os.environ.get("VERIF_SKIP_COQ"):
        # development aid only (a proof agent is compiling in coq/): never set by the registered commands
        ok_c, out = True, "coq build skipped (VERIF_SKIP_COQ)"
    else:
        ok_c, out = build_coq(clean)
    log += out
    # the model is extracted from the model files alone: a proof file that no longer checks must not
    # keep the correspondence suites from running (they are what finds the failing input)
    ok_m, out = build_model()
    log += out
    return ok_h and ok_c and ok_m, log


# ---------------------------------------------------------------------------
# proof status
# ---------------------------------------------------------------------------

STMT = re.compile(r"^\s*(Theorem|Lemma|Corollary|Example|Fact|Proposition|Remark)\s+([A-Za-z0-9_']+)", re.M)


def coq_deps(vfile):
    """Transitive .v dependencies (inside /verif/coq) of a file, via coqdep."""
    seen = set()
    todo = [vfile]
    while todo:
        f = todo.pop()
        if f in seen:
            continue
        seen.add(f)
        rc, out = sh(["coqdep", "-R", ".", "Refmt", f], cwd=COQ)
        first = out.splitlines()[0] if out else ""
        for m in re.finditer(r"(?:\./)?([A-Za-z0-9_/]+)\.vo\b", first.split(":", 1)[1] if ":" in first else ""):
            dep = m.group(1) + ".v"
            if os.path.exists(os.path.join(COQ, dep)) and dep not in seen:
                todo.append(dep)
    return sorted(seen)


def proof_status(pid, cfg, build_ok, log):
    """Obligations = statements in the dependency cone of Properties_Cxx.v;
    discharged = those whose file compiled (a .vo newer than its .v)."""
    pfile = cfg.get("coq", "Properties_%s" % pid) + ".v"
    res = dict(obligations=0, discharged=0, theorems=[], assumptions=[], broken=[],
               checker_cmd="cd /verif/coq && coq_makefile -f _CoqProject -o Makefile && make -j16  (coqc 8.16.1; full .vo build)",
               trusted_base=cfg.get("trusted_base", []))
    if not os.path.exists(os.path.join(COQ, pfile)):
        res["broken"].append(dict(name=pfile, detail="property file missing"))
        res["obligations"] = 1
        return res
    cone = coq_deps(pfile)
    for f in cone:
        src = open(os.path.join(COQ, f)).read()
        names = STMT.findall(src)
        res["obligations"] += len(names)
        vo = os.path.join(COQ, f[:-2] + ".vo")
        compiled = os.path.exists(vo) and os.path.getmtime(vo) >= os.path.getmtime(os.path.join(COQ, f))
        if re.search(r'File "\./%s", line [^\n]*\n(?:[^\n]*\n)?Error' % re.escape(f), log):
            compiled = False      # this build failed on the file (a stale .vo may still be lying around)
        bad = FORBIDDEN.search(strip_comments(src))
        if compiled and not bad:
            res["discharged"] += len(names)
        else:
            why = "forbidden vernacular %r" % bad.group(0) if bad else "does not compile"
            res["broken"].append(dict(name=f, detail="%s: %s" % (why, extract_error(log, f))))
        if f == pfile:
            res["theorems"] = [n for _, n in names]
    # Print Assumptions output of the property file (re-run coqc on it: cheap)
    if not res["broken"]:
        rc, out = sh(["coqc", "-R", ".", "Refmt", pfile], cwd=COQ, timeout=1200)
        res["assumptions"] = summarize_assumptions(out)
        if rc != 0:
            res["broken"].append(dict(name=pfile, detail=out[-600:]))
    return res


def strip_comments(src):
    out = []
    depth = 0
    i = 0
    while i < len(src):
        if src.startswith("(*", i):
            depth += 1
            i += 2
        elif src.startswith("*)", i) and depth > 0:
            depth -= 1
            i += 2
        else:
            if depth == 0:
                out.append(src[i])
            i += 1
    return "".join(out)


def extract_error(log, f):
    idx = log.find('File "./%s"' % f)
    if idx < 0:
        return log[-400:]
    return log[idx:idx + 600]


def summarize_assumptions(out):
    items = []
    cur = None
    for line in out.splitlines():
        if line.startswith("Closed under the global context"):
            items.append("Closed under the global context")
        elif line.startswith("Axioms:"):
            cur = []
            items.append(cur)
        elif cur is not None and line.strip():
            cur.append(line.strip())
    flat = []
    for it in items:
        flat.append(it if isinstance(it, str) else "Axioms: " + "; ".join(it))
    return flat


# ---------------------------------------------------------------------------
# running suites
# ---------------------------------------------------------------------------

def read_results(path):
    d = {}
    with open(path, "r", errors="replace") as f:
        for line in f:
            line = line.rstrip("\n")
            if not line:
                continue
            i, _, r = line.partition("\t")
            d[i] = r
    return d


def run_model(cases_path, out_path, shards=NCPU):
    """Run build/modelrun over a case file, sharded over the cores."""
    with open(cases_path, "r", errors="replace") as f:
        lines = f.readlines()
    n = len(lines)
    shards = max(1, min(shards, n // 200 + 1))
    parts = [lines[i::shards] for i in range(shards)]

    def one(part):
        p = subprocess.run(["bash", "-c", "ulimit -s unlimited 2>/dev/null; exec %s" % os.path.join(BUILD, "modelrun")],
                           input="".join(part).encode(), stdout=subprocess.PIPE, stderr=subprocess.PIPE, timeout=7200)
        return p.stdout.decode("utf-8", "replace")

    with ThreadPoolExecutor(max_workers=shards) as ex:
        outs = list(ex.map(one, parts))
    with open(out_path, "w") as f:
        for o in outs:
            f.write(o)


def run_suite(pid, sname, spec, tier, seed, rundir):
    hs = spec.get("harness_suite", sname)
    cases = os.path.join(rundir, sname + ".cases")
    impl = os.path.join(rundir, sname + ".impl")
    stats = os.path.join(rundir, sname + ".stats")
    model = os.path.join(rundir, sname + ".model")
    t0 = time.time()
    binary = os.path.join(BUILD, "harness")
    mismatches = []
    if spec.get("prepare"):
        # a suite with its own harness binary (generated Go source compiled in)
        binary, perr = spec["prepare"](seed, tier)
        if perr:
            mismatches.append(dict(kind="broken", component="harness-build:" + sname, payload="",
                                   detail=perr[-800:], suite=sname))
    cmd = [binary, "-suite", hs, "-seed", str(seed), "-tier", tier,
           "-cases", cases, "-impl", impl, "-stats", stats]
    corpus = os.path.join(VERIF, "corpus", sname + ".cases")
    henv = GOENV
    ulim = "ulimit -v 16000000; "
    if spec.get("race"):
        henv = dict(GOENV, GORACE="halt_on_error=1 exitcode=66", VERIF_SYNC="1")
        ulim = ""     # the race detector reserves a huge virtual address range
    elif spec.get("sync"):
        henv = dict(GOENV, VERIF_SYNC="1")   # every case is on disk before it runs: a dying process names its case
    rc, out = sh(["bash", "-c", ulim + "exec \"$@\"", "x"] + cmd, env=henv, timeout=spec.get("timeout", 7200))
    raced = None
    if spec.get("race") and rc == 66:
        raced = out[out.find("WARNING: DATA RACE"):][:3000] if "WARNING: DATA RACE" in out else out[-3000:]
        rc = 0
    died = None
    if rc != 0 and spec.get("sync") and rc != -9:
        # the process died on the case it had announced last (Go fatal error: out of memory, stack overflow, ...)
        head = out[:600].replace("\n", " / ")
        died = "the process running the code under test died (exit %d) on this input: %s" % (rc, head)
    elif rc != 0:
        mismatches.append(dict(kind="broken", component="harness-run:" + sname, payload="",
                               detail="harness exited %d: %s" % (rc, out[-500:]), suite=sname))
    # model side (rename the suite column if the model suite differs)
    ms = spec.get("model_suite", hs)
    if ms != hs:
        sh("sed -i 's/^[^\t]*\t/%s\t/' %s" % (ms, cases))
    # compare in blocks (the thorough tiers run tens of millions of cases): model on a block, sharded
    # over the cores, then the comparator on that block; nothing but the mismatches is kept
    import itertools
    t1 = time.time()
    n = 0
    nontrivial = set()
    samples = []
    cmpf = spec["cmp"]
    ntf = spec.get("nontrivial", lambda payload, impl, model: True)
    BLOCK = 1000000
    last_missing = None
    with open(cases, "r", errors="replace") as fc, open(impl, "r", errors="replace") as fi:
        bno = 0
        while True:
            cl = list(itertools.islice(fc, BLOCK))
            if not cl:
                break
            il = list(itertools.islice(fi, len(cl)))
            bcases = os.path.join(rundir, "%s.block%d.cases" % (sname, bno))
            bmodel = os.path.join(rundir, "%s.block%d.model" % (sname, bno))
            with open(bcases, "w") as f:
                f.writelines(cl)
            run_model(bcases, bmodel)
            mres = read_results(bmodel)
            ires = {}
            for line in il:
                line = line.rstrip("\n")
                if line:
                    k, _, r = line.partition("\t")
                    ires[k] = r
            if bno > 0 or len(cl) == BLOCK:
                os.remove(bcases)
                os.remove(bmodel)
            else:
                os.replace(bmodel, model)
                os.remove(bcases)
            bno += 1
            for line in cl:
                parts = line.rstrip("\n").split("\t", 2)
                if len(parts) < 3:
                    continue
                _, cid, payload = parts
                n += 1
                iv = ires.get(cid)
                mv = mres.get(cid)
                if iv is None and (raced is not None or died is not None):
                    last_missing = (cid, payload, mv)      # the harness died on the case it had announced last
                    continue
                if iv is None or mv is None:
                    mismatches.append(dict(kind="broken", component="missing-result:" + sname, payload=payload,
                                           detail="impl=%r model=%r" % (iv, mv), suite=sname, case_id=cid))
                    continue
                if iv == "hang":
                    m = dict(kind="violation", detail="the call did not return within the watchdog limit (non-termination) on this input")
                elif iv.startswith("not-run"):
                    continue
                else:
                    m = cmpf(payload, iv, mv)
                if m is not None:
                    m.update(suite=sname, payload=payload, case_id=cid, impl=iv[:4000], model=mv[:4000])
                    mismatches.append(m)
                if ntf(payload, iv, mv):
                    nontrivial.add(hashlib.md5(payload.encode()).digest()[:8])
                if len(samples) < 3 or (n % 9973 == 0 and len(samples) < 8):
                    samples.append(dict(suite=sname, input=payload[:300], impl=iv[:300], model=mv[:300]))
    if died is not None:
        if last_missing is not None:
            cid, payload, mv = last_missing
            mismatches.append(dict(kind="violation", detail=died, suite=sname, payload=payload, case_id=cid, impl="(process died)", model=(mv or "")[:4000]))
        else:
            mismatches.append(dict(kind="broken", component="harness-run:" + sname, payload="", detail=died, suite=sname))
    if raced is not None and last_missing is not None:
        cid, payload, mv = last_missing
        iv = "RACE " + raced.replace("\n", " / ")
        m = cmpf(payload, iv, mv or "")
        if m is not None:
            m.update(suite=sname, payload=payload, case_id=cid, impl=iv[:4000], model=(mv or "")[:4000])
            mismatches.append(m)
    try:
        st = json.load(open(stats))
    except Exception:
        st = {}
    ev = dict(suite=sname, cases=n, distinct_nontrivial=len(nontrivial), mismatches=len(mismatches),
              input_distribution=st, harness_s=round(t1 - t0, 2), compare_s=round(time.time() - t1, 2),
              what=spec.get("what", ""))
    return dict(evaluations=n, nontrivial=len(nontrivial), mismatches=mismatches, samples=samples, evidence=ev)


def harness_replay(suite, payload, binary=None):
    race = binary is not None and binary.endswith("harness-race")
    rc, out = sh(["bash", "-c", ("" if race else "ulimit -v 16000000; ") + "exec \"$@\"", "x", binary or os.path.join(BUILD, "harness"), "-suite", suite, "-replay", payload],
                 env=dict(GOENV, GORACE="halt_on_error=1 exitcode=66") if race else GOENV, timeout=600)
    if race and "WARNING: DATA RACE" in out:
        return "RACE " + out[out.find("WARNING: DATA RACE"):][:3000].replace("\n", " / ")
    return out.strip()


def model_replay(suite, payload):
    line = "%s\t0\t%s\n" % (suite, payload)
    rc, out = sh(["bash", "-c", "ulimit -s unlimited 2>/dev/null; exec %s" % os.path.join(BUILD, "modelrun")], inp=line.encode(), timeout=600)
    out = out.strip()
    return out.split("\t", 1)[1] if "\t" in out else out


# ---------------------------------------------------------------------------
# known findings, replays, shrinking
# ---------------------------------------------------------------------------

def load_known_findings():
    p = os.path.join(VERIF, "known_findings.json")
    if not os.path.exists(p):
        return []
    return json.load(open(p)).get("findings", [])


def match_known(findings, pid, sname, m):
    import props
    for kf in findings:
        if kf.get("status") != "open" or pid not in kf.get("properties", [kf.get("property")]):
            continue
        pred = props.FINDING_CLASSES.get(kf.get("class"))
        if pred is not None and pred(sname, m):
            return kf
    return None


def write_replay(pid, v, seed, tier):
    h = hashlib.sha1((v.get("suite", "") + "|" + v.get("payload", "") + "|" + v.get("component", "")).encode()).hexdigest()[:12]
    path = os.path.join(VERIF, "replays", "%s-%s.json" % (pid, h))
    d = dict(property=pid, kind=v["kind"], suite=v.get("suite"), component=v.get("component"), seed=seed, tier=tier,
             case_id=v.get("case_id"), payload=v.get("payload", ""), impl_result=v.get("impl"), model_result=v.get("model"),
             detail=v.get("detail"), shrunk_from=v.get("shrunk_from"),
             how_to_replay="cd /verif && ./check %s --replay %s" % (pid, path))
    if v["kind"] != "violation":
        d["broken_obligation"] = v.get("component")
    with open(path, "w") as f:
        json.dump(d, f, indent=1)
    return path


def shrink_violation(pid, v):
    """Greedy delta-debugging on whitespace-separated payload items (tokens / fields)."""
    import props
    cfg = props.PROPS[pid]
    spec = dict(cfg["suites"]).get(v.get("suite"))
    if spec is None or not spec.get("shrink", True):
        return v
    hs = spec.get("harness_suite", v["suite"])
    ms = spec.get("model_suite", hs)
    shr = spec.get("shrinker", shrink_items)
    orig = v["payload"]
    budget = [150]

    def still_fails(p):
        if budget[0] <= 0:
            return None
        budget[0] -= 1
        iv = harness_replay(hs, p)
        mv = model_replay(ms, p)
        try:
            m = spec["cmp"](p, iv, mv)
        except Exception:
            return None
        if m is not None and m["kind"] == "violation":
            m.update(impl=iv[:4000], model=mv[:4000])
            return m
        return None

    best = dict(v)
    cur = orig
    improved = True
    while improved and budget[0] > 0:
        improved = False
        for cand in shr(cur):
            if len(cand) >= len(cur):
                continue
            m = still_fails(cand)
            if m is not None:
                cur = cand
                best = dict(v)
                best.update(m)
                best["payload"] = cand
                improved = True
                break
    if cur != orig:
        best["shrunk_from"] = orig[:2000]
    return best


def shrink_items(payload):
    items = payload.split(" ")
    n = len(items)
    # remove halves, quarters, ..., single items
    k = n // 2
    while k >= 1:
        for i in range(0, n, k):
            cand = items[:i] + items[i + k:]
            if cand:
                yield " ".join(cand)
        k //= 2


def shrink_after_bar(payload):
    """payloads of the form '<head>|<items>' : shrink the items only"""
    head, _, items = payload.partition("|")
    for cand in shrink_items(items):
        yield head + "|" + cand


def shrink_hex_last_field(payload):
    """payloads whose last whitespace-separated field is a hex string: delete byte ranges"""
    fields = payload.split(" ")
    hx = fields[-1]
    n = len(hx) // 2
    k = n // 2
    while k >= 1:
        for i in range(0, n, k):
            cand = hx[:2 * i] + hx[2 * (i + k):]
            yield " ".join(fields[:-1] + [cand])
        k //= 2


# ---------------------------------------------------------------------------
# the autogen harness: the ordinary harness plus generated struct type families
# ---------------------------------------------------------------------------

def build_autogen_harness(fams, name="autogen-harness"):
    """Copy harness/*.go to build/autogen-src, add the generated types, build with -tags 'verif autogen'."""
    import autogen_gen
    src = os.path.join(BUILD, "autogen-src")
    sh(["rm", "-rf", src])
    os.makedirs(src, exist_ok=True)
    hdir = os.path.join(VERIF, "harness")
    for f in os.listdir(hdir):
        if f.endswith(".go") or f in ("go.mod", "go.sum"):
            sh(["cp", os.path.join(hdir, f), src])
    autogen_gen.write_go(fams, os.path.join(src, "types_gen.go"))
    target = os.path.join(BUILD, name)
    rc, out = sh(["go", "build"] + modflags() + ["-tags", "verif autogen", "-o", target, "."], cwd=src, env=GOENV, timeout=1800)
    if rc != 0:
        return target, "the autogen harness does not build: " + out
    return target, ""


def prepare_autogen(seed, tier):
    import autogen_gen
    return build_autogen_harness(autogen_gen.families(seed, tier))


def autogen_replay_binary(payload):
    """Rebuild a harness holding just the family of this payload (its spec travels in the payload)."""
    head = payload.split("|", 1)[0]
    fam = json.loads(bytes.fromhex(head.split(":", 1)[1]).decode())
    target, err = build_autogen_harness([fam], name="autogen-replay")
    return None if err else target


def build_race_harness():
    """The ordinary harness built with the race detector (cgo is needed for -race)."""
    target = os.path.join(BUILD, "harness-race")
    hdir = os.path.join(VERIF, "harness")
    rc, out = sh(["go", "build"] + modflags() + ["-race", "-tags", "verif", "-o", target, "."], cwd=hdir, env=dict(GOENV, CGO_ENABLED="1"), timeout=1800)
    if rc != 0:
        return target, "the race-detector build of the harness fails: " + out
    return target, ""
