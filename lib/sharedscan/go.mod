module sharedscan

go 1.20
