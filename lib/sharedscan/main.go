// sharedscan: go/ast scan of a Go source tree for package-level variables and every syntactic
// write to them (assignment, op-assignment, ++/--, element or field assignment, address-of),
// printed as a Coq file (SharedState.v).  Used by the C18 check; regenerated on every run.
//
//	sharedscan <repo root> <out.v>
package main

import (
	"fmt"
	"go/ast"
	"go/parser"
	"go/printer"
	"go/token"
	"os"
	"path/filepath"
	"sort"
	"strings"
)

type varInfo struct {
	pkg, name, typ, init, class string
	writes, addr, calls          int
	where                        []string
}

var skipDirs = map[string]bool{"microbench": true, "rsrch": true, "cmd": true, ".git": true, "SEEDS": true}

func exprString(fset *token.FileSet, e ast.Expr) string {
	if e == nil {
		return ""
	}
	var sb strings.Builder
	printer.Fprint(&sb, fset, e)
	s := strings.Join(strings.Fields(sb.String()), " ")
	if len(s) > 120 {
		s = s[:120] + "..."
	}
	return s
}

// constLike: an initializer whose value cannot be mutated through the variable
func constLike(e ast.Expr) bool {
	switch x := e.(type) {
	case *ast.BasicLit:
		return true
	case *ast.Ident:
		return true // another named constant / variable / nil / true / false
	case *ast.SelectorExpr:
		return true // pkg.Const
	case *ast.UnaryExpr:
		return x.Op != token.AND && constLike(x.X)
	case *ast.BinaryExpr:
		return constLike(x.X) && constLike(x.Y)
	case *ast.ParenExpr:
		return constLike(x.X)
	case *ast.CallExpr:
		fn := ""
		switch f := x.Fun.(type) {
		case *ast.SelectorExpr:
			if id, ok := f.X.(*ast.Ident); ok {
				fn = id.Name + "." + f.Sel.Name
			} else if inner, ok := f.X.(*ast.CallExpr); ok && f.Sel.Name == "Elem" {
				return constLike(inner) // reflect.TypeOf(...).Elem()
			}
		case *ast.Ident:
			fn = f.Name
		case *ast.ArrayType: // []byte("...") conversion: a fresh slice, shared and mutable
			return false
		}
		switch fn {
		case "errors.New", "fmt.Errorf", "reflect.TypeOf":
			return true
		}
		return false
	case *ast.CompositeLit:
		// a table of constants: read-only as long as nobody writes its elements (writes are counted separately)
		for _, el := range x.Elts {
			if kv, ok := el.(*ast.KeyValueExpr); ok {
				if !constLike(kv.Key) || !constLike(kv.Value) {
					return false
				}
			} else if !constLike(el) {
				return false
			}
		}
		return true
	}
	return false
}

func rootIdent(e ast.Expr) *ast.Ident {
	for {
		switch x := e.(type) {
		case *ast.Ident:
			return x
		case *ast.IndexExpr:
			e = x.X
		case *ast.SelectorExpr:
			e = x.X
		case *ast.StarExpr:
			e = x.X
		case *ast.ParenExpr:
			e = x.X
		case *ast.SliceExpr:
			e = x.X
		default:
			return nil
		}
	}
}

func main() {
	root, out := os.Args[1], os.Args[2]
	fset := token.NewFileSet()
	var infos []*varInfo
	filepath.Walk(root, func(path string, fi os.FileInfo, err error) error {
		if err != nil || !fi.IsDir() {
			return nil
		}
		if skipDirs[fi.Name()] {
			return filepath.SkipDir
		}
		pkgs, err := parser.ParseDir(fset, path, func(f os.FileInfo) bool { return !strings.HasSuffix(f.Name(), "_test.go") }, 0)
		if err != nil {
			fmt.Fprintln(os.Stderr, "parse error:", err)
			os.Exit(1)
		}
		rel, _ := filepath.Rel(root, path)
		for pname, p := range pkgs {
			if pname == "main" {
				continue
			}
			ast.NewPackage(fset, p.Files, nil, nil) // resolves package-level identifiers across files
			byObj := map[*ast.Object]*varInfo{}
			byName := map[string]*varInfo{}
			var fnames []string
			for fn := range p.Files {
				fnames = append(fnames, fn)
			}
			sort.Strings(fnames)
			for _, fn := range fnames {
				for _, d := range p.Files[fn].Decls {
					gd, ok := d.(*ast.GenDecl)
					if !ok || gd.Tok != token.VAR {
						continue
					}
					for _, sp := range gd.Specs {
						vs := sp.(*ast.ValueSpec)
						for i, id := range vs.Names {
							if id.Name == "_" {
								continue
							}
							vi := &varInfo{pkg: rel, name: id.Name, typ: exprString(fset, vs.Type), class: "review"}
							if i < len(vs.Values) {
								vi.init = exprString(fset, vs.Values[i])
								if constLike(vs.Values[i]) {
									vi.class = "const-like"
								}
							} else if len(vs.Values) == 0 {
								vi.class = "zero"
							}
							infos = append(infos, vi)
							if id.Obj != nil {
								byObj[id.Obj] = vi
							}
							byName[id.Name] = vi
						}
					}
				}
			}
			lookup := func(id *ast.Ident) *varInfo {
				if id == nil {
					return nil
				}
				if id.Obj != nil {
					return byObj[id.Obj] // a local object shadows: not in the map
				}
				return byName[id.Name] // unresolved in the file scope: a package-level name of another file
			}
			for _, fn := range fnames {
				// writes inside func init() happen before any goroutine of the program can use the package
				inInit := map[ast.Node]bool{}
				for _, d := range p.Files[fn].Decls {
					if fd, ok := d.(*ast.FuncDecl); ok && fd.Recv == nil && fd.Name.Name == "init" && fd.Body != nil {
						ast.Inspect(fd.Body, func(n ast.Node) bool {
							if n != nil {
								inInit[n] = true
							}
							return true
						})
					}
				}
				ast.Inspect(p.Files[fn], func(n ast.Node) bool {
					if n != nil && inInit[n] {
						return true
					}
					note := func(vi *varInfo, what string, pos token.Pos) {
						vi.where = append(vi.where, fmt.Sprintf("%s %s", what, fset.Position(pos)))
					}
					switch x := n.(type) {
					case *ast.AssignStmt:
						if x.Tok == token.DEFINE {
							return true
						}
						for _, l := range x.Lhs {
							if vi := lookup(rootIdent(l)); vi != nil {
								vi.writes++
								note(vi, "write", x.Pos())
							}
						}
					case *ast.IncDecStmt:
						if vi := lookup(rootIdent(x.X)); vi != nil {
							vi.writes++
							note(vi, "write", x.Pos())
						}
					case *ast.UnaryExpr:
						if x.Op == token.AND {
							if vi := lookup(rootIdent(x.X)); vi != nil {
								vi.addr++
								note(vi, "addr", x.Pos())
							}
						}
					case *ast.CallExpr:
						if sel, ok := x.Fun.(*ast.SelectorExpr); ok {
							if id, ok := sel.X.(*ast.Ident); ok {
								if vi := lookup(id); vi != nil {
									vi.calls++ // a method call on the variable (may have a pointer receiver)
								}
							}
						}
					}
					return true
				})
			}
		}
		return nil
	})
	sort.Slice(infos, func(i, j int) bool {
		if infos[i].pkg != infos[j].pkg {
			return infos[i].pkg < infos[j].pkg
		}
		return infos[i].name < infos[j].name
	})
	q := func(s string) string { return "\"" + strings.ReplaceAll(s, "\"", "\"\"") + "\"" }
	var sb strings.Builder
	sb.WriteString("(* SharedState.v — GENERATED on every run by lib/sharedscan from the Go source under /repo: every\n   package-level variable of the library packages, how it is initialised, and how often it is syntactically\n   written, address-taken or used as a method receiver outside its declaration. *)\n")
	sb.WriteString("From Coq Require Import List String.\nImport ListNotations.\nOpen Scope string_scope.\n\n")
	sb.WriteString("Record shared_var := SV { sv_pkg : string ; sv_name : string ; sv_type : string ; sv_init : string ;\n  sv_class : string ; sv_writes : nat ; sv_addr : nat ; sv_calls : nat }.\n\n")
	sb.WriteString("Definition shared_vars : list shared_var := [\n")
	for i, v := range infos {
		sep := ";"
		if i == len(infos)-1 {
			sep = ""
		}
		sb.WriteString(fmt.Sprintf("  SV %s %s %s %s %s %d %d %d%s\n", q(v.pkg), q(v.name), q(v.typ), q(v.init), q(v.class), v.writes, v.addr, v.calls, sep))
	}
	sb.WriteString("].\n")
	if err := os.WriteFile(out, []byte(sb.String()), 0o644); err != nil {
		fmt.Fprintln(os.Stderr, err)
		os.Exit(1)
	}
	for _, v := range infos {
		for _, w := range v.where {
			fmt.Printf("%s.%s: %s\n", v.pkg, v.name, w)
		}
	}
}
