#!/usr/bin/env python3
"""Prints the prompt given to a fresh sub-agent asked for a property-breaking change (only the property text + a worktree path)."""
import json, sys
pid, wt, n = sys.argv[1], sys.argv[2], (sys.argv[3] if len(sys.argv) > 3 else "2")
for l in open('/verif/properties.jsonl'):
    p = json.loads(l)
    if p['id'] == pid:
        break
print(f"""You are helping test a verification setup by mutation. You work ONLY inside the git worktree {wt}, a scratch checkout of the Go library polydawn/refmt (a serialization library: token-stream model, JSON and CBOR encoders/decoders, reflection-based object mapping via atlases). Do not read or touch /verif or /repo; do not commit; do not use `git stash`; do not use the network (set `export GOFLAGS=-mod=mod GOPROXY=off GOSUMDB=off GOTOOLCHAIN=local` in every shell call; `go test -vet=off -count=1 ./...` in the worktree runs the existing suite and it passes offline).

Here is a semantic property that the library is supposed to satisfy:

TITLE: {p['title']}
STATEMENT: {p['statement']}
QUANTIFIED OVER: {p['quantifier']['text']}

Your task: produce {n} DIFFERENT small source changes (mutants) to the library's non-test Go code, each of which
 (a) still compiles, and the existing test suite (`go test -vet=off -count=1 ./...`) still passes unchanged with it,
 (b) breaks the property above — realistically, like a plausible bug/regression/optimisation gone wrong, not sabotage that ordinary use would expose at once. Prefer changes that need something specific to manifest: an unusual input or boundary value, a multi-step sequence of operations, a particular nesting/position, a specific configuration, or two cooperating sites that each look fine alone,
 (c) comes with a demonstration: a small standalone Go test file (package-external `_test.go` placed in the worktree, e.g. {wt}/seed_demo_<k>_test.go in package refmt_test or in the relevant package dir) that FAILS with the change applied and PASSES on the unchanged code. The demonstration must exercise public API only.
Note: the unchanged code may itself have defects with respect to this property; make sure your demonstration passes on the unchanged code and fails only because of your change, and avoid areas where the unchanged code already violates the property.

For each mutant k = 1..{n}, write into the directory {wt}/SEEDS/<k>/ :
  - patch.diff  : `git diff` of the library change only (not the demo test), applicable with `git apply` at the worktree root
  - demo_test.go: the demonstration test file, plus a line at its top as a comment saying where it must be placed (path relative to the repo root) and the exact `go test` command to run it
  - notes.txt   : 3-6 lines: what the change is, why it breaks the property, what is needed for it to manifest, confirmation that you ran (1) the full suite with the change (passes), (2) the demo with the change (fails), (3) the demo without the change (passes).
After writing each mutant's files, revert the worktree's source to clean (`git checkout -- .` and remove the demo test from the source tree) before starting the next, so that each patch.diff is relative to the clean tree. Leave only the SEEDS directory behind. Finish with a short report listing the mutants.""")
