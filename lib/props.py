"""props.py — per-property configuration: which Coq file states it, which
correspondence suites tie the model to /repo, and how their results are compared
(only the observables the property speaks about)."""
import os, re
from common import shrink_after_bar, shrink_hex_last_field

TB_COMMON = [
    "Coq 8.16.1 kernel incl. vm_compute (no native_compute); full .vo build",
    "axioms: none (Print Assumptions of every property theorem is recorded in coverage.print_assumptions)",
    "extraction: ExtrOcamlBasic only (bool, option, unit, list, prod, sumbool, sumor -> OCaml); nat/positive/N/Z stay extracted inductives; no Extract Constant",
    "OCaml 4.13.1 + /verif/modelrun/driver.ml (parsing/printing; Zarith only for decimal I/O)",
    "Go harness /verif/harness (generators, observation of the real API) and this orchestrator",
    "the Gallina model is hand-written; its tie to /repo is the correspondence run of this check (tested, not proved)",
]


def viol(detail):
    return dict(kind="violation", detail=detail)


def mism(detail):
    return dict(kind="mismatch", detail=detail)


# ---------------------------------------------------------------------------
# cbor-enc:  impl  = "<class> <used> <hex|-> <chunklens|->"
#            model = "<class> <used> <hex|-> <chunklens|-> | <rfc hex or ->"
# ---------------------------------------------------------------------------

def split_enc(model):
    parts = model.split(" | ")
    f = parts[0].split(" ")
    spec = parts[1].strip() if len(parts) > 1 else "-"
    return f, spec


def rt_part(s):
    for p in s.split(" | "):
        if p.startswith("rt: "):
            return p[4:]
    return None


def cmp_c02_enc(payload, impl, model):
    mf, spec = split_enc(model)
    ntok = len(payload.split())
    if mf[0] != "fin" or int(mf[1]) != ntok or spec == "-":
        return None  # not one complete in-domain value: C02 is silent (C14 speaks)
    f = impl.split(" | ")[0].split(" ")
    if f[0] != "fin" or int(f[1]) != ntok:
        return viol("well-formed token sequence not accepted/completed on its last token: impl=%s %s" % (f[0], f[1]))
    if f[2] != spec:
        return viol("bytes differ from the RFC 7049 encoding: impl=%s spec=%s" % (f[2][:80], spec[:80]))
    if f[2] != mf[2]:
        return mism("model bytes differ from impl although impl matches the spec")
    # decoding half: the real decoder on the real bytes vs the decoder model on the same bytes
    irt, mrt = rt_part(impl), rt_part(model)
    if mrt is not None and mrt.startswith("ok") and irt != mrt:
        return viol("decoding the encoded bytes: expected %s, got %s" % (mrt[:120], str(irt)[:120]))
    return None


def nt_c02_enc(payload, impl, model):
    mf, spec = split_enc(model)
    return mf[0] == "fin" and spec != "-" and len(spec) >= 4


PROPS = {
    "C02": dict(
        coq="Properties_C02",
        level_text="Proved in Coq for all value trees: the encoder model accepts every in-domain tree, signals done exactly on the last token and writes exactly the RFC 7049 reference encoding (independent spec rfc_enc); every head is the shortest well-formed head (relational spec HeadShortest); decoding those bytes with the decoder model returns the same tokens and consumes exactly them. The model is tied to cbor.Encoder/Decoder by a correspondence run (exhaustive on head boundaries and short sequences).",
        level_note="Trusted: Coq kernel, extraction (ExtrOcamlBasic), OCaml driver, Go harness; the Gallina model is hand-written and its equality with the Go code is tested by the correspondence run, not proved. No axioms.",
        rule="token sequences generated as described per suite; non-trivial = the model accepts it as one complete value whose encoding is at least 2 bytes; distinct by payload",
        trusted_base=TB_COMMON,
        assumptions=["float64 values are modelled as their bit patterns", "Go int is 64 bit"],
        suites=[
            ("cbor-enc", dict(cmp=cmp_c02_enc, nontrivial=nt_c02_enc,
                              what="cbor.NewEncoder(w).Step vs CborEnc.enc_tokens and vs CborSpec.rfc_enc: head boundaries +-2 on every head position, all values < 2^24 (stride in quick), float specials, random tagged trees, deep nesting, all token sequences <= 5 (quick) / 7 (thorough) over a 16-token alphabet")),
        ],
    ),
}

# Known-finding classes: predicates over (suite, mismatch-dict)
FINDING_CLASSES = {}

NOT_YET = {}
HOOK_COMMITS = ["d559651"]


# ---------------------------------------------------------------------------
# cbor-dec: impl = "ok <consumed> <tokens>" | "err <class> <ntoks>" | "panic" | "hang"
#           model = "<same> | <alloc> | <spec: ok consumed tokens | err class | fuel>"
# ---------------------------------------------------------------------------

def split_dec(model):
    parts = model.split(" | ")
    return parts[0], (parts[1] if len(parts) > 1 else "0"), (parts[2] if len(parts) > 2 else "")


def cmp_c04_dec(payload, impl, model):
    dec, alloc, spec = split_dec(model)
    if spec == "fuel" or dec.startswith("hang") or dec.startswith("panic"):
        return mism("model/spec did not produce a verdict: dec=%s spec=%s" % (dec[:60], spec[:60]))
    if spec.startswith("ok"):
        if impl != spec:
            return viol("input begins with a well-formed item; expected %s, decoder gave %s" % (spec[:120], impl[:120]))
    else:
        if not impl.startswith("err"):
            return viol("input does not begin with a well-formed supported item (reference parser: %s) but the decoder gave %s" % (spec, impl[:120]))
    # model automaton vs reference parser (should be excluded by the theorems)
    d2 = dec if dec.startswith("ok") else "err"
    s2 = spec if spec.startswith("ok") else "err"
    if d2 != s2:
        return mism("decoder model and reference parser disagree: %s vs %s" % (dec[:80], spec[:80]))
    return None


def nt_c04_dec(payload, impl, model):
    dec, alloc, spec = split_dec(model)
    return len(payload) > 6


PROPS["C04"] = dict(
    coq="Properties_C04",
    level_text="Proved in Coq for all byte strings and both option settings: the decoder automaton model returns exactly what the recursive-descent reference reading of RFC 7049 (restricted to refmt's subset) returns - the same tokens and rest when the input begins with a well-formed item, an error otherwise - and never panics or runs out of fuel; heads decode to the value the relational head spec assigns. Half-float widening is checked exhaustively in the kernel. Tied to cbor.Decoder by a correspondence run (all inputs <= 2 bytes, all <= 3 over a structural alphabet, all half floats, prefixes and mutations of generated items).",
    level_note="Trusted: Coq kernel, extraction, OCaml driver, Go harness; hand-written model tied to the Go code by differential testing. The reference parser shares the flat terminal decoders (heads, floats, chunked strings) with the model; they are characterised separately against the relational head spec. No axioms.",
    rule="byte strings generated as described per suite; non-trivial = input longer than 2 bytes; distinct by payload",
    trusted_base=TB_COMMON,
    assumptions=["float32->float64 conversion quiets signalling NaNs (amd64 CVTSS2SD), pinned by the correspondence on all half floats and sampled singles", "Go int is 64 bit"],
    suites=[
        ("cbor-dec", dict(cmp=cmp_c04_dec, shrinker=shrink_hex_last_field, nontrivial=nt_c04_dec,
                          what="cbor.NewDecoder(opts, r).Step vs CborDec.dec_run and CborParse.parse_item: all byte strings <= 2 (quick) / 3 (thorough) bytes, all strings <= 3/4 over a 46-byte structural alphabet, all 65536 half floats, sampled singles, head boundaries on every major, generated items in random spellings with every proper prefix and single-byte mutations, deep nesting; both option settings")),
    ],
)


# ---------------------------------------------------------------------------
# C14: acceptance verdicts of the three encoders vs the specification machine
# ---------------------------------------------------------------------------

def part(s, prefix):
    for p in s.split(" | "):
        if p.startswith(prefix):
            return p[len(prefix):]
    return None


def cmp_c14(payload, impl, model):
    iv = impl.split(" | ")[0].split(" ")[:2]
    mv = model.split(" | ")[0].split(" ")[:2]
    ctx = part(model, "ctx: ")
    repr_ok = part(model, "repr: ")
    if iv[0] == "panic":
        return viol("encoder panicked on a sequence of valid tokens (token index %s)" % iv[1])
    if repr_ok in (None, "1"):
        # every token is representable: the verdict must be the grammar's
        if " ".join(iv) != ctx:
            return viol("verdict differs from the token grammar: encoder %s, grammar %s" % (" ".join(iv), ctx))
    else:
        if iv != mv:
            return viol("sequence with an unrepresentable token: expected %s, got %s" % (" ".join(mv), " ".join(iv)))
    if iv != mv:
        return mism("model verdict %s differs from impl %s although impl matches the grammar" % (mv, iv))
    return None


def nt_c14(payload, impl, model):
    return len(payload.split("|")[-1].split()) >= 2


PROPS["C14"] = dict(
    coq="Properties_C14",
    level_text="Proved in Coq for all token sequences: each encoder model (CBOR, JSON, pretty) steps in lock-step with the specification context machine (same done/continue/error verdict on every token, never a panic); the JSON encoder answers an unrepresentable token (bytes, NaN, Inf) with an error; and the context machine recognises exactly the token renderings of value trees (done exactly at the end of a rendering; an unrejected prefix is completable; a rejected token cannot continue any value). Tied to the three Go encoders by an exhaustive sequence enumeration (all sequences up to length 5 quick / 7 thorough over a 16-token alphabet, as a prefix tree) plus random and deep sequences.",
    level_note="Trusted: Coq kernel, extraction, OCaml driver, Go harness; hand-written automaton models tied to the Go code by the enumeration (W-method style conformance test, bound stated in the evidence). No axioms.",
    rule="token sequences; non-trivial = at least 2 tokens; distinct by payload",
    trusted_base=TB_COMMON,
    assumptions=["the real Step functions depend on the token only through its type, length sign and tag (the enumeration alphabet covers each class)"],
    suites=[
        ("cbor-enc", dict(cmp=cmp_c14, nontrivial=nt_c14, what="cbor.NewEncoder: verdict (done/err/panic, token index) vs TokGrammar.ctx_run key_cbor and vs the CborEnc model")),
        ("json-enc", dict(cmp=cmp_c14, shrinker=shrink_after_bar, nontrivial=nt_c14, what="json.NewEncoder: verdict vs ctx_run key_json (representable tokens) / vs JsonEnc model (sequences with bytes, NaN, Inf)")),
        ("pretty-enc", dict(cmp=cmp_c14, nontrivial=nt_c14, what="pretty.NewEncoder: verdict vs ctx_run key_cbor and the Pretty model; deep nesting up to 2000")),
    ],
)


# ---------------------------------------------------------------------------
# json-dec: impl = "<item> ;; <item> ... | ej: v= lv= acc= agree= unrep="   item = "ok @<consumed> <tokens>" | "err <class> <n>"
#           model = "<item> ;; <item> ..."
# ---------------------------------------------------------------------------
import re as _re

_EJ = _re.compile(r"ej: v=(\d) lv=(\d) acc=(\d) agree=(\S) unrep=(\d)")


def _norm_items(s):
    out = []
    for it in s.split(" ;; "):
        out.append("err" if it.startswith("err") else it)
    return out


def cmp_c05_dec(payload, impl, model):
    left, _, ej = impl.partition(" | ej: ")
    m = _EJ.search("ej: " + ej)
    if m is None:
        return mism("harness oracle fields missing: %s" % impl[:100])
    v, lv, acc, agree, unrep = m.groups()
    if left.startswith("panic") or " ;; panic" in left:
        return viol("decoder panicked")
    if v == "1" and unrep == "0" and acc == "0":
        return viol("valid JSON (per encoding/json) not accepted: %s" % left[:100])
    if v == "1" and unrep == "0" and agree == "0":
        return viol("valid JSON decoded to a different value than encoding/json assigns: %s" % left[:100])
    if lv == "0" and acc == "1":
        return viol("text that is not valid JSON even after deleting trailing commas was accepted: %s" % left[:100])
    model, _, spec = model.partition(" | spec: ")
    first_model = model.split(" ;; ")[0]
    if spec and (spec == "fuel" or (spec.startswith("ok") != first_model.startswith("ok")) or (spec.startswith("ok") and spec != first_model)):
        return mism("decoder model and reference parser disagree: %s vs %s" % (first_model[:80], spec[:80]))
    # model vs implementation on the first item (ok/err, tokens, bytes consumed) and on how the rest frames
    if _norm_items(left) != _norm_items(model):
        li, mi = _norm_items(left), _norm_items(model)
        if li[0] != mi[0]:
            return viol("first item: decoder gave %s, the model (proved equal to the RFC 8259 reference reading) gives %s" % (li[0][:100], mi[0][:100]))
        return mism("later items differ: impl %s model %s" % (left[:100], model[:100]))
    return None


def nt_c05(payload, impl, model):
    return len(payload) >= 6


PROPS["C05"] = dict(
    coq="Properties_C05",
    level_text="Proved in Coq for all byte strings: the decoder automaton model returns exactly what the recursive-descent reference reading of RFC 8259 (with the one trailing-comma leniency) returns - same tokens and rest, or an error - and never runs out of fuel. The reference reading itself is validated on every run against Go's encoding/json (validity with/without the leniency, and token-by-token value agreement incl. numbers) on all generated texts. Tied to json.Decoder by the correspondence run (all strings <= 5 quick / 7 thorough over a 24-symbol alphabet as a pruned prefix tree, all \\\\uXXXX, generated documents with edits and prefixes).",
    level_note="Trusted: Coq kernel, extraction, OCaml driver, Go harness, encoding/json and strconv as validators of the spec. The decimal->float64 conversion (JsonFloat.nearest) is proved to be the correctly rounded IEEE-754 binary64 value (FloatProof.v: nearest among all finite patterns, ties to even, overflow from 2^1024-2^970) — it is no longer an unproved stand-in for strconv.ParseFloat; that strconv computes the same is what the correspondence run checks. No axioms.",
    rule="texts generated as described per suite; non-trivial = at least 3 bytes; distinct by payload",
    trusted_base=TB_COMMON + ["encoding/json (Valid, Decoder.Token with UseNumber) and strconv as independent oracles inside the harness"],
    assumptions=["acceptance of a text = one item decoded and only whitespace left (stream decoder)", "valid JSON numbers outside int64/uint64/float64 range are exempt (unrep=1): the decoder reports an error for them"],
    suites=[
        ("json-dec", dict(cmp=cmp_c05_dec, shrinker=shrink_hex_last_field, nontrivial=nt_c05, timeout=14400,
                          what="json.NewDecoder(r).Step vs JsonDec.jdec_run (items, tokens, consumed bytes via the verif hook) and vs encoding/json")),
    ],
)


# ---------------------------------------------------------------------------
# C03: json-enc   impl  = "<cls> <used> <hex> <chunks> | rt: <item> | ej: valid= same= wsonly="
#                 model = "<cls> <used> <hex> <chunks> | rt: <item> | ctx: .. | repr: .."
# ---------------------------------------------------------------------------
import struct as _struct

_EJ3 = _re.compile(r"ej: valid=(\d) same=(\d) wsonly=(\d)")


def _json_payload_tokens(payload):
    return payload.split("|", 1)[1].split()


def _float_of_bits(h):
    return _struct.unpack(">d", bytes.fromhex(h))[0]


def has_unreadable_integral_float(payload):
    """D5b class: a finite float token with |f| < 1e21 whose ES6-style text is a plain digit string
    (no '.', no exponent) denoting an integer outside [-2^63, 2^64-1]: the encoder prints it that way and
    no integer parse accepts it."""
    import decimal
    for t in _json_payload_tokens(payload):
        if t.startswith("f") and len(t) == 17:
            f = _float_of_bits(t[1:])
            if f != f or f in (float("inf"), float("-inf")) or abs(f) >= 1e21 or abs(f) < 1e-6:
                continue
            text = format(decimal.Decimal(repr(f)), "f")
            if "." in text:
                continue
            v = int(text)
            if v > 2 ** 64 - 1 or v < -(2 ** 63):
                return True
    return False


def cmp_c03_enc(payload, impl, model):
    toks = _json_payload_tokens(payload)
    mf = model.split(" | ")[0].split(" ")
    if part(model, "repr: ") != "1" or mf[0] != "fin" or int(mf[1]) != len(toks) or any(t.startswith("#") for t in toks):
        return None   # outside JSON's data model / not one complete value: C03 is silent
    f = impl.split(" | ")[0].split(" ")
    if f[0] != "fin" or int(f[1]) != len(toks):
        return viol("well-formed in-domain token sequence not accepted: %s %s" % (f[0], f[1]))
    m = _EJ3.search(impl)
    if m is None:
        return mism("oracle fields missing")
    valid, same, wsonly = m.groups()
    if valid != "1":
        return viol("output is not valid RFC 8259 JSON (encoding/json.Valid): %s" % bytes.fromhex(f[2] if f[2] != "-" else "")[:80])
    if same != "1":
        return viol("an independent parser reads the output as a different value: %s" % bytes.fromhex(f[2])[:80])
    if wsonly != "1":
        return viol("pretty-printed output differs from compact output by more than insignificant whitespace")
    irt, mrt = part(impl, "rt: "), part(model, "rt: ")
    if irt is None or not irt.startswith("ok"):
        return viol("refmt's own decoder cannot re-read the encoder's output: %s" % str(irt)[:80])
    if irt != mrt:
        return viol("re-reading the output: expected %s, got %s" % (str(mrt)[:100], irt[:100]))
    if f[2] != mf[2]:
        return mism("output bytes differ from the model's (still valid, same value): impl %s model %s" % (f[2][:60], mf[2][:60]))
    return None


def nt_c03(payload, impl, model):
    mf = model.split(" | ")[0].split(" ")
    return mf[0] == "fin" and part(model, "repr: ") == "1" and len(mf[2]) >= 6


def kf_d5b(sname, m):
    return sname == "json-enc" and "cannot re-read" in m.get("detail", "") and has_unreadable_integral_float(m.get("payload", "~ ~ -|"))


FINDING_CLASSES["json-integral-float-beyond-uint64"] = kf_d5b

PROPS["C03"] = dict(
    coq="Properties_C03",
    level_text="Proved in Coq on the encoder model: for every token tree inside JSON's data model and every whitespace option the output is read by the strict RFC 8259 reference reading as the same value (strings coerced to valid UTF-8, numbers re-typed), hence also by the decoder; escaping is inverse to unescaping for every byte string. Float formatting is proved as layout around the shortest-digits oracle (strconv's digit generation is assumed, hypothesis checked by the harness per case). Tied to json.Encoder by the correspondence run, and the output is independently parsed with encoding/json on every case.",
    level_note="partial for floats: strconv.AppendFloat's shortest digits are an oracle (Section variable) whose round-trip hypothesis the harness checks on every float it uses. Trusted: Coq kernel, extraction, OCaml driver, Go harness, encoding/json as independent validator. No axioms.",
    rule="json-enc cases; non-trivial = in-domain complete value with output of at least 3 bytes; distinct by payload",
    trusted_base=TB_COMMON + ["oracle: strconv.AppendFloat(f,'e',-1,64) digits read back as f (checked per case by the harness: ORACLE-HYPOTHESIS-FAILED marker otherwise)", "encoding/json (Valid, Compact, Decoder.Token) as independent RFC 8259 parser"],
    assumptions=["tags are outside the property's quantifier (the JSON encoder ignores them)"],
    suites=[
        ("json-enc", dict(cmp=cmp_c03_enc, shrinker=shrink_after_bar, nontrivial=nt_c03,
                          what="json.NewEncoder(w, opts).Step vs JsonEnc model bytes; output re-read by the real decoder and by encoding/json; all single bytes and 2-byte sequences (stride in quick) as string content, code point classes, int/uint boundaries, float switch points and powers of ten +-1ulp, nesting shapes x 9 whitespace options, random trees")),
    ],
)


# ---------------------------------------------------------------------------
# C15: reader  impl = "<outs> @n"   model = "<outs> @n | abs: <outs> @n"
#      sched-dec impl = model = "ok @c toks" | "err class n"
# ---------------------------------------------------------------------------

def cmp_c15_reader(payload, impl, model):
    m, _, a = model.partition(" | abs: ")
    sched = payload.split("|")[1].split()
    faults = "F" in sched
    if not faults:
        if impl != a:
            return viol("reading through this schedule differs from reading the bytes from memory: got %s, expected %s" % (impl[:120], a[:120]))
        if m != a:
            return mism("reader model differs from the abstract stream (refinement theorem should exclude this): %s vs %s" % (m[:80], a[:80]))
    elif impl != m:
        return mism("reader model and implementation differ under a faulty schedule: %s vs %s" % (impl[:100], m[:100]))
    return None


def cmp_c15_dec(payload, impl, model):
    sched, _, mem = impl.partition(" | mem: ")
    if sched != mem:
        return viol("decoding through this read schedule gives %s; decoding the same bytes from memory gives %s" % (sched[:120], mem[:120]))
    if sched != model:
        return mism("decoder model gives %s, implementation (under every schedule) gives %s" % (model[:100], sched[:100]))
    return None


PROPS["C15"] = dict(
    coq="Properties_C15",
    level_text="Proved in Coq: for every data, every fault-free read schedule (arbitrary chunk sizes, EOF reported with or after the last data, runs of fewer than 100 zero-length reads anywhere) and every sequence of reader operations, the model of readerToScanner + SlickReaderStream returns exactly what the abstract in-memory byte stream returns (bytes, errors incl. EOF vs ErrUnexpectedEOF, consumed count, tracked bytes). The decoder models are written against that abstract stream, so their results do not depend on the schedule. Tied to shared/reader.go by op-sequence correspondence (exhaustive splits of short data) and to both decoders by decoding documents under every split of short documents.",
    level_note="Trusted: Coq kernel, extraction, driver, harness; hand-written model of shared/reader.go tied to the code by differential testing. io.ReadAtLeast is transcribed from its source. No axioms.",
    rule="reader: data x schedule x op script; sched-dec: document x schedule; non-trivial = schedule with at least 2 entries; distinct by payload",
    trusted_base=TB_COMMON,
    assumptions=["a reader may return (0, nil) at most 99 times in a row (after that ReadByte reports io.ErrNoProgress, as bufio does)"],
    suites=[
        ("reader", dict(cmp=cmp_c15_reader, nontrivial=lambda p, i, m: len(p.split("|")[1].split()) >= 2, shrink=False,
                        what="shared.NewReader(schedulingReader): Readn1/Readb/Readn/Readnzc/Unreadn1/Track/StopTrack scripts vs Reader.run_ops and vs the abstract stream; every composition of data up to 6 (quick) / 10 bytes x EOF style x zero-read insertion, plus random")),
        ("sched-dec", dict(cmp=cmp_c15_dec, nontrivial=lambda p, i, m: len(p.split("|")[1].split()) >= 2, shrink=False,
                           what="cbor.NewDecoder / json.NewDecoder over a scheduling reader vs the decoder models on the whole input: every split of short valid and invalid documents (<= 10 quick / 14 thorough bytes) x EOF-with-data x zero reads at every position; random schedules on long documents")),
    ],
)


# ---------------------------------------------------------------------------
# C16: wfault  impl/model = "err <step>" | "fin <n>" | "starved" | "panic"
#      rfault  impl = "ok @c toks" | "err <class> <n>" ; model = "<prefix-run mapped> | whole: <result on the whole input>"
# ---------------------------------------------------------------------------

def cmp_c16_w(payload, impl, model):
    if model.startswith("err"):
        if not impl.startswith("err"):
            return viol("a Write fault inside the document (model: reported at step %s) was not reported: encoder returned %s" % (model[4:], impl))
        if impl != model:
            return mism("write fault reported at step %s, model says step %s" % (impl[4:], model[4:]))
        return None
    if impl != model:
        return mism("no effective write fault: model %s, impl %s" % (model, impl))
    return None


def cmp_c16_r(payload, impl, model):
    pre, _, whole = model.partition(" | whole: ")
    k = int(payload.split("|")[1].split()[0])
    fmtc = payload.split()[0]
    if whole.startswith("ok @"):
        span = int(whole.split()[1][1:])
        if 0 < k < span:
            if not impl.startswith("err fault"):
                return viol("reader failed at offset %d, strictly inside the %d-byte item, but the decoder returned %s" % (k, span, impl[:100]))
            return None
    if payload.split("|")[1].split()[1] == "stopd":
        return None   # data delivered together with the error: only the strictly-inside rule above applies
    if impl == pre:
        return None
    doclen = len(payload.split()[1]) // 2
    if fmtc == "j" and impl.startswith("err fault") and (pre.startswith("ok") or k == doclen):
        return None   # a bare top-level number has no terminator: the fault is met while looking for one
    if fmtc == "j" and impl.startswith("err fault") and 0 < k <= doclen:
        try:
            cut = bytes.fromhex(payload.split()[1])[:k]
        except ValueError:
            cut = b""
        if cut and cut[-1:] in b"0123456789.eE+-" and pre.startswith("err other"):
            # the fault is met while a number is being scanned: the decoder reports the fault and never gets to
            # classify the digits read so far (the model, reading the cut text as a whole input, calls them
            # out of range: TruncProof.ends_in_unrepresentable_number) - an error is reported either way
            return None
    return mism("outside the item: model %s impl %s" % (pre[:80], impl[:80]))


PROPS["C16"] = dict(
    coq="Properties_C16",
    level_text="Proved in Coq on the encoder models with a sticky-error writer (FaultProof.v): for every token sequence and every fault plan (which Write call, kind error/short/both, fail-stop or fail-once) whose faulty call lies within the writes the document needs, the run returns an error at or before the token on which the fault-free run would have finished (never a silent success); a plan beyond the document's writes changes nothing. Reader side (TruncProof.v): for every well-formed CBOR item and every cut strictly inside it the decoder model fails with an end-of-input error; for JSON every cut inside a non-bare-number item fails — with an end-of-input error except when the cut falls right after a number text that is unrepresentable on its own, which is reported as malformed (the plain statement is refuted by a kernel-checked counterexample); never a value. Tied to the code by exhaustive fault enumeration per document: every Write index x 3 kinds x 2 modes; every byte offset x 2 modes.",
    level_note="Trusted: Coq kernel, extraction, driver, harness; the sticky-writer behaviour (every writing Step returns the recorded error) is part of the hand-written encoder models and pinned by the enumeration. Reader faults are modelled as end-of-stream with a distinguished error. No axioms.",
    rule="wfault: document x write index x kind x mode; rfault: document x byte offset x mode; non-trivial = the fault position lies inside the document; distinct by payload",
    trusted_base=TB_COMMON,
    assumptions=["a faulty Write returns (len, err), (len-1, nil) or (0, err); a faulty Read returns (0, err), or (fail-stop only) the bytes before the fault together with the error; a transient error returned together with all the bytes a multi-byte read asked for is discarded by io.ReadAtLeast and is not counted as a failure of the reader"],
    suites=[
        ("wfault", dict(cmp=cmp_c16_w, nontrivial=lambda p, i, m: m.startswith("err"), shrink=False,
                        what="cbor.NewEncoder / json.NewEncoder over a fault-injecting io.Writer: for each document every Write index 1..n+1, kinds err/short/both, fail-stop and fail-once")),
        ("rfault", dict(cmp=cmp_c16_r, nontrivial=lambda p, i, m: "ok @" in m, shrink=False,
                        what="cbor.NewDecoder / json.NewDecoder over a reader failing with a distinguished error at every byte offset, fail-stop (announced alone or together with the last bytes delivered) and fail-once")),
    ],
)


# ---------------------------------------------------------------------------
# C10: transcode  impl = "ok <hex> @c | common= val= slow= cli=" | "err | cli=.." | "panic | cli=.."
#                 model = "ok <hex> @c" | "err"
# ---------------------------------------------------------------------------
_C10 = _re.compile(r"common=(\d) val=(\d) slow=(\S) cli=(\S+)")


def cmp_c10(payload, impl, model):
    left, _, info = impl.partition(" | ")
    cli = info.split("cli=")[-1].strip() if "cli=" in info else "-"
    if left.startswith("panic"):
        return viol("the pump panicked")
    if cli != "-":
        if left.startswith("ok") and cli != "ok:" + left.split()[1]:
            return viol("the refmt command-line converter gave %s, the library pump gave %s" % (cli[:80], left[:80]))
        if left.startswith("err") and cli != "err":
            return viol("the library pump failed but the command-line converter succeeded: %s" % cli[:80])
    if left.startswith("ok"):
        m = _C10.search(info)
        common, val, slow = (m.group(1), m.group(2), m.group(3)) if m else ("0", "0", "-")
        if model == "err":
            return viol("the input is rejected by the decoder model (malformed) but the pump succeeded: %s" % left[:80])
        if common == "1":
            if val != "1":
                return viol("the transcoded document does not denote the same value as the input: %s" % left[:100])
            if slow == "0":
                return viol("the pump's output and the Unmarshal(untyped)+Marshal route denote different values")
        if left != model:
            return (viol if common == "1" else mism)("pump output %s, model %s" % (left[:80], model[:80]))
        return None
    # impl err
    if model.startswith("ok"):
        return viol("the pump failed on an input the models transcode: %s" % model[:100])
    return None


def cmp_c10_stream(payload, impl, model):
    a, b = impl.split(" ;; "), model.split(" ;; ")
    pieces = payload.split()[2].split(",")
    if len(a) != len(b):
        return mism("piece count: %s vs %s" % (impl[:100], model[:100]))
    for i, (x, y) in enumerate(zip(a, b)):
        if x == "panic":
            return viol("the pump panicked on document %d of the stream" % (i + 1))
        if y == "rest":
            return None      # a piece that is more than one document: the stream position is no longer the model's
        if x != y:
            if pieces[i].startswith("!"):
                return viol("document %d of the stream is malformed but was transcoded: %s" % (i + 1, x[:100]))
            return viol("document %d of a stream pumped through one decoder and one encoder (Reset before each document; %s) gave %s, alone it gives %s" % (
                i + 1, "a malformed document came before" if any(q.startswith("!") for q in pieces[:i]) else "no malformed document before", x[:100], y[:100]))
        if y == "err" and not pieces[i].startswith("!"):
            return None      # failed somewhere inside: where the stream stands afterwards is not specified
    return None


PROPS["C10"] = dict(
    coq="Properties_C10",
    level_text="Proved in Coq (TranscodeProof.v) as compositions of the codec theorems over the lock-step pump model: JSON->CBOR is total on every text the reference reading accepts, consumes exactly one item and writes exactly the RFC 7049 encoding of the value tree read, which decodes to the same tokens up to CBOR's spelling of non-negative integers; it fails iff the reference reading fails. CBOR->JSON of a well-formed item in JSON's data model writes a text the decoder reads as the same tokens up to the documented normalisation (tags dropped, lengths -1, strings coerced to UTF-8, floats through the shortest-digits oracle), and fails iff the input is malformed or outside the data model (for any oracle). JSON->CBOR->JSON returns the same tokens for float-free valid-UTF-8 documents (unconditional) and for floats under the oracle hypothesis; CBOR->CBOR reproduces the tokens and is idempotent. Six natural over-strong variants are refuted by kernel-checked examples (non-string CBOR keys, the 32 MiB cap applying per chunk on reading but per item on re-reading, Int vs Uint, 1.0 -> 1). The library composition is tied to shared.TokenPump with both real codecs by the correspondence run (output bytes, consumed bytes), value preservation is re-checked independently in the harness, the slow route (Unmarshal into interface{} + Marshal) is compared by value, and the refmt CLI is run black-box on a sample and must produce the library's bytes. Streams (PumpStream.v): with one decoder and one encoder and Reset before each document, a stream of documents each of which transcodes on its own is transcoded document by document to the same outputs, each call consuming exactly its own document (CBOR sources: any documents; JSON sources: self-delimiting documents — a bare number needs a terminator, exhibited in the kernel); tied to the code by the tstream suite, which also places malformed documents between the others.",
    level_note="The CLI wiring and the slow route are checked by differential execution only (not modelled). Floats crossing to JSON use the shortest-digits oracle. Trusted: Coq kernel, extraction, driver, harness. No axioms.",
    rule="documents of both formats in all spellings, plus truncated ones; non-trivial = pump succeeded on an input of at least 2 bytes; distinct by payload",
    trusted_base=TB_COMMON,
    assumptions=["common data model = string keys, no byte strings, no tags, finite floats, valid UTF-8"],
    suites=[
        ("tstream", dict(cmp=cmp_c10_stream, nontrivial=lambda p, i, m: m.count("ok") >= 2, shrink=False,
                         what="streams of 2-6 documents (JSON separated by a space; CBOR sequences) pumped through ONE decoder and ONE encoder with Reset before each, malformed documents that fail on their last byte in between (every JSON scanner: numbers, strings, escapes, literals; reserved CBOR heads, stray break): each document's output vs the model's pump of that document alone")),
        ("transcode", dict(cmp=cmp_c10, nontrivial=lambda p, i, m: i.startswith("ok") and len(p.split()[1]) >= 4, shrink=False,
                           what="shared.TokenPump{json.Decoder -> cbor.Encoder} and {cbor.Decoder -> json.Encoder} vs Pump.pump_j2c / pump_c2j (bytes written, bytes consumed); value check by independent decoding; slow route by value; refmt CLI on every 40th document")),
    ],
)


# ---------------------------------------------------------------------------
# token-list well-formedness (independent of the Coq model): used as the
# property oracle of C07 / C13
# ---------------------------------------------------------------------------

def tok_kind(t):
    b = t.split("#")[-1] if t.startswith("#") else t
    if t.startswith("#"):
        i = 1
        if i < len(t) and t[i] == "-":
            i += 1
        while i < len(t) and t[i].isdigit():
            i += 1
        b = t[i:]
    return b[0] if b else "?", b


def tokens_wf(tokens, exact_lengths=True, string_keys=True):
    """Returns (complete, ok, consumed): do the tokens begin with exactly one complete well-formed value?
    ok=False if a malformed construct is seen; complete=False if they run out first."""
    pos = [0]

    def value():
        if pos[0] >= len(tokens):
            return None
        k, body = tok_kind(tokens[pos[0]])
        pos[0] += 1
        if k == "[":
            declared = int(body[1:])
            n = 0
            while True:
                if pos[0] >= len(tokens):
                    return None
                k2, _ = tok_kind(tokens[pos[0]])
                if k2 == "]":
                    pos[0] += 1
                    break
                if k2 == "}":
                    return False
                r = value()
                if r is not True:
                    return r
                n += 1
            return not (exact_lengths and declared >= 0 and declared != n)
        if k == "{":
            declared = int(body[1:])
            n = 0
            while True:
                if pos[0] >= len(tokens):
                    return None
                k2, _ = tok_kind(tokens[pos[0]])
                if k2 == "}":
                    pos[0] += 1
                    break
                if k2 == "]":
                    return False
                if string_keys and k2 != "s":
                    return False
                pos[0] += 1
                r = value()
                if r is not True:
                    return r
                n += 1
            return not (exact_lengths and declared >= 0 and declared != n)
        if k in ("]", "}"):
            return False
        return True

    r = value()
    return (r is not None), (r is not False), pos[0]


def cmp_c07(payload, impl, model):
    il, _, itoks = impl.partition(" | ")
    f = il.split()
    toks = itoks.split()
    if f[0] == "panic":
        return viol("the marshaller panicked after %s tokens" % f[1])
    if f[0] == "hang":
        return viol("the marshaller does not terminate (emitted %s tokens of a value of bounded size, e.g. %s)" % (f[1], " ".join(toks[:8])))
    if f[0] == "ok":
        complete, ok, used = tokens_wf(toks)
        if not ok or not complete or used != len(toks):
            return viol("the token stream is not exactly one well-formed value with exact lengths: %s" % " ".join(toks[:20]))
    if f[0] == "err" and toks:
        complete, ok, used = tokens_wf(toks)
        if not ok:
            return viol("tokens emitted before the error are not a prefix of a well-formed value: %s" % " ".join(toks[:20]))
    ml = model.partition(" | ")[0].split()
    if (f[0] in ("err", "binderr")) != (ml[0] in ("err", "binderr")):
        if ml[0] in ("err", "binderr"):
            return viol("an unrepresentable value (model: error) produced a token stream: %s" % " ".join(toks[:12]))
        return viol("a representable value (model: %s tokens) produced an error" % ml[1])
    if impl.strip() != model.strip():
        if f[0] == "ok":
            return mism("well-formed stream, but different from the model's: impl %s model %s" % (impl[:120], model[:120]))
        return mism("error reported at a different point: impl %s model %s" % (il, " ".join(ml)))
    return None


def cmp_c13(payload, impl, model):
    toks = payload.split("|", 1)[1].split()
    f = impl.split(" ", 2)
    m = model.split(" ", 2)
    if f[0] == "panic":
        return viol("the unmarshaller panicked at token %s" % f[1])
    if f[0] == "done":
        complete, ok, used = tokens_wf(toks[:int(f[1])], exact_lengths=False, string_keys=False)
        if not (complete and ok and used == int(f[1])):
            return viol("completion signalled although the tokens so far are not one complete value: %s" % " ".join(toks[:int(f[1])][:16]))
    if f[0] != m[0]:
        return viol("model (accepts exactly the renderings of values of the target type): %s; unmarshaller: %s" % (model[:100], impl[:100]))
    if f[0] == "done" and impl != model:
        return viol("accepted, but reconstructed %s instead of %s (or completed on a different token)" % (impl[:120], model[:120]))
    if f[0] == "err" and impl != model:
        return mism("rejected on token %s, model rejects on token %s" % (f[1], m[1]))
    return None


_INT_RANGES = {"i8": (-2**7, 2**7 - 1), "i16": (-2**15, 2**15 - 1), "i32": (-2**31, 2**31 - 1), "i64": (-2**63, 2**63 - 1), "i": (-2**63, 2**63 - 1),
               "u8": (0, 2**8 - 1), "u16": (0, 2**16 - 1), "u32": (0, 2**32 - 1), "u64": (0, 2**64 - 1), "u": (0, 2**64 - 1), "up": (0, 2**64 - 1),
               "(nm 1 i8)": (-2**7, 2**7 - 1), "(nm 2 u16)": (0, 2**16 - 1)}


_NUMS = re.compile(r"\(n (-?\d+)\)")


def cmp_c09(payload, impl, model):
    head, _, toks = payload.partition("|")
    toks = toks.split()
    ty = head.strip().split(") ", 2)[-1].strip() if head.strip().startswith("(env)") else None
    if ty is None or len(toks) != 1 or toks[0][0] not in "iuf" or not (ty in _INT_RANGES or ty in ("a", "f32", "f64")):
        # numbers inside containers: when both sides complete, every integer the target holds afterwards is the one the
        # model holds at that place (the rest of the value is C13's business)
        if impl.startswith("done") and model.startswith("done") and impl != model:
            ni, nm = _NUMS.findall(impl), _NUMS.findall(model)
            if ni != nm:
                return viol("integers held after unmarshalling differ from the serialized ones: %s, expected %s" % (" ".join(ni[:12]), " ".join(nm[:12])))
        return None      # otherwise C09 looks at single numbers into numeric / untyped targets
    tk = toks[0]
    if ty in _INT_RANGES:
        lo, hi = _INT_RANGES[ty]
        if tk[0] == "f":
            if not impl.startswith("err"):
                return viol("a float token was accepted into an integer target: %s" % impl)
            return None
        z = int(tk[1:])
        if lo <= z <= hi:
            if impl != "done 1 (n %d)" % z:
                return viol("%d fits %s but the unmarshaller gave %s" % (z, ty, impl))
        elif not impl.startswith("err"):
            return viol("%d does not fit %s but was stored as %s" % (z, ty, impl))
        return None
    if ty == "a" and tk[0] in "iu":
        z = int(tk[1:])
        m = re.match(r"done 1 \(a (\S+) \(n (-?\d+)\)\)", impl)
        if not m or int(m.group(2)) != z:
            return viol("untyped slot: serialized %d, got %s" % (z, impl))
        return None
    if impl != model:
        return viol("numeric conversion differs from the model: %s vs %s" % (impl, model))
    return None


_OBJ_TB = TB_COMMON + ["reflect, Go map/slice/pointer semantics and the generated transform functions as transcribed in GoVal.v (the generated transforms are mutually inverse by construction)",
                       "slab-row reuse is not modelled: the model gives every machine fresh state; pinned by the correspondence over deep values and call histories"]

PROPS["C07"] = dict(
    coq="Properties_C07",
    level_text="Proved in Coq on the big-step marshaller model (ObjProof.v): a successful result is the rendering of exactly one well-formed value tree with untagged string keys, exact declared lengths and tags on first tokens of items only; an error leaves a prefix the token grammar has not rejected; the result is independent of fuel once it is not MFuel, and the marshaller is total for atlases without self-referential mappings (no_empty_routes, wires_not_transforms — the degenerate atlases are exhibited as refutations); the stream is at most 3x the value's size for atlases whose struct routes are pairwise unrelated (true of every autogenerated entry, C19). Tied to obj.Marshaller token by token over generated types (reflect.StructOf structs, zoo of named types, transforms, unions), values and atlases, including all 2^n emptiness x omitempty combinations for n <= 4.",
    level_note="The model is big-step (one function per Go machine); the driver loop (done flag per Step) is compared by the harness (done exactly on the last token, step budget for hangs). Trusted as in trusted_base. No axioms.",
    rule="(type, value, atlas) triples; non-trivial = at least 3 tokens; distinct by payload",
    trusted_base=_OBJ_TB,
    assumptions=["transform functions are pure and total on the generated values"],
    suites=[("obj-marshal", dict(cmp=cmp_c07, nontrivial=lambda p, i, m: int((m.split() + ["0", "0"])[1]) >= 3 if m.split()[0] in ("ok", "err") else False, shrink=False,
                                 what="obj.NewMarshaller(atl).Bind(v); Step until done: class, tokens (projected) vs Marshal.marshal_top; well-formedness re-checked independently"))],
)

PROPS["C13"] = dict(
    coq="Properties_C13",
    level_text="Proved in Coq on the big-step unmarshaller model. ObjProof.v: completion is signalled only after exactly one complete well-formed value has been consumed; an error is attributed to one of the tokens given; verdict and value depend only on the tokens up to completion / the offending token; the model has no panic outcome. RenderProof.v: EVERY rendering of a well-typed value that fits the target is accepted and reconstructs the value up to req — the relation 'renders' allows exact or indefinite container lengths (any declared length for arrays, slices and plain maps, which the unmarshaller never checks), either integer spelling, map entries and struct fields in any order, absent fields behind nil embedded pointers, ignored keys, null for nil things, arbitrary tags on tokens into typed targets, and (lax) omitempty fields present although empty — and the marshaller's own output is one such rendering, so the token round trip is a corollary; what does not fit is rejected on the offending token: a first token the target kind does not take (table first_ok, with the converse), unknown struct field, struct length mismatch, repeated map key (struct maps: last one wins, proved), array overflow (short arrays are zero-padded, proved), unknown union member, extra union entry. Tied to obj.Unmarshaller token by token: type-directed renderings in varied spellings, every prefix, single-token mutations, all sequences up to length 3 (quick) / 4 (thorough) over a 20-token alphabet against 11 fixed targets.",
    level_note="big-step model; per-Step done/err positions compared by the harness. Trusted as in trusted_base. No axioms.",
    rule="(target type, atlas, token sequence); non-trivial = at least 2 tokens; distinct by payload",
    trusted_base=_OBJ_TB,
    assumptions=["targets are fresh zero values"],
    suites=[("obj-unmarshal", dict(cmp=cmp_c13, nontrivial=lambda p, i, m: len(p.split("|", 1)[1].split()) >= 2, shrink=False, timeout=3600,
                                   what="obj.NewUnmarshaller(atl).Bind(&target); Step per token: done/err position and the reconstructed value vs Unmarshal.unmarshal_top"))],
)

PROPS["C09"] = dict(
    coq="Properties_C09",
    level_text="Proved in Coq on the unmarshaller model's primitive machine: an Int/Uint token is stored into an integer kind iff it lies in the kind's range, and then exactly; out-of-range, negative-into-unsigned and beyond-64-bit values are errors; an untyped slot receives int when the value fits and uint64 otherwise; float tokens are never accepted into integer kinds. Exhaustive correspondence: every integer in [-300,300] (quick) / [-70000,70000] (thorough) and every boundary +-2 against all 11 integer kinds, float kinds, named kinds and the untyped slot, both token spellings, with an independent range oracle in the orchestrator.",
    level_note="wire-level range checks are covered by C04/C05; here the obj layer. Trusted as in trusted_base. No axioms.",
    rule="(numeric target kind, one number token); non-trivial = value outside [-1,1]; distinct by payload",
    trusted_base=_OBJ_TB,
    assumptions=["Go int is 64 bit"],
    suites=[("obj-unmarshal", dict(cmp=cmp_c09, nontrivial=lambda p, i, m: len(p.split("|", 1)[1].split()) == 1 and p.split("|", 1)[1].split()[0][0] in "iuf", shrink=False, timeout=3600,
                                   what="single number tokens into every integer/float kind and interface{}: exact-or-error, against an independent range oracle and the model"))],
)


# ---------------------------------------------------------------------------
# C01: roundtrip  impl = "ok <hex> <value> eq=<0|1>" | merr | mpanic | "uerr <hex>" | "upanic <hex>"
#                 model = "ok <hex> <value>" | merr | "uerr <hex>"
# ---------------------------------------------------------------------------

def rt_json_payload_as_enc(payload):
    """the float tokens of a roundtrip payload, for the D5b class predicate"""
    return payload


def has_unreadable_integral_float_value(payload):
    import decimal
    for m in _re.finditer(r"\(f ([0-9a-f]{16})\)", payload):
        f = _float_of_bits(m.group(1))
        if f != f or f in (float("inf"), float("-inf")) or abs(f) >= 1e21 or abs(f) < 1e-6:
            continue
        text = format(decimal.Decimal(repr(f)), "f")
        if "." in text:
            continue
        v = int(text)
        if v > 2 ** 64 - 1 or v < -(2 ** 63):
            return True
    return False


def cmp_c01(payload, impl, model):
    if impl.startswith("mpanic") or impl.startswith("upanic"):
        return viol("Marshal/Unmarshal panicked: %s" % impl[:60])
    if model.startswith("ok"):
        if not impl.startswith("ok"):
            return viol("a representable value did not round-trip: %s (model: marshals to %s and reads back)" % (impl[:80], model.split()[1][:60]))
        if impl.rsplit(" eq=", 1)[1] != "1":
            return viol("the value read back is not equal to the original: %s" % impl[:200])
        if impl.rsplit(" eq=", 1)[0] != model:
            mi, mm = impl.split(" ", 2), model.split(" ", 2)
            if mi[1] != mm[1]:
                return viol("marshalled bytes differ from the model: %s vs %s" % (mi[1][:80], mm[1][:80]))
            return viol("value read back differs from the model: %s vs %s" % (mi[2][:120], mm[2][:120]))
        return None
    if model.startswith("merr"):
        if impl.startswith("ok"):
            return viol("an unrepresentable value (model: marshal error) produced output: %s" % impl[:80])
        return None
    if model.startswith("uerr"):
        if impl.startswith("ok"):
            return mism("model cannot read its own output back but the implementation can: %s" % impl[:80])
        return viol("the value did not round-trip: its own output cannot be read back (the faithful model agrees): %s" % impl[:80])
    return mism("model gave no verdict: %s" % model[:60])


def kf_d5b_rt(sname, m):
    return sname in ("roundtrip", "remarshal") and m.get("payload", "").startswith("j") and has_unreadable_integral_float_value(m.get("payload", "")) and \
        ("did not round-trip" in m.get("detail", "") or "cannot" in m.get("detail", ""))


_old_kf = FINDING_CLASSES["json-integral-float-beyond-uint64"]
FINDING_CLASSES["json-integral-float-beyond-uint64"] = lambda s, m: _old_kf(s, m) or kf_d5b_rt(s, m)

PROPS["C01"] = dict(
    coq="Properties_C01",
    level_text="Proved in Coq on the object-layer models (RoundTripProof.v, all four atlas entry kinds: struct maps with renamed / ignored / omitempty fields and embedded routes, the nine modelled transform pairs incl. transform-typed map keys and a transform to interface{}, keyed unions, map morphisms, tags): for every well-typed value (wt: integers in range of their kind, float32 representable, array lengths, distinct map keys) in the domain (untyped slots hold native values or values of tagged types) marshalling and unmarshalling the resulting tokens into a zero value of the same type consumes exactly those tokens and yields a value related by req — equality except for exactly the property's list: null has no shape, omitted-as-empty fields come back empty, the concrete numeric type inside untyped slots — and well-typed again; each transform pair is proved inverse on its domain. Three configurations outside the domain are exhibited as kernel-checked refutations (a tagged transform around tagged content keeps one tag only; a pointer to a value whose serial form is null; a transform outside its domain). The byte level composes this with C02 (CBOR) and C03/C05 (JSON) and is compared per case. Tied to refmt.MarshalAtlased / UnmarshalAtlased end to end: generated types (reflect.StructOf structs, named types, transforms, unions, tags, sort modes, autogenerated struct maps of Go-source-generated struct families), values with boundary numbers, nil/empty containers, both formats with all whitespace options; bytes and the value read back are compared with the model composition, and the harness checks equality-up-to-wire-limits on the real Go values itself.",
    level_note="The byte level is machine-checked too (EndToEndProof.v): cbor_end_to_end and json_end_to_end compose marshal_top, the encoder model, the decoder model and unmarshal_top — what MarshalAtlased / UnmarshalAtlased do — under the codecs' limits (32 MiB per item, tag and length ranges; for JSON: no byte strings, valid UTF-8, untyped slots holding native values); JSON floats are under the shortest-digits oracle hypothesis of C03 with the exact read-back relation (−0 reads back as 0, an integral float in an untyped slot comes back as an integer), the float-free instance is unconditional. Trusted as in trusted_base. No axioms.",
    rule="(format, options, type, value, atlas); non-trivial = output of at least 3 bytes; distinct by payload",
    trusted_base=_OBJ_TB,
    assumptions=["values in untyped slots are native kinds or values of tagged registered types (CBOR); JSON cases are restricted to JSON's data model"],
    suites=[("roundtrip", dict(cmp=cmp_c01, nontrivial=lambda p, i, m: m.startswith("ok") and len(m.split()[1]) >= 6, shrink=False,
                               what="refmt.MarshalAtlased then refmt.UnmarshalAtlased into a fresh variable: bytes and value vs Marshal.marshal_top |> encoder |> decoder |> Unmarshal.unmarshal_top; Go-level equality with the property's exemptions"))],
)


# ---------------------------------------------------------------------------
# D5c: JSON, an integral float >= 2^53 in an untyped slot: the ES6 text pads the shortest digits
# with zeros (2^63 -> 9223372036854776000), which the decoder re-types as that (different) integer.
# ---------------------------------------------------------------------------

def has_big_integral_float_in_untyped_slot(payload):
    for m in _re.finditer(r"\(a f(?:64|32) \(f ([0-9a-f]{16})\)\)", payload):
        f = _float_of_bits(m.group(1))
        if f != f or f in (float("inf"), float("-inf")):
            continue
        if abs(f) >= 2.0 ** 53 and abs(f) < 1e21 and f == int(f):
            return True
    return False


def kf_d5c(sname, m):
    return sname in ("roundtrip", "remarshal") and m.get("payload", "").startswith("j") and \
        has_big_integral_float_in_untyped_slot(m.get("payload", "")) and "not equal" in m.get("detail", "")


FINDING_CLASSES["json-big-integral-float-in-untyped-slot"] = kf_d5c


# ---------------------------------------------------------------------------
# C12 remarshal: impl = "ok d= d1= back= eq= fix= native= same1=" | errN.. ; model = "ok d= d1= back= fix=" | errN
# ---------------------------------------------------------------------------
_KV = _re.compile(r"(\w+)=(\S+)")


def cmp_c12(payload, impl, model):
    if impl.startswith("panic"):
        return viol("panicked at stage %s" % impl[5:])
    isj = payload.startswith("j")
    if model.startswith("ok"):
        if not impl.startswith("ok"):
            return viol("re-marshalling pipeline failed at stage %s (model: succeeds)" % impl[:40])
        kv = dict(_KV.findall(impl))
        mkv = dict(_KV.findall(model))
        if kv.get("eq") != "1":
            return viol("decoding the re-marshalled document into the original type gives a value that is not equal to the original: %s" % kv.get("back", "")[:150])
        if kv.get("fix") != "1":
            return viol("the re-marshalled document is not a byte-exact fixpoint")
        if kv.get("native") == "1" and kv.get("same1") != "1":
            # JSON re-reads -0 as 0: the one allowed difference
            if not (isj and "8000000000000000" in payload):
                return viol("a value of native untyped kinds did not re-marshal byte-identically in the first round: %s vs %s" % (kv.get("d", "")[:60], kv.get("d1", "")[:60]))
        if kv.get("d") != mkv.get("d") or kv.get("d1") != mkv.get("d1") or kv.get("back") != mkv.get("back"):
            return viol("bytes/value differ from the model composition: impl %s model %s" % (impl[:150], model[:150]))
        return None
    # the model itself fails: the faithful model refutes the property on this input
    if impl.startswith("ok"):
        return mism("model pipeline fails (%s) but the implementation succeeds" % model[:30])
    if model.startswith("err1"):
        return None      # the value is not representable at all: C12 is silent
    return viol("re-marshalling pipeline failed at stage %s: its own output cannot be read back (the faithful model agrees)" % impl[:12])


PROPS["C12"] = dict(
    coq="Properties_C12",
    level_text="Proved in Coq on the object-layer models (RoundTripProof.token_roundtrip_remarshal): the value the unmarshaller returns marshals to exactly the tokens it was read from, provided no omitempty field has a type whose empty value still serializes (omit_ok) and integers in untyped slots already have the type an untyped slot gives them (rmv) — both conditions are shown necessary by kernel-checked refutations (uint8(5) in a slot re-marshals as Int 5; an omitempty pointer to a nil slice is dropped the second time). Since the untyped unmarshaller only produces rmv values, decoding a document into an untyped variable and marshalling again is a fixpoint from the second document on, and the first re-marshal may only re-type numbers — the property's own exception. Composed with the codec round trips (C02; C03/C05) this is the byte-level statement. Tied to refmt.Marshal / Unmarshal(&interface{}) / Marshal end to end: the three documents, the value read back into the original type, the fixpoint and the native-first-round identity are compared with the model pipeline and checked directly on the real bytes.",
    level_note="The byte-exact statement is cbor_remarshal / json_remarshal in EndToEndProof.v (re-marshalling the value read back reproduces the bytes; stated for explicit marshaller fuel and for marshal_top whenever it does not run out of fuel). Trusted as in trusted_base. The JSON float oracle applies. No axioms.",
    rule="(format, type, value, atlas); non-trivial = first document of at least 3 bytes; distinct by payload",
    trusted_base=_OBJ_TB,
    assumptions=["values in untyped slots are native kinds or tagged registered types"],
    suites=[("remarshal", dict(cmp=cmp_c12, nontrivial=lambda p, i, m: m.startswith("ok") and len(dict(_KV.findall(m)).get("d", "")) >= 6, shrink=False,
                               what="Marshal(v) -> Unmarshal(&interface{}) -> Marshal -> Unmarshal into T / into interface{} -> Marshal: documents, value, fixpoint, native identity"))],
)

_old_kf2 = FINDING_CLASSES["json-integral-float-beyond-uint64"]
FINDING_CLASSES["json-integral-float-beyond-uint64"] = lambda s, m: _old_kf2(s, m) or (s == "remarshal" and m.get("payload", "").startswith("j") and has_unreadable_integral_float_value(m.get("payload", "")) and "cannot be read back" in m.get("detail", ""))


# ---------------------------------------------------------------------------
# C11 clone: impl = "ok <value> eq= indep= srcsame=" | err | panic ; model = "ok <value>" | err
# ---------------------------------------------------------------------------

def cmp_c11(payload, impl, model):
    if impl.startswith("panic"):
        return viol("Clone panicked")
    if model.startswith("ok"):
        if not impl.startswith("ok"):
            return viol("Clone failed on a representable value")
        kv = dict(_KV.findall(impl))
        if kv.get("indep") != "1":
            return viol("the clone is not independent: a mutation through one side is visible through the other")
        if kv.get("shared", "0") != "0":
            return viol("the clone shares %s piece(s) of mutable storage (backing array, map table or pointer target) with its source" % kv.get("shared"))
        if kv.get("srcsame") != "1":
            return viol("Clone modified its source")
        if kv.get("eq") != "1":
            return viol("the clone is not equal to the source: %s" % impl[:150])
        if impl.split(" eq=")[0] != model:
            return viol("the cloned value differs from the model: %s vs %s" % (impl[:120], model[:120]))
        return None
    if impl.startswith("ok"):
        return viol("Clone succeeded on a value the model cannot represent: %s" % impl[:100])
    return None


PROPS["C11"] = dict(
    coq="Properties_C11",
    level_text="Proved in Coq (Alias.v, AliasProof.v) on a storage-identity model of Clone — values annotated with the locations of their mutable storage (backing arrays of slices and byte slices, map tables, pointer targets), the marshaller's tokens carrying a reference only for byte strings, the unmarshaller allocating every container and copying byte strings: for every value the clone exists, has the source's shape, and no location reachable from it is reachable from the source; without the copy (the code before D8) the theorem is refuted by a kernel-evaluated example. Equality of the cloned value is the token round trip of C01 on the object-layer model (clone = unmarshal of the marshaller's own tokens), compared per case. Tied to refmt.CloneAtlased by the correspondence run: the cloned value vs the model's, the addresses of all storage reachable from source and destination (must be disjoint), and mutation of every byte, element, map entry and pointee reachable from either side.",
    level_note="The storage model is separate from the value model (Gallina values are immutable); it abstracts scalars and does not model omitempty / transforms reshaping values — independence does not depend on them (every container of the destination is allocated by the unmarshaller). Trusted as in trusted_base. No axioms.",
    rule="(type, value, atlas); non-trivial = the value contains a slice, map or pointer; distinct by payload",
    trusted_base=_OBJ_TB,
    assumptions=[],
    suites=[("clone", dict(cmp=cmp_c11, nontrivial=lambda p, i, m: any(k in p for k in ("(sl ", "(mp ", "(pt ", "(x ")), shrink=False,
                           what="refmt.CloneAtlased(src, &dst): value vs model; equality; mutation-independence both ways; source unchanged"))],
)


# ---------------------------------------------------------------------------
# C17 history: impl = "<outs> | same=<0|1>" ; model = "<outs>"
# ---------------------------------------------------------------------------

def cmp_c17(payload, impl, model):
    if impl.startswith("panic"):
        return viol("a call on a reused instance panicked")
    outs, _, same = impl.partition(" | same=")
    if same.strip() != "1":
        return viol("a call on a long-lived instance gave a different result than a fresh instance (or an item was not framed cleanly): %s" % outs[:200])
    if outs != model:
        return viol("results differ from the model: impl %s model %s" % (outs[:150], model[:150]))
    return None


def cmp_c17_whistory(payload, impl, model):
    if "panic" in impl.split(" ;; "):
        return viol("an encoder call panicked")
    a, b = impl.split(" ;; "), model.split(" ;; ")
    if len(a) != len(b):
        return mism("model and harness disagree on the number of calls: %s vs %s" % (impl[:100], model[:100]))
    for i, (x, y) in enumerate(zip(a, b)):
        if x != y:
            return viol("call %d on a long-lived encoder (Reset before every call, earlier calls failed in the writer / were rejected / abandoned) ended as '%s'; a fresh encoder ends it as '%s'" % (i + 1, x, y))
    return None


PROPS["C17"] = dict(
    coq="Properties_C17",
    level_text="Proved in Coq: Reset of the four codec models, transcribed field by field from the Go code (Reuse.v), re-establishes the initial state from any state — including the write error the encoders remember (ReuseFault.v: every call of any history on one long-lived encoder, each call under its own write-fault plan, ends as it does on a fresh encoder; false of a Reset that keeps the remembered error, exhibited as a kernel-checked example: the cbor encoder before the fix of D24) —, so a call on a reused encoder/decoder equals the call on a fresh one over the remaining input (C17_*_reuse); the object-layer models carry nothing from call to call; a decoder call consumes only its own item (appending input changes nothing: dec_run_frame, jdec_run_frame — for JSON only a bare top-level number ending the input needs a terminator, refuted otherwise), hence items written back to back (any items that each decode alone; in particular the encoders' own outputs) are read back one per call, in order (dec_many_concat, dec_many_encoded, jdec_many_concat). Tied to long-lived refmt Marshaller / Unmarshaller / Cloner instances by random histories with failing calls in between and calls through another atlas on the same Go types, each call compared with a fresh instance and with the model.",
    level_note="slab-row reuse inside obj.Marshaller/Unmarshaller is not modelled (fresh machine state per value in the model); the history suite is what pins it. Trusted as in trusted_base. No axioms.",
    rule="histories of 2-6 marshal calls + as many unmarshal calls + clone calls (with failing calls); non-trivial = at least 3 successful calls; distinct by payload",
    trusted_base=_OBJ_TB,
    assumptions=["a failed Unmarshal call may leave the stream mid-item; only calls on intact streams are constrained"],
    suites=[("whistory", dict(cmp=cmp_c17_whistory, nontrivial=lambda p, i, m: m.count(";;") >= 1 and "err" in m, shrink=False,
                              what="one cbor / json encoder, Reset before every call, 2-6 calls (valid trees, invalid and abandoned sequences) each under its own write-fault plan (healthy, error / short count / both, once / from then on, at the k-th write); every fault position of fixed documents followed by a healthy call; each call's verdict vs ReuseFault.history / jhistory")),
            ("history", dict(cmp=cmp_c17, nontrivial=lambda p, i, m: m.count("m:") >= 3, shrink=False,
                             what="one Marshaller writing all items into one stream (failed calls rolled back), one Unmarshaller reading them back one per call plus one call on the exhausted stream, one Cloner with failing calls in between; each compared with fresh instances and the model"))],
)


# ---------------------------------------------------------------------------
# C20: tags.  obj-marshal (tags on tokens), cbor-tags (foreign CBOR into untyped), roundtrip bytes
# ---------------------------------------------------------------------------

def _tags_of(toks):
    out = []
    for i, t in enumerate(toks.split()):
        if t.startswith("#"):
            j = 1
            while j < len(t) and (t[j].isdigit() or t[j] == "-"):
                j += 1
            out.append((i, t[1:j]))
    return out


def cmp_c20_marshal(payload, impl, model):
    il, _, itoks = impl.partition(" | ")
    ml, _, mtoks = model.partition(" | ")
    if il.split()[0] != "ok" or ml.split()[0] != "ok":
        return None
    if _tags_of(itoks) != _tags_of(mtoks):
        return viol("tags on the emitted tokens %s differ from the registered occurrences %s" % (_tags_of(itoks)[:6], _tags_of(mtoks)[:6]))
    return None


def cmp_c20_untyped(payload, impl, model):
    if impl.startswith("panic"):
        return viol("panic while decoding tagged CBOR into an untyped variable")
    if impl != model:
        if model == "err":
            return viol("model: error (unregistered tag in an untyped position, or malformed); implementation returned %s" % impl[:120])
        return viol("reconstruction through tags differs: model %s impl %s" % (model[:120], impl[:120]))
    return None


PROPS["C20"] = dict(
    coq="Properties_C20",
    level_text="Proved in Coq (TagProof.v): wherever a value of a type registered with a tag (struct-map or transform entry) is marshalled — marshal_bare is what every position calls — the first token of its item carries exactly that tag, and tags sit on first tokens of items only (the stream is the flattening of a value tree); per position (TagPositions.v): the stream of a slice, array, map or struct-map value is cut into the segments of its members, each being what the marshaller yields for that member alone, and every member of (a pointer, at any depth, to) the tagged type — slice / array element, map value, struct field, behind pointers, inside an untyped or interface slot — starts with exactly the tag, or is the lone null of a nil pointer; the CBOR encoder writes each tag head immediately before its item and the decoder folds it back (C02/C04: rfc_enc / parse_item carry the tag of every node). On the unmarshaller model: a tagged token reaching an untyped slot is unmarshalled as the registered type and stored with that dynamic type; an unregistered tag there is an error on that token. Tied to the code by the obj-marshal suite (tag positions and numbers across all head sizes), foreign CBOR with registered / unregistered / relocated tags decoded into interface{}, and the round-trip bytes.",
    level_note="Trusted as in trusted_base. Entries built with UseTag + MapMorphism/KeyedUnion never emit their tag (outside the property's quantifier; recorded in DESIGN.md). No axioms.",
    rule="obj-marshal / cbor-tags cases; non-trivial = at least one tag in the model's tokens or input; distinct by payload",
    trusted_base=_OBJ_TB,
    assumptions=[],
    suites=[
        ("obj-marshal", dict(cmp=cmp_c20_marshal, nontrivial=lambda p, i, m: "#" in m, shrink=False, what="tags on marshalled tokens vs the model")),
        ("cbor-tags", dict(cmp=cmp_c20_untyped, nontrivial=lambda p, i, m: True, shrink=False, what="foreign CBOR (marshalled values with tags kept, changed, inserted; random items) into interface{} vs dec_run |> unmarshal_top GAny")),
    ],
)


# ---------------------------------------------------------------------------
# C08 maporder: impl = "ok <hex> stable=<0|1>" | merr | panic ; model = "ok <hex>" | merr
# ---------------------------------------------------------------------------

def cmp_c08(payload, impl, model):
    if impl.startswith("panic"):
        return viol("marshal panicked")
    if model.startswith("ok"):
        if not impl.startswith("ok"):
            return viol("a representable map value failed to marshal")
        if not impl.endswith("stable=1"):
            return viol("marshalling equal values (maps rebuilt by other insertion orders, repeated runs) gave different bytes")
        if impl.split(" stable=")[0] != model:
            return viol("key order / bytes differ from the configured order: impl %s model %s" % (impl[:100], model[:100]))
        return None
    if impl.startswith("ok"):
        return viol("model: not representable, implementation: %s" % impl[:80])
    return None


PROPS["C08"] = dict(
    coq="Properties_C08",
    level_text="Proved in Coq on the marshaller model (DetermProof.v): values that differ only in the order of map entries at any depth (vperm) marshal to identical results provided the serial keys of every map are pairwise distinct (automatic for string keys; for struct keys through a transform it is injectivity of the user's transform, and the theorem C08_non_injective_key_transform_is_order_dependent shows it is needed); the emitted keys of a map are exactly the sorted serial keys in the configured order (atlas default, or the MapMorphism entry's mode), strictly increasing; both orders are strict total orders with the documented meaning (bytewise; length then bytewise); struct keys are the live fields in the atlas entry's order; autogenerated struct entries are sorted by the chosen mode (C19_sorted_by_mode). Tied to the code by marshalling each value 12 times, 9 of them after rebuilding every map with a different insertion order (and bucket churn), in all three modes via atlas default and per-type morphism, for both formats, and by the field order of AutogenerateStructMapEntryUsingTags on generated struct families incl. 13-40 field structs.",
    level_note="Go's randomised map iteration is exercised, not controlled; the theorem quantifies over all permutations. sort.Sort is modelled as insertion sort with the same comparator (equal results for strict total orders on distinct keys). Trusted as in trusted_base. No axioms.",
    rule="(format, atlas, map-valued type, value); non-trivial = some map with at least 2 entries; distinct by payload",
    trusted_base=_OBJ_TB,
    assumptions=["map keys stringify injectively (generated key transforms are injective)"],
    suites=[("maporder", dict(cmp=cmp_c08, nontrivial=lambda p, i, m: m.startswith("ok") and p.count("((") >= 1, shrink=False,
                              what="refmt.MarshalAtlased x12 per value, maps rebuilt by random insertion orders; bytes identical and equal to Marshal.marshal_top |> encoder"))],
)


# ---------------------------------------------------------------------------
# C06 untrusted: impl = "<class> alloc=<n> len=<n>" ; model = "<class> req=<n>"
# ---------------------------------------------------------------------------
CAP = 33554432


def cmp_c06(payload, impl, model):
    f = impl.split()
    kv = dict(_KV.findall(impl))
    if f[0] == "panic":
        return viol("panic while decoding untrusted bytes")
    if f[0] == "hang":
        return viol("decoding did not terminate within the time budget (input of %s bytes)" % kv.get("len"))
    n = int(kv.get("len", "0"))
    alloc = int(kv.get("alloc", "0"))
    bound = 2 * CAP + 16384 * n + (4 << 20)
    if alloc > bound:
        return viol("allocated %d bytes for an input of %d bytes (bound: 2 x 32 MiB + 16 KiB per input byte + 4 MiB)" % (alloc, n))
    # chunk floods (flat inputs far below the per-item cap): the generous per-byte slack above, needed for
    # deeply nested untyped documents, would hide a per-chunk copy of the accumulated item
    if kv.get("tight") == "1" and alloc > (2 << 20) + 128 * n:
        return viol("allocated %d bytes for a flat chunked string of %d bytes (bound: 2 MiB + 128 bytes per input byte)" % (alloc, n))
    mkv = dict(_KV.findall(model))
    req = int(mkv.get("req", "0"))
    if req > 2 * CAP + 8 * n + 64:
        return mism("the decoder model requests %d bytes for %d input bytes: above the proved bound" % (req, n))
    if f[0] != model.split()[0]:
        return mism("result class %s, model %s" % (f[0], model.split()[0]))
    return None


PROPS["C06"] = dict(
    coq="Properties_C06",
    level_text="Proved in Coq on the decoder and unmarshaller models: the decoder runs always end in a value or an error — the models have an explicit panic outcome for every partial Go operation and it is unreachable, and the step budgets 2*len+2 / len+2 are never exhausted (C04/C05 totality); tokens and payload bytes produced are linear in the bytes consumed (factor 2 for CBOR, 3 for JSON because an invalid byte becomes U+FFFD); the CBOR decoder's allocation account is at most 16 bytes per byte consumed whatever lengths the input declares, and the single request a failing step may have made is at most the 32 MiB per-item cap (plus a linear term for chunked strings) (BoundsProof.v). The unmarshaller model has no panic outcome; it needs linearly many steps for every atlas whose token-free chains through transform wires and tags are bounded (a cyclic chain diverges: refuted example, the defect D20), and the value it builds is bounded by the tokens consumed — a declared length never sizes anything. Tied to refmt.UnmarshalAtlased (untyped and typed targets) and to both pumps by running adversarial inputs (length headers up to 2^64-1 on every major type, chunk floods, nesting to 20000, oversized numbers, every half float, every initial byte, floods of thousands of one- and two-byte chunks held to 2 MiB + 128 bytes per input byte, byte strings of every small length into every bytes-like target incl. arrays and slices of a named byte type) plus random, mutated and structure-biased inputs, each under a watchdog, measuring runtime.MemStats.TotalAlloc against the bound.",
    level_note="partial w.r.t. the real allocator: the model accounts for requested sizes; the harness measures TotalAlloc with a generous per-byte slack (measured ~5 KiB of heap per nesting level for untyped JSON). Trusted as in trusted_base. No axioms.",
    rule="(format, target type or pump, bytes); non-trivial = input of at least 3 bytes; distinct by payload",
    trusted_base=_OBJ_TB,
    assumptions=["time budget 10 s per input as hang detector"],
    suites=[("untrusted", dict(sync=True, cmp=cmp_c06, nontrivial=lambda p, i, m: len(p.split("|")[1].strip()) >= 6, shrink=False, timeout=7200,
                               what="refmt.UnmarshalAtlased into untyped/typed targets and TokenPump into the other format on adversarial and random bytes: class (ok/err/panic/hang) vs the model; measured allocation vs bound"))],
)


# ---------------------------------------------------------------------------
# C09 wire level: wirenum  impl/model = "done <value> <hex>" | "err <hex>" | nowire | panic
# ---------------------------------------------------------------------------

def cmp_c09_wire(payload, impl, model):
    fmtc, kind, dec = payload.split()
    z = int(dec)
    if impl == "nowire":
        return None
    if impl.startswith("panic"):
        return viol("panic")
    if kind in _INT_RANGES:
        lo, hi = _INT_RANGES[kind]
        if lo <= z <= hi:
            if not impl.startswith("done (n %d) " % z):
                return viol("%d fits %s but unmarshalling its %s serialization gave %s" % (z, kind, "JSON" if fmtc == "j" else "CBOR", impl[:80]))
        elif not impl.startswith("err"):
            return viol("%d does not fit %s but its %s serialization was stored as %s" % (z, kind, "JSON" if fmtc == "j" else "CBOR", impl[:80]))
        return None
    if kind == "a":
        if -2 ** 63 <= z <= 2 ** 64 - 1:
            m = re.match(r"done \(a (\S+) \(n (-?\d+)\)\)", impl)
            if not m or int(m.group(2)) != z:
                return viol("untyped slot: serialized %d, got %s" % (z, impl[:80]))
        elif not impl.startswith("err"):
            return viol("%d is beyond the 64-bit token range but was stored as %s" % (z, impl[:80]))
        return None
    if impl != model:
        return viol("float target: model %s impl %s" % (model[:80], impl[:80]))
    return None


PROPS["C09"]["suites"].append(("wirenum", dict(cmp=cmp_c09_wire, nontrivial=lambda p, i, m: abs(int(p.split()[2])) > 1, shrink=False,
                                                what="hand-serialized integers (JSON decimal text; CBOR major 0/1 heads) through refmt.Unmarshal into every integer kind, interface{} and floats: exact or error, against an independent range oracle; floats against the model")))


# ---------------------------------------------------------------------------
# autogen (C19): impl  = m0=<fields>;m1=..;m2=..;v0=<class> <n> | <tokens> # <rt cbor> <rt json>;...
#                model = m0=..;m1=..;m2=..;spec=<0|1>;v0=<class> <n> | <tokens>;...
# ---------------------------------------------------------------------------

def _kv(s):
    d = {}
    for part in s.split(";"):
        k, _, v = part.partition("=")
        d[k] = v
    return d


def _unhex_names(fields):
    def un(m):
        h = m.group(1)
        try:
            return "(fld %r" % (bytes.fromhex(h).decode("utf-8", "replace") if h != "-" else "")
        except ValueError:
            return m.group(0)
    return re.sub(r"\(fld (\S+)", un, fields)


def cmp_c19(payload, impl, model):
    if impl in ("not-compiled", "bad-payload"):
        return dict(kind="broken", component="autogen-harness", detail="the harness does not hold this family: " + impl)
    iv, mv = _kv(impl), _kv(model)
    if "atlas" in iv:
        return viol("autogenerated entries of the family cannot be built into an atlas: " + iv["atlas"])
    modes = ["default (declaration order)", "strings", "RFC7049"]
    for m in range(3):
        k = "m%d" % m
        if iv.get(k) == "panic":
            return viol("AutogenerateStructMapEntryUsingTags panicked (sort mode %s)" % modes[m])
        if iv.get(k) != mv.get(k):
            return viol("sort mode %s: the autogenerated mapping is %s but Go's promotion rules on serial names select %s"
                        % (modes[m], _unhex_names(iv.get(k, "?"))[:400], _unhex_names(mv.get(k, "?"))[:400]))
    if mv.get("spec") != "1":
        return viol("the mapping (model transcription, equal to the code's) differs from the specification 'selected' (Go promotion rules): " + _unhex_names(mv.get("m1", ""))[:300])
    k = 0
    while ("v%d" % k) in iv:
        ivk, _, rt = iv["v%d" % k].partition(" # ")
        mvk = mv.get("v%d" % k, "?")
        cls = ivk.split(" ", 1)[0]
        if cls in ("panic", "hang"):
            return viol("marshalling value %d of the generated type through its autogenerated mapping: %s" % (k, cls))
        if ivk.strip() != mvk.strip():
            return viol("value %d marshals as %s; through the mapping Go's rules select it is %s" % (k, ivk[:300], mvk[:300]))
        for fmtname, verdict in zip(("CBOR", "JSON"), rt.split()):
            if verdict not in ("ok", "ok-unsettable"):
                if verdict.startswith("diff:"):
                    verdict = "field differs: " + bytes.fromhex(verdict[5:]).decode("utf-8", "replace")
                return viol("value %d does not round-trip through the autogenerated mapping (%s): %s" % (k, fmtname, verdict))
        k += 1
    return None


def _prepare_autogen(seed, tier):
    import common
    return common.prepare_autogen(seed, tier)


def _autogen_replay_binary(payload):
    import common
    return common.autogen_replay_binary(payload)


PROPS["C19"] = dict(
    coq="Properties_C19",
    level_text="Proved in Coq (AutogenProof.v) on a statement-by-statement transcription (Autogen.explore) of exploreFields / dominantField and the three orders, for every struct environment without any well-formedness hypothesis: a field is in the mapping iff Go's promotion rules select it (explore_iff_selected; spelled out: it is a candidate along some embedding path, no same-named candidate is shallower, and at its depth it is the only one or the only tagged one, counting one candidate per path); every entry's route addresses the field it was derived from and carries its type and omitempty flag; a candidate is exported or embedded, not tagged '-', and an embedded field of unexported type contributes only the fields a struct promotes; names are pairwise distinct; the result is strictly sorted by the chosen mode; routes are pairwise unrelated. Tied to the code by struct type families generated as Go source, compiled, described back through reflect and run through AutogenerateStructMapEntryUsingTags in all three sort modes; values of those types (nil / non-nil / mixed embedded pointers) are marshalled through the mapping (tokens compared with the model's marshaller under the model's mapping) and round-tripped through CBOR and JSON with a field-wise oracle.",
    level_note="reflect.StructTag.Get, unicode.IsUpper/ToLower outside the ASCII/Latin-1/Greek/Cyrillic ranges the generator draws from, and sort.Sort are Go's; fields behind a nil embedded pointer to an unexported struct type cannot be allocated by reflection: unmarshal reports an error there, which the oracle accepts. Trusted as in trusted_base.",
    rule="struct type family (root + embedded types) x 3 sort modes x 4 values; non-trivial = the family embeds at least one struct; distinct by payload",
    trusted_base=_OBJ_TB + ["lib/autogen_gen.py renders family specs as Go source; the model's input is the description reflect gives back of the compiled types, not the spec"],
    assumptions=["field types are drawn from int64, string, bool, *int64, []string, named int64/string and the family's structs"],
    suites=[("autogen", dict(cmp=cmp_c19, shrink=False, prepare=_prepare_autogen, replay_binary=_autogen_replay_binary, timeout=3600,
                             nontrivial=lambda p, i, m: "(st " in p.split("|")[2],
                             what="generated struct families compiled into the harness: atlas.AutogenerateStructMapEntryUsingTags (3 modes) vs Autogen.explore and Autogen.selected; obj.Marshaller tokens vs Marshal.marshal_top under the model's mapping; CBOR and JSON round trip with nil / non-nil / mixed embedded pointers"))],
)


def _names_in_order(fields):
    return re.findall(r"\(fld (\S+)", fields)


def cmp_c08_autogen(payload, impl, model):
    """C08 on autogenerated structs: the order of the fields in each sort mode (the set of fields is C19's business)."""
    iv, mv = _kv(impl), _kv(model)
    modes = ["default (declaration order)", "strings", "RFC7049"]
    for m in range(3):
        a, b = _names_in_order(iv.get("m%d" % m, "")), _names_in_order(mv.get("m%d" % m, ""))
        if sorted(a) == sorted(b) and a != b:
            un = lambda l: [bytes.fromhex(x).decode("utf-8", "replace") if x != "-" else "" for x in l]
            return viol("autogenerated struct fields in sort mode %s are ordered %s; the configured order is %s" % (modes[m], un(a)[:40], un(b)[:40]))
    return None


def cmp_c01_autogen(payload, impl, model):
    """C01 on autogenerated struct maps: values marshal as the mapping prescribes and round-trip."""
    if impl in ("not-compiled", "bad-payload"):
        return dict(kind="broken", component="autogen-harness", detail=impl)
    iv, mv = _kv(impl), _kv(model)
    if "atlas" in iv:
        return viol("autogenerated entries cannot be built into an atlas: " + iv["atlas"])
    k = 0
    while ("v%d" % k) in iv:
        ivk, _, rt = iv["v%d" % k].partition(" # ")
        cls = ivk.split(" ", 1)[0]
        if cls in ("panic", "hang"):
            return viol("marshalling value %d through its autogenerated mapping: %s" % (k, cls))
        for fmtname, verdict in zip(("CBOR", "JSON"), rt.split()):
            if verdict not in ("ok", "ok-unsettable"):
                if verdict.startswith("diff:"):
                    verdict = "field differs: " + bytes.fromhex(verdict[5:]).decode("utf-8", "replace")
                return viol("value %d of an autogenerated struct type does not round-trip (%s): %s" % (k, fmtname, verdict))
        k += 1
    return None


_AUTOGEN_COMMON = dict(shrink=False, prepare=_prepare_autogen, replay_binary=_autogen_replay_binary, timeout=3600, harness_suite="autogen", model_suite="autogen",
                       nontrivial=lambda p, i, m: "(st " in p.split("|")[2])
PROPS["C08"]["suites"].append(("autogen-order", dict(cmp=cmp_c08_autogen, what="generated struct families (incl. 13-40 field structs): field order of AutogenerateStructMapEntryUsingTags in the three sort modes vs Autogen.explore", **_AUTOGEN_COMMON)))


def cmp_c13_autogen(payload, impl, model):
    """C13 on autogenerated struct maps: the rendering of a value is accepted by a target of its type, field by field."""
    r = cmp_c01_autogen(payload, impl, model)
    if r and r.get("kind") == "violation":
        r = dict(r, detail="a rendering of a value was not accepted into (or was misplaced in) a target of its own autogenerated type: " + r.get("detail", ""))
    return r


PROPS["C13"]["suites"].append(("autogen-accept", dict(cmp=cmp_c13_autogen, what="generated struct families (embedding to depth 4, by value and by pointer, tags, shadowing): the token rendering of each value unmarshalled through the autogenerated struct map into a target of the same type, field-wise oracle", **_AUTOGEN_COMMON)))
PROPS["C01"]["suites"].append(("autogen-roundtrip", dict(cmp=cmp_c01_autogen, what="generated struct families: values with nil / non-nil / mixed embedded pointers marshalled and unmarshalled (CBOR, JSON) through autogenerated struct maps, field-wise oracle", **_AUTOGEN_COMMON)))


# ---------------------------------------------------------------------------
# conc (C18): impl = "<sequential results> | conc=1" or "... | conc=0 <first difference>"; a data race kills
# the harness (built with -race) with exit code 66 on the case that raced.
# ---------------------------------------------------------------------------

def cmp_c18(payload, impl, model):
    if impl.startswith("panic"):
        return viol("a call panicked")
    if impl.startswith("RACE"):
        return viol("the Go race detector reported a data race while goroutines with their own instances shared this atlas and these inputs: " + impl[5:1500])
    outs, _, conc = impl.partition(" | conc=")
    if not conc.startswith("1"):
        return viol("a goroutine obtained a result different from sequential execution: " + conc[2:400])
    if outs != model:
        return viol("sequential results differ from the model: impl %s model %s" % (outs[:150], model[:150]))
    return None


def _prepare_race(seed, tier):
    import common
    return common.build_race_harness()


PROPS["C18"] = dict(
    coq="Properties_C18",
    level_text="Proved in Coq on the models: every marshal / unmarshal / clone call is a function of (atlas, type, value or input) alone — the object-layer models take the atlas as a read-only argument and keep no state between calls — so any interleaving of calls by goroutines with their own instances yields, per call, the sequential result (Conc.v: results of an arbitrary interleaving of per-goroutine call sequences equal the per-call results). The premise that the real code has no shared mutable state is what the model cannot show; it is checked on the code: SharedState.v is regenerated on every run from a go/ast scan of /repo (package-level variables of the library and every assignment / address-taking of them outside init), with the lemma that none is written after initialisation, and the race-detector run below.",
    level_note="partial: the Go memory model, the scheduler and the race detector are not modelled; the theorem covers interference through results, the run covers data races on the schedules the Go scheduler produced (N = 4 x cores goroutines, GOMAXPROCS varied, -race). Trusted as in trusted_base plus the race detector.",
    rule="workload (shared atlas with all entry kinds, 2-5 items, documents with ignored keys) x 64 goroutines x 3 rounds x all jobs in random order; non-trivial = at least 3 successful marshals; distinct by payload",
    trusted_base=_OBJ_TB + ["the Go race detector (-race) and scheduler", "lib/sharedscan.go: go/ast scan producing coq/gen/SharedState.v"],
    assumptions=["source values are not mutated while shared (the harness only reads them)", "user transform functions are themselves race-free"],
    technique="machine-checked proof in Coq 8.16 about an executable Gallina model (call results independent of interleaving) + regenerated shared-state table + differential correspondence run under the Go race detector",
    suites=[("conc", dict(cmp=cmp_c18, shrink=False, prepare=_prepare_race, replay_binary=lambda payload: _prepare_race(0, "")[0], race=True, timeout=7200,
                          nontrivial=lambda p, i, m: m.count("m:") >= 3,
                          what="4 x cores goroutines with own Marshaller/Cloner instances and the package-level helpers, sharing one atlas and read-only inputs, all jobs in random order for 3 rounds, under -race; every result compared with the sequential run and the model"))],
)


def _diagnose_c18():
    """names the package-level variables that break C18_no_shared_writes"""
    import common
    try:
        src = open(os.path.join(common.COQ, "gen", "SharedState.v")).read()
        prop = open(os.path.join(common.COQ, "Properties_C18.v")).read()
    except OSError:
        return ""
    q = r'"((?:[^"]|"")*)"'
    rows = re.findall(r'SV %s %s %s %s %s (\d+) (\d+) (\d+)' % (q, q, q, q, q), src)
    rev = set(re.findall(r'\(%s, %s, %s\)' % (q, q, q), prop))
    bad = []
    for pkg, name, typ, init, cls, w, a, c in rows:
        if int(w) or int(a):
            bad.append("%s.%s is written (%s) or address-taken (%s) outside its declaration/init()" % (pkg, name, w, a))
        elif cls != "const-like" and (pkg, name, init) not in rev:
            bad.append("%s.%s = %s is a package-level variable that is neither a constant expression nor reviewed" % (pkg, name, init.replace('""', '"')[:100]))
    return "; ".join(bad)


PROPS["C18"]["diagnose"] = _diagnose_c18


def cmp_c17_autogen(payload, impl, model):
    """C17 on autogenerated mappings: the three mappings of one type are generated back to back and compared afterwards;
    generating one (for another atlas) must not change another."""
    iv, mv = _kv(impl), _kv(model)
    for m in range(3):
        k = "m%d" % m
        if iv.get(k) == "panic":
            return viol("AutogenerateStructMapEntryUsingTags panicked")
        a, b = _names_in_order(iv.get(k, "")), _names_in_order(mv.get(k, ""))
        if sorted(a) == sorted(b) and a != b:
            return viol("the mapping generated for sort mode %d changed when mappings of the same type were generated for other atlases: %s, expected %s" % (m, a[:20], b[:20]))
    return None


PROPS["C17"]["suites"].append(("autogen-interleaved", dict(cmp=cmp_c17_autogen, what="generated struct families: the mappings of one Go type for three atlases (sort modes) are generated back to back and read afterwards", **_AUTOGEN_COMMON)))
