#!/usr/bin/env python3
"""Regenerates MANIFEST.json from lib/props.py (claimed checks) and the property list."""
import json, os, sys
VERIF = os.path.dirname(os.path.dirname(os.path.abspath(__file__)))
sys.path.insert(0, os.path.join(VERIF, "lib"))
import props

ids = [json.loads(l)["id"] for l in open(os.path.join(VERIF, "properties.jsonl"))]
checks = []
na = []
for pid in ids:
    cfg = props.PROPS.get(pid)
    if cfg is None:
        na.append(dict(property_id=pid, reason=props.NOT_YET.get(pid, "check not built yet in this round (planned in DESIGN.md section 5); not claimed until its model, theorems and correspondence run exist")))
        continue
    checks.append(dict(
        property_id=pid,
        quick_cmd="./check %s --tier quick" % pid,
        thorough_cmd="./check %s --tier thorough" % pid,
        evidence_file="/verif/evidence/%s.json" % pid,
        replay_cmd_template="./check %s --replay {path}" % pid,
        engine="coq-model+correspondence",
        level_claimed=dict(category="proof", text=cfg["level_text"], design_ref=cfg.get("design_ref", "DESIGN.md section 5, " + pid)),
        level_note=cfg["level_note"],
        technique=cfg.get("technique", "machine-checked proof in Coq 8.16 about an executable Gallina model + differential correspondence check of the extracted model against /repo"),
    ))
m = dict(
    version=1,
    setup_cmd="./check --setup",
    hooks=dict(guard="verif", enable="go build -tags verif (the harness module /verif/harness replaces github.com/polydawn/refmt with /repo)",
               baseline_off_cmd="cd /repo && GOFLAGS=-mod=mod GOPROXY=off GOSUMDB=off go test -vet=off -count=1 ./...",
               source_commits=props.HOOK_COMMITS, add_only=True),
    engines=[dict(name="coq-model+correspondence", path="/verif/check", serves_properties=[c["property_id"] for c in checks],
                  kind_free_text="Coq 8.16.1 development /verif/coq (model, specs, theorems), extracted to OCaml (/verif/modelrun), Go harness /verif/harness driving the real refmt code, Python orchestrator /verif/check")],
    checks=checks,
    notes="See DESIGN.md. Fix commits in /repo are listed in known_findings.json.",
    not_applicable=na,
)
json.dump(m, open(os.path.join(VERIF, "MANIFEST.json"), "w"), indent=1)
print("claimed:", [c["property_id"] for c in checks])
