package refmt_test

// D24 probe: a long-lived cbor Marshaller never recovers from one write error.
// Place at the repo root; go test -vet=off -count=1 -run TestD24 .

import (
	"bytes"
	"errors"
	"testing"

	"github.com/polydawn/refmt/cbor"
	"github.com/polydawn/refmt/json"
)

type failOnce struct {
	buf  bytes.Buffer
	fail bool
}

func (w *failOnce) Write(p []byte) (int, error) {
	if w.fail {
		w.fail = false
		return 0, errors.New("disk full (once)")
	}
	return w.buf.Write(p)
}

func TestD24(t *testing.T) {
	{
		w := &failOnce{fail: true}
		m := cbor.NewMarshaller(w)
		if err := m.Marshal([]int{1, 2}); err == nil {
			t.Fatalf("cbor: the failing write went unreported")
		}
		if err := m.Marshal([]int{3}); err != nil {
			t.Errorf("cbor: marshaller reused after a failed call: %v (a fresh one succeeds)", err)
		} else if !bytes.Equal(w.buf.Bytes(), []byte{0x81, 0x03}) {
			t.Errorf("cbor: got % x", w.buf.Bytes())
		}
	}
	{
		w := &failOnce{fail: true}
		m := json.NewMarshaller(w)
		if err := m.Marshal([]int{1, 2}); err == nil {
			t.Fatalf("json: the failing write went unreported")
		}
		if err := m.Marshal([]int{3}); err != nil {
			t.Errorf("json: marshaller reused after a failed call: %v", err)
		}
	}
}
