package ptrtr

import (
	"testing"
	"time"

	"github.com/polydawn/refmt"
	"github.com/polydawn/refmt/cbor"
	"github.com/polydawn/refmt/obj/atlas"
)

type W struct{ S string }
type T struct{ V string }
type H struct{ P *T }

func run(t *testing.T, name string, f func() error) {
	done := make(chan error, 1)
	go func() {
		defer func() {
			if r := recover(); r != nil {
				done <- nil
				t.Errorf("%s: panic %v", name, r)
			}
		}()
		done <- f()
	}()
	select {
	case e := <-done:
		t.Logf("%s: returned %v", name, e)
	case <-time.After(3 * time.Second):
		t.Errorf("%s: hang", name)
	}
}

func TestPtrTransform(t *testing.T) {
	atl := atlas.MustBuild(
		atlas.BuildEntry(W{}).StructMap().Autogenerate().Complete(),
		atlas.BuildEntry(H{}).StructMap().Autogenerate().Complete(),
		atlas.BuildEntry(T{}).Transform().
			TransformMarshal(atlas.MakeMarshalTransformFunc(func(x T) (*W, error) { return &W{x.V}, nil })).
			TransformUnmarshal(atlas.MakeUnmarshalTransformFunc(func(w *W) (T, error) { return T{w.S}, nil })).
			Complete(),
	)
	var bs []byte
	run(t, "marshal T", func() error { var e error; bs, e = refmt.MarshalAtlased(cbor.EncodeOptions{}, T{"a"}, atl); return e })
	t.Logf("% x", bs)
	run(t, "marshal *T in struct", func() error { var e error; bs, e = refmt.MarshalAtlased(cbor.EncodeOptions{}, H{&T{"a"}}, atl); return e })
	t.Logf("% x", bs)
	run(t, "unmarshal into H", func() error { var h H; return refmt.UnmarshalAtlased(cbor.DecodeOptions{}, []byte{0xa1, 0x61, 0x70, 0xa1, 0x61, 0x73, 0x61, 0x61}, &h, atl) })
}

type Shape interface{ isShape() }
type Circle struct{ R int64 }
type Wrap struct{ S Shape }

func (Circle) isShape() {}

type CircleWire struct{ Rad int64 }

func TestUnionInTransform(t *testing.T) {
	atl := atlas.MustBuild(
		atlas.BuildEntry(CircleWire{}).StructMap().Autogenerate().Complete(),
		atlas.BuildEntry(Circle{}).Transform().
			TransformMarshal(atlas.MakeMarshalTransformFunc(func(x Circle) (CircleWire, error) { return CircleWire{x.R}, nil })).
			TransformUnmarshal(atlas.MakeUnmarshalTransformFunc(func(w CircleWire) (Circle, error) { return Circle{w.Rad}, nil })).
			Complete(),
		atlas.BuildEntry((*Shape)(nil)).KeyedUnion().Of(map[string]*atlas.AtlasEntry{
			"circle": atlas.BuildEntry(Circle{}).Transform().
				TransformMarshal(atlas.MakeMarshalTransformFunc(func(x Circle) (CircleWire, error) { return CircleWire{x.R}, nil })).
				TransformUnmarshal(atlas.MakeUnmarshalTransformFunc(func(w CircleWire) (Circle, error) { return Circle{w.Rad}, nil })).
				Complete(),
		}),
		atlas.BuildEntry(Wrap{}).Transform().
			TransformMarshal(atlas.MakeMarshalTransformFunc(func(x Wrap) (Shape, error) { return x.S, nil })).
			TransformUnmarshal(atlas.MakeUnmarshalTransformFunc(func(s Shape) (Wrap, error) { return Wrap{s}, nil })).
			Complete(),
	)
	var bs []byte
	run(t, "marshal Wrap", func() error { var e error; bs, e = refmt.MarshalAtlased(cbor.EncodeOptions{}, Wrap{Circle{7}}, atl); return e })
	t.Logf("% x", bs)
	var w Wrap
	run(t, "unmarshal Wrap", func() error { return refmt.UnmarshalAtlased(cbor.DecodeOptions{}, bs, &w, atl) })
	t.Logf("%#v", w)
}
