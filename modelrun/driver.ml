(* driver.ml — line-oriented runner around the extracted Coq model (model.ml).
   Reads case lines  "<suite>\t<id>\t<payload>"  on stdin and writes result
   lines "<id>\t<result>" on stdout.  This file only parses, dispatches and
   prints; every decision is taken by extracted code. *)
module M = Model

(* ---------- number conversions (Zarith only for decimal I/O) ------------- *)
let rec pos_of_zarith (v : Z.t) : M.positive =
  if Z.equal v Z.one then M.XH
  else if Z.testbit v 0 then M.XI (pos_of_zarith (Z.shift_right v 1))
  else M.XO (pos_of_zarith (Z.shift_right v 1))

let z_of_zarith (v : Z.t) : M.z =
  let s = Z.sign v in
  if s = 0 then M.Z0 else if s > 0 then M.Zpos (pos_of_zarith v) else M.Zneg (pos_of_zarith (Z.neg v))

let rec zarith_of_pos = function
  | M.XH -> Z.one
  | M.XO p -> Z.shift_left (zarith_of_pos p) 1
  | M.XI p -> Z.succ (Z.shift_left (zarith_of_pos p) 1)

let zarith_of_z = function
  | M.Z0 -> Z.zero
  | M.Zpos p -> zarith_of_pos p
  | M.Zneg p -> Z.neg (zarith_of_pos p)

let z_of_int (n : int) : M.z = z_of_zarith (Z.of_int n)
let int_of_z (v : M.z) : int = Z.to_int (zarith_of_z v)
let z_of_dec (s : string) : M.z = z_of_zarith (Z.of_string s)
let dec_of_z (v : M.z) : string = Z.to_string (zarith_of_z v)
let z_of_hex (s : string) : M.z = z_of_zarith (Z.of_string_base 16 s)
let hex16_of_z (v : M.z) : string =
  let s = Z.format "%x" (zarith_of_z v) in
  String.make (max 0 (16 - String.length s)) '0' ^ s

let rec nat_of_int n = if n <= 0 then M.O else M.S (nat_of_int (n - 1))
let rec int_of_nat = function M.O -> 0 | M.S n -> 1 + int_of_nat n

let byte_tab : M.z array = Array.init 256 z_of_int

let bytes_of_hex (s : string) : M.z list =
  let n = String.length s / 2 in
  List.init n (fun i -> byte_tab.(int_of_string ("0x" ^ String.sub s (2 * i) 2)))

let hex_of_bytes (bs : M.z list) : string =
  let b = Buffer.create 64 in
  List.iter (fun z ->
      let v = try int_of_z z with _ -> -1 in
      if v < 0 || v > 255 then Buffer.add_string b "??" else Buffer.add_string b (Printf.sprintf "%02x" v)) bs;
  Buffer.contents b

(* ---------- token syntax -------------------------------------------------
   [#<tag>]{<len>  }  [<len>  ]  n  s<hex>  x<hex>  bt bf  i<dec>  u<dec>  f<hex16> *)
let parse_token (w : string) : M.token =
  let tag, body =
    if String.length w > 0 && w.[0] = '#' then begin
      (* tag digits (possibly negative) run up to the first non-digit *)
      let i = ref 1 in
      if !i < String.length w && w.[!i] = '-' then incr i;
      while !i < String.length w && w.[!i] >= '0' && w.[!i] <= '9' do incr i done;
      (Some (z_of_dec (String.sub w 1 (!i - 1))), String.sub w !i (String.length w - !i))
    end else (None, w) in
  let rest = String.sub body 1 (String.length body - 1) in
  let tv = match body.[0] with
    | '{' -> M.MapOpen (z_of_dec rest)
    | '}' -> M.MapClose
    | '[' -> M.ArrOpen (z_of_dec rest)
    | ']' -> M.ArrClose
    | 'n' -> M.Null
    | 's' -> M.Str (bytes_of_hex rest)
    | 'x' -> M.Byt (bytes_of_hex rest)
    | 'b' -> M.Bool (rest = "t")
    | 'i' -> M.Int (z_of_dec rest)
    | 'u' -> M.Uint (z_of_dec rest)
    | 'f' -> M.Flt (z_of_hex rest)
    | c -> failwith (Printf.sprintf "bad token %c" c) in
  { M.tv = tv; M.tag = tag }

let print_token (t : M.token) : string =
  let tg = match t.M.tag with Some z -> "#" ^ dec_of_z z | None -> "" in
  tg ^ (match t.M.tv with
      | M.MapOpen l -> "{" ^ dec_of_z l
      | M.MapClose -> "}"
      | M.ArrOpen l -> "[" ^ dec_of_z l
      | M.ArrClose -> "]"
      | M.Null -> "n"
      | M.Str s -> "s" ^ hex_of_bytes s
      | M.Byt s -> "x" ^ hex_of_bytes s
      | M.Bool b -> if b then "bt" else "bf"
      | M.Int i -> "i" ^ dec_of_z i
      | M.Uint u -> "u" ^ dec_of_z u
      | M.Flt f -> "f" ^ hex16_of_z f)

let split_ws (s : string) : string list =
  List.filter (fun x -> x <> "") (String.split_on_char ' ' s)

let parse_tokens (s : string) : M.token list = List.map parse_token (split_ws s)
let print_tokens (ts : M.token list) : string = String.concat " " (List.map print_token ts)

let chunk_lens (cs : M.z list list) : string =
  if cs = [] then "-" else String.concat "," (List.map (fun c -> string_of_int (List.length c)) cs)

let hex_or_dash (bs : M.z list) : string = if bs = [] then "-" else hex_of_bytes bs

(* ---------- suites -------------------------------------------------------- *)

let ctx_verdict key ts =
  match M.ctx_run key [] ts M.O with
  | M.CRDone n -> Printf.sprintf "fin %d" (int_of_nat n)
  | M.CRErr n -> Printf.sprintf "err %d" (int_of_nat n)
  | M.CRStarved _ -> Printf.sprintf "starved %d" (List.length ts)

let derr_name = function M.EEof -> "eof" | M.EUnexpectedEof -> "ueof" | M.EMalformed -> "other"

(* cbor-enc: tokens -> "<class> <used> <hex> <chunklens> | <rfc hex or ->" *)
let run_cbor_enc (payload : string) : string =
  let ts = parse_tokens payload in
  let cls, out, used = match M.enc_tokens ts with
    | M.Finished (o, n) -> ("fin", o, int_of_nat n)
    | M.Errored (o, n) -> ("err", o, int_of_nat n)
    | M.Panicked (o, n) -> ("panic", o, int_of_nat n)
    | M.Starved (o, _) -> ("starved", o, List.length ts) in
  let spec = match M.unflatten ts with
    | Some n -> hex_of_bytes (M.rfc_enc n)
    | None -> "-" in
  let rt = if cls <> "fin" then "" else begin
    let bs = List.concat out @ [byte_tab.(1); byte_tab.(2)] in
    let total = List.length bs in
    match M.dec_run false bs with
    | M.DOk (toks, rest, _) -> Printf.sprintf " | rt: ok %d %s" (total - List.length rest) (print_tokens toks)
    | M.DFail (e, toks, _) -> Printf.sprintf " | rt: err %s %d" (derr_name e) (List.length toks)
    | _ -> " | rt: panic" end in
  Printf.sprintf "%s %d %s %s | %s%s | ctx: %s" cls used (hex_or_dash (List.concat out)) (chunk_lens out) spec rt
    (ctx_verdict M.key_cbor ts)

(* cbor-dec: "<coerce 0|1> <hex>" -> "ok <consumed> <tokens> | <alloc> | <spec>" / "err <class> <ntoks> | .." *)
let run_cbor_dec (payload : string) : string =
  let coerce, hex = match split_ws payload with
    | [c; h] -> (c = "1", h) | [c] -> (c = "1", "") | _ -> failwith "bad cbor-dec payload" in
  let bs = bytes_of_hex hex in
  let total = List.length bs in
  let left = match M.dec_run coerce bs with
    | M.DOk (toks, rest, alloc) ->
        Printf.sprintf "ok %d %s | %s" (total - List.length rest) (print_tokens toks) (dec_of_z alloc)
    | M.DFail (e, toks, alloc) -> Printf.sprintf "err %s %d | %s" (derr_name e) (List.length toks) (dec_of_z alloc)
    | M.DPanicked _ -> "panic | 0"
    | M.DOutOfFuel _ -> "hang | 0" in
  let spec = match M.parse_item coerce bs with
    | M.POk (n, rest) -> Printf.sprintf "ok %d %s" (total - List.length rest) (print_tokens (M.flatten n))
    | M.PErr e -> "err " ^ derr_name e
    | M.PFuel -> "fuel" in
  left ^ " | " ^ spec

(* optional bytes: "~" nil, "-" empty, else hex *)
let opt_bytes (s : string) : M.z list option =
  if s = "~" then None else if s = "-" then Some [] else Some (bytes_of_hex s)

(* float oracle "<bits16>:<digits>:<dp>,..." -> lookup function *)
let make_shortest (s : string) : M.z -> (M.z list * M.z) =
  let tbl = Hashtbl.create 16 in
  if s <> "-" then
    List.iter (fun ent ->
        match String.split_on_char ':' ent with
        | [b; ds; dp] ->
            let digits = List.init (String.length ds) (fun i -> z_of_int (Char.code ds.[i] - 48)) in
            Hashtbl.replace tbl (String.lowercase_ascii b) (digits, z_of_dec dp)
        | _ -> ()) (String.split_on_char ',' s);
  fun bits -> try Hashtbl.find tbl (hex16_of_z bits) with Not_found -> ([], M.Z0)

(* json-enc: "<line> <indent> <oracle>|<tokens>" *)
let run_json_enc (payload : string) : string =
  let i = String.index payload '|' in
  let head = String.sub payload 0 i and toks = String.sub payload (i + 1) (String.length payload - i - 1) in
  let line, indent, oracle = match split_ws head with
    | [l; ind; o] -> (opt_bytes l, opt_bytes ind, o) | _ -> failwith "bad json-enc head" in
  let ts = parse_tokens toks in
  let o = { M.jline = line; M.jindent = (match indent with Some b -> b | None -> []) } in
  let cls, out, used = match M.jenc_tokens (make_shortest oracle) o ts with
    | M.JFinished (c, n) -> ("fin", c, int_of_nat n)
    | M.JErrored (c, n) -> ("err", c, int_of_nat n)
    | M.JPanicked (c, n) -> ("panic", c, int_of_nat n)
    | M.JStarved (c, _) -> ("starved", c, List.length ts) in
  let repr = List.for_all (fun t -> M.json_repr t.M.tv) ts in
  let rt = if cls <> "fin" then "" else begin
    let bs = List.concat out @ List.map (fun c -> byte_tab.(Char.code c)) [' '; '['; '7'; ']'] in
    let total = List.length bs in
    match M.jdec_run bs with
    | M.JDOk (toks, rest) -> Printf.sprintf " | rt: ok @%d %s" (total - List.length rest) (print_tokens toks)
    | M.JDFail (e, toks) -> Printf.sprintf " | rt: err %s %d" (derr_name e) (List.length toks)
    | M.JDOutOfFuel _ -> " | rt: hang" end in
  Printf.sprintf "%s %d %s %s%s | ctx: %s | repr: %d" cls used (hex_or_dash (List.concat out)) (chunk_lens out) rt
    (ctx_verdict M.key_json ts) (if repr then 1 else 0)

let run_pretty_enc (payload : string) : string =
  let ts = parse_tokens payload in
  let (r, n) = M.penc_tokens ts in
  let cls = match r with M.RDone -> "fin" | M.RErr -> "err" | M.RPanic -> "panic" | M.RCont -> "starved" in
  Printf.sprintf "%s %d | ctx: %s" cls (if cls = "starved" then List.length ts else int_of_nat n) (ctx_verdict M.key_cbor ts)

(* json-dec: "<hex>" -> successive items "ok <tokens> ;; ... ;; err <class> <ntoks>" (at most 4 items) *)
let run_json_dec (payload : string) : string =
  let bs = bytes_of_hex (String.trim payload) in
  let total = List.length bs in
  let rec go k bs acc =
    if k = 0 then List.rev acc else
    match M.jdec_run bs with
    | M.JDOk (toks, rest) -> go (k - 1) rest ((Printf.sprintf "ok @%d %s" (total - List.length rest) (print_tokens toks)) :: acc)
    | M.JDFail (e, toks) -> List.rev ((Printf.sprintf "err %s %d" (derr_name e) (List.length toks)) :: acc)
    | M.JDOutOfFuel _ -> List.rev ("hang" :: acc) in
  let spec = match M.jparse_item true bs with
    | M.POk (n, rest) -> Printf.sprintf "ok @%d %s" (total - List.length rest) (print_tokens (M.flatten n))
    | M.PErr e -> "err " ^ derr_name e
    | M.PFuel -> "fuel" in
  String.concat " ;; " (go 4 bs []) ^ " | spec: " ^ spec

(* reader: "<hex data|-> | <schedule> | <ops>"
   schedule entries: <n> chunk, <n>E chunk reporting EOF with the last data, F fault ; ops: 1 b<k> u t s *)
let rerr_name = function M.REof -> "eof" | M.RUnexpectedEof -> "ueof" | M.RNoProgress -> "noprogress" | M.RFault -> "fault"

let parse_sched (s : string) : M.sched_entry list =
  List.map (fun w ->
      if w = "F" then M.SFault
      else if String.length w > 0 && w.[String.length w - 1] = 'E'
      then M.SChunk (nat_of_int (int_of_string (String.sub w 0 (String.length w - 1))), true)
      else M.SChunk (nat_of_int (int_of_string w), false)) (split_ws s)

let parse_ops (s : string) : M.rop list =
  List.map (fun w ->
      match w.[0] with
      | '1' -> M.OpRead1
      | 'b' -> M.OpReadb (nat_of_int (int_of_string (String.sub w 1 (String.length w - 1))))
      | 'u' -> M.OpUnread
      | 't' -> M.OpTrack
      | 's' -> M.OpStopTrack
      | _ -> failwith "bad op") (split_ws s)

let print_routs (os : M.rout list) : string =
  String.concat " " (List.map (function
      | M.OByte b -> "1:" ^ hex_of_bytes [b]
      | M.OBytes bs -> "b:" ^ hex_or_dash bs
      | M.OErr e -> "!" ^ rerr_name e
      | M.OUnit -> "."
      | M.OPanic -> "!panic") os)

let run_reader (payload : string) : string =
  match String.split_on_char '|' payload with
  | [d; sc; ops] ->
      let data = let h = String.trim d in if h = "-" then [] else bytes_of_hex h in
      let ops = parse_ops ops in
      let (o1, s1) = M.run_ops (M.slick_init data (parse_sched sc)) ops in
      let (o2, s2) = M.run_ops_abs (M.astream_init data) ops in
      Printf.sprintf "%s @%s | abs: %s @%s" (print_routs o1) (dec_of_z s1.M.snum) (print_routs o2) (dec_of_z s2.M.anum)
  | _ -> failwith "bad reader payload"

(* sched-dec: "<c|j> <hex> | <schedule>" -> the decoders' result on the whole input (schedule-independent) *)
let run_sched_dec (payload : string) : string =
  let head = List.hd (String.split_on_char '|' payload) in
  match split_ws head with
  | fmt :: rest ->
      let hex = (match rest with h :: _ -> h | [] -> "") in
      let bs = if hex = "-" then [] else bytes_of_hex hex in
      let total = List.length bs in
      if fmt = "c" then
        (match M.dec_run false bs with
         | M.DOk (toks, rest, _) -> Printf.sprintf "ok @%d %s" (total - List.length rest) (print_tokens toks)
         | M.DFail (e, toks, _) -> Printf.sprintf "err %s %d" (derr_name e) (List.length toks)
         | M.DPanicked _ -> "panic" | M.DOutOfFuel _ -> "hang")
      else
        (match M.jdec_run bs with
         | M.JDOk (toks, rest) -> Printf.sprintf "ok @%d %s" (total - List.length rest) (print_tokens toks)
         | M.JDFail (e, toks) -> Printf.sprintf "err %s %d" (derr_name e) (List.length toks)
         | M.JDOutOfFuel _ -> "hang")
  | _ -> failwith "bad sched-dec payload"

(* wfault: "<c|j> <err|short|both> <stop|once> <k> | <tokens>"  (json: "<line> <indent> <oracle>|<tokens>" after the bar) *)
let run_wfault (payload : string) : string =
  let i = String.index payload '|' in
  let head = String.sub payload 0 i and body = String.sub payload (i + 1) (String.length payload - i - 1) in
  match split_ws head with
  | [fmt; kind; mode; k] ->
      let plan = { M.wk = nat_of_int (int_of_string k); M.wstop = (mode = "stop");
                   M.wkind = (match kind with "err" -> M.WErr | "short" -> M.WShort | _ -> M.WBoth) } in
      let r =
        if fmt = "c" then M.cbor_write_faulty plan (parse_tokens body)
        else begin
          let j = String.index body '|' in
          let jh = String.sub body 0 j and toks = String.sub body (j + 1) (String.length body - j - 1) in
          let line, indent, oracle = match split_ws jh with
            | [l; ind; o] -> (opt_bytes l, opt_bytes ind, o) | _ -> failwith "bad json head" in
          let o = { M.jline = line; M.jindent = (match indent with Some b -> b | None -> []) } in
          M.json_write_faulty (make_shortest oracle) o plan (parse_tokens toks)
        end in
      (match r with
       | M.WReported n -> Printf.sprintf "err %d" (int_of_nat n)
       | M.WTokenErr n -> Printf.sprintf "err %d" (int_of_nat n)
       | M.WFinished n -> Printf.sprintf "fin %d" (int_of_nat n)
       | M.WStarved -> "starved"
       | M.WPanic -> "panic")
  | _ -> failwith "bad wfault head"

(* rfault: "<c|j> <hex> | <k> <stop|once>": the reader fails at byte offset k *)
let run_rfault (payload : string) : string =
  match String.split_on_char '|' payload with
  | [head; tail] ->
      let fmt, hex = (match split_ws head with [f; h] -> (f, h) | _ -> failwith "bad rfault head") in
      let k = int_of_string (List.hd (split_ws tail)) in
      let bs = bytes_of_hex hex in
      let pre = List.filteri (fun i _ -> i < k) bs in
      let total = List.length pre in
      let whole = run_sched_dec (fmt ^ " " ^ hex ^ " |") in
      let r =
        if fmt = "c" then
          (match M.dec_run false pre with
           | M.DOk (toks, rest, _) -> Printf.sprintf "ok @%d %s" (total - List.length rest) (print_tokens toks)
           | M.DFail (M.EMalformed, toks, _) -> Printf.sprintf "err other %d" (List.length toks)
           | M.DFail (_, toks, _) -> Printf.sprintf "err fault %d" (List.length toks)
           | _ -> "panic")
        else
          (match M.jdec_run pre with
           | M.JDOk (toks, rest) -> Printf.sprintf "ok @%d %s" (total - List.length rest) (print_tokens toks)
           | M.JDFail (M.EMalformed, toks) -> Printf.sprintf "err other %d" (List.length toks)
           | M.JDFail (_, toks) -> Printf.sprintf "err fault %d" (List.length toks)
           | _ -> "hang") in
      r ^ " | whole: " ^ whole
  | _ -> failwith "bad rfault payload"

(* transcode: "<j2c|c2j> <hex> [<float oracle>]" *)
let run_transcode (payload : string) : string =
  match split_ws payload with
  | dir :: hex :: rest ->
      let bs = if hex = "-" then [] else bytes_of_hex hex in
      let total = List.length bs in
      let oracle = (match rest with o :: _ -> o | [] -> "-") in
      let r = if dir = "j2c" then M.pump_j2c bs
        else M.pump_c2j (make_shortest oracle) { M.jline = None; M.jindent = [] } false bs in
      (match r with
       | M.PumpOk (out, rest) -> Printf.sprintf "ok %s @%d" (hex_or_dash out) (total - List.length rest)
       | M.PumpErr -> "err")
  | _ -> failwith "bad transcode payload"

let dispatch (suite : string) (payload : string) : string =
  match suite with
  | "transcode" -> run_transcode payload
  | "wfault" -> run_wfault payload
  | "rfault" -> run_rfault payload
  | "sched-dec" -> run_sched_dec payload
  | "reader" -> run_reader payload
  | "json-dec" -> run_json_dec payload
  | "json-enc" -> run_json_enc payload
  | "pretty-enc" -> run_pretty_enc payload
  | "cbor-enc" -> run_cbor_enc payload
  | "cbor-dec" -> run_cbor_dec payload
  | _ -> "unknown-suite"

let () =
  let out = Buffer.create (1 lsl 20) in
  (try
     while true do
       let line = input_line stdin in
       match String.split_on_char '\t' line with
       | suite :: id :: rest ->
           let payload = String.concat "\t" rest in
           let r = try dispatch suite payload with e -> "driver-exception " ^ Printexc.to_string e in
           Buffer.add_string out id; Buffer.add_char out '\t'; Buffer.add_string out r; Buffer.add_char out '\n';
           if Buffer.length out > (1 lsl 20) then (print_string (Buffer.contents out); Buffer.clear out)
       | _ -> ()
     done
   with End_of_file -> ());
  print_string (Buffer.contents out)
