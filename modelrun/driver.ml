(* driver.ml — line-oriented runner around the extracted Coq model (model.ml).
   Reads case lines  "<suite>\t<id>\t<payload>"  on stdin and writes result
   lines "<id>\t<result>" on stdout.  This file only parses, dispatches and
   prints; every decision is taken by extracted code. *)
module M = Model

(* ---------- number conversions (Zarith only for decimal I/O) ------------- *)
let rec pos_of_zarith (v : Z.t) : M.positive =
  if Z.equal v Z.one then M.XH
  else if Z.testbit v 0 then M.XI (pos_of_zarith (Z.shift_right v 1))
  else M.XO (pos_of_zarith (Z.shift_right v 1))

let z_of_zarith (v : Z.t) : M.z =
  let s = Z.sign v in
  if s = 0 then M.Z0 else if s > 0 then M.Zpos (pos_of_zarith v) else M.Zneg (pos_of_zarith (Z.neg v))

let rec zarith_of_pos = function
  | M.XH -> Z.one
  | M.XO p -> Z.shift_left (zarith_of_pos p) 1
  | M.XI p -> Z.succ (Z.shift_left (zarith_of_pos p) 1)

let zarith_of_z = function
  | M.Z0 -> Z.zero
  | M.Zpos p -> zarith_of_pos p
  | M.Zneg p -> Z.neg (zarith_of_pos p)

let z_of_int (n : int) : M.z = z_of_zarith (Z.of_int n)
let int_of_z (v : M.z) : int = Z.to_int (zarith_of_z v)
let z_of_dec (s : string) : M.z = z_of_zarith (Z.of_string s)
let dec_of_z (v : M.z) : string = Z.to_string (zarith_of_z v)
let z_of_hex (s : string) : M.z = z_of_zarith (Z.of_string_base 16 s)
let hex16_of_z (v : M.z) : string =
  let s = Z.format "%x" (zarith_of_z v) in
  String.make (max 0 (16 - String.length s)) '0' ^ s

let rec nat_of_int n = if n <= 0 then M.O else M.S (nat_of_int (n - 1))
let rec int_of_nat = function M.O -> 0 | M.S n -> 1 + int_of_nat n

let byte_tab : M.z array = Array.init 256 z_of_int

let bytes_of_hex (s : string) : M.z list =
  let n = String.length s / 2 in
  List.init n (fun i -> byte_tab.(int_of_string ("0x" ^ String.sub s (2 * i) 2)))

let hex_of_bytes (bs : M.z list) : string =
  let b = Buffer.create 64 in
  List.iter (fun z ->
      let v = try int_of_z z with _ -> -1 in
      if v < 0 || v > 255 then Buffer.add_string b "??" else Buffer.add_string b (Printf.sprintf "%02x" v)) bs;
  Buffer.contents b

(* ---------- token syntax -------------------------------------------------
   [#<tag>]{<len>  }  [<len>  ]  n  s<hex>  x<hex>  bt bf  i<dec>  u<dec>  f<hex16> *)
let parse_token (w : string) : M.token =
  let tag, body =
    if String.length w > 0 && w.[0] = '#' then begin
      (* tag digits (possibly negative) run up to the first non-digit *)
      let i = ref 1 in
      if !i < String.length w && w.[!i] = '-' then incr i;
      while !i < String.length w && w.[!i] >= '0' && w.[!i] <= '9' do incr i done;
      (Some (z_of_dec (String.sub w 1 (!i - 1))), String.sub w !i (String.length w - !i))
    end else (None, w) in
  let rest = String.sub body 1 (String.length body - 1) in
  let tv = match body.[0] with
    | '{' -> M.MapOpen (z_of_dec rest)
    | '}' -> M.MapClose
    | '[' -> M.ArrOpen (z_of_dec rest)
    | ']' -> M.ArrClose
    | 'n' -> M.Null
    | 's' -> M.Str (bytes_of_hex rest)
    | 'x' -> M.Byt (bytes_of_hex rest)
    | 'b' -> M.Bool (rest = "t")
    | 'i' -> M.Int (z_of_dec rest)
    | 'u' -> M.Uint (z_of_dec rest)
    | 'f' -> M.Flt (z_of_hex rest)
    | c -> failwith (Printf.sprintf "bad token %c" c) in
  { M.tv = tv; M.tag = tag }

let print_token (t : M.token) : string =
  let tg = match t.M.tag with Some z -> "#" ^ dec_of_z z | None -> "" in
  tg ^ (match t.M.tv with
      | M.MapOpen l -> "{" ^ dec_of_z l
      | M.MapClose -> "}"
      | M.ArrOpen l -> "[" ^ dec_of_z l
      | M.ArrClose -> "]"
      | M.Null -> "n"
      | M.Str s -> "s" ^ hex_of_bytes s
      | M.Byt s -> "x" ^ hex_of_bytes s
      | M.Bool b -> if b then "bt" else "bf"
      | M.Int i -> "i" ^ dec_of_z i
      | M.Uint u -> "u" ^ dec_of_z u
      | M.Flt f -> "f" ^ hex16_of_z f)

let split_ws (s : string) : string list =
  List.filter (fun x -> x <> "") (String.split_on_char ' ' s)

let parse_tokens (s : string) : M.token list = List.map parse_token (split_ws s)
let print_tokens (ts : M.token list) : string = String.concat " " (List.map print_token ts)

let chunk_lens (cs : M.z list list) : string =
  if cs = [] then "-" else String.concat "," (List.map (fun c -> string_of_int (List.length c)) cs)

let hex_or_dash (bs : M.z list) : string = if bs = [] then "-" else hex_of_bytes bs

(* ---------- suites -------------------------------------------------------- *)

let ctx_verdict key ts =
  match M.ctx_run key [] ts M.O with
  | M.CRDone n -> Printf.sprintf "fin %d" (int_of_nat n)
  | M.CRErr n -> Printf.sprintf "err %d" (int_of_nat n)
  | M.CRStarved _ -> Printf.sprintf "starved %d" (List.length ts)

let derr_name = function M.EEof -> "eof" | M.EUnexpectedEof -> "ueof" | M.EMalformed -> "other"

(* cbor-enc: tokens -> "<class> <used> <hex> <chunklens> | <rfc hex or ->" *)
let run_cbor_enc (payload : string) : string =
  let ts = parse_tokens payload in
  let cls, out, used = match M.enc_tokens ts with
    | M.Finished (o, n) -> ("fin", o, int_of_nat n)
    | M.Errored (o, n) -> ("err", o, int_of_nat n)
    | M.Panicked (o, n) -> ("panic", o, int_of_nat n)
    | M.Starved (o, _) -> ("starved", o, List.length ts) in
  let spec = match M.unflatten ts with
    | Some n -> hex_of_bytes (M.rfc_enc n)
    | None -> "-" in
  let rt = if cls <> "fin" then "" else begin
    let bs = List.concat out @ [byte_tab.(1); byte_tab.(2)] in
    let total = List.length bs in
    match M.dec_run false bs with
    | M.DOk (toks, rest, _) -> Printf.sprintf " | rt: ok %d %s" (total - List.length rest) (print_tokens toks)
    | M.DFail (e, toks, _) -> Printf.sprintf " | rt: err %s %d" (derr_name e) (List.length toks)
    | _ -> " | rt: panic" end in
  Printf.sprintf "%s %d %s %s | %s%s | ctx: %s" cls used (hex_or_dash (List.concat out)) (chunk_lens out) spec rt
    (ctx_verdict M.key_cbor ts)

(* cbor-dec: "<coerce 0|1> <hex>" -> "ok <consumed> <tokens> | <alloc> | <spec>" / "err <class> <ntoks> | .." *)
let run_cbor_dec (payload : string) : string =
  let coerce, hex = match split_ws payload with
    | [c; h] -> (c = "1", h) | [c] -> (c = "1", "") | _ -> failwith "bad cbor-dec payload" in
  let bs = bytes_of_hex hex in
  let total = List.length bs in
  let left = match M.dec_run coerce bs with
    | M.DOk (toks, rest, alloc) ->
        Printf.sprintf "ok %d %s | %s" (total - List.length rest) (print_tokens toks) (dec_of_z alloc)
    | M.DFail (e, toks, alloc) -> Printf.sprintf "err %s %d | %s" (derr_name e) (List.length toks) (dec_of_z alloc)
    | M.DPanicked _ -> "panic | 0"
    | M.DOutOfFuel _ -> "hang | 0" in
  let spec = match M.parse_item coerce bs with
    | M.POk (n, rest) -> Printf.sprintf "ok %d %s" (total - List.length rest) (print_tokens (M.flatten n))
    | M.PErr e -> "err " ^ derr_name e
    | M.PFuel -> "fuel" in
  left ^ " | " ^ spec

(* optional bytes: "~" nil, "-" empty, else hex *)
let opt_bytes (s : string) : M.z list option =
  if s = "~" then None else if s = "-" then Some [] else Some (bytes_of_hex s)

(* float oracle "<bits16>:<digits>:<dp>,..." -> lookup function *)
let make_shortest (s : string) : M.z -> (M.z list * M.z) =
  let tbl = Hashtbl.create 16 in
  if s <> "-" then
    List.iter (fun ent ->
        match String.split_on_char ':' ent with
        | [b; ds; dp] ->
            let digits = List.init (String.length ds) (fun i -> z_of_int (Char.code ds.[i] - 48)) in
            Hashtbl.replace tbl (String.lowercase_ascii b) (digits, z_of_dec dp)
        | _ -> ()) (String.split_on_char ',' s);
  fun bits -> try Hashtbl.find tbl (hex16_of_z bits) with Not_found -> ([], M.Z0)

(* json-enc: "<line> <indent> <oracle>|<tokens>" *)
let run_json_enc (payload : string) : string =
  let i = String.index payload '|' in
  let head = String.sub payload 0 i and toks = String.sub payload (i + 1) (String.length payload - i - 1) in
  let line, indent, oracle = match split_ws head with
    | [l; ind; o] -> (opt_bytes l, opt_bytes ind, o) | _ -> failwith "bad json-enc head" in
  let ts = parse_tokens toks in
  let o = { M.jline = line; M.jindent = (match indent with Some b -> b | None -> []) } in
  let cls, out, used = match M.jenc_tokens (make_shortest oracle) o ts with
    | M.JFinished (c, n) -> ("fin", c, int_of_nat n)
    | M.JErrored (c, n) -> ("err", c, int_of_nat n)
    | M.JPanicked (c, n) -> ("panic", c, int_of_nat n)
    | M.JStarved (c, _) -> ("starved", c, List.length ts) in
  let repr = List.for_all (fun t -> M.json_repr t.M.tv) ts in
  let rt = if cls <> "fin" then "" else begin
    let bs = List.concat out @ List.map (fun c -> byte_tab.(Char.code c)) [' '; '['; '7'; ']'] in
    let total = List.length bs in
    match M.jdec_run bs with
    | M.JDOk (toks, rest) -> Printf.sprintf " | rt: ok @%d %s" (total - List.length rest) (print_tokens toks)
    | M.JDFail (e, toks) -> Printf.sprintf " | rt: err %s %d" (derr_name e) (List.length toks)
    | M.JDOutOfFuel _ -> " | rt: hang" end in
  Printf.sprintf "%s %d %s %s%s | ctx: %s | repr: %d" cls used (hex_or_dash (List.concat out)) (chunk_lens out) rt
    (ctx_verdict M.key_json ts) (if repr then 1 else 0)

let run_pretty_enc (payload : string) : string =
  let ts = parse_tokens payload in
  let (r, n) = M.penc_tokens ts in
  let cls = match r with M.RDone -> "fin" | M.RErr -> "err" | M.RPanic -> "panic" | M.RCont -> "starved" in
  Printf.sprintf "%s %d | ctx: %s" cls (if cls = "starved" then List.length ts else int_of_nat n) (ctx_verdict M.key_cbor ts)

(* json-dec: "<hex>" -> successive items "ok <tokens> ;; ... ;; err <class> <ntoks>" (at most 4 items) *)
let run_json_dec (payload : string) : string =
  let bs = bytes_of_hex (String.trim payload) in
  let total = List.length bs in
  let rec go k bs acc =
    if k = 0 then List.rev acc else
    match M.jdec_run bs with
    | M.JDOk (toks, rest) -> go (k - 1) rest ((Printf.sprintf "ok @%d %s" (total - List.length rest) (print_tokens toks)) :: acc)
    | M.JDFail (e, toks) -> List.rev ((Printf.sprintf "err %s %d" (derr_name e) (List.length toks)) :: acc)
    | M.JDOutOfFuel _ -> List.rev ("hang" :: acc) in
  let spec = match M.jparse_item true bs with
    | M.POk (n, rest) -> Printf.sprintf "ok @%d %s" (total - List.length rest) (print_tokens (M.flatten n))
    | M.PErr e -> "err " ^ derr_name e
    | M.PFuel -> "fuel" in
  String.concat " ;; " (go 4 bs []) ^ " | spec: " ^ spec

(* reader: "<hex data|-> | <schedule> | <ops>"
   schedule entries: <n> chunk, <n>E chunk reporting EOF with the last data, F fault ; ops: 1 b<k> u t s *)
let rerr_name = function M.REof -> "eof" | M.RUnexpectedEof -> "ueof" | M.RNoProgress -> "noprogress" | M.RFault -> "fault"

let parse_sched (s : string) : M.sched_entry list =
  List.map (fun w ->
      if w = "F" then M.SFault
      else if w = "Z" then M.SChunk (nat_of_int 0, false)
      else if String.length w > 0 && w.[String.length w - 1] = 'E'
      then M.SChunk (nat_of_int (int_of_string (String.sub w 0 (String.length w - 1))), true)
      else M.SChunk (nat_of_int (int_of_string w), false)) (split_ws s)

let parse_ops (s : string) : M.rop list =
  List.map (fun w ->
      match w.[0] with
      | '1' -> M.OpRead1
      | 'b' -> M.OpReadb (nat_of_int (int_of_string (String.sub w 1 (String.length w - 1))))
      | 'u' -> M.OpUnread
      | 't' -> M.OpTrack
      | 's' -> M.OpStopTrack
      | _ -> failwith "bad op") (split_ws s)

let print_routs (os : M.rout list) : string =
  String.concat " " (List.map (function
      | M.OByte b -> "1:" ^ hex_of_bytes [b]
      | M.OBytes bs -> "b:" ^ hex_or_dash bs
      | M.OErr e -> "!" ^ rerr_name e
      | M.OUnit -> "."
      | M.OPanic -> "!panic") os)

let run_reader (payload : string) : string =
  match String.split_on_char '|' payload with
  | [d; sc; ops] ->
      let data = let h = String.trim d in if h = "-" then [] else bytes_of_hex h in
      let ops = parse_ops ops in
      let (o1, s1) = M.run_ops (M.slick_init data (parse_sched sc)) ops in
      let (o2, s2) = M.run_ops_abs (M.astream_init data) ops in
      Printf.sprintf "%s @%s | abs: %s @%s" (print_routs o1) (dec_of_z s1.M.snum) (print_routs o2) (dec_of_z s2.M.anum)
  | _ -> failwith "bad reader payload"

(* sched-dec: "<c|j> <hex> | <schedule>" -> the decoders' result on the whole input (schedule-independent) *)
let run_sched_dec (payload : string) : string =
  let head = List.hd (String.split_on_char '|' payload) in
  match split_ws head with
  | fmt :: rest ->
      let hex = (match rest with h :: _ -> h | [] -> "") in
      let bs = if hex = "-" then [] else bytes_of_hex hex in
      let total = List.length bs in
      if fmt = "c" then
        (match M.dec_run false bs with
         | M.DOk (toks, rest, _) -> Printf.sprintf "ok @%d %s" (total - List.length rest) (print_tokens toks)
         | M.DFail (e, toks, _) -> Printf.sprintf "err %s %d" (derr_name e) (List.length toks)
         | M.DPanicked _ -> "panic" | M.DOutOfFuel _ -> "hang")
      else
        (match M.jdec_run bs with
         | M.JDOk (toks, rest) -> Printf.sprintf "ok @%d %s" (total - List.length rest) (print_tokens toks)
         | M.JDFail (e, toks) -> Printf.sprintf "err %s %d" (derr_name e) (List.length toks)
         | M.JDOutOfFuel _ -> "hang")
  | _ -> failwith "bad sched-dec payload"

(* wfault: "<c|j> <err|short|both> <stop|once> <k> | <tokens>"  (json: "<line> <indent> <oracle>|<tokens>" after the bar) *)
let run_wfault (payload : string) : string =
  let i = String.index payload '|' in
  let head = String.sub payload 0 i and body = String.sub payload (i + 1) (String.length payload - i - 1) in
  match split_ws head with
  | [fmt; kind; mode; k] ->
      let plan = { M.wk = nat_of_int (int_of_string k); M.wstop = (mode = "stop");
                   M.wkind = (match kind with "err" -> M.WErr | "short" -> M.WShort | _ -> M.WBoth) } in
      let r =
        if fmt = "c" then M.cbor_write_faulty plan (parse_tokens body)
        else begin
          let j = String.index body '|' in
          let jh = String.sub body 0 j and toks = String.sub body (j + 1) (String.length body - j - 1) in
          let line, indent, oracle = match split_ws jh with
            | [l; ind; o] -> (opt_bytes l, opt_bytes ind, o) | _ -> failwith "bad json head" in
          let o = { M.jline = line; M.jindent = (match indent with Some b -> b | None -> []) } in
          M.json_write_faulty (make_shortest oracle) o plan (parse_tokens toks)
        end in
      (match r with
       | M.WReported n -> Printf.sprintf "err %d" (int_of_nat n)
       | M.WTokenErr n -> Printf.sprintf "err %d" (int_of_nat n)
       | M.WFinished n -> Printf.sprintf "fin %d" (int_of_nat n)
       | M.WStarved -> "starved"
       | M.WPanic -> "panic")
  | _ -> failwith "bad wfault head"

(* whistory: "<c|j> <line> <indent> <oracle> ;; <kind> <mode> <k> | <tokens> ;; ..." : calls on one long-lived encoder *)
let run_whistory (payload : string) : string =
  let rec split_calls acc cur i =
    if i >= String.length payload then List.rev (Buffer.contents cur :: acc)
    else if i + 1 < String.length payload && payload.[i] = ';' && payload.[i + 1] = ';'
    then (let c = Buffer.contents cur in Buffer.clear cur; split_calls (c :: acc) cur (i + 2))
    else (Buffer.add_char cur payload.[i]; split_calls acc cur (i + 1)) in
  match split_calls [] (Buffer.create 256) 0 with
  | head :: calls ->
      let fmt, line, indent, oracle = match split_ws head with
        | [f; l; ind; o] -> (f, opt_bytes l, opt_bytes ind, o) | _ -> failwith "bad whistory head" in
      let parsed = List.map (fun c ->
          let i = String.index c '|' in
          let h = String.sub c 0 i and body = String.sub c (i + 1) (String.length c - i - 1) in
          match split_ws h with
          | [kind; mode; k] ->
              ({ M.wk = nat_of_int (int_of_string k); M.wstop = (mode = "stop");
                 M.wkind = (match kind with "err" -> M.WErr | "short" -> M.WShort | _ -> M.WBoth) }, parse_tokens body)
          | _ -> failwith "bad whistory call") calls in
      let rs =
        if fmt = "c" then M.history true (M.enc_init, false) parsed
        else
          let o = { M.jline = line; M.jindent = (match indent with Some b -> b | None -> []) } in
          M.jhistory (make_shortest oracle) o true (M.jenc_init, false) parsed in
      String.concat " ;; " (List.map (function
        | M.WReported n -> Printf.sprintf "err %d" (int_of_nat n)
        | M.WTokenErr n -> Printf.sprintf "err %d" (int_of_nat n)
        | M.WFinished n -> Printf.sprintf "fin %d" (int_of_nat n)
        | M.WStarved -> "starved"
        | M.WPanic -> "panic") rs)
  | [] -> failwith "bad whistory payload"

(* rfault: "<c|j> <hex> | <k> <stop|once>": the reader fails at byte offset k *)
let run_rfault (payload : string) : string =
  match String.split_on_char '|' payload with
  | [head; tail] ->
      let fmt, hex = (match split_ws head with [f; h] -> (f, h) | _ -> failwith "bad rfault head") in
      let k = int_of_string (List.hd (split_ws tail)) in
      let bs = bytes_of_hex hex in
      let pre = List.filteri (fun i _ -> i < k) bs in
      let total = List.length pre in
      let whole = run_sched_dec (fmt ^ " " ^ hex ^ " |") in
      let r =
        if fmt = "c" then
          (match M.dec_run false pre with
           | M.DOk (toks, rest, _) -> Printf.sprintf "ok @%d %s" (total - List.length rest) (print_tokens toks)
           | M.DFail (M.EMalformed, toks, _) -> Printf.sprintf "err other %d" (List.length toks)
           | M.DFail (_, toks, _) -> Printf.sprintf "err fault %d" (List.length toks)
           | _ -> "panic")
        else begin
          (* a fault met while a number is being scanned is reported as such: the decoder never gets to
             convert the digits read so far (unlike a genuine end of input).  So the digits at the cut
             are dropped before the prefix is read as a whole input. *)
          let is_num c = let c = int_of_z c in (c >= 48 && c <= 57) || c = 46 || c = 101 || c = 69 || c = 43 || c = 45 in
          let rec strip l = match l with c :: r when is_num c -> strip r | _ -> l in
          let stripped = List.rev (strip (List.rev pre)) in
          (* the run of number characters at the cut is a number only if it starts like one ("false" ends in 'e') *)
          let starts_number =
            (match List.filteri (fun i _ -> i = List.length stripped) pre with
             | [c] -> let c = int_of_z c in (c >= 48 && c <= 57) || c = 45
             | _ -> false) in
          let pre' = if k > 0 && k <= List.length bs && starts_number then stripped else pre in
          let in_number = List.length pre' < List.length pre in
          (match M.jdec_run pre' with
           | M.JDOk (toks, rest) ->
               if in_number then Printf.sprintf "err fault %d" (List.length toks)
               else Printf.sprintf "ok @%d %s" (total - List.length rest) (print_tokens toks)
           | M.JDFail (M.EMalformed, toks) -> Printf.sprintf "err other %d" (List.length toks)
           | M.JDFail (_, toks) -> Printf.sprintf "err fault %d" (List.length toks)
           | _ -> "hang")
        end in
      r ^ " | whole: " ^ whole
  | _ -> failwith "bad rfault payload"

(* transcode: "<j2c|c2j> <hex> [<float oracle>]" *)
let run_transcode (payload : string) : string =
  match split_ws payload with
  | dir :: hex :: rest ->
      let bs = if hex = "-" then [] else bytes_of_hex hex in
      let total = List.length bs in
      let oracle = (match rest with o :: _ -> o | [] -> "-") in
      let r = if dir = "j2c" then M.pump_j2c bs
        else M.pump_c2j (make_shortest oracle) { M.jline = None; M.jindent = [] } false bs in
      (match r with
       | M.PumpOk (out, rest) -> Printf.sprintf "ok %s @%d" (hex_or_dash out) (total - List.length rest)
       | M.PumpErr -> "err")
  | _ -> failwith "bad transcode payload"

(* tstream: "<j2c|c2j> <oracle> <piece>,<piece>,..." : each piece pumped on its own ("!hex": a piece that must fail) *)
let run_tstream (payload : string) : string =
  match split_ws payload with
  | [dir; oracle; ps] ->
      String.concat " ;; " (List.map (fun p ->
          if String.length p > 0 && p.[0] = '!' then "err"
          else begin
            let bs = bytes_of_hex p in
            let r = if dir = "j2c" then M.pump_j2c bs
              else M.pump_c2j (make_shortest oracle) { M.jline = None; M.jindent = [] } false bs in
            match r with
            | M.PumpOk (out, []) -> "ok " ^ hex_or_dash out
            | M.PumpOk (_, _) -> "rest"
            | M.PumpErr -> "err"
          end) (String.split_on_char ',' ps))
  | _ -> failwith "bad tstream payload"

(* ---------- s-expressions and the object-layer descriptors ------------------------ *)
type sx = A of string | L of sx list

let parse_sx (s : string) : sx list =
  let n = String.length s in
  let rec items i acc =
    if i >= n then (List.rev acc, i)
    else match s.[i] with
      | ' ' | '\t' -> items (i + 1) acc
      | '(' -> let (l, j) = items (i + 1) [] in items j (L l :: acc)
      | ')' -> (List.rev acc, i + 1)
      | _ ->
          let j = ref i in
          while !j < n && s.[!j] <> ' ' && s.[!j] <> '(' && s.[!j] <> ')' && s.[!j] <> '\t' do incr j done;
          items !j (A (String.sub s i (!j - i)) :: acc) in
  fst (items 0 [])

let ikind_of = function
  | "i8" -> M.I8 | "i16" -> M.I16 | "i32" -> M.I32 | "i64" -> M.I64 | "i" -> M.IInt
  | "u8" -> M.U8 | "u16" -> M.U16 | "u32" -> M.U32 | "u64" -> M.U64 | "u" -> M.UInt | "up" -> M.UPtr
  | k -> failwith ("ikind " ^ k)

let rec gtype_of (x : sx) : M.gtype =
  match x with
  | A "b" -> M.GBool | A "f32" -> M.GF32 | A "f64" -> M.GF64 | A "s" -> M.GStr | A "x" -> M.GBytes
  | A "a" -> M.GAny | A "bad" -> M.GBad | A "xo" -> M.GBytes
  | A k -> M.GNum (ikind_of k)
  | L [A "X"; A n] -> M.GByteArr (nat_of_int (int_of_string n))
  (* [n]Octet / []Octet (Octet a named uint8): the slab routes them by Kind to the bytes machines, the model reads them as [n]byte / []byte *)
  | L [A "XO"; A n] -> M.GByteArr (nat_of_int (int_of_string n))
  | L [A "sl"; t] -> M.GSlice (gtype_of t)
  | L [A "ar"; A n; t] -> M.GArr (nat_of_int (int_of_string n), gtype_of t)
  | L [A "mp"; k; v] -> M.GMap (gtype_of k, gtype_of v)
  | L [A "pt"; t] -> M.GPtr (gtype_of t)
  | L [A "st"; A id] -> M.GStruct (z_of_dec id)
  | L [A "nm"; A id; t] -> M.GNamed (z_of_dec id, gtype_of t)
  | L [A "if"; A id] -> M.GIface (z_of_dec id)
  | _ -> failwith "bad type"

let hexarg (s : string) : M.z list = if s = "-" then [] else bytes_of_hex s

let rec gval_of (x : sx) : M.gval =
  match x with
  | L [A "b"; A v] -> M.GVBool (v = "1")
  | L [A "n"; A v] -> M.VNum (z_of_dec v)
  | L [A "f"; A v] -> M.GVFlt (z_of_hex v)
  | L [A "s"; A v] -> M.GVStr (hexarg v)
  | L [A "x"; A "nil"] -> M.VBytes None
  | L [A "x"; A v] -> M.VBytes (Some (hexarg v))
  | L [A "X"; A v] -> M.VByteArr (hexarg v)
  | L [A "X"] -> M.VByteArr []
  | L [A "sl"; A "nil"] -> M.VSlice None
  | L (A "sl" :: items) -> M.VSlice (Some (List.map gval_of items))
  | L (A "ar" :: items) -> M.GVArr (List.map gval_of items)
  | L [A "mp"; A "nil"] -> M.GVMap None
  | L (A "mp" :: ents) -> M.GVMap (Some (List.map (function L [k; v] -> (gval_of k, gval_of v) | _ -> failwith "bad map entry") ents))
  | L [A "pt"; A "nil"] -> M.VPtr None
  | L [A "pt"; v] -> M.VPtr (Some (gval_of v))
  | L [A "a"; A "nil"] -> M.VAny None
  | L [A "a"; t; v] -> M.VAny (Some (gtype_of t, gval_of v))
  | L (A "st" :: fs) -> M.VStruct (List.map gval_of fs)
  | _ -> failwith "bad value"

let hex_or_dash_b (bs : M.z list) = if bs = [] then "-" else hex_of_bytes bs

let ikind_name = function
  | M.I8 -> "i8" | M.I16 -> "i16" | M.I32 -> "i32" | M.I64 -> "i64" | M.IInt -> "i"
  | M.U8 -> "u8" | M.U16 -> "u16" | M.U32 -> "u32" | M.U64 -> "u64" | M.UInt -> "u" | M.UPtr -> "up"

let rec print_gtype (t : M.gtype) : string =
  match t with
  | M.GBool -> "b" | M.GF32 -> "f32" | M.GF64 -> "f64" | M.GStr -> "s" | M.GBytes -> "x" | M.GAny -> "a" | M.GBad -> "bad"
  | M.GNum k -> ikind_name k
  | M.GByteArr n -> Printf.sprintf "(X %d)" (int_of_nat n)
  | M.GSlice t -> "(sl " ^ print_gtype t ^ ")"
  | M.GArr (n, t) -> Printf.sprintf "(ar %d %s)" (int_of_nat n) (print_gtype t)
  | M.GMap (k, v) -> "(mp " ^ print_gtype k ^ " " ^ print_gtype v ^ ")"
  | M.GPtr t -> "(pt " ^ print_gtype t ^ ")"
  | M.GStruct id -> "(st " ^ dec_of_z id ^ ")"
  | M.GNamed (id, u) -> "(nm " ^ dec_of_z id ^ " " ^ print_gtype u ^ ")"
  | M.GIface id -> "(if " ^ dec_of_z id ^ ")"

(* values are printed like the harness prints them: map entries sorted by their rendering *)
let rec print_gval (v : M.gval) : string =
  match v with
  | M.GVBool b -> if b then "(b 1)" else "(b 0)"
  | M.VNum z -> "(n " ^ dec_of_z z ^ ")"
  | M.GVFlt b -> "(f " ^ hex16_of_z b ^ ")"
  | M.GVStr s -> "(s " ^ hex_or_dash_b s ^ ")"
  | M.VBytes None -> "(x nil)"
  | M.VBytes (Some s) -> "(x " ^ hex_or_dash_b s ^ ")"
  | M.VByteArr s -> "(X " ^ hex_or_dash_b s ^ ")"
  | M.VSlice None -> "(sl nil)"
  | M.VSlice (Some l) -> "(" ^ String.concat " " ("sl" :: List.map print_gval l) ^ ")"
  | M.GVArr l -> "(" ^ String.concat " " ("ar" :: List.map print_gval l) ^ ")"
  | M.GVMap None -> "(mp nil)"
  | M.GVMap (Some es) ->
      let ents = List.sort compare (List.map (fun (k, x) -> "(" ^ print_gval k ^ " " ^ print_gval x ^ ")") es) in
      "(" ^ String.concat " " ("mp" :: ents) ^ ")"
  | M.VPtr None -> "(pt nil)"
  | M.VPtr (Some x) -> "(pt " ^ print_gval x ^ ")"
  | M.VAny None -> "(a nil)"
  | M.VAny (Some (t, x)) -> "(a " ^ print_gtype t ^ " " ^ print_gval x ^ ")"
  | M.VStruct fs -> "(" ^ String.concat " " ("st" :: List.map print_gval fs) ^ ")"
  | M.VBadV -> "?"

let env_of (x : sx) : (M.z * M.gtype list) list =
  match x with
  | L (A "env" :: ds) -> List.map (function L (A id :: fs) -> (z_of_dec id, List.map gtype_of fs) | _ -> failwith "bad env") ds
  | _ -> failwith "bad env"

let atlas_of (x : sx) : M.atlas =
  match x with
  | L (A "atlas" :: A mode :: es) ->
      let entry = function
        | L [A "e"; t; A tag; k] ->
            let kind = match k with
              | L (A "smap" :: fs) ->
                  M.EStruct (List.map (function
                      | L [A "fld"; A name; L route; ft; A omit; A ign] ->
                          { M.fe_name = hexarg name;
                            M.fe_route = List.map (function A i -> nat_of_int (int_of_string i) | _ -> failwith "route") route;
                            M.fe_type = gtype_of ft; M.fe_omit = (omit = "1"); M.fe_ignore = (ign = "1") }
                      | _ -> failwith "bad fld") fs)
              | L [A "tr"; A kind; w] -> M.ETransform (z_of_dec kind, gtype_of w)
              | L (A "un" :: ms) -> M.EUnion (List.map (function L [A name; mt] -> (hexarg name, gtype_of mt) | _ -> failwith "bad member") ms)
              | L [A "mm"; A m] -> M.EMapMorphism (z_of_dec m)
              | _ -> failwith "bad entry kind" in
            { M.ae_type = gtype_of t; M.ae_tag = (if tag = "-" then None else Some (z_of_dec tag)); M.ae_kind = kind }
        | _ -> failwith "bad entry" in
      { M.a_entries = List.map entry es; M.a_mode = z_of_dec mode }
  | _ -> failwith "bad atlas"

(* obj-marshal: "<env> <atlas> <type> <value>" *)
let run_obj_marshal (payload : string) : string =
  match parse_sx payload with
  | [e; a; t; v] ->
      (match M.marshal_top (env_of e) (atlas_of a) (gtype_of t) (gval_of v) with
       | M.MOk ts -> Printf.sprintf "ok %d | %s" (List.length ts) (print_tokens ts)
       | M.MErr [] -> "binderr 0 | "
       | M.MErr ts -> Printf.sprintf "err %d | %s" (List.length ts) (print_tokens ts)
       | M.MFuel -> "fuel")
  | _ -> failwith "bad obj-marshal payload"

(* obj-unmarshal: "<env> <atlas> <type> | <tokens>" *)
let run_obj_unmarshal (payload : string) : string =
  let i = String.index payload '|' in
  let head = String.sub payload 0 i and toks = String.sub payload (i + 1) (String.length payload - i - 1) in
  match parse_sx head with
  | [e; a; t] ->
      (match M.unmarshal_top (env_of e) (atlas_of a) (gtype_of t) (parse_tokens toks) with
       | M.UTBindErr -> "binderr"
       | M.UTDone (n, v) -> Printf.sprintf "done %d %s" (int_of_nat n) (print_gval v)
       | M.UTErr n -> Printf.sprintf "err %d" (int_of_nat n)
       | M.UTStarved -> "starved"
       | M.UTFuel -> "fuel")
  | _ -> failwith "bad obj-unmarshal payload"

(* roundtrip: "<c|j> <line> <indent> <oracle> ; <env> <atlas> <type> <value>" *)
let encode_tokens (fmt : string) (line, indent, oracle) (toks : M.token list) : M.z list option =
  if fmt = "c" then
    (match M.enc_tokens toks with
     | M.Finished (chunks, n) when int_of_nat n = List.length toks -> Some (List.concat chunks)
     | _ -> None)
  else
    let o = { M.jline = line; M.jindent = (match indent with Some b -> b | None -> []) } in
    (match M.jenc_tokens (make_shortest oracle) o toks with
     | M.JFinished (chunks, n) when int_of_nat n = List.length toks -> Some (List.concat chunks)
     | _ -> None)

let decode_tokens (fmt : string) (bs : M.z list) : M.token list option =
  if fmt = "c" then
    (match M.dec_run false bs with M.DOk (toks, _, _) -> Some toks | _ -> None)
  else
    (match M.jdec_run bs with M.JDOk (toks, _) -> Some toks | _ -> None)

let run_roundtrip (payload : string) : string =
  let i = String.index payload ';' in
  let head = String.sub payload 0 i and rest = String.sub payload (i + 1) (String.length payload - i - 1) in
  let fmt, opts = match split_ws head with
    | [f; l; ind; o] -> (f, (opt_bytes l, opt_bytes ind, o)) | _ -> failwith "bad roundtrip head" in
  match parse_sx rest with
  | [e; a; t; v] ->
      let env = env_of e and atl = atlas_of a and ty = gtype_of t in
      (match M.marshal_top env atl ty (gval_of v) with
       | M.MOk toks ->
           (match encode_tokens fmt opts toks with
            | None -> "merr"
            | Some bs ->
                (match decode_tokens fmt bs with
                 | None -> "uerr " ^ hex_or_dash bs
                 | Some toks2 ->
                     (match M.unmarshal_top env atl ty toks2 with
                      | M.UTDone (n, x) when int_of_nat n = List.length toks2 ->
                          Printf.sprintf "ok %s %s" (hex_or_dash bs) (print_gval x)
                      | _ -> "uerr " ^ hex_or_dash bs)))
       | M.MErr _ -> "merr"
       | M.MFuel -> "fuel")
  | _ -> failwith "bad roundtrip payload"

(* marshal a value held in an interface{} variable (refmt.Marshal(x)): Bind sees the dynamic value *)
let marshal_dynamic env atl (x : M.gval) : M.mres =
  match x with
  | M.VAny (Some (dt, dv)) -> M.marshal_top env atl dt dv
  | M.VAny None -> M.MOk [ { M.tv = M.Null; M.tag = None } ]
  | _ -> M.MErr []

let unmarshal_all env atl ty fmt bs : M.gval option =
  match decode_tokens fmt bs with
  | None -> None
  | Some toks ->
      (match M.unmarshal_top env atl ty toks with
       | M.UTDone (n, x) when int_of_nat n = List.length toks -> Some x
       | _ -> None)

(* remarshal: same payload as roundtrip *)
let run_remarshal (payload : string) : string =
  let i = String.index payload ';' in
  let head = String.sub payload 0 i and rest = String.sub payload (i + 1) (String.length payload - i - 1) in
  let fmt, opts = match split_ws head with
    | [f; l; ind; o] -> (f, (opt_bytes l, opt_bytes ind, o)) | _ -> failwith "bad remarshal head" in
  match parse_sx rest with
  | [e; a; t; v] ->
      let env = env_of e and atl = atlas_of a and ty = gtype_of t in
      let enc r = match r with M.MOk toks -> encode_tokens fmt opts toks | _ -> None in
      (match enc (M.marshal_top env atl ty (gval_of v)) with
       | None -> "err1"
       | Some d ->
         (match unmarshal_all env atl M.GAny fmt d with
          | None -> "err2 d=" ^ hex_or_dash d
          | Some x ->
            (match enc (marshal_dynamic env atl x) with
             | None -> "err3 d=" ^ hex_or_dash d
             | Some d1 ->
               (match unmarshal_all env atl ty fmt d1 with
                | None -> Printf.sprintf "err4 d=%s d1=%s" (hex_or_dash d) (hex_or_dash d1)
                | Some back ->
                  (match unmarshal_all env atl M.GAny fmt d1 with
                   | None -> "err5"
                   | Some x1 ->
                     (match enc (marshal_dynamic env atl x1) with
                      | None -> "err6"
                      | Some d2 ->
                          Printf.sprintf "ok d=%s d1=%s back=%s fix=%d" (hex_or_dash d) (hex_or_dash d1) (print_gval back)
                            (if d1 = d2 then 1 else 0)))))))
  | _ -> failwith "bad remarshal payload"

(* clone: "<env> <atlas> <type> <value>": the marshaller's tokens fed straight to the unmarshaller *)
let run_clone (payload : string) : string =
  match parse_sx payload with
  | [e; a; t; v] ->
      let env = env_of e and atl = atlas_of a and ty = gtype_of t in
      (match M.marshal_top env atl ty (gval_of v) with
       | M.MOk toks ->
           (match M.unmarshal_top env atl ty toks with
            | M.UTDone (n, x) when int_of_nat n = List.length toks -> "ok " ^ print_gval x
            | _ -> "err")
       | _ -> "err")
  | _ -> failwith "bad clone payload"

(* cbor-tags: "<env> <atlas> | <hex>" *)
let run_cbor_tags (payload : string) : string =
  let i = String.index payload '|' in
  let head = String.sub payload 0 i and hx = String.trim (String.sub payload (i + 1) (String.length payload - i - 1)) in
  match parse_sx head with
  | [e; a] ->
      let bs = if hx = "-" then [] else bytes_of_hex hx in
      (match M.dec_run false bs with
       | M.DOk (toks, _, _) ->
           (match M.unmarshal_top (env_of e) (atlas_of a) M.GAny toks with
            | M.UTDone (n, x) when int_of_nat n = List.length toks -> "ok " ^ print_gval x
            | _ -> "err")
       | _ -> "err")
  | _ -> failwith "bad cbor-tags payload"

(* history: "<c|j> ; <env> <atlas> ; (it T V) ..." *)
let run_history (payload : string) : string =
  match String.split_on_char ';' payload with
  | f :: hd :: rest ->
      let fmt = String.trim f in
      let items = parse_sx (String.concat ";" rest) in
      (match parse_sx hd with
       | [e; a] ->
           let env = env_of e and atl = atlas_of a in
           let opts = (None, None, "-") in
           let its = List.map (function L [A "it"; t; v] -> (gtype_of t, gval_of v) | _ -> failwith "bad item") items in
           let ms = List.map (fun (t, v) ->
               match M.marshal_top env atl t v with
               | M.MOk toks -> (match encode_tokens fmt opts toks with Some bs -> Some (t, v, bs) | None -> None)
               | _ -> None) its in
           let mouts = List.map (function Some (_, _, bs) -> "m:" ^ hex_or_dash bs | None -> "merr") ms in
           let uouts = List.filter_map (function
               | Some (t, _, bs) ->
                   Some (match unmarshal_all env atl t fmt bs with Some x -> "u:" ^ print_gval x | None -> "uerr")
               | None -> None) ms in
           let couts = List.map (fun (t, v) ->
               match M.marshal_top env atl t v with
               | M.MOk toks ->
                   (match M.unmarshal_top env atl t toks with
                    | M.UTDone (n, x) when int_of_nat n = List.length toks -> "c:" ^ print_gval x
                    | _ -> "cerr")
               | _ -> "cerr") its in
           String.concat " ;; " (mouts @ uouts @ couts)
       | _ -> failwith "bad history header")
  | _ -> failwith "bad history payload"


(* conc: "<fmt> ; <env> <atlas> ; <items> ; <T | tokens || ...>" — what sequential execution gives *)
let run_conc (payload : string) : string =
  match String.split_on_char ';' payload with
  | [f; hd; items; docs] ->
      let base = run_history (String.concat ";" [f; hd; items]) in
      (match parse_sx hd with
       | [e; a] ->
           let env = env_of e and atl = atlas_of a in
           let ds = List.filter (fun d -> String.trim d <> "")
               (let rec split acc cur i =
                  if i >= String.length docs then List.rev (Buffer.contents cur :: acc)
                  else if i + 1 < String.length docs && docs.[i] = '|' && docs.[i + 1] = '|'
                  then (let c = Buffer.contents cur in Buffer.clear cur; split (c :: acc) cur (i + 2))
                  else (Buffer.add_char cur docs.[i]; split acc cur (i + 1)) in
                split [] (Buffer.create 256) 0) in
           let douts = List.map (fun d ->
               let i = String.index d '|' in
               let t = match parse_sx (String.sub d 0 i) with [t] -> gtype_of t | _ -> failwith "doc type" in
               let toks = parse_tokens (String.sub d (i + 1) (String.length d - i - 1)) in
               match M.unmarshal_top env atl t toks with
               | M.UTDone (n, x) when int_of_nat n = List.length toks -> "d:" ^ print_gval x
               | _ -> "derr") ds in
           String.concat " ;; " (base :: douts)
       | _ -> failwith "bad conc header")
  | _ -> failwith "bad conc payload"

(* maporder: same payload as roundtrip; the model's bytes *)
let run_maporder (payload : string) : string =
  let i = String.index payload ';' in
  let head = String.sub payload 0 i and rest = String.sub payload (i + 1) (String.length payload - i - 1) in
  let fmt, opts = match split_ws head with
    | [f; l; ind; o] -> (f, (opt_bytes l, opt_bytes ind, o)) | _ -> failwith "bad maporder head" in
  match parse_sx rest with
  | [e; a; t; v] ->
      (match M.marshal_top (env_of e) (atlas_of a) (gtype_of t) (gval_of v) with
       | M.MOk toks -> (match encode_tokens fmt opts toks with Some bs -> "ok " ^ hex_or_dash bs | None -> "merr")
       | _ -> "merr")
  | _ -> failwith "bad maporder payload"

(* untrusted: "<c|j> <u|p> <env> <atlas> <type> | <hex>" -> "<class> req=<requested allocation of the decoder model>" *)
let run_untrusted (payload : string) : string =
  let i = String.index payload '|' in
  let head = String.trim (String.sub payload 0 i) and hx = String.trim (String.sub payload (i + 1) (String.length payload - i - 1)) in
  let fmt = String.sub head 0 1 and mode = String.lowercase_ascii (String.sub head 2 1) in
  let rest = String.sub head 4 (String.length head - 4) in
  let bs = if hx = "-" then [] else bytes_of_hex hx in
  match parse_sx rest with
  | [e; a; t] ->
      let toks, req =
        if fmt = "c" then (match M.dec_run false bs with
            | M.DOk (toks, _, al) -> (Some toks, al) | M.DFail (_, _, al) -> (None, al) | _ -> (None, M.Z0))
        else (match M.jdec_run bs with M.JDOk (toks, _) -> (Some toks, M.Z0) | _ -> (None, M.Z0)) in
      let cls = match toks with
        | None -> "err"
        | Some toks ->
            if mode = "p" || mode = "t" || mode = "w" then
              (* t / w: into the JSON encoder with indentation options, from either format *)
              (if fmt = "c" || mode <> "p" then (match M.jenc_tokens (fun _ -> ([byte_tab.(1)], M.Zpos M.XH)) { M.jline = None; M.jindent = [] } toks with
                   | M.JFinished (_, n) when int_of_nat n = List.length toks -> "ok" | _ -> "err")
               else (match M.enc_tokens toks with
                   | M.Finished (_, n) when int_of_nat n = List.length toks -> "ok" | _ -> "err"))
            else
              (match M.unmarshal_top (env_of e) (atlas_of a) (gtype_of t) toks with
               | M.UTDone (n, _) when int_of_nat n = List.length toks -> "ok"
               | M.UTFuel -> "fuel"
               | _ -> "err") in
      Printf.sprintf "%s req=%s" cls (dec_of_z req)
  | _ -> failwith "bad untrusted payload"

(* wirenum: "<c|j> <kind> <decimal>" *)
let run_wirenum (payload : string) : string =
  match split_ws payload with
  | [fmt; kind; dec] ->
      let z = Z.of_string dec in
      let bs : M.z list option =
        if fmt = "j" then Some (List.map (fun c -> byte_tab.(Char.code c)) (List.init (String.length dec) (String.get dec)))
        else begin
          let major, arg = if Z.sign z < 0 then (0x20, Z.pred (Z.neg z)) else (0x00, z) in
          if Z.numbits arg > 64 then None else begin
            let be n = List.init n (fun i -> byte_tab.(Z.to_int (Z.logand (Z.shift_right arg (8 * (n - 1 - i))) (Z.of_int 255)))) in
            Some (if Z.lt arg (Z.of_int 24) then [byte_tab.(major lor Z.to_int arg)]
                  else if Z.numbits arg <= 8 then byte_tab.(major lor 24) :: be 1
                  else if Z.numbits arg <= 16 then byte_tab.(major lor 25) :: be 2
                  else if Z.numbits arg <= 32 then byte_tab.(major lor 26) :: be 4
                  else byte_tab.(major lor 27) :: be 8)
          end
        end in
      (match bs with
       | None -> "nowire"
       | Some bs ->
           let ty = gtype_of (List.hd (parse_sx kind)) in
           (match unmarshal_all [] { M.a_entries = []; M.a_mode = M.Z0 } ty fmt bs with
            | Some x -> "done " ^ print_gval x ^ " " ^ hex_or_dash bs
            | None -> "err " ^ hex_or_dash bs))
  | _ -> failwith "bad wirenum payload"


(* autogen: "<family>|<root id>|<senv>|<env>|<seeds>|<values>" *)
let senv_of (x : sx) : (M.z * M.sfield list) list =
  match x with
  | L (A "senv" :: ds) ->
      List.map (function
          | L (A id :: fs) ->
              (z_of_dec id,
               List.map (function
                   | L [A "f"; A name; A exp; A anon; A tag; t] ->
                       { M.sf_name = hexarg name; M.sf_exported = (exp = "1"); M.sf_anon = (anon = "1");
                         M.sf_tag = hexarg tag; M.sf_type = gtype_of t }
                   | _ -> failwith "bad sfield") fs)
          | _ -> failwith "bad senv") ds
  | _ -> failwith "bad senv"

let print_cands (cs : M.cand list) : string =
  String.concat " " (List.map (fun c ->
      Printf.sprintf "(fld %s (%s) %s %d 0)" (hex_or_dash_b c.M.c_name)
        (String.concat " " (List.map (fun n -> string_of_int (int_of_nat n)) c.M.c_route))
        (print_gtype c.M.c_type) (if c.M.c_omit then 1 else 0)) cs)

let run_autogen (payload : string) : string =
  match String.split_on_char '|' payload with
  | [_fam; root; senv_s; env_s; _seeds; vals] ->
      let senv = match parse_sx senv_s with [x] -> senv_of x | _ -> failwith "senv" in
      let env = match parse_sx env_s with [x] -> env_of x | _ -> failwith "env" in
      let root = z_of_dec root in
      let modes = List.map (fun m ->
          Printf.sprintf "m%d=%s" m (print_cands (M.explore senv root (z_of_int m)))) [0; 1; 2] in
      let spec = List.for_all (fun m -> M.explore_matches_spec senv root (z_of_int m)) [0; 1; 2] in
      let atl = { M.a_entries = List.map (fun (id, _) -> M.autogen_entry senv id (z_of_int 0)) senv; M.a_mode = z_of_int 0 } in
      let vs = List.mapi (fun k v ->
          let r = match M.marshal_top env atl (M.GStruct root) (gval_of v) with
            | M.MOk ts -> Printf.sprintf "ok %d | %s" (List.length ts) (print_tokens ts)
            | M.MErr [] -> "binderr 0 | "
            | M.MErr ts -> Printf.sprintf "err %d | %s" (List.length ts) (print_tokens ts)
            | M.MFuel -> "fuel" in
          Printf.sprintf "v%d=%s" k r) (parse_sx vals) in
      String.concat ";" (modes @ [Printf.sprintf "spec=%d" (if spec then 1 else 0)] @ vs)
  | _ -> failwith "bad autogen payload"

let dispatch (suite : string) (payload : string) : string =
  match suite with
  | "wirenum" -> run_wirenum payload
  | "autogen" -> run_autogen payload
  | "conc" -> run_conc payload
  | "untrusted" -> run_untrusted payload
  | "maporder" -> run_maporder payload
  | "remarshal" -> run_remarshal payload
  | "clone" -> run_clone payload
  | "cbor-tags" -> run_cbor_tags payload
  | "history" -> run_history payload
  | "roundtrip" -> run_roundtrip payload
  | "obj-marshal" -> run_obj_marshal payload
  | "obj-unmarshal" -> run_obj_unmarshal payload
  | "transcode" -> run_transcode payload
  | "tstream" -> run_tstream payload
  | "wfault" -> run_wfault payload
  | "whistory" -> run_whistory payload
  | "rfault" -> run_rfault payload
  | "sched-dec" -> run_sched_dec payload
  | "reader" -> run_reader payload
  | "json-dec" -> run_json_dec payload
  | "json-enc" -> run_json_enc payload
  | "pretty-enc" -> run_pretty_enc payload
  | "cbor-enc" -> run_cbor_enc payload
  | "cbor-dec" -> run_cbor_dec payload
  | _ -> "unknown-suite"

let () =
  let out = Buffer.create (1 lsl 20) in
  (try
     while true do
       let line = input_line stdin in
       match String.split_on_char '\t' line with
       | suite :: id :: rest ->
           let payload = String.concat "\t" rest in
           let r = try dispatch suite payload with e -> "driver-exception " ^ Printexc.to_string e in
           Buffer.add_string out id; Buffer.add_char out '\t'; Buffer.add_string out r; Buffer.add_char out '\n';
           if Buffer.length out > (1 lsl 20) then (print_string (Buffer.contents out); Buffer.clear out)
       | _ -> ()
     done
   with End_of_file -> ());
  print_string (Buffer.contents out)
