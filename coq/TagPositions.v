(* TagPositions.v — C20, "wherever the value occurs": the token stream of a container is cut into the
   segments of its members, each segment being what [marshal] yields for that member alone; a member of a
   type registered with a tag — directly or behind any number of pointers — therefore starts with exactly
   that tag (or is the single token null, when a pointer on the way is nil), as a slice / array element,
   a map value, a struct field, behind pointers and inside an untyped slot. *)
From Coq Require Import List ZArith Bool Lia.
Require Import Tok TokGrammar GoVal Marshal Unmarshal ObjProof TagProof.
Import ListNotations.
Open Scope Z_scope.

Definition ptrs (n : nat) (t : gtype) : gtype := Nat.iter n GPtr t.

Definition tagged_start (tg : Z) (ts : list token) : Prop := exists v0 r, ts = Tok v0 (Some tg) :: r.

(* what a position holding a (pointer to a ...) tagged type may show: its tag first, or the lone null of a nil pointer *)
Definition tag_or_null (tg : Z) (ts : list token) : Prop := ts = [Tok Null None] \/ tagged_start tg ts.

Lemma peel_ptrs n t : peel t = (O, t) -> peel (ptrs n t) = (n, t).
Proof.
  intros H. induction n as [|n IH]; [exact H|].
  change (ptrs (S n) t) with (GPtr (ptrs n t)).
  change (peel (GPtr (ptrs n t))) with (let '(k, b) := peel (ptrs n t) in (S k, b)).
  rewrite IH. reflexivity.
Qed.

(* ---------------------------------------------------------------------- *)
(* behind pointers, inside an untyped slot                                  *)
(* ---------------------------------------------------------------------- *)

Theorem tagged_behind_pointers : forall A f n t v ts e tg,
  peel t = (O, t) -> is_unnamed_prim t = false -> atlas_get A t = Some e -> ae_tag e = Some tg ->
  (match ae_kind e with EStruct _ | ETransform _ _ => True | _ => False end) ->
  marshal A f (ptrs n t) v = MOk ts ->
  (ts = [Tok Null None] /\ deref n v = None) \/ tagged_start tg ts.
Proof.
  intros A [|f] n t v ts e tg Hpeel Hp Hg Ht Hk H; [discriminate|].
  rewrite marshal_S, (peel_ptrs n t Hpeel) in H.
  destruct (deref n v) as [bv|] eqn:D.
  - right. eapply tagged_type_emits_tag; eauto.
  - left. inversion H. split; reflexivity.
Qed.

Corollary tagged_position : forall A f n t v ts e tg,
  peel t = (O, t) -> is_unnamed_prim t = false -> atlas_get A t = Some e -> ae_tag e = Some tg ->
  (match ae_kind e with EStruct _ | ETransform _ _ => True | _ => False end) ->
  marshal A f (ptrs n t) v = MOk ts -> tag_or_null tg ts.
Proof.
  intros A f n t v ts e tg H1 H2 H3 H4 H5 H.
  destruct (tagged_behind_pointers _ _ _ _ _ _ _ _ H1 H2 H3 H4 H5 H) as [[-> _]|Hs]; [left; reflexivity|right; exact Hs].
Qed.

Theorem tagged_in_untyped_slot : forall A f n t v ts e tg,
  peel t = (O, t) -> is_unnamed_prim t = false -> atlas_get A t = Some e -> ae_tag e = Some tg ->
  (match ae_kind e with EStruct _ | ETransform _ _ => True | _ => False end) ->
  marshal_kind A f GAny (VAny (Some (ptrs n t, v))) = MOk ts -> tag_or_null tg ts.
Proof.
  intros A [|f] n t v ts e tg H1 H2 H3 H4 H5 H; [discriminate|].
  rewrite marshal_kind_S in H. eapply tagged_position; eauto.
Qed.

Theorem tagged_in_interface_slot : forall A f i n t v ts e tg,
  peel t = (O, t) -> is_unnamed_prim t = false -> atlas_get A t = Some e -> ae_tag e = Some tg ->
  (match ae_kind e with EStruct _ | ETransform _ _ => True | _ => False end) ->
  marshal_kind A f (GIface i) (VAny (Some (ptrs n t, v))) = MOk ts -> tag_or_null tg ts.
Proof.
  intros A [|f] i n t v ts e tg H1 H2 H3 H4 H5 H; [discriminate|].
  rewrite marshal_kind_S in H. eapply tagged_position; eauto.
Qed.

(* ---------------------------------------------------------------------- *)
(* segmentation of containers                                               *)
(* ---------------------------------------------------------------------- *)

Lemma items_segments A et : forall items f ts,
  marshal_items A f et items = MOk ts ->
  exists segs, ts = concat segs ++ [Tok ArrClose None] /\
    Forall2 (fun x seg => exists f', marshal A f' et x = MOk seg) items segs.
Proof.
  induction items as [|x r IH]; intros [|f] ts H; try discriminate; rewrite marshal_items_S in H.
  - inversion H. exists []. split; [reflexivity|constructor].
  - apply mseq_ok in H. destruct H as (ts1 & H1 & H2).
    apply mprepend_ok in H2. destruct H2 as (ts' & H2 & ->).
    destruct (IH _ _ H2) as (segs & -> & HF).
    exists (ts1 :: segs). split.
    + cbn [concat]. rewrite app_assoc. reflexivity.
    + constructor; [exists f; exact H1|exact HF].
Qed.

Lemma Forall2_len {X Y} (R : X -> Y -> Prop) l l' : Forall2 R l l' -> length l = length l'.
Proof. induction 1; cbn [length]; congruence. Qed.

Lemma filter_all {X} (p : X -> bool) l : (forall x, In x l -> p x = true) -> filter p l = l.
Proof.
  induction l as [|x l IH]; intros H; [reflexivity|]. cbn [filter].
  rewrite (H x (or_introl eq_refl)), IH; [reflexivity|]. intros y Hy. apply H. right. exact Hy.
Qed.

Definition entry_tokens (ks : bytes * list token) : list token := Tok (Str (fst ks)) None :: snd ks.

Lemma entries_segments A vt : forall es f ts,
  marshal_entries A f vt es = MOk ts ->
  exists segs, ts = concat (map entry_tokens segs) ++ [Tok MapClose None] /\
    Forall2 (fun kx ks => fst kx = fst ks /\ exists f', marshal A f' vt (snd kx) = MOk (snd ks)) es segs.
Proof.
  induction es as [|[k x] r IH]; intros [|f] ts H; try discriminate; rewrite marshal_entries_S in H.
  - inversion H. exists []. split; [reflexivity|constructor].
  - apply mprepend_ok in H. destruct H as (t0 & H & ->).
    apply mseq_ok in H. destruct H as (ts1 & H1 & H2).
    apply mprepend_ok in H2. destruct H2 as (ts' & H2 & ->).
    destruct (IH _ _ H2) as (segs & -> & HF).
    exists ((k, ts1) :: segs). split.
    + cbn [map concat entry_tokens fst snd app]. rewrite <- app_assoc. reflexivity.
    + constructor; [split; [reflexivity|exists f; exact H1]|exact HF].
Qed.

Definition field_tokens (fs : field_entry * list token) : list token := Tok (Str (fe_name (fst fs))) None :: snd fs.

Lemma fields_segments A v : forall fields f ts,
  marshal_fields A f fields v = MOk ts ->
  exists segs, ts = concat (map field_tokens segs) ++ [Tok MapClose None] /\
    map fst segs = filter (has_route v) fields /\
    Forall (fun fs => exists fv f', traverse (fe_route (fst fs)) v = Some fv /\
                                    marshal A f' (fe_type (fst fs)) fv = MOk (snd fs)) segs.
Proof.
  induction fields as [|fe r IH]; intros [|f] ts H; try discriminate; rewrite marshal_fields_S in H.
  - inversion H. exists []. repeat split; constructor.
  - cbn [filter]. unfold has_route at 1. destruct (traverse (fe_route fe) v) as [fv|] eqn:T.
    + apply mprepend_ok in H. destruct H as (t0 & H & ->).
      apply mseq_ok in H. destruct H as (ts1 & H1 & H2).
      apply mprepend_ok in H2. destruct H2 as (ts' & H2 & ->).
      destruct (IH _ _ H2) as (segs & -> & HM & HF).
      exists ((fe, ts1) :: segs). split; [|split].
      * cbn [map concat field_tokens fst snd app]. rewrite <- app_assoc. reflexivity.
      * cbn [map fst]. rewrite HM. reflexivity.
      * constructor; [exists fv, f; split; assumption|exact HF].
    + destruct (IH _ _ H) as (segs & -> & HM & HF). exists segs. repeat split; assumption.
Qed.

(* ---------------------------------------------------------------------- *)
(* every position                                                           *)
(* ---------------------------------------------------------------------- *)

Section Positions.
  Variables (A : atlas) (t : gtype) (e : atlas_entry) (tg : Z) (n : nat).
  Hypothesis Hpeel : peel t = (O, t).
  Hypothesis Hprim : is_unnamed_prim t = false.
  Hypothesis Hget : atlas_get A t = Some e.
  Hypothesis Htag : ae_tag e = Some tg.
  Hypothesis Hkind : match ae_kind e with EStruct _ | ETransform _ _ => True | _ => False end.

  Let pos f v ts (H : marshal A f (ptrs n t) v = MOk ts) : tag_or_null tg ts :=
    tagged_position A f n t v ts e tg Hpeel Hprim Hget Htag Hkind H.

  Lemma segs_tagged items segs :
    Forall2 (fun x seg => exists f', marshal A f' (ptrs n t) x = MOk seg) items segs ->
    length segs = length items /\ Forall (tag_or_null tg) segs.
  Proof.
    induction 1 as [|x seg items segs (f' & Hx) _ IH]; [split; constructor|].
    destruct IH as (L & F). split; [cbn [length]; rewrite L; reflexivity|].
    constructor; [exact (pos _ _ _ Hx)|exact F].
  Qed.

  (* slice elements *)
  Theorem tagged_as_slice_element : forall f items ts,
    marshal_kind A f (GSlice (ptrs n t)) (VSlice (Some items)) = MOk ts ->
    exists segs, ts = Tok (ArrOpen (Z.of_nat (length items))) None :: concat segs ++ [Tok ArrClose None] /\
      length segs = length items /\ Forall (tag_or_null tg) segs.
  Proof.
    intros [|f] items ts H; [discriminate|]. rewrite marshal_kind_S in H.
    apply mprepend_ok in H. destruct H as (ts' & H & ->).
    destruct (items_segments _ _ _ _ _ H) as (segs & -> & HF).
    exists segs. split; [reflexivity|]. exact (segs_tagged _ _ HF).
  Qed.

  (* array elements *)
  Theorem tagged_as_array_element : forall f k items ts,
    marshal_kind A f (GArr k (ptrs n t)) (GVArr items) = MOk ts ->
    exists segs, ts = Tok (ArrOpen (Z.of_nat (length items))) None :: concat segs ++ [Tok ArrClose None] /\
      length segs = length items /\ Forall (tag_or_null tg) segs.
  Proof.
    intros [|f] k items ts H; [discriminate|]. rewrite marshal_kind_S in H.
    apply mprepend_ok in H. destruct H as (ts' & H & ->).
    destruct (items_segments _ _ _ _ _ H) as (segs & -> & HF).
    exists segs. split; [reflexivity|]. exact (segs_tagged _ _ HF).
  Qed.

  (* map values (plain maps and maps with a morphism entry alike: both go through marshal_map) *)
  Theorem tagged_as_map_value : forall f mode kt es ts,
    marshal_map A f mode kt (ptrs n t) (Some es) = MOk ts ->
    exists segs, ts = Tok (MapOpen (Z.of_nat (length es))) None :: concat (map entry_tokens segs) ++ [Tok MapClose None] /\
      length segs = length es /\ Forall (fun ks => tag_or_null tg (snd ks)) segs.
  Proof.
    intros [|f] mode kt es ts H; [discriminate|]. rewrite marshal_map_S in H.
    destruct (map_stringer A kt) as [str|]; [|discriminate]. cbv zeta in H.
    destruct (existsb _ _); [discriminate|].
    apply mprepend_ok in H. destruct H as (ts' & H & ->).
    destruct (entries_segments _ _ _ _ _ H) as (segs & -> & HF).
    exists segs. split; [reflexivity|].
    assert (L : length segs = length (map_sorted mode (map_keyed str es))) by (symmetry; eapply Forall2_len; exact HF).
    rewrite map_sorted_length in L. split; [exact L|].
    clear L H. induction HF as [|kx ks l l' (_ & f' & Hx) _ IH]; constructor; [exact (pos _ _ _ Hx)|exact IH].
  Qed.

  (* struct fields: every emitted field whose declared type is (a pointer to ...) the tagged type *)
  Theorem tagged_as_struct_field : forall f se fields v ts,
    ae_kind se = EStruct fields ->
    marshal_entry A f se v = MOk ts ->
    exists segs, ts = Tok (MapOpen (Z.of_nat (length (live_fields fields v)))) (ae_tag se)
                        :: concat (map field_tokens segs) ++ [Tok MapClose None] /\
      map fst segs = live_fields fields v /\
      Forall (fun fs => fe_type (fst fs) = ptrs n t -> tag_or_null tg (snd fs)) segs.
  Proof.
    intros [|f] se fields v ts K H; [discriminate|]. rewrite marshal_entry_S, K in H. cbv zeta in H.
    apply mprepend_ok in H. destruct H as (ts' & H & ->).
    destruct (fields_segments _ _ _ _ _ H) as (segs & -> & HM & HF).
    exists segs. split; [reflexivity|]. split.
    - rewrite HM. apply live_has_route.
    - eapply Forall_impl; [|exact HF]. intros fs (fv & f' & _ & Hm) Et. rewrite Et in Hm. exact (pos _ _ _ Hm).
  Qed.
End Positions.
