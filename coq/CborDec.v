(* CborDec.v — executable model of cbor.Decoder (cbor/cborDecoder.go,
   cbor/cborDecoderTerminals.go) over an in-memory byte stream.  Mirrors the
   Go structure: [dph] current phase, [dstack] (head = end of the Go slice),
   [dleft] countdowns of definite containers, one Step per token.

   The model describes the behaviour after the fix: commits recorded in
   /verif/known_findings.json (D1: -2^64 is rejected; D10b: a failed chunk
   read inside an indefinite string is an error).

   Every partial Go operation is an explicit outcome: [DPanic] where the Go
   code would index out of range.  Each step also reports the number of
   bytes of heap it *requests* (C06). *)
From Coq Require Import List ZArith Bool Lia.
Require Import Tok CborSpec CborEnc.
Import ListNotations.
Open Scope Z_scope.

Definition maxInt : Z := 9223372036854775807.
Definition item_cap : Z := 33554432.

Inductive derr :=
| EEof            (* io.EOF: the stream ended where an item may start / on Readn1 *)
| EUnexpectedEof  (* io.ErrUnexpectedEOF: a bulk read came up short after >= 1 byte *)
| EMalformed.     (* any error the decoder itself raises *)

(* ---------- stream primitives (shared.SlickReader over memory) ----------- *)

Definition readn1 (bs : bytes) : option (Z * bytes) :=
  match bs with [] => None | b :: r => Some (b, r) end.

(* Readb / Readn / Readnzc of n > 0 bytes: io.ReadAtLeast semantics *)
Definition readn (n : Z) (bs : bytes) : (bytes * bytes) + derr :=
  if n =? 0 then inl ([], bs)
  else if Z.of_nat (length bs) <? n
       then inr (match bs with [] => EEof | _ => EUnexpectedEof end)
       else inl (firstn (Z.to_nat n) bs, skipn (Z.to_nat n) bs).

(* ---------- heads ---------------------------------------------------------- *)

(* decodeUint: additional information = low 5 bits *)
Definition dec_uint (mb : Z) (bs : bytes) : (Z * bytes) + derr :=
  let ai := Z.land mb 31 in
  if ai <=? 23 then inl (ai, bs)
  else if ai =? 24 then
    match readn1 bs with Some (b, r) => inl (b, r) | None => inr EEof end
  else if ai =? 25 then
    match readn 2 bs with inl (a, r) => inl (CborSpec.unbe a, r) | inr e => inr e end
  else if ai =? 26 then
    match readn 4 bs with inl (a, r) => inl (CborSpec.unbe a, r) | inr e => inr e end
  else if ai =? 27 then
    match readn 8 bs with inl (a, r) => inl (CborSpec.unbe a, r) | inr e => inr e end
  else inr EMalformed.

(* decodeLen: must fit a Go int *)
Definition dec_len (mb : Z) (bs : bytes) : (Z * bytes) + derr :=
  match dec_uint mb bs with
  | inl (u, r) => if maxInt <? u then inr EMalformed else inl (u, r)
  | inr e => inr e
  end.

(* decodeNegInt (fixed): -1 - u must fit int64 *)
Definition dec_negint (mb : Z) (bs : bytes) : (Z * bytes) + derr :=
  match dec_uint mb bs with
  | inl (u, r) => if maxInt <? u then inr EMalformed else inl (-1 - u, r)
  | inr e => inr e
  end.

(* ---------- floats ---------------------------------------------------------- *)

(* halfFloatToFloatBits: the renormalisation loop, at most 10 rounds *)
Fixpoint half_norm (fuel : nat) (m e : Z) : Z * Z :=
  match fuel with
  | O => (m, e)
  | S f => if Z.land m 1024 =? 0 then half_norm f (m * 2) (e - 1) else (m, e)
  end.

Definition half_to_single (y : Z) : Z :=
  let s := Z.land (Z.shiftr y 15) 1 in
  let e := Z.land (Z.shiftr y 10) 31 in
  let m := Z.land y 1023 in
  if e =? 0 then
    if m =? 0 then Z.shiftl s 31
    else
      let '(m1, e1) := half_norm 11 m e in
      let e2 := e1 + 1 in
      let m2 := Z.land m1 1023 in   (* m &= ^0x400 : m1 < 2048 here *)
      Z.lor (Z.lor (Z.shiftl s 31) (Z.shiftl (e2 + 112) 23)) (Z.shiftl m2 13)
  else if e =? 31 then
    if m =? 0 then Z.lor (Z.shiftl s 31) 2139095040
    else Z.lor (Z.lor (Z.shiftl s 31) 2139095040) (Z.shiftl m 13)
  else Z.lor (Z.lor (Z.shiftl s 31) (Z.shiftl (e + 112) 23)) (Z.shiftl m 13).

(* position of the highest set bit of a positive number below 2^23 *)
Fixpoint hibit (fuel : nat) (m : Z) : Z :=
  match fuel with
  | O => 0
  | S f => if m <? 2 then 0 else 1 + hibit f (Z.shiftr m 1)
  end.

(* float64(math.Float32frombits(x)) as bit patterns; a signalling NaN comes
   back quiet (what the hardware conversion does). *)
Definition single_to_double (x : Z) : Z :=
  let s := Z.land (Z.shiftr x 31) 1 in
  let e := Z.land (Z.shiftr x 23) 255 in
  let m := Z.land x 8388607 in
  let sign := Z.shiftl s 63 in
  if e =? 0 then
    if m =? 0 then sign
    else
      let p := hibit 24 m in
      Z.lor sign (Z.lor (Z.shiftl (p - 149 + 1023) 52) (Z.shiftl (m - Z.shiftl 1 p) (52 - p)))
  else if e =? 255 then
    if m =? 0 then Z.lor sign 9218868437227405312
    else Z.lor sign (Z.lor 9218868437227405312 (Z.shiftl (Z.lor m 4194304) 29))
  else Z.lor sign (Z.lor (Z.shiftl (e - 127 + 1023) 52) (Z.shiftl m 29)).

Definition dec_float (mb : Z) (bs : bytes) : (Z * bytes) + derr :=
  if mb =? sigF16 then
    match readn 2 bs with
    | inl (a, r) => inl (single_to_double (half_to_single (CborSpec.unbe a)), r)
    | inr e => inr e end
  else if mb =? sigF32 then
    match readn 4 bs with
    | inl (a, r) => inl (single_to_double (CborSpec.unbe a), r)
    | inr e => inr e end
  else
    match readn 8 bs with
    | inl (a, r) => inl (CborSpec.unbe a, r)
    | inr e => inr e end.

(* ---------- strings ---------------------------------------------------------- *)

(* definite bytes / string: length head, cap, then the bytes.
   Second component of the result: heap requested. *)
Definition dec_bytes (mb : Z) (bs : bytes) : ((bytes * bytes) + derr) * Z :=
  match dec_len mb bs with
  | inr e => (inr e, 0)
  | inl (n, r) =>
      if item_cap <? n then (inr EMalformed, 0)
      else (readn n r, n)
  end.

(* decodeBytesOrStringIndefinite: chunks of the wanted major until a break.
   [cap] models the Go slice capacity for the allocation account. *)
Fixpoint dec_chunks (fuel : nat) (want : Z) (acc : bytes) (cap alloc : Z) (bs : bytes)
  : ((bytes * bytes) + derr) * Z :=
  match fuel with
  | O => (inr EMalformed, alloc)
  | S f =>
    match readn1 bs with
    | None => (inr EEof, alloc)
    | Some (mb, r) =>
      if mb =? sigBreak then (inl (acc, r), alloc)
      else if negb (mb - Z.land mb 31 =? want) then (inr EMalformed, alloc)
      else
        match dec_len mb r with
        | inr e => (inr e, alloc)
        | inl (n, r2) =>
          if item_cap <? n then (inr EMalformed, alloc)
          else
            let newlen := Z.of_nat (length acc) + n in
            let '(cap', alloc') := if cap <? newlen then (2 * cap + n, alloc + 2 * cap + n) else (cap, alloc) in
            match readn n r2 with
            | inr e => (inr e, alloc')
            | inl (c, r3) => dec_chunks f want (acc ++ c) cap' alloc' r3
            end
        end
    end
  end.

Definition dec_indef_string (want : Z) (bs : bytes) : ((bytes * bytes) + derr) * Z :=
  dec_chunks (S (length bs)) want [] 16 16 bs.

(* ---------- the automaton --------------------------------------------------- *)

Inductive dphase :=
| DAny | DArrIndef | DMapIndefKey | DMapIndefVal | DArrDef | DMapDefKey | DMapDefVal.

Record dec_state := DecSt {
  dph : dphase ;
  dstack : list dphase ;
  dleft : list Z ;
  dinp : bytes }.

Definition dec_init (bs : bytes) : dec_state := DecSt DAny [] [] bs.

(* result of a sub-step: the token filled in, whether the sub-step says "done" *)
Inductive sub_res :=
| SubTok (t : token) (done : bool) (s : dec_state) (alloc : Z)
| SubErr (e : derr) (s : dec_state)
| SubPanic.

Definition with_inp (s : dec_state) (bs : bytes) : dec_state :=
  DecSt (dph s) (dstack s) (dleft s) bs.
Definition with_phase (s : dec_state) (p : dphase) : dec_state :=
  DecSt p (dstack s) (dleft s) (dinp s).

(* pushPhase: the current phase goes on the stack *)
Definition dec_push (s : dec_state) (p : dphase) : dec_state :=
  DecSt p (dph s :: dstack s) (dleft s) (dinp s).

Definition scalar (s : dec_state) (tg : option Z) (r : (tokv * bytes) + derr) (alloc : Z) : sub_res :=
  match r with
  | inl (v, rest) => SubTok (Tok v tg) true (with_inp s rest) alloc
  | inr e => SubErr e s
  end.

Definition lift {A} (f : A -> tokv) (r : (A * bytes) + derr) : (tokv * bytes) + derr :=
  match r with inl (a, rest) => inl (f a, rest) | inr e => inr e end.

(* stepHelper_acceptValue for everything except tags.  [s] has the input
   positioned after the major byte [mb]. *)
Definition accept_untagged (coerce : bool) (mb : Z) (tg : option Z) (s : dec_state) : sub_res :=
  let bs := dinp s in
  if mb =? sigNil then scalar s tg (inl (Null, bs)) 0
  else if mb =? sigUndef then
    if coerce then scalar s tg (inl (Null, bs)) 0 else SubErr EMalformed s
  else if mb =? sigFalse then scalar s tg (inl (Bool false, bs)) 0
  else if mb =? sigTrue then scalar s tg (inl (Bool true, bs)) 0
  else if (mb =? sigF16) || (mb =? sigF32) || (mb =? sigF64) then
    scalar s tg (lift Flt (dec_float mb bs)) 0
  else if mb =? sigIndefBytes then
    let '(r, a) := dec_indef_string majBytes bs in scalar s tg (lift Byt r) a
  else if mb =? sigIndefString then
    let '(r, a) := dec_indef_string majString bs in scalar s tg (lift Str r) a
  else if mb =? sigIndefArray then
    SubTok (Tok (ArrOpen (-1)) tg) false (dec_push s DArrIndef) 8
  else if mb =? sigIndefMap then
    SubTok (Tok (MapOpen (-1)) tg) false (dec_push s DMapIndefKey) 8
  else if mb <? majNegInt then scalar s tg (lift Uint (dec_uint mb bs)) 0
  else if mb <? majBytes then scalar s tg (lift Int (dec_negint mb bs)) 0
  else if mb <? majString then
    let '(r, a) := dec_bytes mb bs in scalar s tg (lift Byt r) a
  else if mb <? majArray then
    let '(r, a) := dec_bytes mb bs in scalar s tg (lift Str r) a
  else if mb <? majMap then
    match dec_len mb bs with
    | inl (n, rest) =>
        let s1 := DecSt (dph s) (dstack s) (n :: dleft s) rest in
        SubTok (Tok (ArrOpen n) tg) false (dec_push s1 DArrDef) 16
    | inr e => SubErr e s
    end
  else if mb <? majTag then
    match dec_len mb bs with
    | inl (n, rest) =>
        let s1 := DecSt (dph s) (dstack s) (n :: dleft s) rest in
        SubTok (Tok (MapOpen n) tg) false (dec_push s1 DMapDefKey) 16
    | inr e => SubErr e s
    end
  else SubErr EMalformed s.   (* a tag here is handled by the caller; simple values, 0xff *)

(* stepHelper_acceptValue: one level of tag *)
Definition accept_value (coerce : bool) (mb : Z) (s : dec_state) : sub_res :=
  if (majTag <=? mb) && (mb <? majSimple) then
    match dec_len mb (dinp s) with
    | inr e => SubErr e s
    | inl (t, rest) =>
      match readn1 rest with
      | None => SubErr EEof s
      | Some (mb2, rest2) =>
        if (majTag <=? mb2) && (mb2 <? majSimple) then SubErr EMalformed s  (* nested tags *)
        else accept_untagged coerce mb2 (Some t) (with_inp s rest2)
      end
    end
  else accept_untagged coerce mb None s.

(* force a sub-step's done flag to false (the "_, err := ...; return false, err" pattern) *)
Definition not_done (r : sub_res) : sub_res :=
  match r with SubTok t _ s a => SubTok t false s a | x => x end.

Definition sub_step (coerce : bool) (s : dec_state) : sub_res :=
  match dph s with
  | DAny =>
      match readn1 (dinp s) with
      | None => SubErr EEof s
      | Some (mb, r) => accept_value coerce mb (with_inp s r)
      end
  | DArrIndef =>
      match readn1 (dinp s) with
      | None => SubErr EEof s
      | Some (mb, r) =>
          if mb =? sigBreak then SubTok (Tok ArrClose None) true (with_inp s r) 0
          else not_done (accept_value coerce mb (with_inp s r))
      end
  | DMapIndefKey =>
      match readn1 (dinp s) with
      | None => SubErr EEof s
      | Some (mb, r) =>
          if mb =? sigBreak then SubTok (Tok MapClose None) true (with_inp s r) 0
          else not_done (accept_value coerce mb (with_phase (with_inp s r) DMapIndefVal))
      end
  | DMapIndefVal =>
      match readn1 (dinp s) with
      | None => SubErr EEof s
      | Some (mb, r) =>
          if mb =? sigBreak then SubErr EMalformed s
          else not_done (accept_value coerce mb (with_phase (with_inp s r) DMapIndefKey))
      end
  | DArrDef =>
      match dleft s with
      | [] => SubPanic
      | l :: ls =>
          if l =? 0 then SubTok (Tok ArrClose None) true (DecSt (dph s) (dstack s) ls (dinp s)) 0
          else
            match readn1 (dinp s) with
            | None => SubErr EEof s
            | Some (mb, r) =>
                not_done (accept_value coerce mb (DecSt (dph s) (dstack s) ((l - 1) :: ls) r))
            end
      end
  | DMapDefKey =>
      match dleft s with
      | [] => SubPanic
      | l :: ls =>
          if l =? 0 then SubTok (Tok MapClose None) true (DecSt (dph s) (dstack s) ls (dinp s)) 0
          else
            match readn1 (dinp s) with
            | None => SubErr EEof s
            | Some (mb, r) =>
                not_done (accept_value coerce mb (DecSt DMapDefVal (dstack s) ((l - 1) :: ls) r))
            end
      end
  | DMapDefVal =>
      match readn1 (dinp s) with
      | None => SubErr EEof s
      | Some (mb, r) =>
          not_done (accept_value coerce mb (with_phase (with_inp s r) DMapDefKey))
      end
  end.

Inductive dstep_res :=
| DTok (t : token) (done : bool) (s : dec_state) (alloc : Z)
| DErr (e : derr) (s : dec_state)
| DPanic.

(* Decoder.Step: run the phase's sub-step, then pop if it said done *)
Definition dec_step (coerce : bool) (s : dec_state) : dstep_res :=
  match sub_step coerce s with
  | SubPanic => DPanic
  | SubErr e s' => DErr e s'
  | SubTok t false s' a => DTok t false s' a
  | SubTok t true s' a =>
      match dstack s' with
      | [] | [_] => DTok t true s' a
      | top :: rest => DTok t false (DecSt top rest (dleft s') (dinp s')) a
      end
  end.

(* ---------- running -------------------------------------------------------- *)

Inductive drun_res :=
| DOk (toks : list token) (rest : bytes) (alloc : Z)
| DFail (e : derr) (toks : list token) (alloc : Z)
| DPanicked (toks : list token)
| DOutOfFuel (toks : list token).

Fixpoint dec_loop (fuel : nat) (coerce : bool) (s : dec_state) (acc : list token) (alloc : Z) : drun_res :=
  match fuel with
  | O => DOutOfFuel (rev acc)
  | S f =>
    match dec_step coerce s with
    | DPanic => DPanicked (rev acc)
    | DErr e _ => DFail e (rev acc) alloc
    | DTok t true s' a => DOk (rev (t :: acc)) (dinp s') (alloc + a)
    | DTok t false s' a => dec_loop f coerce s' (t :: acc) (alloc + a)
    end
  end.

(* One item from the start of [bs].  Fuel: every step either consumes a byte
   or closes a container that an earlier byte opened. *)
Definition dec_run (coerce : bool) (bs : bytes) : drun_res :=
  dec_loop (2 * length bs + 2) coerce (dec_init bs) [] 0.
