(* CborSpec.v — RFC 7049 §2 as an independent specification.
   (i)  [HeadShortest m v bs]: bs is an initial byte of major type m followed by
        the big-endian argument denoting v, and no shorter argument denotes v;
   (ii) [rfc_enc]: the reference encoding of a token-level value tree.
   This file does not mention the encoder model (CborEnc.v's step function). *)
From Coq Require Import List ZArith Bool Lia.
Require Import Tok.
Import ListNotations.
Open Scope Z_scope.

(* big-endian value of a byte string *)
Fixpoint unbe_acc (bs : bytes) (acc : Z) : Z :=
  match bs with [] => acc | b :: r => unbe_acc r (acc * 256 + b) end.
Definition unbe (bs : bytes) : Z := unbe_acc bs 0.

Definition byte_ok (b : Z) : Prop := 0 <= b < 256.
Definition bytes_ok (bs : bytes) : Prop := Forall byte_ok bs.

(* additional-information value ai, argument bytes, denoted value *)
Inductive HeadVal : Z -> bytes -> Z -> Prop :=
| HV_imm v : 0 <= v < 24 -> HeadVal v [] v
| HV_1 arg : length arg = 1%nat -> bytes_ok arg -> HeadVal 24 arg (unbe arg)
| HV_2 arg : length arg = 2%nat -> bytes_ok arg -> HeadVal 25 arg (unbe arg)
| HV_4 arg : length arg = 4%nat -> bytes_ok arg -> HeadVal 26 arg (unbe arg)
| HV_8 arg : length arg = 8%nat -> bytes_ok arg -> HeadVal 27 arg (unbe arg).

(* a well-formed head of major type m (m in {0,32,..,224}) denoting v *)
Definition Head (m v : Z) (bs : bytes) : Prop :=
  exists ai arg, bs = (m + ai) :: arg /\ HeadVal ai arg v.

(* ... and the shortest such *)
Definition HeadShortest (m v : Z) (bs : bytes) : Prop :=
  exists ai arg, bs = (m + ai) :: arg /\ HeadVal ai arg v /\
    forall ai' arg', HeadVal ai' arg' v -> (length arg <= length arg')%nat.

(* ---------- reference encoder ------------------------------------------ *)

Fixpoint be_ref (n : nat) (v : Z) : bytes :=
  match n with O => [] | S k => be_ref k (v / 256) ++ [v mod 256] end.

Definition head (m v : Z) : bytes :=
  if v <? 24 then [m + v]
  else if v <? 2^8 then (m + 24) :: be_ref 1 v
  else if v <? 2^16 then (m + 25) :: be_ref 2 v
  else if v <? 2^32 then (m + 26) :: be_ref 4 v
  else (m + 27) :: be_ref 8 v.

Definition rfc_tag (tg : option Z) : bytes :=
  match tg with Some t => head 192 t | None => [] end.

Definition slen (s : bytes) : Z := Z.of_nat (length s).

Fixpoint rfc_enc (n : tnode) : bytes :=
  match n with
  | Node tg v =>
    rfc_tag tg ++
    match v with
    | VNull => [246]
    | VStr s => head 96 (slen s) ++ s
    | VByt s => head 64 (slen s) ++ s
    | VBool b => [if b then 245 else 244]
    | VInt i => if 0 <=? i then head 0 i else head 32 (-1 - i)
    | VUint u => head 0 u
    | VFlt bits => 251 :: be_ref 8 bits
    | VArr d items =>
        (if 0 <=? d then head 128 d else [159]) ++
        flat_map rfc_enc items ++
        (if 0 <=? d then [] else [255])
    | VMap d es =>
        (if 0 <=? d then head 160 d else [191]) ++
        flat_map (fun kv => rfc_enc (fst kv) ++ rfc_enc (snd kv)) es ++
        (if 0 <=? d then [] else [255])
    end
  end.

(* ---------- domain of the CBOR encoder --------------------------------- *)

Definition two63 : Z := 2^63.
Definition two64 : Z := 2^64.

Definition tag_ok (tg : option Z) : Prop :=
  match tg with Some t => 0 <= t < two63 | None => True end.

Definition is_keyable (n : tnode) : Prop :=
  match n with Node _ (VStr _) | Node _ (VInt _) | Node _ (VUint _) => True | _ => False end.

(* every token is within the Go types' ranges; map keys are String/Int/Uint *)
Fixpoint enc_ok (n : tnode) : Prop :=
  match n with
  | Node tg v =>
    tag_ok tg /\
    match v with
    | VInt i => - two63 <= i < two63
    | VUint u => 0 <= u < two64
    | VFlt b => 0 <= b < two64
    | VArr d items => d < two63 /\ fold_right (fun x acc => enc_ok x /\ acc) True items
    | VMap d es => d < two63 /\
        fold_right (fun kv acc => (is_keyable (fst kv) /\ enc_ok (fst kv) /\ enc_ok (snd kv)) /\ acc) True es
    | _ => True
    end
  end.

(* declared lengths are exact (or indefinite): needed for decoding back *)
Fixpoint len_ok (n : tnode) : Prop :=
  match n with
  | Node _ v =>
    match v with
    | VArr d items => (d < 0 \/ d = Z.of_nat (length items)) /\
                      fold_right (fun x acc => len_ok x /\ acc) True items
    | VMap d es => (d < 0 \/ d = Z.of_nat (length es)) /\
                   fold_right (fun kv acc => (len_ok (fst kv) /\ len_ok (snd kv)) /\ acc) True es
    | _ => True
    end
  end.
