(* Utf8.v — Go's unicode/utf8 DecodeRune / EncodeRune on byte lists.
   [decode_rune s] = (code point, size); invalid or truncated input gives
   (U+FFFD, 1), exactly as utf8.DecodeRune does (a well-formed EF BF BD gives
   (U+FFFD, 3)). *)
From Coq Require Import List ZArith Bool Lia.
Require Import Tok.
Import ListNotations.
Open Scope Z_scope.

Definition rune_error : Z := 65533.

Definition is_cont (b : Z) : bool := (128 <=? b) && (b <=? 191).

Definition decode_rune (s : bytes) : Z * Z :=
  match s with
  | [] => (rune_error, 0)
  | b0 :: r0 =>
    if b0 <? 128 then (b0, 1)
    else if b0 <? 194 then (rune_error, 1)          (* continuation byte or overlong C0/C1 *)
    else if b0 <? 224 then                           (* 2 bytes *)
      match r0 with
      | b1 :: _ => if is_cont b1 then ((b0 - 192) * 64 + (b1 - 128), 2) else (rune_error, 1)
      | _ => (rune_error, 1)
      end
    else if b0 <? 240 then                           (* 3 bytes *)
      match r0 with
      | b1 :: b2 :: _ =>
        let lo := if b0 =? 224 then 160 else 128 in
        let hi := if b0 =? 237 then 159 else 191 in
        if (lo <=? b1) && (b1 <=? hi) && is_cont b2
        then ((b0 - 224) * 4096 + (b1 - 128) * 64 + (b2 - 128), 3)
        else (rune_error, 1)
      | _ => (rune_error, 1)
      end
    else if b0 <? 245 then                           (* 4 bytes *)
      match r0 with
      | b1 :: b2 :: b3 :: _ =>
        let lo := if b0 =? 240 then 144 else 128 in
        let hi := if b0 =? 244 then 143 else 191 in
        if (lo <=? b1) && (b1 <=? hi) && is_cont b2 && is_cont b3
        then ((b0 - 240) * 262144 + (b1 - 128) * 4096 + (b2 - 128) * 64 + (b3 - 128), 4)
        else (rune_error, 1)
      | _ => (rune_error, 1)
      end
    else (rune_error, 1)
  end.

(* utf8.EncodeRune (invalid runes — surrogates, > 10FFFF, negative — encode U+FFFD) *)
Definition encode_rune (r : Z) : bytes :=
  if (0 <=? r) && (r <? 128) then [r]
  else if (0 <=? r) && (r <? 2048) then [192 + r / 64; 128 + r mod 64]
  else if (r <? 0) || (1114111 <? r) || ((55296 <=? r) && (r <=? 57343)) then [239; 191; 189]
  else if r <? 65536 then [224 + r / 4096; 128 + (r / 64) mod 64; 128 + r mod 64]
  else [240 + r / 262144; 128 + (r / 4096) mod 64; 128 + (r / 64) mod 64; 128 + r mod 64].

(* valid UTF-8: every position decodes without hitting the error case *)
Fixpoint valid_utf8_fuel (fuel : nat) (s : bytes) : bool :=
  match fuel with
  | O => true
  | S f =>
    match s with
    | [] => true
    | _ =>
      let '(r, n) := decode_rune s in
      if (r =? rune_error) && (n =? 1) then false
      else valid_utf8_fuel f (skipn (Z.to_nat n) s)
    end
  end.
Definition valid_utf8 (s : bytes) : bool := valid_utf8_fuel (length s) s.

(* coerce to valid UTF-8: every offending byte becomes U+FFFD *)
Fixpoint coerce_utf8_fuel (fuel : nat) (s : bytes) : bytes :=
  match fuel with
  | O => []
  | S f =>
    match s with
    | [] => []
    | _ =>
      let '(r, n) := decode_rune s in
      if (r =? rune_error) && (n =? 1) then [239; 191; 189] ++ coerce_utf8_fuel f (skipn 1 s)
      else firstn (Z.to_nat n) s ++ coerce_utf8_fuel f (skipn (Z.to_nat n) s)
    end
  end.
Definition coerce_utf8 (s : bytes) : bytes := coerce_utf8_fuel (length s) s.
