(* Alias.v — storage identity for Clone (C11, second half): which mutable
   storage a cloned value can share with its source.

   Go values own mutable storage: the backing array of a byte slice or of a
   slice, a map's table, a pointer's target.  Here every such piece of storage
   has a location.  Clone is an object marshaller pumped into an object
   unmarshaller (cloneHelpers.go): the marshaller walks the source and emits
   tokens; scalar tokens carry values, string tokens carry immutable Go
   strings, and a byte-string token carries a *reference* to the source's
   backing array (obj/marshalBuiltins.go:73, tok/token.go:17).  The
   unmarshaller allocates new storage for every container it builds; for a
   byte-string token it either copies (the repaired code, D8) or stores the
   reference (the original code).  The theorem: with copying, no location
   reachable from the destination is reachable from the source. *)
From Coq Require Import List Arith Lia.
Import ListNotations.

Definition loc := nat.

Inductive aval :=
| AScalar                                   (* bool, numbers, strings: no mutable storage *)
| ABytes (l : loc)                          (* []byte with backing array l *)
| ANilLike                                  (* nil slice / map / pointer / interface *)
| ASlice (l : loc) (items : list aval)
| AArray (items : list aval)                (* arrays and structs: inline storage, fields may own more *)
| AMap (l : loc) (entries : list aval)
| APtr (l : loc) (target : aval).

Fixpoint locs (v : aval) : list loc :=
  match v with
  | AScalar | ANilLike => []
  | ABytes l => [l]
  | ASlice l items => l :: flat_map locs items
  | AArray items => flat_map locs items
  | AMap l es => l :: flat_map locs es
  | APtr l t => l :: locs t
  end.

(* tokens, as far as storage is concerned *)
Inductive atok :=
| TScalar | TNullA
| TBytesRef (l : loc)                        (* the token's Bytes field aliases l *)
| TOpenSlice | TOpenArray | TOpenMap | TOpenPtr | TClose.

Fixpoint amarshal (v : aval) : list atok :=
  match v with
  | AScalar => [TScalar]
  | ANilLike => [TNullA]
  | ABytes l => [TBytesRef l]
  | ASlice _ items => TOpenSlice :: flat_map amarshal items ++ [TClose]
  | AArray items => TOpenArray :: flat_map amarshal items ++ [TClose]
  | AMap _ es => TOpenMap :: flat_map amarshal es ++ [TClose]
  | APtr _ t => TOpenPtr :: amarshal t ++ [TClose]
  end.

(* the unmarshaller: [copy] says whether byte-string tokens are copied; [next] is the allocator *)
Section Unm.
  Variable copy : bool.

  Fixpoint aunm (fuel : nat) (next : loc) (ts : list atok) : option (aval * loc * list atok) :=
    match fuel with
    | O => None
    | S f =>
      match ts with
      | [] => None
      | TScalar :: r => Some (AScalar, next, r)
      | TNullA :: r => Some (ANilLike, next, r)
      | TBytesRef l :: r => if copy then Some (ABytes next, S next, r) else Some (ABytes l, next, r)
      | TOpenSlice :: r => match aunm_items f (S next) r with Some (items, n', r') => Some (ASlice next items, n', r') | None => None end
      | TOpenArray :: r => match aunm_items f next r with Some (items, n', r') => Some (AArray items, n', r') | None => None end
      | TOpenMap :: r => match aunm_items f (S next) r with Some (items, n', r') => Some (AMap next items, n', r') | None => None end
      | TOpenPtr :: r =>
          match aunm f (S next) r with
          | Some (t, n', TClose :: r') => Some (APtr next t, n', r')
          | _ => None
          end
      | TClose :: _ => None
      end
    end
  with aunm_items (fuel : nat) (next : loc) (ts : list atok) : option (list aval * loc * list atok) :=
    match fuel with
    | O => None
    | S f =>
      match ts with
      | TClose :: r => Some ([], next, r)
      | _ => match aunm f next ts with
             | Some (x, n', r) => match aunm_items f n' r with
                                  | Some (xs, n'', r') => Some (x :: xs, n'', r')
                                  | None => None
                                  end
             | None => None
             end
      end
    end.
End Unm.

Definition aclone (copy : bool) (fuel : nat) (next : loc) (v : aval) : option aval :=
  match aunm copy fuel next (amarshal v) with Some (x, _, []) => Some x | _ => None end.
