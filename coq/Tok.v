(* Tok.v — the token model shared by every refmt component, and token-level
   value trees.  Mirrors /repo/tok/token.go: a token is a type plus the one
   payload field that type gives meaning to, plus the CBOR tag extension.

   Conventions used by the whole development:
   - every number is a Z (bytes are Z in [0,256), Go int/int64/uint64 values
     are Z with the range as a side condition);
   - Go strings and byte slices are [list Z];
   - float64 values are their IEEE-754 bit pattern as a Z in [0,2^64). *)
From Coq Require Export List ZArith Bool Lia.
Export ListNotations.
Open Scope Z_scope.

Definition bytes := list Z.

Inductive tokv : Type :=
| MapOpen (len : Z)      (* Length; negative (Go uses -1) = indefinite / unknown *)
| MapClose
| ArrOpen (len : Z)
| ArrClose
| Null
| Str (s : bytes)
| Byt (s : bytes)
| Bool (b : bool)
| Int (i : Z)            (* int64 *)
| Uint (u : Z)           (* uint64 *)
| Flt (bits : Z).        (* float64 bit pattern *)

Record token := Tok { tv : tokv ; tag : option Z }.   (* tag = Some t  <->  Tagged && Tag = t *)

Definition untagged (v : tokv) : token := Tok v None.

(* ---------- value trees ------------------------------------------------ *)

(* A node is an optionally tagged value.  Containers carry the Length their
   open token declares (negative = indefinite). *)
Inductive tnode : Type :=
| Node (tg : option Z) (v : tval)
with tval : Type :=
| VNull
| VStr (s : bytes)
| VByt (s : bytes)
| VBool (b : bool)
| VInt (i : Z)
| VUint (u : Z)
| VFlt (bits : Z)
| VArr (declared : Z) (items : list tnode)
| VMap (declared : Z) (entries : list (tnode * tnode)).

Fixpoint flatten (n : tnode) : list token :=
  match n with
  | Node tg v =>
    match v with
    | VNull => [Tok Null tg]
    | VStr s => [Tok (Str s) tg]
    | VByt s => [Tok (Byt s) tg]
    | VBool b => [Tok (Bool b) tg]
    | VInt i => [Tok (Int i) tg]
    | VUint u => [Tok (Uint u) tg]
    | VFlt b => [Tok (Flt b) tg]
    | VArr d items =>
        Tok (ArrOpen d) tg :: flat_map flatten items ++ [Tok ArrClose None]
    | VMap d entries =>
        Tok (MapOpen d) tg ::
        flat_map (fun kv => flatten (fst kv) ++ flatten (snd kv)) entries
        ++ [Tok MapClose None]
    end
  end.

(* Size (number of tokens) *)
Fixpoint nsize (n : tnode) : nat :=
  match n with
  | Node _ v =>
    match v with
    | VArr _ items => 2 + fold_right (fun x acc => nsize x + acc)%nat 0%nat items
    | VMap _ es => 2 + fold_right (fun kv acc => nsize (fst kv) + nsize (snd kv) + acc)%nat 0%nat es
    | _ => 1
    end
  end.

(* ---------- a usable induction principle ------------------------------- *)

Section tnode_ind.
  Variable P : tnode -> Prop.
  Hypothesis Hleaf : forall tg v,
      match v with VArr _ _ | VMap _ _ => False | _ => True end -> P (Node tg v).
  Hypothesis Harr : forall tg d items, Forall P items -> P (Node tg (VArr d items)).
  Hypothesis Hmap : forall tg d es,
      Forall (fun kv => P (fst kv) /\ P (snd kv)) es -> P (Node tg (VMap d es)).

  Fixpoint tnode_ind' (n : tnode) : P n.
  Proof.
    destruct n as [tg v].
    destruct v as [ | s | s | b | i | u | f | d items | d es ];
      try (apply Hleaf; exact I).
    - apply Harr. induction items as [|x xs IH]; constructor.
      + apply tnode_ind'.
      + exact IH.
    - apply Hmap. induction es as [|[k w] xs IH]; constructor.
      + split; apply tnode_ind'.
      + exact IH.
  Defined.
End tnode_ind.

Definition is_leaf (v : tval) : bool :=
  match v with VArr _ _ | VMap _ _ => false | _ => true end.

Definition leaf_tok (v : tval) : tokv :=
  match v with
  | VNull => Null | VStr s => Str s | VByt s => Byt s | VBool b => Bool b
  | VInt i => Int i | VUint u => Uint u | VFlt b => Flt b
  | _ => Null
  end.

Lemma flatten_leaf tg v : is_leaf v = true -> flatten (Node tg v) = [Tok (leaf_tok v) tg].
Proof. destruct v; simpl; intros H; try reflexivity; discriminate. Qed.

Lemma flatten_nonempty n : flatten n <> [].
Proof. destruct n as [tg v]; destruct v; simpl; discriminate. Qed.
