(* TranscodeProof.v — C10 (and the codec part of C12 / C17): streaming
   transcoding (a decoder pumped straight into an encoder, Pump.v) preserves
   the document; items written back to back are read back one per call.

   The development composes the existing theorems:
     decoder  = recursive-descent reading        (CborDecProof / JsonDecProof)
     encoder  = reference encoding of the tree   (CborEncProof / JsonEncProof)
     reading the reference encoding = canon/jnorm (CborRoundtrip / JsonEncProof)
     encoder verdict = token grammar             (EncAccept / TokGrammarProof)
   and adds the glue: what trees the two readings can produce ([shape],
   [jshape]), that both readings are stable under extension of the input
   (framing), and the token-level form of the normalisations. *)
(* MAIN RESULTS (each followed by Print Assumptions; all closed):
     flatten_inj, grammar_ok_wf                       token lists <-> value trees
   1 pump_c2c_value, pump_c2c_idempotent              CBOR -> CBOR preserves the tokens exactly
   2 pump_c2c_error, pump_c2c_err_iff(_tokens)        ... and fails exactly on ill-formed input / bad keys
   3 pump_j2c_value, pump_j2c_total, pump_j2c_err_iff JSON -> CBOR, tokens modulo [canon_tok]
   4 pump_c2j_value (Section, oracle hypothesis Hflt), pump_c2j_value_float_free,
     pump_c2j_unrepresentable, pump_c2j_ok_iff, pump_c2j_err_iff
   5 pump_roundtrip_cjc, pump_roundtrip_jcj, pump_roundtrip_jcj_same (+ _float_free instances)
   6 dec_run_frame, dec_many_concat, dec_many_encoded,
     jdec_run_frame, jdec_run_ws, jdec_many_concat, jdec_many_encoded
   REFUTATIONS of the statements as first asked:
     pump_c2c_keys_refuted, pump_c2c_bytes_refuted, pump_cap_refuted (+ pump_c2c_chunks_concatenate),
     pump_j2c_same_tokens_refuted, pump_roundtrip_jcj_same_refuted, jdec_run_frame_number_refuted. *)
From Coq Require Import List ZArith Bool Lia ZifyBool ZifyNat.
Require Import Tok TokGrammar TokGrammarProof CborSpec CborEnc CborEncProof CborDec CborParse
               CborDecProof CborRoundtrip Utf8 JsonEnc JsonFloat JsonDec JsonParse JsonDecProof
               JsonNumProof JsonStrProof JsonEncProof EncAccept Pump.
Import ListNotations.
Open Scope Z_scope.

(* ====================================================================== *)
(* 0. Token-level predicates used in the statements (all boolean)          *)
(* ====================================================================== *)

(* the token list is exactly one value of the token grammar whose map keys
   satisfy [key_ok] *)
Definition grammar_okb (key_ok : tokv -> bool) (ts : list token) : bool :=
  match ctx_run key_ok [] ts 0 with
  | CRDone n => Nat.eqb n (length ts)
  | _ => false
  end.
Definition cbor_keys_ok : list token -> bool := grammar_okb key_cbor.  (* keys: string / int / uint *)
Definition json_keys_ok : list token -> bool := grammar_okb key_json.  (* keys: string *)

(* every string / byte-string payload respects the CBOR decoder's per-item cap *)
Definition str_cap_ok (ts : list token) : bool :=
  forallb (fun t => match tv t with
                    | Str s | Byt s => Z.of_nat (length s) <=? item_cap
                    | _ => true end) ts.

(* the input really is a byte string *)
Definition bytes_okb (bs : bytes) : bool := forallb (fun b => (0 <=? b) && (b <? 256)) bs.

Lemma bytes_okb_ok bs : bytes_okb bs = true <-> bytes_ok bs.
Proof.
  unfold bytes_okb, bytes_ok, byte_ok. rewrite forallb_forall, Forall_forall.
  split; intros H x Hx; specialize (H x Hx); lia.
Qed.

(* the normalisation a CBOR round trip applies to a token (CborRoundtrip.canon):
   a non-negative Int is read back as Uint, a negative Length as -1 *)
Definition canon_tok (t : token) : token :=
  match tv t with
  | Int i => Tok (if 0 <=? i then Uint i else Int i) (tag t)
  | ArrOpen d => Tok (ArrOpen (if 0 <=? d then d else -1)) (tag t)
  | MapOpen d => Tok (MapOpen (if 0 <=? d then d else -1)) (tag t)
  | _ => t
  end.

(* ====================================================================== *)
(* 1. Lists, [Forall] over [fold_right] conjunctions                       *)
(* ====================================================================== *)

Lemma fold_pair_Forall {A} (Q : A -> Prop) l :
  fold_right (fun x acc => Q x /\ acc) True l <-> Forall Q l.
Proof.
  induction l as [|x l IH]; cbn [fold_right].
  - split; [constructor|trivial].
  - rewrite IH. split; [intros [H1 H2]; constructor; assumption|intros H; inversion H; auto].
Qed.

Lemma bytes_ok_app a b : bytes_ok (a ++ b) <-> bytes_ok a /\ bytes_ok b.
Proof. unfold bytes_ok. apply Forall_app. Qed.

Lemma bytes_ok_sfx rest bs : CborDecProof.sfx rest bs -> bytes_ok bs -> bytes_ok rest.
Proof. intros [u ->] H. apply bytes_ok_app in H. apply H. Qed.

(* ====================================================================== *)
(* 2. [flatten] is injective ([parse_node] inverts it); the token grammar  *)
(*    check on a rendering is the tree's key well-formedness               *)
(* ====================================================================== *)

Notation tparse_node := TokGrammar.parse_node.
Notation tparse_items := TokGrammar.parse_items.
Notation tparse_entries := TokGrammar.parse_entries.

Definition items_size (items : list tnode) : nat :=
  fold_right (fun x acc => nsize x + acc)%nat 0%nat items.
Definition entries_size (es : list (tnode * tnode)) : nat :=
  fold_right (fun kv acc => nsize (fst kv) + nsize (snd kv) + acc)%nat 0%nat es.

Lemma nsize_pos n : (1 <= nsize n)%nat.
Proof. destruct n as [tg v]; destruct v; cbn [nsize]; lia. Qed.

Definition not_close (t : token) : Prop :=
  match tv t with ArrClose | MapClose => False | _ => True end.

Lemma flatten_head n : exists t tl, flatten n = t :: tl /\ not_close t.
Proof.
  destruct n as [tg v]; destruct v; cbn [flatten]; eexists; eexists; (split; [reflexivity|exact I]).
Qed.

Lemma parse_items_step f t ts : not_close t ->
  tparse_items (S f) (t :: ts) =
  match tparse_node f (t :: ts) with
  | Some (x, r) => match tparse_items f r with Some (xs, r') => Some (x :: xs, r') | None => None end
  | None => None
  end.
Proof. destruct t as [v tg]. unfold not_close. cbn [tv]. destruct v; intros H; try contradiction; reflexivity. Qed.

Lemma parse_entries_step f t ts : not_close t ->
  tparse_entries (S f) (t :: ts) =
  match tparse_node f (t :: ts) with
  | Some (k, r) =>
      match tparse_node f r with
      | Some (v, r2) =>
          match tparse_entries f r2 with Some (es, r') => Some ((k, v) :: es, r') | None => None end
      | None => None
      end
  | None => None
  end.
Proof. destruct t as [v tg]. unfold not_close. cbn [tv]. destruct v; intros H; try contradiction; reflexivity. Qed.

Definition parses (n : tnode) : Prop :=
  forall fuel rest, (nsize n <= fuel)%nat -> tparse_node fuel (flatten n ++ rest) = Some (n, rest).

Lemma parse_items_flat items : Forall parses items -> forall fuel rest,
  (S (items_size items) <= fuel)%nat ->
  tparse_items fuel (flat_map flatten items ++ Tok ArrClose None :: rest) = Some (items, rest).
Proof.
  induction 1 as [|x xs Hx _ IH]; intros fuel rest Hf.
  - destruct fuel; [lia|]. reflexivity.
  - cbn [items_size fold_right] in Hf. fold (items_size xs) in Hf.
    destruct fuel as [|f]; [lia|].
    cbn [flat_map]. rewrite <- app_assoc.
    destruct (flatten_head x) as (t & tl & Ht & Hnc).
    pose proof (Hx f (flat_map flatten xs ++ Tok ArrClose None :: rest)) as Hp.
    rewrite Ht in *. cbn [app] in *. rewrite parse_items_step by exact Hnc.
    pose proof (nsize_pos x).
    rewrite Hp by lia. rewrite IH by lia. reflexivity.
Qed.

Lemma parse_entries_flat es : Forall (fun kv => parses (fst kv) /\ parses (snd kv)) es ->
  forall fuel rest, (S (entries_size es) <= fuel)%nat ->
  tparse_entries fuel (flat_map (fun kv => flatten (fst kv) ++ flatten (snd kv)) es ++ Tok MapClose None :: rest)
  = Some (es, rest).
Proof.
  induction 1 as [|[k v] xs [Hk Hv] _ IH]; intros fuel rest Hf.
  - destruct fuel; [lia|]. reflexivity.
  - cbn [entries_size fold_right fst snd] in Hf. fold (entries_size xs) in Hf.
    cbn [fst snd] in Hk, Hv.
    destruct fuel as [|f]; [lia|].
    cbn [flat_map fst snd]. rewrite <- !app_assoc.
    destruct (flatten_head k) as (t & tl & Ht & Hnc).
    pose proof (Hk f (flatten v ++ flat_map (fun kv => flatten (fst kv) ++ flatten (snd kv)) xs
                               ++ Tok MapClose None :: rest)) as Hp.
    rewrite Ht in *. cbn [app] in *. rewrite parse_entries_step by exact Hnc.
    pose proof (nsize_pos k). pose proof (nsize_pos v).
    rewrite Hp by lia. rewrite Hv by lia. rewrite IH by lia. reflexivity.
Qed.

Lemma parse_flatten n : parses n.
Proof.
  induction n as [tg v Hleaf|tg d items IH|tg d es IH] using tnode_ind'; intros fuel rest Hf.
  - destruct fuel as [|f]; [pose proof (nsize_pos (Node tg v)); lia|].
    destruct v; try contradiction; reflexivity.
  - cbn [nsize] in Hf. fold (items_size items) in Hf.
    destruct fuel as [|f]; [lia|].
    cbn [flatten]. cbn [app TokGrammar.parse_node]. rewrite <- app_assoc. cbn [app].
    rewrite (parse_items_flat items IH) by lia. reflexivity.
  - cbn [nsize] in Hf. fold (entries_size es) in Hf.
    destruct fuel as [|f]; [lia|].
    cbn [flatten]. cbn [app TokGrammar.parse_node]. rewrite <- app_assoc. cbn [app].
    rewrite (parse_entries_flat es IH) by lia. reflexivity.
Qed.

Theorem flatten_inj : forall n n', flatten n = flatten n' -> n = n'.
Proof.
  intros n n' H.
  pose proof (parse_flatten n (nsize n + nsize n')%nat [] ltac:(lia)) as P1.
  pose proof (parse_flatten n' (nsize n + nsize n')%nat [] ltac:(lia)) as P2.
  rewrite H in P1. rewrite P1 in P2. inversion P2. reflexivity.
Qed.

Lemma norm_flatten n : map norm_tok (flatten n) = flatten n.
Proof.
  induction n as [tg v Hleaf|tg d items IH|tg d es IH] using tnode_ind'.
  - destruct v; try contradiction; reflexivity.
  - cbn [flatten map]. rewrite map_app. cbn [map]. f_equal. f_equal.
    induction IH as [|x xs Hx _ IHxs]; [reflexivity|].
    cbn [flat_map]. rewrite map_app, Hx, IHxs. reflexivity.
  - cbn [flatten map]. rewrite map_app. cbn [map]. f_equal. f_equal.
    induction IH as [|x xs [Hk Hv] _ IHxs]; [reflexivity|].
    cbn [flat_map]. rewrite !map_app, Hk, Hv, IHxs. reflexivity.
Qed.

Theorem grammar_ok_wf : forall key_ok n, grammar_okb key_ok (flatten n) = true <-> wf_keys key_ok n.
Proof.
  intros key_ok n. unfold grammar_okb. split.
  - destruct (ctx_run key_ok [] (flatten n) 0) as [used| |] eqn:E; try discriminate.
    intros Hu. apply Nat.eqb_eq in Hu. subst used.
    destruct (ctx_done_is_value _ _ _ _ E) as (n' & Hwf & Hlen & Hmap).
    cbn [plus] in Hlen. rewrite <- Hlen in Hmap. rewrite firstn_all in Hmap.
    rewrite norm_flatten in Hmap. apply flatten_inj in Hmap. subst n'. exact Hwf.
  - intros Hwf. pose proof (ctx_accepts_flatten key_ok n [] 0%nat Hwf) as E.
    rewrite app_nil_r in E. rewrite E. cbn [plus]. apply Nat.eqb_refl.
Qed.

(* ====================================================================== *)
(* 3. Ranges of the CBOR terminals                                         *)
(* ====================================================================== *)

Lemma lor_range n a b : 0 <= a < 2 ^ n -> 0 <= b < 2 ^ n -> 0 <= Z.lor a b < 2 ^ n.
Proof.
  intros Ha Hb. split; [apply Z.lor_nonneg; lia|].
  destruct (Z_lt_le_dec 0 n) as [Hn|Hle].
  2:{ destruct (Z.eq_dec n 0) as [->|]; [|rewrite Z.pow_neg_r in Ha by lia; lia].
      change (2 ^ 0) with 1 in *. assert (a = 0) by lia. assert (b = 0) by lia. subst. reflexivity. }
  destruct (Z.eq_dec (Z.lor a b) 0) as [->|Hne]; [apply Z.pow_pos_nonneg; lia|].
  assert (0 <= Z.lor a b) by (apply Z.lor_nonneg; lia).
  apply Z.log2_lt_pow2; [lia|].
  rewrite Z.log2_lor by lia.
  apply Z.max_lub_lt.
  - destruct (Z.eq_dec a 0) as [->|]; [exact Hn|apply Z.log2_lt_pow2; lia].
  - destruct (Z.eq_dec b 0) as [->|]; [exact Hn|apply Z.log2_lt_pow2; lia].
Qed.

Lemma land_ones_range x k : 0 <= k -> 0 <= Z.land x (Z.ones k) < 2 ^ k.
Proof. intros Hk. rewrite Z.land_ones by exact Hk. apply Z.mod_pos_bound. apply Z.pow_pos_nonneg; lia. Qed.

Lemma hibit_spec : forall fuel m, 0 < m < 2 ^ Z.of_nat fuel ->
  0 <= hibit fuel m < Z.of_nat fuel /\ 2 ^ hibit fuel m <= m < 2 ^ (hibit fuel m + 1).
Proof.
  induction fuel as [|f IH]; intros m Hm.
  - change (2 ^ Z.of_nat 0) with 1 in Hm. lia.
  - cbn [hibit]. destruct (Z.ltb_spec m 2) as [Hlt|Hge].
    + assert (m = 1) by lia. subst m. split; [lia|]. change (2 ^ 0) with 1. change (2 ^ (0 + 1)) with 2. lia.
    + rewrite Z.shiftr_div_pow2 by lia. change (2 ^ 1) with 2.
      rewrite Nat2Z.inj_succ, Z.pow_succ_r in Hm by lia.
      assert (Hm2 : 0 < m / 2 < 2 ^ Z.of_nat f).
      { split; [apply Z.div_str_pos; lia|apply Z.div_lt_upper_bound; lia]. }
      destruct (IH _ Hm2) as [[Hp0 Hp1] [Hlo Hhi]].
      set (p := hibit f (m / 2)) in *.
      split; [lia|].
      replace (1 + p + 1) with (Z.succ (p + 1)) by lia.
      replace (1 + p) with (Z.succ p) by lia.
      rewrite !Z.pow_succ_r by lia.
      pose proof (Z.div_mod m 2 ltac:(lia)). pose proof (Z.mod_pos_bound m 2 ltac:(lia)). lia.
Qed.

Definition two64z : Z := 18446744073709551616.

Lemma single_to_double_range x : 0 <= single_to_double x < two64z.
Proof.
  unfold single_to_double.
  pose proof (land_ones_range (Z.shiftr x 31) 1 ltac:(lia)) as Hs.
  pose proof (land_ones_range (Z.shiftr x 23) 8 ltac:(lia)) as He.
  pose proof (land_ones_range x 23 ltac:(lia)) as Hm.
  change (Z.ones 1) with 1 in Hs. change (Z.ones 8) with 255 in He. change (Z.ones 23) with 8388607 in Hm.
  set (s := Z.land (Z.shiftr x 31) 1) in *.
  set (e := Z.land (Z.shiftr x 23) 255) in *.
  set (m := Z.land x 8388607) in *.
  change (2 ^ 1) with 2 in Hs. change (2 ^ 8) with 256 in He. change (2 ^ 23) with 8388608 in Hm.
  cbv zeta.
  assert (Hsign : 0 <= Z.shiftl s 63 < 2 ^ 64).
  { rewrite Z.shiftl_mul_pow2 by lia. change (2 ^ 63) with 9223372036854775808.
    change (2 ^ 64) with 18446744073709551616. lia. }
  change two64z with (2 ^ 64).
  destruct (Z.eqb_spec e 0) as [He0|He0].
  - destruct (Z.eqb_spec m 0) as [Hm0|Hm0]; [exact Hsign|].
    destruct (hibit_spec 24 m) as [[Hp0 Hp1] [Hlo Hhi]].
    { change (2 ^ Z.of_nat 24) with 16777216. lia. }
    set (p := hibit 24 m) in *. change (Z.of_nat 24) with 24 in Hp1.
    assert (Hp23 : p <= 22).
    { destruct (Z_le_gt_dec p 22); [assumption|]. exfalso.
      assert (2 ^ 23 <= 2 ^ p) by (apply Z.pow_le_mono_r; lia).
      change (2 ^ 23) with 8388608 in *. lia. }
    apply lor_range; [exact Hsign|]. apply lor_range.
    + rewrite Z.shiftl_mul_pow2 by lia. change (2 ^ 52) with 4503599627370496.
      change (2 ^ 64) with 18446744073709551616. lia.
    + rewrite (Z.shiftl_mul_pow2 1 p) by lia. rewrite Z.mul_1_l.
      rewrite Z.shiftl_mul_pow2 by lia.
      assert (Hpow : 2 ^ p * 2 ^ (52 - p) = 2 ^ 52).
      { rewrite <- Z.pow_add_r by lia. f_equal. lia. }
      assert (HB : 0 < 2 ^ (52 - p)) by (apply Z.pow_pos_nonneg; lia).
      replace (p + 1) with (Z.succ p) in Hhi by lia. rewrite Z.pow_succ_r in Hhi by lia.
      split; [apply Z.mul_nonneg_nonneg; lia|].
      apply Z.lt_trans with (2 ^ 52); [|reflexivity].
      rewrite <- Hpow. apply Z.mul_lt_mono_pos_r; lia.
  - destruct (Z.eqb_spec e 255) as [He1|He1].
    + destruct (Z.eqb_spec m 0) as [Hm0|Hm0].
      * apply lor_range; [exact Hsign|]. change (2 ^ 64) with 18446744073709551616. lia.
      * apply lor_range; [exact Hsign|]. apply lor_range.
        { change (2 ^ 64) with 18446744073709551616. lia. }
        { assert (Hl : 0 <= Z.lor m 4194304 < 2 ^ 23).
          { apply lor_range; change (2 ^ 23) with 8388608; lia. }
          rewrite Z.shiftl_mul_pow2 by lia. change (2 ^ 23) with 8388608 in Hl.
          change (2 ^ 29) with 536870912. change (2 ^ 64) with 18446744073709551616. lia. }
    + apply lor_range; [exact Hsign|]. apply lor_range.
      * rewrite Z.shiftl_mul_pow2 by lia. change (2 ^ 52) with 4503599627370496.
        change (2 ^ 64) with 18446744073709551616. lia.
      * rewrite Z.shiftl_mul_pow2 by lia. change (2 ^ 29) with 536870912.
        change (2 ^ 64) with 18446744073709551616. lia.
Qed.

(* ====================================================================== *)
(* 4. What the CBOR reading can produce, and its stability under           *)
(*    extension of the input — one pass over the reference parser          *)
(* ====================================================================== *)

(* [shape sg n]: every payload is inside its Go type, declared lengths are
   exact or -1, string payloads are bytes; with [sg = false] an Int is negative
   (what the CBOR reading yields: major type 0 is always a Uint). *)
Fixpoint shape (sg : bool) (n : tnode) : Prop :=
  match n with
  | Node tg v =>
    tag_ok tg /\
    match v with
    | VNull | VBool _ => True
    | VStr s | VByt s => bytes_ok s
    | VInt i => - 9223372036854775808 <= i < (if sg then 9223372036854775808 else 0)
    | VUint u => 0 <= u < 18446744073709551616
    | VFlt b => 0 <= b < 18446744073709551616
    | VArr d items => (d = -1 \/ d = Z.of_nat (length items)) /\ d < 9223372036854775808 /\
                      fold_right (fun x acc => shape sg x /\ acc) True items
    | VMap d es => (d = -1 \/ d = Z.of_nat (length es)) /\ d < 9223372036854775808 /\
                   fold_right (fun kv acc => (shape sg (fst kv) /\ shape sg (snd kv)) /\ acc) True es
    end
  end.

Definition pshape (sg : bool) (kv : tnode * tnode) : Prop := shape sg (fst kv) /\ shape sg (snd kv).

(* ---------- parser combinators ------------------------------------------- *)

Definition of_sum {A} (r : (A * bytes) + derr) : pres A :=
  match r with inl (a, rest) => POk a rest | inr e => PErr e end.
Definition pbind {A B} (g : bytes -> pres A) (h : A -> bytes -> pres B) (bs : bytes) : pres B :=
  match g bs with POk a r => h a r | PErr e => PErr e | PFuel => PFuel end.
Definition pmap {A B} (k : A -> B) (g : bytes -> pres A) (bs : bytes) : pres B :=
  match g bs with POk a r => POk (k a) r | PErr e => PErr e | PFuel => PFuel end.
Definition pcons {A} (h : Z -> bytes -> pres A) (bs : bytes) : pres A :=
  match bs with [] => PErr EEof | mb :: r => h mb r end.
(* a break byte ends the sequence with [d], anything else is left to [h] *)
Definition pbrk {A} (d : A) (h : bytes -> pres A) (bs : bytes) : pres A :=
  match bs with [] => PErr EEof | mb :: r => if mb =? sigBreak then POk d r else h bs end.
Definition pnobrk {A} (h : bytes -> pres A) (bs : bytes) : pres A :=
  match bs with [] => PErr EEof | mb :: _ => if mb =? sigBreak then PErr EMalformed else h bs end.

(* [good P g]: a successful run of [g] is unchanged by appending input, and on
   a byte string its value satisfies [P] and the rest is a byte string *)
Definition good {A} (P : A -> Prop) (g : bytes -> pres A) : Prop :=
  forall bs a rest, g bs = POk a rest ->
    (forall ext, g (bs ++ ext) = POk a (rest ++ ext)) /\
    (bytes_ok bs -> P a /\ bytes_ok rest).

Lemma good_ext {A} (P : A -> Prop) g h : (forall bs, g bs = h bs) -> good P h -> good P g.
Proof.
  intros E H bs a rest G. rewrite E in G. destruct (H _ _ _ G) as [X S].
  split; [intros ext; rewrite E; apply X|exact S].
Qed.

Lemma good_weaken {A} (P Q : A -> Prop) g : (forall a, P a -> Q a) -> good P g -> good Q g.
Proof.
  intros HPQ H bs a rest G. destruct (H _ _ _ G) as [X S]. split; [exact X|].
  intros Hb. destruct (S Hb). auto.
Qed.

Lemma good_ret {A} (P : A -> Prop) (a : A) : P a -> good P (fun bs => POk a bs).
Proof. intros Pa bs a' rest G. inversion G; subst. split; [reflexivity|auto]. Qed.

Lemma good_fail {A} (P : A -> Prop) (r : pres A) : (forall a rest, r <> POk a rest) -> good P (fun _ => r).
Proof. intros H bs a rest G. exfalso. eapply H; eauto. Qed.

Lemma good_err {A} (P : A -> Prop) e : good P (fun _ => @PErr A e).
Proof. apply good_fail. discriminate. Qed.

Lemma good_map {A B} (P : A -> Prop) (Q : B -> Prop) (k : A -> B) g :
  good P g -> (forall a, P a -> Q (k a)) -> good Q (pmap k g).
Proof.
  intros H HQ bs b rest G. unfold pmap in *.
  destruct (g bs) as [a r|e|] eqn:E; inversion G; subst.
  destruct (H _ _ _ E) as [X S]. split.
  - intros ext. rewrite X. reflexivity.
  - intros Hb. destruct (S Hb). auto.
Qed.

Lemma good_bind {A B} (P : A -> Prop) (Q : B -> Prop) (g : bytes -> pres A) (h : A -> bytes -> pres B) :
  good P g -> (forall a, good (fun b => P a -> Q b) (h a)) -> good Q (pbind g h).
Proof.
  intros H Hh bs b rest G. unfold pbind in *.
  destruct (g bs) as [a r|e|] eqn:E; try discriminate.
  destruct (H _ _ _ E) as [X S]. destruct (Hh a _ _ _ G) as [X2 S2]. split.
  - intros ext. rewrite X. apply X2.
  - intros Hb. destruct (S Hb) as [Pa Hr]. destruct (S2 Hr) as [Qb Hr']. auto.
Qed.

Lemma good_cons {A} (P : A -> Prop) (h : Z -> bytes -> pres A) :
  (forall mb, good (fun a => byte_ok mb -> P a) (h mb)) -> good P (pcons h).
Proof.
  intros H bs a rest G. destruct bs as [|mb r]; [discriminate|]. cbn [pcons] in G.
  destruct (H mb r a rest G) as [X S]. split.
  - intros ext. cbn [app pcons]. apply X.
  - intros Hb. inversion Hb; subst. destruct (S H3). auto.
Qed.

Lemma good_pbrk {A} (P : A -> Prop) (d : A) h : P d -> good P h -> good P (pbrk d h).
Proof.
  intros Pd H bs a rest G. destruct bs as [|mb r]; [discriminate|]. cbn [pbrk] in G.
  cbn [app pbrk]. destruct (mb =? sigBreak).
  - inversion G; subst. split; [reflexivity|]. intros Hb. inversion Hb; subst. auto.
  - destruct (H _ _ _ G) as [X S]. split; [intros ext; apply (X ext)|exact S].
Qed.

Lemma good_pnobrk {A} (P : A -> Prop) h : good P h -> good P (pnobrk h).
Proof.
  intros H bs a rest G. destruct bs as [|mb r]; [discriminate|]. cbn [pnobrk] in G.
  cbn [app pnobrk]. destruct (mb =? sigBreak); [discriminate|].
  destruct (H _ _ _ G) as [X S]. split; [intros ext; apply (X ext)|exact S].
Qed.

Lemma good_sum_map {A B} (P : A -> Prop) (Q : B -> Prop) (t : bytes -> (A * bytes) + derr) (k : A -> B) :
  good P (fun bs => of_sum (t bs)) -> (forall a, P a -> Q (k a)) ->
  good Q (fun bs => match t bs with inl (b, rest) => POk (k b) rest | inr e => PErr e end).
Proof.
  intros H HQ. eapply good_ext with (h := pmap k (fun bs => of_sum (t bs))).
  - intros bs. unfold pmap. destruct (t bs) as [[a r]|e]; reflexivity.
  - eapply good_map; eauto.
Qed.

Lemma good_sum_bind {A B} (P : A -> Prop) (Q : B -> Prop) (t : bytes -> (A * bytes) + derr)
      (h : A -> bytes -> pres B) :
  good P (fun bs => of_sum (t bs)) -> (forall a, good (fun b => P a -> Q b) (h a)) ->
  good Q (fun bs => match t bs with inl (a, r) => h a r | inr e => PErr e end).
Proof.
  intros H Hh. eapply good_ext with (h := pbind (fun bs => of_sum (t bs)) h).
  - intros bs. unfold pbind. destruct (t bs) as [[a r]|e]; reflexivity.
  - eapply good_bind; eauto.
Qed.

(* ---------- terminals ------------------------------------------------------ *)

Lemma good_readn n :
  good (fun a => bytes_ok a /\ (0 < n -> Z.of_nat (length a) = n)) (fun bs => of_sum (readn n bs)).
Proof.
  intros bs a rest G. unfold readn in *.
  destruct (Z.eqb_spec n 0) as [Hn|Hn].
  - cbn [of_sum] in G. inversion G; subst. split; [reflexivity|].
    intros Hb. split; [split; [constructor|lia]|exact Hb].
  - destruct (Z.ltb_spec (Z.of_nat (length bs)) n) as [Hl|Hl]; [discriminate|].
    cbn [of_sum] in G. inversion G; subst. clear G.
    assert (Hk : (Z.to_nat n <= length bs)%nat) by lia.
    split.
    + intros ext. destruct (Z.ltb_spec (Z.of_nat (length (bs ++ ext))) n) as [Hl2|Hl2].
      { rewrite app_length in Hl2. lia. }
      cbn [of_sum]. rewrite firstn_app, skipn_app.
      replace (Z.to_nat n - length bs)%nat with 0%nat by lia.
      cbn [firstn skipn]. rewrite app_nil_r. reflexivity.
    + intros Hb. rewrite <- (firstn_skipn (Z.to_nat n) bs) in Hb. apply bytes_ok_app in Hb.
      destruct Hb as [H1 H2]. split; [split; [exact H1|]|exact H2].
      intros Hpos. rewrite firstn_length. rewrite Nat.min_l by lia. lia.
Qed.

Lemma unbe_range a k : bytes_ok a -> Z.of_nat (length a) = k -> 0 < k <= 8 -> 0 <= unbe a < two64z.
Proof.
  intros Ha Hl Hk. pose proof (unbe_bound a Ha) as Hb. rewrite Hl in Hb.
  assert (256 ^ k <= 256 ^ 8) by (apply Z.pow_le_mono_r; lia).
  change (256 ^ 8) with two64z in *. lia.
Qed.

Lemma good_dec_uint mb : good (fun u => 0 <= u < two64z) (fun bs => of_sum (dec_uint mb bs)).
Proof.
  eapply good_ext with (h := fun bs =>
    if Z.land mb 31 <=? 23 then POk (Z.land mb 31) bs
    else if Z.land mb 31 =? 24 then pcons (fun b r => POk b r) bs
    else if Z.land mb 31 =? 25 then pmap CborSpec.unbe (fun bs => of_sum (readn 2 bs)) bs
    else if Z.land mb 31 =? 26 then pmap CborSpec.unbe (fun bs => of_sum (readn 4 bs)) bs
    else if Z.land mb 31 =? 27 then pmap CborSpec.unbe (fun bs => of_sum (readn 8 bs)) bs
    else PErr EMalformed).
  - intros bs. unfold dec_uint. cbv zeta.
    destruct (Z.land mb 31 <=? 23); [reflexivity|].
    destruct (Z.land mb 31 =? 24); [destruct bs; reflexivity|].
    unfold pmap.
    destruct (Z.land mb 31 =? 25); [destruct (readn 2 bs) as [[a r]|e]; reflexivity|].
    destruct (Z.land mb 31 =? 26); [destruct (readn 4 bs) as [[a r]|e]; reflexivity|].
    destruct (Z.land mb 31 =? 27); [destruct (readn 8 bs) as [[a r]|e]; reflexivity|].
    reflexivity.
  - assert (Hnn : 0 <= Z.land mb 31) by (apply Z.land_nonneg; lia).
    destruct (Z.leb_spec (Z.land mb 31) 23); [apply good_ret; unfold two64z; lia|].
    destruct (Z.land mb 31 =? 24).
    { apply good_cons. intros b. apply good_ret. unfold byte_ok, two64z. lia. }
    destruct (Z.land mb 31 =? 25).
    { eapply good_map; [apply good_readn|]. intros a [Ha Hl]. apply (unbe_range a 2); auto; lia. }
    destruct (Z.land mb 31 =? 26).
    { eapply good_map; [apply good_readn|]. intros a [Ha Hl]. apply (unbe_range a 4); auto; lia. }
    destruct (Z.land mb 31 =? 27).
    { eapply good_map; [apply good_readn|]. intros a [Ha Hl]. apply (unbe_range a 8); auto; lia. }
    apply good_err.
Qed.

Lemma good_dec_len mb : good (fun u => 0 <= u <= maxInt) (fun bs => of_sum (dec_len mb bs)).
Proof.
  eapply good_ext with (h := pbind (fun bs => of_sum (dec_uint mb bs))
    (fun u r => if maxInt <? u then PErr EMalformed else POk u r)).
  - intros bs. unfold dec_len, pbind. destruct (dec_uint mb bs) as [[u r]|e]; cbn [of_sum]; [|reflexivity].
    destruct (maxInt <? u); reflexivity.
  - eapply good_bind; [apply good_dec_uint|].
    intros u. destruct (Z.ltb_spec maxInt u); [apply good_err|apply good_ret; lia].
Qed.

Lemma good_dec_negint mb :
  good (fun i => - 9223372036854775808 <= i < 0) (fun bs => of_sum (dec_negint mb bs)).
Proof.
  eapply good_ext with (h := pbind (fun bs => of_sum (dec_uint mb bs))
    (fun u r => if maxInt <? u then PErr EMalformed else POk (-1 - u) r)).
  - intros bs. unfold dec_negint, pbind. destruct (dec_uint mb bs) as [[u r]|e]; cbn [of_sum]; [|reflexivity].
    destruct (maxInt <? u); reflexivity.
  - eapply good_bind; [apply good_dec_uint|].
    intros u. destruct (Z.ltb_spec maxInt u); [apply good_err|apply good_ret; unfold maxInt in *; lia].
Qed.

Lemma good_dec_float mb : good (fun b => 0 <= b < two64z) (fun bs => of_sum (dec_float mb bs)).
Proof.
  eapply good_ext with (h := fun bs =>
    if mb =? sigF16 then pmap (fun a => single_to_double (half_to_single (CborSpec.unbe a))) (fun bs => of_sum (readn 2 bs)) bs
    else if mb =? sigF32 then pmap (fun a => single_to_double (CborSpec.unbe a)) (fun bs => of_sum (readn 4 bs)) bs
    else pmap CborSpec.unbe (fun bs => of_sum (readn 8 bs)) bs).
  - intros bs. unfold dec_float, pmap.
    destruct (mb =? sigF16); [destruct (readn 2 bs) as [[a r]|e]; reflexivity|].
    destruct (mb =? sigF32); [destruct (readn 4 bs) as [[a r]|e]; reflexivity|].
    destruct (readn 8 bs) as [[a r]|e]; reflexivity.
  - destruct (mb =? sigF16).
    { eapply good_map; [apply good_readn|]. intros a _. apply single_to_double_range. }
    destruct (mb =? sigF32).
    { eapply good_map; [apply good_readn|]. intros a _. apply single_to_double_range. }
    eapply good_map; [apply good_readn|]. intros a [Ha Hl]. apply (unbe_range a 8); auto; lia.
Qed.

Lemma good_dec_bytes mb : good bytes_ok (fun bs => of_sum (fst (dec_bytes mb bs))).
Proof.
  eapply good_ext with (h := pbind (fun bs => of_sum (dec_len mb bs))
    (fun n r => if item_cap <? n then PErr EMalformed else of_sum (readn n r))).
  - intros bs. unfold dec_bytes, pbind. destruct (dec_len mb bs) as [[n r]|e]; cbn [of_sum fst]; [|reflexivity].
    destruct (item_cap <? n); reflexivity.
  - eapply good_bind; [apply good_dec_len|].
    intros n. destruct (item_cap <? n); [apply good_err|].
    eapply good_weaken; [|apply good_readn]. intros a [Ha _] _. exact Ha.
Qed.

Lemma dec_chunks_shape f want acc cap alloc bs :
  of_sum (fst (dec_chunks (S f) want acc cap alloc bs)) =
  pcons (fun mb r =>
    if mb =? sigBreak then POk acc r
    else if negb (mb - Z.land mb 31 =? want) then PErr EMalformed
    else pbind (fun r => of_sum (dec_len mb r)) (fun n r2 =>
      if item_cap <? n then PErr EMalformed
      else pbind (fun r2 => of_sum (readn n r2)) (fun c r3 =>
        of_sum (fst (dec_chunks f want (acc ++ c)
          (if cap <? Z.of_nat (length acc) + n then 2 * cap + n else cap)
          (if cap <? Z.of_nat (length acc) + n then alloc + 2 * cap + n else alloc) r3))) r2) r) bs.
Proof.
  cbn [dec_chunks]. destruct bs as [|mb r]; [reflexivity|]. cbn [readn1 pcons].
  destruct (mb =? sigBreak); [reflexivity|].
  destruct (negb (mb - Z.land mb 31 =? want)); [reflexivity|].
  unfold pbind at 1. destruct (dec_len mb r) as [[n r2]|e]; cbn [of_sum fst]; [|reflexivity].
  destruct (item_cap <? n); [reflexivity|].
  unfold pbind.
  destruct (cap <? Z.of_nat (length acc) + n);
    destruct (readn n r2) as [[c0 r3]|e]; reflexivity.
Qed.

Lemma good_dec_chunks f : forall want acc cap alloc,
  good (fun s => bytes_ok acc -> bytes_ok s) (fun bs => of_sum (fst (dec_chunks f want acc cap alloc bs))).
Proof.
  induction f as [|f IH]; intros want acc cap alloc.
  { apply good_err. }
  eapply good_ext; [intros bs; apply dec_chunks_shape|].
  apply good_cons. intros mb.
  destruct (mb =? sigBreak); [apply good_ret; auto|].
  destruct (negb (mb - Z.land mb 31 =? want)); [apply good_err|].
  eapply good_bind; [apply good_dec_len|].
  intros n. destruct (item_cap <? n); [apply good_err|].
  eapply good_bind; [apply good_readn|].
  intros c0. eapply good_weaken; [|apply IH].
  intros s Hs [Hc _] _ _ Hacc. apply Hs. apply bytes_ok_app. auto.
Qed.

Lemma dec_chunks_fuel f : forall f' want acc cap alloc bs,
  (length bs < f)%nat -> (length bs < f')%nat ->
  dec_chunks f want acc cap alloc bs = dec_chunks f' want acc cap alloc bs.
Proof.
  induction f as [|f IH]; intros f' want acc cap alloc bs L L'; [lia|].
  destruct f' as [|f']; [lia|]. cbn [dec_chunks].
  destruct bs as [|mb r]; [reflexivity|]. cbn [readn1]. cbn [length] in L, L'.
  destruct (mb =? sigBreak); [reflexivity|].
  destruct (negb (mb - Z.land mb 31 =? want)); [reflexivity|].
  destruct (dec_len mb r) as [[n r2]|e] eqn:E; [|reflexivity].
  destruct (item_cap <? n); [reflexivity|].
  apply CborDecProof.dec_len_sfx in E. apply CborDecProof.sfx_len in E.
  destruct (cap <? Z.of_nat (length acc) + n);
    destruct (readn n r2) as [[c0 r3]|e] eqn:E2; try reflexivity;
    apply CborDecProof.readn_sfx in E2; apply CborDecProof.sfx_len in E2; apply IH; lia.
Qed.

Lemma good_dec_indef_string want : good bytes_ok (fun bs => of_sum (fst (dec_indef_string want bs))).
Proof.
  intros bs a rest G. unfold dec_indef_string in *. split.
  - intros ext.
    rewrite (dec_chunks_fuel (S (length bs)) (S (length (bs ++ ext)))) in G
      by (rewrite ?app_length; lia).
    apply (good_dec_chunks (S (length (bs ++ ext))) want [] 16 16 bs a rest G).
  - intros Hb. destruct (good_dec_chunks _ _ _ _ _ _ _ _ G) as [_ S]. destruct (S Hb) as [Ha Hr].
    split; [apply Ha; constructor|exact Hr].
Qed.

(* ---------- the reference reading ----------------------------------------- *)

Definition g_item (f : nat) := forall c, good (shape false) (pitem f c).
Definition g_body (f : nat) := forall c mb tg, good (fun n => tag_ok tg -> shape false n) (pbody f c mb tg).
Definition g_ai (f : nat) := forall c, good (Forall (shape false)) (pitems_indef f c).
Definition g_ad (f : nat) := forall c n,
  good (fun xs => Forall (shape false) xs /\ n = Z.of_nat (length xs)) (pitems_def f c n).
Definition g_mi (f : nat) := forall c, good (Forall (pshape false)) (ppairs_indef f c).
Definition g_md (f : nat) := forall c n,
  good (fun es => Forall (pshape false) es /\ n = Z.of_nat (length es)) (ppairs_def f c n).

Lemma shape_arr sg tg d xs : tag_ok tg -> (d = -1 \/ d = Z.of_nat (length xs)) -> d < 9223372036854775808 ->
  Forall (shape sg) xs -> shape sg (Node tg (VArr d xs)).
Proof. intros. cbn [shape]. repeat split; auto. apply fold_pair_Forall. assumption. Qed.

Lemma shape_map sg tg d es : tag_ok tg -> (d = -1 \/ d = Z.of_nat (length es)) -> d < 9223372036854775808 ->
  Forall (pshape sg) es -> shape sg (Node tg (VMap d es)).
Proof.
  intros. cbn [shape]. repeat split; auto.
  apply (fold_pair_Forall (fun kv => shape sg (fst kv) /\ shape sg (snd kv))). assumption.
Qed.

Lemma g_item_step f : g_body f -> g_item (S f).
Proof.
  intros Hb c.
  eapply good_ext with (h := pcons (fun mb r =>
    if is_tag_byte mb then
      match dec_len mb r with
      | inl (t, r1) => pcons (fun mb2 r2 =>
          if is_tag_byte mb2 then PErr EMalformed else pbody f c mb2 (Some t) r2) r1
      | inr e => PErr e
      end
    else pbody f c mb None r)).
  - intros bs. rewrite pitem_S. destruct bs as [|mb r]; reflexivity.
  - apply good_cons. intros mb. destruct (is_tag_byte mb).
    + apply (good_sum_bind (fun u => 0 <= u <= maxInt) _ (dec_len mb)); [apply good_dec_len|].
      intros t. apply good_cons. intros mb2.
      destruct (is_tag_byte mb2); [apply good_err|].
      eapply good_weaken; [|apply Hb]. intros n Hn _ Ht _. apply Hn.
      cbn [tag_ok]. unfold maxInt, CborSpec.two63 in *. change (2 ^ 63) with 9223372036854775808. lia.
    + eapply good_weaken; [|apply Hb]. intros n Hn _. apply Hn. exact I.
Qed.

Lemma g_body_step f : g_ai f -> g_ad f -> g_mi f -> g_md f -> g_body (S f).
Proof.
  intros Hai Had Hmi Hmd c mb tg.
  eapply good_ext; [intros bs; cbn [pbody]; unfold pscalar; reflexivity|].
  cbv beta.
  destruct (mb =? sigNil); [apply good_ret; cbn [shape]; auto|].
  destruct (mb =? sigUndef); [destruct c; [apply good_ret; cbn [shape]; auto|apply good_err]|].
  destruct (mb =? sigFalse); [apply good_ret; cbn [shape]; auto|].
  destruct (mb =? sigTrue); [apply good_ret; cbn [shape]; auto|].
  destruct ((mb =? sigF16) || (mb =? sigF32) || (mb =? sigF64)).
  { apply (good_sum_map (fun b => 0 <= b < two64z) _ (dec_float mb) (fun b => Node tg (VFlt b)));
      [apply good_dec_float|]. intros b Hb Ht. cbn [shape]. auto. }
  destruct (mb =? sigIndefBytes).
  { apply (good_sum_map bytes_ok _ (fun bs => fst (dec_indef_string majBytes bs)) (fun b => Node tg (VByt b)));
      [apply good_dec_indef_string|]. intros b Hb Ht. cbn [shape]. auto. }
  destruct (mb =? sigIndefString).
  { apply (good_sum_map bytes_ok _ (fun bs => fst (dec_indef_string majString bs)) (fun b => Node tg (VStr b)));
      [apply good_dec_indef_string|]. intros b Hb Ht. cbn [shape]. auto. }
  destruct (mb =? sigIndefArray).
  { eapply (good_map _ _ (fun xs => Node tg (VArr (-1) xs))); [apply Hai|].
    intros xs Hxs Ht. apply shape_arr; auto; lia. }
  destruct (mb =? sigIndefMap).
  { eapply (good_map _ _ (fun xs => Node tg (VMap (-1) xs))); [apply Hmi|].
    intros xs Hxs Ht. apply shape_map; auto; lia. }
  destruct (mb <? majNegInt).
  { apply (good_sum_map (fun b => 0 <= b < two64z) _ (dec_uint mb) (fun b => Node tg (VUint b)));
      [apply good_dec_uint|]. intros b Hb Ht. cbn [shape]. auto. }
  destruct (mb <? majBytes).
  { apply (good_sum_map (fun i => - 9223372036854775808 <= i < 0) _ (dec_negint mb) (fun b => Node tg (VInt b)));
      [apply good_dec_negint|]. intros b Hb Ht. cbn [shape]. auto. }
  destruct (mb <? majString).
  { apply (good_sum_map bytes_ok _ (fun bs => fst (dec_bytes mb bs)) (fun b => Node tg (VByt b)));
      [apply good_dec_bytes|]. intros b Hb Ht. cbn [shape]. auto. }
  destruct (mb <? majArray).
  { apply (good_sum_map bytes_ok _ (fun bs => fst (dec_bytes mb bs)) (fun b => Node tg (VStr b)));
      [apply good_dec_bytes|]. intros b Hb Ht. cbn [shape]. auto. }
  destruct (mb <? majMap).
  { apply (good_sum_bind (fun u => 0 <= u <= maxInt) _ (dec_len mb)); [apply good_dec_len|]. intros n.
    eapply (good_map _ _ (fun xs => Node tg (VArr n xs))); [apply Had|].
    intros xs [Hxs Hl] Hn Ht. apply shape_arr; auto. unfold maxInt in Hn. lia. }
  destruct (mb <? majTag).
  { apply (good_sum_bind (fun u => 0 <= u <= maxInt) _ (dec_len mb)); [apply good_dec_len|]. intros n.
    eapply (good_map _ _ (fun xs => Node tg (VMap n xs))); [apply Hmd|].
    intros xs [Hxs Hl] Hn Ht. apply shape_map; auto. unfold maxInt in Hn. lia. }
  apply good_err.
Qed.

Lemma g_ai_step f : g_item f -> g_ai f -> g_ai (S f).
Proof.
  intros Hi Hai c.
  eapply good_ext with (h := pbrk [] (pbind (pitem f c) (fun x => pmap (cons x) (pitems_indef f c)))).
  - intros bs. rewrite pitems_indef_S. destruct bs as [|mb r]; reflexivity.
  - apply good_pbrk; [constructor|].
    eapply good_bind; [apply Hi|]. intros x.
    eapply good_map; [apply Hai|]. intros xs Hxs Hx. constructor; assumption.
Qed.

Lemma g_ad_step f : g_item f -> g_ad f -> g_ad (S f).
Proof.
  intros Hi Had c n.
  eapply good_ext with (h := fun bs =>
    if n =? 0 then POk [] bs
    else pbind (pitem f c) (fun x => pmap (cons x) (pitems_def f c (n - 1))) bs).
  - intros bs. rewrite pitems_def_S. reflexivity.
  - destruct (Z.eqb_spec n 0); [apply good_ret; split; [constructor|cbn [length]; lia]|].
    eapply good_bind; [apply Hi|]. intros x.
    eapply good_map; [apply Had|]. intros xs [Hxs Hl] Hx.
    split; [constructor; assumption|cbn [length]; lia].
Qed.

Lemma g_mi_step f : g_item f -> g_mi f -> g_mi (S f).
Proof.
  intros Hi Hmi c.
  eapply good_ext with (h := pbrk [] (pbind (pitem f c) (fun k =>
           pnobrk (pbind (pitem f c) (fun v => pmap (cons (k, v)) (ppairs_indef f c)))))).
  - intros bs. rewrite ppairs_indef_S. destruct bs as [|mb r]; [reflexivity|]. cbn [pbrk].
    destruct (mb =? sigBreak); [reflexivity|]. unfold pbind at 1.
    destruct (pitem f c (mb :: r)) as [k r1|e|]; reflexivity.
  - apply good_pbrk; [constructor|].
    eapply good_bind; [apply Hi|]. intros k.
    apply good_pnobrk.
    eapply good_bind; [eapply good_weaken; [|apply Hi]; intros v Hv; exact Hv|]. intros v.
    eapply good_map; [apply Hmi|]. intros es Hes Hv Hk. constructor; [split; assumption|assumption].
Qed.

Lemma g_md_step f : g_item f -> g_md f -> g_md (S f).
Proof.
  intros Hi Hmd c n.
  eapply good_ext with (h := fun bs =>
    if n =? 0 then POk [] bs
    else pbind (pitem f c) (fun k =>
           pbind (pitem f c) (fun v => pmap (cons (k, v)) (ppairs_def f c (n - 1)))) bs).
  - intros bs. rewrite ppairs_def_S. reflexivity.
  - destruct (Z.eqb_spec n 0); [apply good_ret; split; [constructor|cbn [length]; lia]|].
    eapply good_bind; [apply Hi|]. intros k.
    eapply good_bind; [eapply good_weaken; [|apply Hi]; intros v Hv; exact Hv|]. intros v.
    eapply good_map; [apply Hmd|]. intros es [Hes Hl] Hv Hk.
    split; [constructor; [split; assumption|assumption]|cbn [length]; lia].
Qed.

Lemma g_all : forall f, g_item f /\ g_body f /\ g_ai f /\ g_ad f /\ g_mi f /\ g_md f.
Proof.
  induction f as [|f IH].
  { repeat split; repeat intro; discriminate. }
  destruct IH as (IHi & IHb & IHai & IHad & IHmi & IHmd).
  split; [|split; [|split; [|split; [|split]]]].
  - apply g_item_step; assumption.
  - apply g_body_step; assumption.
  - apply g_ai_step; assumption.
  - apply g_ad_step; assumption.
  - apply g_mi_step; assumption.
  - apply g_md_step; assumption.
Qed.

(* the two facts used below *)
Lemma pitem_frame f c bs n rest ext :
  pitem f c bs = POk n rest -> pitem f c (bs ++ ext) = POk n (rest ++ ext).
Proof. intros H. destruct (g_all f) as [Hi _]. apply (Hi c bs n rest H). Qed.

Lemma pitem_shape f c bs n rest :
  bytes_ok bs -> pitem f c bs = POk n rest -> shape false n /\ bytes_ok rest.
Proof. intros Hb H. destruct (g_all f) as [Hi _]. apply (Hi c bs n rest H). exact Hb. Qed.

(* ====================================================================== *)
(* 5. Consequences of [shape]: the side conditions of the encoder and of   *)
(*    the CBOR round-trip theorem                                          *)
(* ====================================================================== *)

Lemma Forall_mp {A} (P Q : A -> Prop) l : Forall (fun x => P x -> Q x) l -> Forall P l -> Forall Q l.
Proof. induction 1; intros H'; inversion H'; subst; constructor; auto. Qed.

Lemma forallb_flat_map {A B} (p : B -> bool) (f : A -> list B) l :
  forallb p (flat_map f l) = forallb (fun x => forallb p (f x)) l.
Proof. induction l as [|x l IH]; [reflexivity|]. cbn [flat_map forallb]. rewrite forallb_app, IH. reflexivity. Qed.

Lemma cap_arr tg d items : str_cap_ok (flatten (Node tg (VArr d items))) = true ->
  Forall (fun x => str_cap_ok (flatten x) = true) items.
Proof.
  unfold str_cap_ok. cbn [flatten forallb tv andb]. rewrite forallb_app, forallb_flat_map.
  intros H. apply andb_prop in H. destruct H as [H _]. apply Forall_forall. intros x Hx.
  rewrite forallb_forall in H. apply H. exact Hx.
Qed.

Lemma cap_map tg d es : str_cap_ok (flatten (Node tg (VMap d es))) = true ->
  Forall (fun kv => str_cap_ok (flatten (fst kv)) = true /\ str_cap_ok (flatten (snd kv)) = true) es.
Proof.
  unfold str_cap_ok. cbn [flatten forallb tv andb]. rewrite forallb_app, forallb_flat_map.
  intros H. apply andb_prop in H. destruct H as [H _]. apply Forall_forall. intros x Hx.
  rewrite forallb_forall in H. specialize (H x Hx). rewrite forallb_app in H.
  apply andb_prop in H. exact H.
Qed.

Definition shape_conseq (sg : bool) (n : tnode) : Prop :=
  len_ok n /\ indef_m1 n /\ (wf_keys key_cbor n -> enc_ok n) /\
  (str_cap_ok (flatten n) = true -> rt_ok n) /\ (sg = false -> canon n = n).

Lemma map_id_Forall {A} (f : A -> A) l : Forall (fun x => f x = x) l -> map f l = l.
Proof. induction 1; [reflexivity|]. cbn [map]. congruence. Qed.

Lemma shape_facts sg n : shape sg n -> shape_conseq sg n.
Proof.
  induction n as [tg v Hleaf|tg d items IH|tg d es IH] using tnode_ind'; intros Hs.
  - destruct Hs as [Ht Hv]. unfold shape_conseq.
    unfold CborSpec.two63, CborSpec.two64, str_cap_ok.
    change (2 ^ 63) with 9223372036854775808. change (2 ^ 64) with 18446744073709551616.
    destruct v; try contradiction;
      cbn [len_ok indef_m1 enc_ok rt_ok canon flatten forallb tv];
      unfold CborSpec.two63, CborSpec.two64;
      change (2 ^ 63) with 9223372036854775808; change (2 ^ 64) with 18446744073709551616;
      repeat split; auto; try lia.
    + destruct sg; lia.
    + intros ->. destruct (Z.leb_spec 0 i); [lia|reflexivity].
  - destruct Hs as (Ht & Hd & Hd63 & Hitems). apply fold_pair_Forall in Hitems.
    pose proof (Forall_mp _ _ _ IH Hitems) as Hq. clear IH. unfold shape_conseq.
    split; [|split; [|split; [|split]]].
    + cbn [len_ok]. split; [lia|]. apply fold_pair_Forall.
      eapply Forall_impl; [|exact Hq]. intros x Hx. apply Hx.
    + cbn [indef_m1]. split; [lia|]. apply fold_pair_Forall.
      eapply Forall_impl; [|exact Hq]. intros x Hx. apply Hx.
    + intros Hwf. apply wf_arr in Hwf. cbn [enc_ok]. split; [exact Ht|]. split.
      { unfold CborSpec.two63. change (2 ^ 63) with 9223372036854775808. exact Hd63. }
      apply fold_pair_Forall. eapply Forall_mp; [|exact Hwf].
      eapply Forall_impl; [|exact Hq]. intros x Hx. apply Hx.
    + intros Hcap. apply cap_arr in Hcap. cbn [rt_ok]. apply fold_pair_Forall.
      eapply Forall_mp; [|exact Hcap].
      eapply Forall_impl; [|exact Hq]. intros x Hx. apply Hx.
    + intros Hsg. rewrite canon_arr. f_equal. f_equal.
      * destruct (Z.leb_spec 0 d); lia.
      * apply map_id_Forall. eapply Forall_impl; [|exact Hq]. intros x Hx. apply Hx. exact Hsg.
  - destruct Hs as (Ht & Hd & Hd63 & Hes).
    apply (fold_pair_Forall (fun kv => shape sg (fst kv) /\ shape sg (snd kv))) in Hes.
    assert (Hq : Forall (fun kv => shape_conseq sg (fst kv) /\ shape_conseq sg (snd kv)) es).
    { clear -IH Hes. induction IH as [|kv es [H1 H2] _ IHes]; [constructor|].
      inversion Hes as [|? ? [S1 S2] Hes']; subst. constructor; auto. }
    clear IH. unfold shape_conseq.
    split; [|split; [|split; [|split]]].
    + cbn [len_ok]. split; [lia|].
      apply (fold_pair_Forall (fun kv => len_ok (fst kv) /\ len_ok (snd kv))).
      eapply Forall_impl; [|exact Hq]. intros kv [H1 H2]. split; [apply H1|apply H2].
    + cbn [indef_m1]. split; [lia|].
      apply (fold_pair_Forall (fun kv => indef_m1 (fst kv) /\ indef_m1 (snd kv))).
      eapply Forall_impl; [|exact Hq]. intros kv [H1 H2]. split; [apply H1|apply H2].
    + intros Hwf. apply wf_map in Hwf. cbn [enc_ok]. split; [exact Ht|]. split.
      { unfold CborSpec.two63. change (2 ^ 63) with 9223372036854775808. exact Hd63. }
      apply (fold_pair_Forall (fun kv => is_keyable (fst kv) /\ enc_ok (fst kv) /\ enc_ok (snd kv))).
      eapply Forall_mp; [|exact Hwf].
      eapply Forall_impl; [|exact Hq]. intros [k w] [H1 H2] [Hk Hw]. cbn [fst snd] in *.
      destruct k as [ktg kv]. cbn [key_wf] in Hk. destruct Hk as [Hkl Hkk].
      split; [|split].
      * destruct kv; try discriminate; exact I.
      * apply H1. apply wf_leaf. exact Hkl.
      * apply H2. exact Hw.
    + intros Hcap. apply cap_map in Hcap. cbn [rt_ok].
      apply (fold_pair_Forall (fun kv => rt_ok (fst kv) /\ rt_ok (snd kv))).
      eapply Forall_mp; [|exact Hcap].
      eapply Forall_impl; [|exact Hq]. intros kv [H1 H2] [C1 C2]. split; [apply H1|apply H2]; assumption.
    + intros Hsg. rewrite canon_map. f_equal. f_equal.
      * destruct (Z.leb_spec 0 d); lia.
      * apply map_id_Forall. eapply Forall_impl; [|exact Hq]. intros [k w] [H1 H2].
        unfold canon_pair. cbn [fst snd]. f_equal; [apply H1|apply H2]; exact Hsg.
Qed.

(* token-level form of [canon] *)
Lemma flatten_canon n : flatten (canon n) = map canon_tok (flatten n).
Proof.
  induction n as [tg v Hleaf|tg d items IH|tg d es IH] using tnode_ind'.
  - destruct v; try contradiction; try reflexivity.
    cbn [canon flatten map]. unfold canon_tok. cbn [tv tag]. destruct (0 <=? i); reflexivity.
  - rewrite canon_arr. cbn [flatten map]. unfold canon_tok at 1. cbn [tv tag]. f_equal.
    rewrite map_app. cbn [map]. f_equal.
    induction IH as [|x xs Hx _ IHxs]; [reflexivity|].
    cbn [map flat_map]. rewrite map_app, Hx, IHxs. reflexivity.
  - rewrite canon_map. cbn [flatten map]. unfold canon_tok at 1. cbn [tv tag]. f_equal.
    rewrite map_app. cbn [map]. f_equal.
    induction IH as [|x xs [Hk Hv] _ IHxs]; [reflexivity|].
    cbn [map flat_map]. rewrite IHxs. unfold canon_pair. cbn [fst snd]. rewrite !map_app, Hk, Hv. reflexivity.
Qed.

(* ====================================================================== *)
(* 6. CBOR -> CBOR                                                         *)
(* ====================================================================== *)

(* the pump succeeds exactly when the decoded tokens pass the encoder's
   grammar, i.e. every map key is a string / int / uint *)
Lemma pump_c2c_keys_ok c bs toks rest a :
  dec_run c bs = DOk toks rest a -> cbor_keys_ok toks = true ->
  exists chunks, enc_tokens toks = Finished chunks (length toks) /\
                 pump_c2c c bs = PumpOk (concat chunks) rest.
Proof.
  intros H Hk. unfold pump_c2c. rewrite H.
  pose proof (cbor_encoder_accepts_grammar toks) as Ag.
  unfold cbor_keys_ok, grammar_okb in Hk.
  destruct (ctx_run key_cbor [] toks 0) as [m| |]; try discriminate.
  apply Nat.eqb_eq in Hk. subst m.
  destruct (enc_tokens toks) as [chunks k| | |]; cbn in Ag; try contradiction. subst k.
  exists chunks. split; [reflexivity|]. rewrite Nat.eqb_refl. reflexivity.
Qed.

Lemma pump_c2c_ok_keys c bs toks rest a out r :
  dec_run c bs = DOk toks rest a -> pump_c2c c bs = PumpOk out r ->
  cbor_keys_ok toks = true /\ r = rest.
Proof.
  intros H Hp. unfold pump_c2c in Hp. rewrite H in Hp.
  pose proof (cbor_encoder_accepts_grammar toks) as Ag.
  destruct (enc_tokens toks) as [chunks k| | |]; try discriminate.
  destruct (Nat.eqb k (length toks)) eqn:E; [|discriminate]. inversion Hp; subst.
  split; [|reflexivity]. unfold cbor_keys_ok, grammar_okb.
  destruct (ctx_run key_cbor [] toks 0) as [m| |]; cbn in Ag; try contradiction. subst m. exact E.
Qed.

(* 1. value preservation *)
Theorem pump_c2c_value : forall c bs toks rest a,
  bytes_ok bs -> dec_run c bs = DOk toks rest a ->
  cbor_keys_ok toks = true -> str_cap_ok toks = true ->
  exists out,
    pump_c2c c bs = PumpOk out rest /\
    (forall tail, exists a', dec_run c (out ++ tail) = DOk toks tail a') /\
    (exists n, parse_item c bs = POk n rest /\ parse_item c out = POk n [] /\
               toks = flatten n /\ out = rfc_enc n) /\
    (exists used, bs = used ++ rest /\ used <> []).
Proof.
  intros c bs toks rest a Hb H Hk Hcap.
  destruct (dec_sound _ _ _ _ _ H) as (n & Hp & ->).
  pose proof Hp as Hp'. unfold parse_item in Hp'.
  destruct (pitem_shape _ _ _ _ _ Hb Hp') as [Hs _].
  destruct (shape_facts _ _ Hs) as (Hlen & _ & Henc & Hrt & Hcanon).
  apply grammar_ok_wf in Hk. specialize (Henc Hk). specialize (Hrt Hcap). specialize (Hcanon eq_refl).
  destruct (cbor_encode_spec n Henc) as (chunks & Hrun & Hcat).
  assert (Htail : forall tail, exists a', dec_run c (rfc_enc n ++ tail) = DOk (flatten n) tail a').
  { intros tail. destruct (parse_rfc_enc_canon n c tail Henc Hlen Hrt) as [fuel Hf].
    rewrite Hcanon in Hf. exact (dec_complete fuel c _ _ _ Hf). }
  exists (rfc_enc n). split; [|split; [|split]].
  - unfold pump_c2c. rewrite H, Hrun, Nat.eqb_refl, Hcat. reflexivity.
  - exact Htail.
  - exists n. split; [exact Hp|]. split; [|split; reflexivity].
    destruct (Htail []) as [a' Ha']. rewrite app_nil_r in Ha'.
    destruct (dec_sound _ _ _ _ _ Ha') as (n' & Hp2 & Hfl). apply flatten_inj in Hfl. subst n'. exact Hp2.
  - exact (dec_consumes_prefix _ _ _ _ _ H).
Qed.

(* the output is a fixpoint of the pump: re-encoding it reproduces it byte for byte *)
Corollary pump_c2c_idempotent : forall c bs toks rest a,
  bytes_ok bs -> dec_run c bs = DOk toks rest a ->
  cbor_keys_ok toks = true -> str_cap_ok toks = true ->
  exists out, pump_c2c c bs = PumpOk out rest /\ pump_c2c c out = PumpOk out [].
Proof.
  intros c bs toks rest a Hb H Hk Hcap.
  destruct (pump_c2c_value c bs toks rest a Hb H Hk Hcap) as (out & Hp & Htail & _).
  exists out. split; [exact Hp|].
  destruct (Htail []) as [a' Ha']. rewrite app_nil_r in Ha'.
  destruct (pump_c2c_keys_ok _ _ _ _ _ H Hk) as (chunks & Hrun & Hp1).
  assert (Hout : out = concat chunks) by congruence.
  unfold pump_c2c. rewrite Ha', Hrun, Nat.eqb_refl. rewrite <- Hout. reflexivity.
Qed.

(* 2. errors *)
Theorem pump_c2c_error : forall c bs e toks a,
  dec_run c bs = DFail e toks a -> pump_c2c c bs = PumpErr.
Proof. intros c bs e toks a H. unfold pump_c2c. rewrite H. reflexivity. Qed.

Theorem pump_c2c_err_iff_tokens : forall c bs,
  pump_c2c c bs = PumpErr <->
  (exists e toks a, dec_run c bs = DFail e toks a) \/
  (exists toks rest a, dec_run c bs = DOk toks rest a /\ cbor_keys_ok toks = false).
Proof.
  intros c bs. split.
  - intros Hp. destruct (dec_total c bs) as [(toks & rest & a & H)|(e & toks & a & H)].
    + right. exists toks, rest, a. split; [exact H|].
      destruct (cbor_keys_ok toks) eqn:Hk; [|reflexivity].
      destruct (pump_c2c_keys_ok _ _ _ _ _ H Hk) as (chunks & _ & Hp'). rewrite Hp in Hp'. discriminate.
    + left. eauto.
  - intros [(e & toks & a & H)|(toks & rest & a & H & Hk)].
    + eapply pump_c2c_error; eauto.
    + destruct (pump_c2c c bs) as [out r|] eqn:Hp; [|reflexivity].
      destruct (pump_c2c_ok_keys _ _ _ _ _ _ _ H Hp) as [Hk' _]. congruence.
Qed.

(* ... in terms of the reference reading (C04): the pump fails exactly when the
   input does not start with a well-formed item, or that item has a map key
   the CBOR encoder does not take *)
Theorem pump_c2c_err_iff : forall c bs,
  pump_c2c c bs = PumpErr <->
  (exists e, parse_item c bs = PErr e) \/
  (exists n rest, parse_item c bs = POk n rest /\ ~ wf_keys key_cbor n).
Proof.
  intros c bs. rewrite pump_c2c_err_iff_tokens. split.
  - intros [(e & toks & a & H)|(toks & rest & a & H & Hk)].
    + left. exists e. eapply dec_rejects; eauto.
    + right. destruct (dec_sound _ _ _ _ _ H) as (n & Hp & ->). exists n, rest. split; [exact Hp|].
      intros Hwf. apply grammar_ok_wf in Hwf. unfold cbor_keys_ok in Hk. congruence.
  - intros [(e & Hp)|(n & rest & Hp & Hwf)].
    + left. unfold parse_item in Hp. destruct (dec_error _ _ _ _ Hp) as (toks & a & H). eauto.
    + right. unfold parse_item in Hp. destruct (dec_complete _ _ _ _ _ Hp) as [a H].
      exists (flatten n), rest, a. split; [exact H|].
      destruct (cbor_keys_ok (flatten n)) eqn:Hk; [|reflexivity].
      exfalso. apply Hwf. apply grammar_ok_wf. exact Hk.
Qed.

(* ---------- the three added hypotheses are needed -------------------------- *)

(* (a) map keys: the decoder accepts any key, the encoder only string/int/uint *)
Example pump_c2c_keys_refuted :
  bytes_ok [161; 246; 0] /\
  dec_run false [161; 246; 0] =
    DOk [Tok (MapOpen 1) None; Tok Null None; Tok (Uint 0) None; Tok MapClose None] [] 16 /\
  pump_c2c false [161; 246; 0] = PumpErr.
Proof. split; [repeat constructor; unfold byte_ok; lia|]. vm_compute. split; reflexivity. Qed.

(* (b) the input must be a byte string (a model-level well-formedness condition) *)
Example pump_c2c_bytes_refuted :
  dec_run false [24; -5] = DOk [Tok (Uint (-5)) None] [] 0 /\
  pump_c2c false [24; -5] = PumpOk [-5] [] /\
  dec_run false [-5] = DFail EEof [] 0.
Proof. vm_compute. repeat split; reflexivity. Qed.

(* (c) the 32 MiB cap is per chunk when reading (chunks of an indefinite string
   are concatenated) but per item when re-reading the definite string the
   encoder writes: a longer string is written, and cannot be read back *)
Example pump_c2c_chunks_concatenate :
  dec_run false [127; 97; 120; 97; 121; 255] = DOk [Tok (Str [120; 121]) None] [] 16.
Proof. vm_compute. reflexivity. Qed.

Lemma pump_cap_refuted : forall c s,
  item_cap < Z.of_nat (length s) -> Z.of_nat (length s) <= maxInt ->
  exists chunks, enc_tokens [Tok (Str s) None] = Finished chunks 1 /\
    exists toks a, dec_run c (concat chunks) = DFail EMalformed toks a.
Proof.
  intros c s Hbig Hmax.
  exists (enc_string s). split; [reflexivity|].
  unfold enc_string. rewrite concat_app, emit_head_eq. cbn [concat]. rewrite app_nil_r.
  destruct (dec_len_head 96 (blen s) s) as (b & tl & Hbt & Hb & Hdl).
  { unfold major. lia. }
  { unfold blen. lia. }
  apply (dec_error 2 c). change majString with 96. rewrite Hbt. rewrite pitem_S.
  assert (Htag : is_tag_byte b = false) by (unfold is_tag_byte, majTag, majSimple; lia).
  rewrite Htag. rewrite pbody_string by lia.
  unfold dec_bytes. rewrite Hdl.
  assert (Hc : item_cap <? blen s = true) by (unfold blen; lia).
  rewrite Hc. reflexivity.
Qed.

Print Assumptions flatten_inj.
Print Assumptions grammar_ok_wf.
Print Assumptions pump_c2c_value.
Print Assumptions pump_c2c_idempotent.
Print Assumptions pump_c2c_error.
Print Assumptions pump_c2c_err_iff_tokens.
Print Assumptions pump_c2c_err_iff.
Print Assumptions pump_cap_refuted.

(* ====================================================================== *)
(* 7. The JSON reading: what it can produce, and stability under extension *)
(* ====================================================================== *)

Definition nosoft {A} : A -> Prop := fun _ => False.
Definition numsoft (n : tnode) : Prop :=
  match n with Node _ (VInt _) | Node _ (VUint _) | Node _ (VFlt _) => True | _ => False end.

(* [jgood soft P g]: the value of a successful run satisfies [P]; the run is
   unchanged by appending [ext], provided that — when the run consumed the
   whole input and its value is [soft] (a number, which has no closing
   delimiter) — [ext] does not start with a character that continues a number *)
Definition jgood {A} (soft P : A -> Prop) (g : bytes -> pres A) : Prop :=
  forall bs a rest, g bs = POk a rest ->
    P a /\ forall ext, (rest = [] -> soft a -> terminator_ok ext) -> g (bs ++ ext) = POk a (rest ++ ext).

Lemma jgood_ext {A} (s P : A -> Prop) g h : (forall bs, g bs = h bs) -> jgood s P h -> jgood s P g.
Proof.
  intros E H bs a rest G. rewrite E in G. destruct (H _ _ _ G) as [Pa X].
  split; [exact Pa|]. intros ext Hc. rewrite E. apply X. exact Hc.
Qed.

Lemma jgood_weaken {A} (s s' P Q : A -> Prop) g :
  (forall a, P a -> Q a) -> (forall a, s a -> s' a) -> jgood s P g -> jgood s' Q g.
Proof.
  intros HPQ Hs H bs a rest G. destruct (H _ _ _ G) as [Pa X]. split; [auto|].
  intros ext Hc. apply X. intros Hr Ha. apply Hc; auto.
Qed.

Lemma jgood_ret {A} (s P : A -> Prop) (a : A) : P a -> jgood s P (fun bs => POk a bs).
Proof. intros Pa bs a' rest G. inversion G; subst. split; [exact Pa|reflexivity]. Qed.

Lemma jgood_fail {A} (s P : A -> Prop) (r : pres A) : (forall a rest, r <> POk a rest) -> jgood s P (fun _ => r).
Proof. intros H bs a rest G. exfalso. eapply H; eauto. Qed.

Lemma jgood_err {A} (s P : A -> Prop) e : jgood s P (fun _ => @PErr A e).
Proof. apply jgood_fail. discriminate. Qed.

Lemma jgood_map {A B} (s P : A -> Prop) (s' Q : B -> Prop) (k : A -> B) g :
  jgood s P g -> (forall a, P a -> Q (k a)) -> (forall a, s a -> s' (k a)) -> jgood s' Q (pmap k g).
Proof.
  intros H HQ Hs bs b rest G. unfold pmap in *.
  destruct (g bs) as [a r|e|] eqn:E; inversion G; subst.
  destruct (H _ _ _ E) as [Pa X]. split; [auto|].
  intros ext Hc. rewrite X; [reflexivity|]. intros Hr Ha. apply Hc; auto.
Qed.

Lemma jgood_bind {A B} (s1 P : A -> Prop) (s2 Q : B -> Prop) (g : bytes -> pres A) (h : A -> bytes -> pres B) :
  jgood s1 P g -> (forall a, jgood s2 (fun b => P a -> Q b) (h a)) ->
  (forall a b rest, s1 a -> h a [] <> POk b rest) ->
  jgood s2 Q (pbind g h).
Proof.
  intros H Hh Hnil bs b rest G. unfold pbind in *.
  destruct (g bs) as [a r|e|] eqn:E; try discriminate.
  destruct (H _ _ _ E) as [Pa X]. destruct (Hh a _ _ _ G) as [Qb X2]. split; [auto|].
  intros ext Hc. rewrite X.
  - apply X2. exact Hc.
  - intros -> Ha. exfalso. eapply Hnil; eauto.
Qed.

Lemma skip_ws_app_cons bs mb r ext : skip_ws bs = mb :: r -> skip_ws (bs ++ ext) = mb :: r ++ ext.
Proof.
  induction bs as [|b bs IH]; cbn [skip_ws app]; [discriminate|].
  destruct (is_ws b); [exact IH|]. intros H. inversion H; subst. reflexivity.
Qed.

Lemma jgood_ws {A} (s P : A -> Prop) (h : Z -> bytes -> pres A) :
  (forall mb, jgood s P (h mb)) -> jgood s P (fun bs => pcons h (skip_ws bs)).
Proof.
  intros H bs a rest G. cbv beta in G.
  destruct (skip_ws bs) as [|mb r] eqn:E; [discriminate|]. cbn [pcons] in G.
  destruct (H mb r a rest G) as [Pa X]. split; [exact Pa|].
  intros ext Hc. rewrite (skip_ws_app_cons _ _ _ ext E). cbn [pcons]. apply X. exact Hc.
Qed.

Lemma jgood_sum_map {A B} (s P : A -> Prop) (s' Q : B -> Prop) (t : bytes -> (A * bytes) + derr) (k : A -> B) :
  jgood s P (fun bs => of_sum (t bs)) -> (forall a, P a -> Q (k a)) -> (forall a, s a -> s' (k a)) ->
  jgood s' Q (fun bs => match t bs with inl (b, rest) => POk (k b) rest | inr e => PErr e end).
Proof.
  intros H HQ Hs. eapply jgood_ext with (h := pmap k (fun bs => of_sum (t bs))).
  - intros bs. unfold pmap. destruct (t bs) as [[a r]|e]; reflexivity.
  - eapply jgood_map; eauto.
Qed.

(* a [good] reader extends unconditionally *)
Lemma good_jgood {A} (P0 : A -> Prop) (s : A -> Prop) g : good P0 g -> jgood s (fun _ => True) g.
Proof. intros H bs a rest G. destruct (H _ _ _ G) as [X _]. split; [exact I|]. intros ext _. apply X. Qed.

(* ---------- literals ------------------------------------------------------- *)

Lemma dec_literal_shape (w : bytes) (v : tnode) bs :
  match dec_literal w bs with inl rest => POk v rest | inr e => PErr e end =
  pbind (fun bs => of_sum (readn (Z.of_nat (length w)) bs))
        (fun got rest => if forallb (fun p => fst p =? snd p) (combine got w)
                         then POk v rest else PErr EMalformed) bs.
Proof.
  unfold dec_literal, pbind.
  destruct (readn (Z.of_nat (length w)) bs) as [[got rest]|e]; cbn [of_sum]; [|reflexivity].
  destruct (forallb (fun p => fst p =? snd p) (combine got w)); reflexivity.
Qed.

Lemma jgood_literal (s P : tnode -> Prop) (w : bytes) (v : tnode) : P v ->
  jgood s P (fun bs => match dec_literal w bs with inl rest => POk v rest | inr e => PErr e end).
Proof.
  intros Pv. eapply jgood_ext; [intros bs; apply dec_literal_shape|].
  eapply jgood_bind with (s1 := nosoft) (P := fun _ => True).
  - eapply good_jgood. apply good_readn.
  - intros got. destruct (forallb (fun p => fst p =? snd p) (combine got w)); [apply jgood_ret; auto|apply jgood_err].
  - intros a b rest [].
Qed.

(* ---------- strings -------------------------------------------------------- *)

Lemma str_scan_ext : forall bs st acc raw rest ext,
  str_scan st bs acc = inl (raw, rest) -> str_scan st (bs ++ ext) acc = inl (raw, rest ++ ext).
Proof.
  induction bs as [|c r IH]; intros st acc raw rest ext H; [discriminate|].
  cbn [app str_scan] in *.
  destruct st;
    repeat match type of H with context [if ?b then _ else _] => destruct b end;
    try discriminate; try (apply IH; exact H).
  inversion H; subst. reflexivity.
Qed.

Lemma encode_rune_bytes_ok r : bytes_ok (encode_rune r).
Proof.
  unfold encode_rune.
  destruct ((0 <=? r) && (r <? 128)) eqn:E1.
  { repeat constructor; unfold byte_ok; lia. }
  destruct ((0 <=? r) && (r <? 2048)) eqn:E2.
  { assert (0 <= r / 64 < 32) by (split; [apply Z.div_pos; lia|apply Z.div_lt_upper_bound; lia]).
    pose proof (Z.mod_pos_bound r 64 ltac:(lia)).
    repeat constructor; unfold byte_ok; lia. }
  destruct ((r <? 0) || (1114111 <? r) || ((55296 <=? r) && (r <=? 57343))) eqn:E3.
  { repeat constructor; unfold byte_ok; lia. }
  assert (Hr : 0 <= r <= 1114111) by lia.
  destruct (r <? 65536) eqn:E4.
  - assert (0 <= r / 4096 < 16) by (split; [apply Z.div_pos; lia|apply Z.div_lt_upper_bound; lia]).
    pose proof (Z.mod_pos_bound (r / 64) 64 ltac:(lia)). pose proof (Z.mod_pos_bound r 64 ltac:(lia)).
    repeat constructor; unfold byte_ok; lia.
  - assert (0 <= r / 262144 < 5) by (split; [apply Z.div_pos; lia|apply Z.div_lt_upper_bound; lia]).
    pose proof (Z.mod_pos_bound (r / 4096) 64 ltac:(lia)).
    pose proof (Z.mod_pos_bound (r / 64) 64 ltac:(lia)). pose proof (Z.mod_pos_bound r 64 ltac:(lia)).
    repeat constructor; unfold byte_ok; lia.
Qed.

Lemma bytes_ok_cons b t : 0 <= b < 256 -> bytes_ok t -> bytes_ok (b :: t).
Proof. intros. constructor; assumption. Qed.

Lemma unescape_bytes_ok : forall fuel s t, unescape fuel s = Some t -> bytes_ok t.
Proof.
  induction fuel as [|f IH]; intros s t H; cbn [unescape] in H.
  { inversion H. constructor. }
  destruct s as [|c r]; [inversion H; constructor|].
  cbv zeta in H.
  repeat match type of H with
  | context [match unescape f ?x with _ => _ end] =>
      let E := fresh "E" in destruct (unescape f x) as [?t|] eqn:E; [apply IH in E|discriminate]
  | context [if ?b then _ else _] => let E := fresh "B" in destruct b eqn:E
  | context [match ?l with [] => _ | _ :: _ => _ end] => destruct l
  | context [let '(_, _) := ?p in _] => destruct p
  end; try discriminate; inversion H; subst; clear H;
  first [ apply bytes_ok_app; split; [apply encode_rune_bytes_ok|assumption]
        | repeat (apply bytes_ok_cons; [lia|]); assumption ].
Qed.

Lemma jgood_dec_string : jgood nosoft bytes_ok (fun bs => of_sum (dec_string bs)).
Proof.
  intros bs a rest G. unfold dec_string in *.
  destruct (str_scan SNormal bs []) as [[raw r]|e] eqn:E; [|discriminate].
  split.
  - destruct (unescape (S (length raw)) raw) as [s|] eqn:U; cbn [of_sum] in G; inversion G; subst.
    + eapply unescape_bytes_ok; eauto.
    + constructor.
  - intros ext _. rewrite (str_scan_ext _ _ _ _ _ ext E).
    destruct (unescape (S (length raw)) raw); cbn [of_sum] in *; inversion G; subst; reflexivity.
Qed.

(* ---------- numbers -------------------------------------------------------- *)

Lemma num_step_term s c : n_accepting s = true -> is_numchar c = false -> num_step s c = (None, true).
Proof.
  intros Hs Hc. apply numchar_false in Hc. destruct Hc as (Hd & H46 & H101 & H69).
  destruct s; try discriminate Hs; unfold num_step; rewrite ?Hd, ?H46, ?H101, ?H69; reflexivity.
Qed.

Lemma num_scan_ext : forall bs s acc more rest ext,
  num_scan s bs acc = inl (more, rest) -> (rest = [] -> terminator_ok ext) ->
  num_scan s (bs ++ ext) acc = inl (more, rest ++ ext).
Proof.
  induction bs as [|c r IH]; intros s acc more rest ext H Hc.
  - cbn [num_scan] in H. destruct (n_accepting s) eqn:Acc; inversion H; subst.
    specialize (Hc eq_refl). cbn [app]. destruct ext as [|x ext]; cbn [num_scan].
    + rewrite Acc. reflexivity.
    + cbn [terminator_ok] in Hc. rewrite (num_step_term _ _ Acc Hc). reflexivity.
  - cbn [app num_scan] in *. destruct (num_step s c) as [[s'|] ok].
    + apply IH; assumption.
    + destruct ok; [|discriminate]. inversion H; subst. reflexivity.
Qed.

Definition num_start (first : Z) : nstate :=
  if first =? 45 then NNeg else if first =? 48 then N0 else N1.

Definition numres (v : tokv) (rest : bytes) : pres tnode :=
  match v with
  | Int i => POk (Node None (VInt i)) rest
  | Uint u => POk (Node None (VUint u)) rest
  | Flt b => POk (Node None (VFlt b)) rest
  | _ => PErr EMalformed
  end.

Definition jnum (mb : Z) (r : bytes) : pres tnode :=
  match num_scan (num_start mb) r [] with
  | inr e => PErr e
  | inl (more, rest) =>
      match num_token (mb :: more) with
      | inl v => numres v rest
      | inr e => PErr e
      end
  end.

Lemma jnum_eq mb r :
  match dec_number mb r with
  | inl (Int i, rest) => POk (Node None (VInt i)) rest
  | inl (Uint u, rest) => POk (Node None (VUint u)) rest
  | inl (Flt b, rest) => POk (Node None (VFlt b)) rest
  | inl (_, _) => PErr EMalformed
  | inr e => PErr e
  end = jnum mb r.
Proof.
  unfold dec_number, jnum, num_start. cbv zeta.
  destruct (num_scan (if mb =? 45 then NNeg else if mb =? 48 then N0 else N1) r [])
    as [[more rest]|e]; [|reflexivity].
  destruct (num_token (mb :: more)) as [v|e]; [|reflexivity].
  destruct v; reflexivity.
Qed.

(* ranges of the number tokens *)
Lemma take_digits_digits : forall bs acc ds r,
  take_digits bs acc = (ds, r) -> Forall digitP acc -> Forall digitP ds.
Proof.
  induction bs as [|d bs IH]; intros acc ds r H Hacc; cbn [take_digits] in H.
  - inversion H; subst. apply Forall_rev. exact Hacc.
  - destruct (is_digit d) eqn:E.
    + eapply IH; [exact H|]. constructor; assumption.
    + inversion H; subst. apply Forall_rev. exact Hacc.
Qed.

Lemma digits_val_nonneg : forall ds acc, Forall digitP ds -> 0 <= acc -> 0 <= digits_val ds acc.
Proof.
  induction ds as [|d ds IH]; intros acc Hd Ha; cbn [digits_val]; [exact Ha|].
  inversion Hd as [|? ? Hd1 Hd2]; subst. apply IH; [exact Hd2|].
  apply is_digit_range in Hd1. lia.
Qed.

Lemma div_rne_nonneg num den : 0 <= num -> 0 < den -> 0 <= div_rne num den.
Proof.
  intros Hn Hd. unfold div_rne. pose proof (Z.div_pos num den Hn Hd).
  destruct ((den <? 2 * (num mod den)) || ((den =? 2 * (num mod den)) && Z.odd (num / den))); lia.
Qed.

Definition np_tail (num den e2 : Z) : fres :=
  let e2' := Z.max e2 (-1022) in
  let s := 52 - e2' in
  let q := if 0 <=? s then div_rne (num * 2 ^ s) den else div_rne num (den * 2 ^ (- s)) in
  let bits := if q <? 4503599627370496 then q else (e2' + 1022) * 4503599627370496 + q in
  if 9218868437227405312 <=? bits then FRange else FBits bits.

Lemma np_tail_range num den e2 b : 0 <= num -> 0 < den ->
  np_tail num den e2 = FBits b -> 0 <= b < 9218868437227405312.
Proof.
  intros Hn Hd H. unfold np_tail in H.
  set (e2' := Z.max e2 (-1022)) in *. cbv zeta in H.
  set (s := 52 - e2') in *.
  set (q := if 0 <=? s then div_rne (num * 2 ^ s) den else div_rne num (den * 2 ^ (- s))) in *.
  assert (Hq : 0 <= q).
  { subst q. destruct (Z.leb_spec 0 s).
    - apply div_rne_nonneg; [|exact Hd]. apply Z.mul_nonneg_nonneg; [exact Hn|apply Z.pow_nonneg; lia].
    - apply div_rne_nonneg; [exact Hn|]. apply Z.mul_pos_pos; [exact Hd|].
      destruct (Z_le_gt_dec 0 (- s)); [apply Z.pow_pos_nonneg; lia|].
      (* 2 ^ negative = 0 would make the divisor 0; the branch is only taken for s < 0 *)
      exfalso. lia. }
  assert (He : -1022 <= e2') by (subst e2'; lia).
  destruct (q <? 4503599627370496);
    match type of H with context [?x <=? ?y] => destruct (Z.leb_spec x y) end;
    try discriminate; inversion H; subst; nia.
Qed.

Lemma nearest_pos_eq m e10 nd :
  nearest_pos m e10 nd =
  if m =? 0 then FBits 0
  else if 310 <? e10 + nd then FRange
  else if e10 + nd <? -330 then FBits 0
  else
    let num := if 0 <=? e10 then m * 10 ^ e10 else m in
    let den := if 0 <=? e10 then 1 else 10 ^ (- e10) in
    let g := Z.log2 num - Z.log2 den in
    np_tail num den (if (if 0 <=? g then num <? den * 2 ^ g else num * 2 ^ (- g) <? den) then g - 1 else g).
Proof. reflexivity. Qed.

Lemma nearest_range neg m e10 nd b : 0 <= m ->
  nearest neg m e10 nd = FBits b -> 0 <= b < 18446744073709551616.
Proof.
  intros Hm H. unfold nearest in H. rewrite nearest_pos_eq in H.
  assert (Hgoal : forall b0, (if neg then b0 + 9223372036854775808 else b0) = b ->
                             0 <= b0 < 9218868437227405312 -> 0 <= b < 18446744073709551616).
  { intros b0 <- Hb0. destruct neg; lia. }
  destruct (m =? 0); [injection H as H1; apply (Hgoal 0 H1); lia|].
  destruct (310 <? e10 + nd); [discriminate|].
  destruct (e10 + nd <? -330); [injection H as H1; apply (Hgoal 0 H1); lia|].
  cbv zeta in H.
  match type of H with context [np_tail ?n ?d ?e] => destruct (np_tail n d e) as [b0|] eqn:E end;
    [|discriminate].
  injection H as H1. apply (Hgoal b0 H1).
  eapply np_tail_range; [| |exact E].
  - destruct (0 <=? e10); [|exact Hm]. apply Z.mul_nonneg_nonneg; [exact Hm|apply Z.pow_nonneg; lia].
  - destruct (Z.leb_spec 0 e10); [lia|]. apply Z.pow_pos_nonneg; lia.
Qed.

Definition num_range (v : tokv) : Prop :=
  match v with
  | Int i => min_int64 <= i <= max_int64
  | Uint u => max_int64 < u <= max_uint64
  | Flt b => 0 <= b < 18446744073709551616
  | _ => False
  end.

Lemma num_token_range text v : num_token text = inl v -> num_range v.
Proof.
  unfold num_token. intros H.
  destruct (match text with 45 :: r => (true, r) | _ => (false, text) end) as [neg body].
  destruct (take_digits body []) as [ip r1] eqn:Eip.
  pose proof (take_digits_digits _ _ _ _ Eip (Forall_nil _)) as Hip.
  destruct r1 as [|c1 r1'].
  - pose proof (digits_val_nonneg ip 0 Hip ltac:(lia)) as Hv.
    cbv zeta in H.
    destruct ((min_int64 <=? (if neg then - digits_val ip 0 else digits_val ip 0)) &&
              ((if neg then - digits_val ip 0 else digits_val ip 0) <=? max_int64)) eqn:E1.
    + inversion H; subst. cbn [num_range]. lia.
    + destruct (negb neg && (digits_val ip 0 <=? max_uint64)) eqn:E2; [|discriminate].
      inversion H; subst. cbn [num_range]. unfold min_int64, max_int64, max_uint64 in *.
      destruct neg; cbn [negb andb] in E2; [discriminate|]. lia.
  - cbv zeta in H.
    match type of H with context [let '(_, _) := ?X in _] => destruct X as [fp r2] eqn:Efp end.
    assert (Hfp : Forall digitP fp).
    { destruct (Z.eq_dec c1 46) as [->|Hne].
      - eapply take_digits_digits; [exact Efp|constructor].
      - assert (fp = []) as ->; [|constructor].
        destruct c1 as [|p|p]; try (inversion Efp; reflexivity).
        do 6 (destruct p as [p|p|]; try (inversion Efp; reflexivity)). exfalso. apply Hne. reflexivity. }
    cbv zeta in H.
    match type of H with context [nearest ?a ?b ?c ?d] => destruct (nearest a b c d) as [bits|] eqn:En end;
      [|discriminate].
    inversion H; subst. cbn [num_range].
    eapply nearest_range; [|exact En].
    apply digits_val_nonneg; [|lia]. apply Forall_app. split; assumption.
Qed.

(* ---------- the JSON reference reading ------------------------------------- *)

(* what the JSON reading produces: no tags, no byte strings, Length -1, string
   keys, numbers inside their Go types *)
Fixpoint jshape (n : tnode) : Prop :=
  match n with
  | Node tg v =>
    tg = None /\
    match v with
    | VNull | VBool _ => True
    | VByt _ => False
    | VStr s => bytes_ok s
    | VInt i => min_int64 <= i <= max_int64
    | VUint u => max_int64 < u <= max_uint64
    | VFlt b => 0 <= b < 18446744073709551616
    | VArr d items => d = -1 /\ fold_right (fun x acc => jshape x /\ acc) True items
    | VMap d es => d = -1 /\
        fold_right (fun kv acc =>
          ((exists k, fst kv = Node None (VStr k) /\ bytes_ok k) /\ jshape (snd kv)) /\ acc) True es
    end
  end.

Definition jentry (kv : tnode * tnode) : Prop :=
  (exists k, fst kv = Node None (VStr k) /\ bytes_ok k) /\ jshape (snd kv).

Lemma jshape_arr xs : Forall jshape xs -> jshape (Node None (VArr (-1) xs)).
Proof. intros H. cbn [jshape]. repeat split. apply fold_pair_Forall. exact H. Qed.

Lemma jshape_map es : Forall jentry es -> jshape (Node None (VMap (-1) es)).
Proof. intros H. cbn [jshape]. repeat split. apply (fold_pair_Forall jentry). exact H. Qed.

Lemma jgood_jnum mb : jgood numsoft jshape (jnum mb).
Proof.
  intros bs a rest G. unfold jnum in *.
  destruct (num_scan (num_start mb) bs []) as [[more r]|e] eqn:E; [|discriminate].
  destruct (num_token (mb :: more)) as [v|e] eqn:T; [|discriminate].
  pose proof (num_token_range _ _ T) as R.
  destruct v; cbn [numres] in G; try discriminate; inversion G; subst; cbn [num_range] in R.
  all: split; [cbn [jshape]; split; [reflexivity|exact R]|].
  all: intros ext Hc; rewrite (num_scan_ext _ _ _ _ _ ext E);
    [rewrite T; reflexivity|]; intros Hr; apply Hc; [exact Hr|exact I].
Qed.

Definition jg_value (f : nat) := forall l, jgood numsoft jshape (jpvalue f l).
Definition jg_body (f : nat) := forall l mb, jgood numsoft jshape (jpbody f l mb).
Definition jg_elems (f : nat) := forall l some, jgood nosoft (Forall jshape) (jpelements f l some).
Definition jg_membs (f : nat) := forall l some, jgood nosoft (Forall jentry) (jpmembers f l some).

Lemma jg_value_step f : jg_body f -> jg_value (S f).
Proof.
  intros Hb l.
  eapply jgood_ext with (h := fun bs => pcons (jpbody f l) (skip_ws bs)); [intros bs; reflexivity|].
  apply jgood_ws. apply Hb.
Qed.

Lemma jg_body_step f : jg_elems f -> jg_membs f -> jg_body (S f).
Proof.
  intros He Hm l mb.
  eapply jgood_ext; [intros r; cbn [jpbody]; reflexivity|]. cbv beta.
  destruct (mb =? 123).
  { eapply (jgood_map nosoft _ numsoft _ (fun es => Node None (VMap (-1) es))); [apply Hm| |intros a []].
    intros es Hes. apply jshape_map. exact Hes. }
  destruct (mb =? 91).
  { eapply (jgood_map nosoft _ numsoft _ (fun xs => Node None (VArr (-1) xs))); [apply He| |intros a []].
    intros xs Hxs. apply jshape_arr. exact Hxs. }
  destruct (mb =? 110); [apply jgood_literal; cbn [jshape]; auto|].
  destruct (mb =? 34).
  { apply (jgood_sum_map nosoft bytes_ok numsoft jshape dec_string (fun s => Node None (VStr s)));
      [apply jgood_dec_string| |intros a []].
    intros s Hs. cbn [jshape]. auto. }
  destruct (mb =? 102); [apply jgood_literal; cbn [jshape]; auto|].
  destruct (mb =? 116); [apply jgood_literal; cbn [jshape]; auto|].
  destruct ((mb =? 45) || is_digit mb); [|apply jgood_err].
  eapply jgood_ext; [intros r; apply jnum_eq|]. apply jgood_jnum.
Qed.

Lemma jg_element f l mb : jg_body f -> jg_elems f ->
  jgood nosoft (Forall jshape) (pbind (jpbody f l mb) (fun x => pmap (cons x) (jpelements f l true))).
Proof.
  intros Hb He.
  eapply jgood_bind with (s1 := numsoft) (P := jshape).
  - apply Hb.
  - intros x. eapply jgood_map; [apply He| |intros a []]. intros xs Hxs Hx. constructor; assumption.
  - intros a b rest _. destruct f as [|f']; unfold pmap; cbn [jpelements skip_ws]; discriminate.
Qed.

Lemma jg_elems_step f : jg_body f -> jg_elems f -> jg_elems (S f).
Proof.
  intros Hb He l some.
  eapply jgood_ext with (h := fun bs => pcons (fun mb r =>
    if some then
      if mb =? 93 then POk [] r
      else if mb =? 44 then
        pcons (fun mb2 r2 =>
          if mb2 =? 93 then (if l then POk [] r2 else PErr EMalformed)
          else pbind (jpbody f l mb2) (fun x => pmap (cons x) (jpelements f l true)) r2) (skip_ws r)
      else PErr EMalformed
    else
      if mb =? 93 then POk [] r
      else pbind (jpbody f l mb) (fun x => pmap (cons x) (jpelements f l true)) r) (skip_ws bs)).
  { intros bs. reflexivity. }
  apply jgood_ws. intros mb. destruct some.
  - destruct (mb =? 93); [apply jgood_ret; constructor|].
    destruct (mb =? 44); [|apply jgood_err].
    apply jgood_ws. intros mb2.
    destruct (mb2 =? 93); [destruct l; [apply jgood_ret; constructor|apply jgood_err]|].
    apply jg_element; assumption.
  - destruct (mb =? 93); [apply jgood_ret; constructor|]. apply jg_element; assumption.
Qed.

Definition jmember (f : nat) (l : bool) (mb2 : Z) (r2 : bytes) : pres (list (tnode * tnode)) :=
  if mb2 =? 34 then
    match dec_string r2 with
    | inl (k, r3) =>
      pcons (fun c r4 =>
        if c =? 58 then
          pbind (jpvalue f l) (fun v => pmap (cons (Node None (VStr k), v)) (jpmembers f l true)) r4
        else PErr EMalformed) (skip_ws r3)
    | inr e => PErr e
    end
  else PErr EMalformed.

Lemma jgood_sum_bind {A B} (P : A -> Prop) (s Q : B -> Prop) (t : bytes -> (A * bytes) + derr)
      (h : A -> bytes -> pres B) :
  jgood nosoft P (fun bs => of_sum (t bs)) -> (forall a, jgood s (fun b => P a -> Q b) (h a)) ->
  jgood s Q (fun bs => match t bs with inl (a, r) => h a r | inr e => PErr e end).
Proof.
  intros H Hh. eapply jgood_ext with (h := pbind (fun bs => of_sum (t bs)) h).
  - intros bs. unfold pbind. destruct (t bs) as [[a r]|e]; reflexivity.
  - eapply jgood_bind with (s1 := nosoft); [exact H|exact Hh|intros a b rest []].
Qed.

Lemma jg_member f l mb2 : jg_value f -> jg_membs f -> jgood nosoft (Forall jentry) (jmember f l mb2).
Proof.
  intros Hv Hm. unfold jmember. destruct (mb2 =? 34); [|apply jgood_err].
  apply (jgood_sum_bind bytes_ok nosoft (Forall jentry) dec_string); [apply jgood_dec_string|].
  intros k. apply jgood_ws. intros c. destruct (c =? 58); [|apply jgood_err].
  eapply jgood_bind with (s1 := numsoft) (P := jshape).
  - apply Hv.
  - intros v. eapply jgood_map; [apply Hm| |intros a []].
    intros es Hes Hjv Hk. constructor; [|exact Hes]. split; [|exact Hjv].
    cbn [fst]. exists k. split; [reflexivity|exact Hk].
  - intros a b rest _. destruct f as [|f']; unfold pmap; cbn [jpmembers skip_ws]; discriminate.
Qed.

Lemma jg_membs_step f : jg_value f -> jg_membs f -> jg_membs (S f).
Proof.
  intros Hv Hm l some.
  eapply jgood_ext with (h := fun bs => pcons (fun mb r =>
    if some then
      if mb =? 125 then POk [] r
      else if mb =? 44 then
        pcons (fun mb2 r2 =>
          if mb2 =? 125 then (if l then POk [] r2 else PErr EMalformed)
          else jmember f l mb2 r2) (skip_ws r)
      else PErr EMalformed
    else
      if mb =? 125 then POk [] r
      else jmember f l mb r) (skip_ws bs)).
  { intros bs. reflexivity. }
  pose proof (fun mb2 => jg_member f l mb2 Hv Hm) as Hmem.
  apply jgood_ws. intros mb. destruct some.
  - destruct (mb =? 125); [apply jgood_ret; constructor|].
    destruct (mb =? 44); [|apply jgood_err].
    apply jgood_ws. intros mb2.
    destruct (mb2 =? 125); [destruct l; [apply jgood_ret; constructor|apply jgood_err]|].
    apply Hmem.
  - destruct (mb =? 125); [apply jgood_ret; constructor|]. apply Hmem.
Qed.

Lemma jg_all : forall f, jg_value f /\ jg_body f /\ jg_elems f /\ jg_membs f.
Proof.
  induction f as [|f IH].
  { repeat split; repeat intro; discriminate. }
  destruct IH as (IHv & IHb & IHe & IHm).
  split; [|split; [|split]].
  - apply jg_value_step; assumption.
  - apply jg_body_step; assumption.
  - apply jg_elems_step; assumption.
  - apply jg_membs_step; assumption.
Qed.

Lemma jpvalue_shape f l bs n rest : jpvalue f l bs = POk n rest -> jshape n.
Proof. intros H. destruct (jg_all f) as [Hv _]. apply (Hv l bs n rest H). Qed.

Lemma jpvalue_frame f l bs n rest ext :
  jpvalue f l bs = POk n rest -> (rest = [] -> numsoft n -> terminator_ok ext) ->
  jpvalue f l (bs ++ ext) = POk n (rest ++ ext).
Proof. intros H Hc. destruct (jg_all f) as [Hv _]. apply (Hv l bs n rest H). exact Hc. Qed.

(* ====================================================================== *)
(* 8. JSON -> CBOR                                                         *)
(* ====================================================================== *)

Lemma jshape_facts n : jshape n -> shape true n /\ wf_keys key_cbor n /\ wf_keys key_json n.
Proof.
  induction n as [tg v Hleaf|tg d items IH|tg d es IH] using tnode_ind'; intros Hs.
  - destruct Hs as [-> Hv]. unfold min_int64, max_int64, max_uint64 in *.
    destruct v; try contradiction; cbn [shape wf_keys tag_ok]; repeat split; auto; lia.
  - destruct Hs as (-> & -> & Hitems). apply fold_pair_Forall in Hitems.
    pose proof (Forall_mp _ _ _ IH Hitems) as Hq. clear IH.
    split; [|split].
    + apply shape_arr; [exact I|left; reflexivity|lia|].
      eapply Forall_impl; [|exact Hq]. intros x Hx. apply Hx.
    + apply wf_arr. eapply Forall_impl; [|exact Hq]. intros x Hx. apply Hx.
    + apply wf_arr. eapply Forall_impl; [|exact Hq]. intros x Hx. apply Hx.
  - destruct Hs as (-> & -> & Hes). apply (fold_pair_Forall jentry) in Hes.
    assert (Hq : Forall (fun kv => (exists k, fst kv = Node None (VStr k) /\ bytes_ok k) /\
                                   shape true (snd kv) /\ wf_keys key_cbor (snd kv) /\ wf_keys key_json (snd kv)) es).
    { clear -IH Hes. induction IH as [|kv es [H1 H2] _ IHes]; [constructor|].
      inversion Hes as [|? ? [S1 S2] Hes']; subst. constructor; auto. }
    clear IH.
    split; [|split].
    + apply shape_map; [exact I|left; reflexivity|lia|].
      eapply Forall_impl; [|exact Hq]. intros [k w] [(s & Hk & Hb) (Hw & _)]. cbn [fst snd] in *. subst k.
      split; cbn [fst snd shape tag_ok]; auto.
    + apply wf_map. eapply Forall_impl; [|exact Hq].
      intros [k w] [(s & Hk & Hb) (_ & Hw & _)]. cbn [fst snd] in *. subst k.
      split; cbn [fst snd key_wf]; auto.
    + apply wf_map. eapply Forall_impl; [|exact Hq].
      intros [k w] [(s & Hk & Hb) (_ & _ & Hw)]. cbn [fst snd] in *. subst k.
      split; cbn [fst snd key_wf]; auto.
Qed.

(* the JSON decoder's tokens are always accepted by the CBOR encoder *)
Lemma j2c_encodes bs toks rest :
  jdec_run bs = JDOk toks rest ->
  exists n, jparse_item true bs = POk n rest /\ toks = flatten n /\ jshape n /\
            enc_ok n /\ len_ok n /\ (str_cap_ok toks = true -> rt_ok n) /\
            pump_j2c bs = PumpOk (rfc_enc n) rest.
Proof.
  intros H. destruct (jdec_sound _ _ _ H) as (n & Hp & ->).
  pose proof Hp as Hp'. unfold jparse_item in Hp'. apply jpvalue_shape in Hp'.
  destruct (jshape_facts _ Hp') as (Hs & Hwf & _).
  destruct (shape_facts _ _ Hs) as (Hlen & _ & Henc & Hrt & _). specialize (Henc Hwf).
  exists n. repeat split; auto.
  destruct (cbor_encode_spec n Henc) as (chunks & Hrun & Hcat).
  unfold pump_j2c. rewrite H, Hrun, Nat.eqb_refl, Hcat. reflexivity.
Qed.

Theorem pump_j2c_total : forall bs toks rest,
  jdec_run bs = JDOk toks rest -> exists out, pump_j2c bs = PumpOk out rest.
Proof. intros bs toks rest H. destruct (j2c_encodes _ _ _ H) as (n & _ & _ & _ & _ & _ & _ & Hp). eauto. Qed.

Theorem pump_j2c_err_iff : forall bs,
  pump_j2c bs = PumpErr <-> exists e, jparse_item true bs = PErr e.
Proof.
  intros bs. split.
  - intros Hp. destruct (jdec_total bs) as [(toks & rest & H)|(e & toks & H)].
    + destruct (pump_j2c_total _ _ _ H) as [out Ho]. rewrite Hp in Ho. discriminate.
    + exists e. eapply jdec_rejects; eauto.
  - intros [e Hp]. unfold jparse_item in Hp. destruct (jdec_error _ _ _ Hp) as [toks H].
    unfold pump_j2c. rewrite H. reflexivity.
Qed.

(* 3. value preservation: the CBOR decoder reads the tokens back, a
   non-negative Int as Uint ([canon_tok]); everything else is identical *)
Theorem pump_j2c_value : forall c bs toks rest,
  jdec_run bs = JDOk toks rest -> str_cap_ok toks = true ->
  exists out,
    pump_j2c bs = PumpOk out rest /\
    (forall tail, exists a, dec_run c (out ++ tail) = DOk (map canon_tok toks) tail a) /\
    (exists n, jparse_item true bs = POk n rest /\ toks = flatten n /\ out = rfc_enc n /\
               parse_item c out = POk (canon n) []) /\
    (exists used, bs = used ++ rest /\ used <> []).
Proof.
  intros c bs toks rest H Hcap.
  destruct (j2c_encodes _ _ _ H) as (n & Hp & -> & Hj & Henc & Hlen & Hrt & Hpump).
  specialize (Hrt Hcap).
  assert (Htail : forall tail, exists a, dec_run c (rfc_enc n ++ tail) = DOk (map canon_tok (flatten n)) tail a).
  { intros tail. destruct (parse_rfc_enc_canon n c tail Henc Hlen Hrt) as [fuel Hf].
    rewrite <- flatten_canon. exact (dec_complete fuel c _ _ _ Hf). }
  exists (rfc_enc n). split; [exact Hpump|]. split; [exact Htail|]. split.
  - exists n. repeat split; auto.
    destruct (Htail []) as [a Ha]. rewrite app_nil_r in Ha. rewrite <- flatten_canon in Ha.
    destruct (dec_sound _ _ _ _ _ Ha) as (n' & Hp2 & Hfl). apply flatten_inj in Hfl. subst n'. exact Hp2.
  - exact (jdec_consumes_prefix _ _ _ H).
Qed.

(* "exactly the same tokens" is false: JSON's Int 1 is CBOR's Uint 1 *)
Example pump_j2c_same_tokens_refuted :
  jdec_run [49] = JDOk [Tok (Int 1) None] [] /\
  pump_j2c [49] = PumpOk [1] [] /\
  dec_run false [1] = DOk [Tok (Uint 1) None] [] 0.
Proof. vm_compute. repeat split; reflexivity. Qed.

(* ... and it is exact when no integer is non-negative *)
Lemma canon_tok_id_json toks :
  forallb (fun t => match tv t with
                    | Int i => i <? 0
                    | ArrOpen d | MapOpen d => d =? -1
                    | _ => true end) toks = true ->
  map canon_tok toks = toks.
Proof.
  intros H. apply map_id_Forall. apply Forall_forall. intros [v tg] Hx.
  rewrite forallb_forall in H. specialize (H _ Hx). unfold canon_tok. cbn [tv tag] in *.
  destruct v; try reflexivity.
  - destruct (Z.leb_spec 0 len); [lia|]. f_equal. f_equal. lia.
  - destruct (Z.leb_spec 0 len); [lia|]. f_equal. f_equal. lia.
  - destruct (Z.leb_spec 0 i); [lia|reflexivity].
Qed.

Print Assumptions pump_j2c_total.
Print Assumptions pump_j2c_err_iff.
Print Assumptions pump_j2c_value.

(* ====================================================================== *)
(* 9. CBOR -> JSON                                                         *)
(* ====================================================================== *)

(* ---------- which token lists the JSON encoder completes (any oracle) ------ *)

Definition json_repr_all (ts : list token) : bool := forallb (fun t => json_repr (tv t)) ts.

Lemma jenc_run_unrepr sh o : forall ts s k,
  jinv_gen (jcur s) (jstack s) -> Exists (fun t => json_repr (tv t) = false) ts ->
  match jenc_run sh o s ts k with
  | JFinished _ n => (n < k + length ts)%nat
  | JStarved _ _ => False
  | _ => True
  end.
Proof.
  induction ts as [|t ts IH]; intros s k Hinv Hex; [inversion Hex|].
  cbn [jenc_run]. destruct (json_repr (tv t)) eqn:Hr.
  - assert (Hex' : Exists (fun t => json_repr (tv t) = false) ts).
    { apply Exists_cons in Hex. destruct Hex as [Hh|Ht]; [congruence|exact Ht]. }
    pose proof (json_step_refines sh o s t Hinv Hr) as H.
    destruct (jenc_step sh o s t) as [[s' out] r]. destruct H as [Hres Hnext].
    destruct (ctx_step key_json (abs_j (jcur s) (jstack s)) (tv t)) as [c'| |]; destruct r; cbn in Hres;
      try contradiction; try exact I.
    + destruct (Hnext c' eq_refl) as [_ Hinv']. specialize (IH s' (S k) Hinv' Hex').
      destruct (jenc_run sh o s' ts (S k)); cbn [jprepend length]; try exact I; try contradiction. lia.
    + cbn [length]. destruct ts; [inversion Hex'|cbn [length]; lia].
  - pose proof (json_unrepresentable_is_error sh o s t Hinv Hr) as H.
    destruct (jenc_step sh o s t) as [[s' out] r]. subst r. exact I.
Qed.

Lemma forallb_false_exists {A} (p : A -> bool) l :
  forallb p l = false -> exists x, In x l /\ p x = false.
Proof.
  induction l as [|t ts IH]; [discriminate|]. cbn [forallb].
  destruct (p t) eqn:Et; cbn [andb]; intros E.
  - destruct (IH E) as (x & Hin & Hx). exists x. split; [right; exact Hin|exact Hx].
  - exists t. split; [left; reflexivity|exact Et].
Qed.

Lemma jinv_init : jinv_gen (jcur jenc_init) (jstack jenc_init).
Proof. split; [constructor|reflexivity]. Qed.

(* a byte string, NaN or an infinity anywhere in the item makes the pump fail *)
Theorem pump_c2j_unrepresentable : forall sh o c bs toks rest a,
  dec_run c bs = DOk toks rest a -> json_repr_all toks = false -> pump_c2j sh o c bs = PumpErr.
Proof.
  intros sh o c bs toks rest a H Hr. unfold pump_c2j. rewrite H.
  assert (Hex : Exists (fun t => json_repr (tv t) = false) toks)
    by (apply Exists_exists; apply forallb_false_exists; exact Hr).
  pose proof (jenc_run_unrepr sh o toks jenc_init 0%nat jinv_init Hex) as Hrun.
  unfold jenc_tokens. destruct (jenc_run sh o jenc_init toks 0) as [chunks n| | |]; try reflexivity.
  cbn [plus] in Hrun. destruct (Nat.eqb_spec n (length toks)); [lia|reflexivity].
Qed.

(* the pump succeeds exactly on representable tokens whose map keys are strings *)
Theorem pump_c2j_ok_iff : forall sh o c bs toks rest a,
  dec_run c bs = DOk toks rest a ->
  ((exists out, pump_c2j sh o c bs = PumpOk out rest) <->
   (json_repr_all toks = true /\ json_keys_ok toks = true)).
Proof.
  intros sh o c bs toks rest a H. split.
  - intros [out Hp].
    destruct (json_repr_all toks) eqn:Hr.
    2:{ rewrite (pump_c2j_unrepresentable sh o c bs toks rest a H Hr) in Hp. discriminate. }
    split; [reflexivity|].
    unfold pump_c2j in Hp. rewrite H in Hp.
    assert (Hall : Forall (fun t => json_repr (tv t) = true) toks).
    { apply Forall_forall. unfold json_repr_all in Hr. rewrite forallb_forall in Hr. exact Hr. }
    pose proof (json_encoder_accepts_grammar sh o toks Hall) as Ag.
    destruct (jenc_tokens sh o toks) as [chunks k| | |]; try discriminate.
    destruct (Nat.eqb k (length toks)) eqn:E; [|discriminate].
    unfold json_keys_ok, grammar_okb.
    destruct (ctx_run key_json [] toks 0) as [m| |]; cbn in Ag; try contradiction. subst m. exact E.
  - intros [Hr Hk].
    assert (Hall : Forall (fun t => json_repr (tv t) = true) toks).
    { apply Forall_forall. unfold json_repr_all in Hr. rewrite forallb_forall in Hr. exact Hr. }
    pose proof (json_encoder_accepts_grammar sh o toks Hall) as Ag.
    unfold json_keys_ok, grammar_okb in Hk.
    destruct (ctx_run key_json [] toks 0) as [m| |]; try discriminate.
    apply Nat.eqb_eq in Hk. subst m.
    unfold pump_c2j. rewrite H.
    destruct (jenc_tokens sh o toks) as [chunks k| | |]; cbn in Ag; try contradiction. subst k.
    rewrite Nat.eqb_refl. eauto.
Qed.

Theorem pump_c2j_error : forall sh o c bs e toks a,
  dec_run c bs = DFail e toks a -> pump_c2j sh o c bs = PumpErr.
Proof. intros sh o c bs e toks a H. unfold pump_c2j. rewrite H. reflexivity. Qed.

Definition jtail (o : jopts) (ts : list token) : bytes :=
  match ts with
  | t :: _ =>
      match tv t with
      | ArrOpen _ | MapOpen _ => match jline o with Some l => l | None => [] end
      | _ => []
      end
  | [] => []
  end.

Lemma top_tail_jtail o n : top_tail o n = jtail o (flatten n).
Proof. destruct n as [tg v]; destruct v; reflexivity. Qed.

(* ---------- value preservation, under the float oracle hypothesis of
              JsonEncProof.v (same Section variables, same [Hflt]) ---------- *)
Section ToJson.
  Variable sh : Z -> list Z * Z.          (* the shortest-digits oracle *)
  Variable float_ok : Z -> Prop.          (* floats the round trip is claimed for *)
  Variable fnorm : Z -> tval.             (* how a float's text reads back *)
  Hypothesis Hflt : forall b rest, float_ok b -> terminator_ok rest ->
    exists first more, emit_float sh b = Some [first :: more] /\
      (first = 45 \/ is_digit first = true) /\
      is_leaf (fnorm b) = true /\
      dec_number first (more ++ rest) = inl (leaf_tok (fnorm b), rest) /\
      match fnorm b with VInt _ | VUint _ | VFlt _ => True | _ => False end.

  (* tokens JSON can carry: no byte strings, floats for which the oracle is trusted *)
  Definition jtok_ok (t : token) : Prop :=
    match tv t with Byt _ => False | Flt b => float_ok b | _ => True end.

  (* the normalisation of a JSON round trip (JsonEncProof.jnorm) on tokens: tags
     and lengths are not carried, strings are coerced to valid UTF-8, an
     unsigned number that fits int64 reads back signed, a float reads back as
     the number its shortest text denotes *)
  Definition jnorm_tok (t : token) : token :=
    Tok (match tv t with
         | Str s => Str (coerce_utf8 s)
         | Uint u => if u <=? max_int64 then Int u else Uint u
         | Flt b => leaf_tok (fnorm b)
         | ArrOpen _ => ArrOpen (-1)
         | MapOpen _ => MapOpen (-1)
         | v => v
         end) None.

  Lemma jtail_jnorm o ts : jtail o (map jnorm_tok ts) = jtail o ts.
  Proof.
    destruct ts as [|[v tg] ts]; [reflexivity|]. cbn [map jtail]. unfold jnorm_tok. cbn [tv].
    destruct v; try reflexivity.
    - destruct (u <=? max_int64); reflexivity.
    - (* a float never reads back as a container *)
      destruct (fnorm bits); reflexivity.
  Qed.

  Lemma flatten_jnorm n : json_ok float_ok n -> flatten (jnorm fnorm n) = map jnorm_tok (flatten n).
  Proof.
    induction n as [tg v Hleaf|tg d items IH|tg d es IH] using tnode_ind'; intros Hok.
    - cbn [json_ok] in Hok.
      destruct v; try contradiction; cbn [jnorm flatten map]; unfold jnorm_tok; cbn [tv]; try reflexivity.
      + destruct (u <=? max_int64); reflexivity.
      + destruct (Hflt bits [] Hok I) as (first & more & _ & _ & Hl & _).
        destruct (fnorm bits); try discriminate Hl; reflexivity.
    - cbn [json_ok] in Hok. apply fold_pair_Forall in Hok.
      cbn [jnorm flatten map]. unfold jnorm_tok at 1. cbn [tv]. f_equal.
      rewrite map_app. cbn [map]. f_equal.
      pose proof (Forall_mp _ _ _ IH Hok) as Hq. clear IH Hok.
      induction Hq as [|x xs Hx _ IHxs]; [reflexivity|].
      cbn [map flat_map]. rewrite map_app, Hx, IHxs. reflexivity.
    - cbn [json_ok] in Hok.
      apply (fold_pair_Forall (fun kv => match fst kv with Node _ (VStr k) => bytes_ok k | _ => False end
                                         /\ json_ok float_ok (snd kv))) in Hok.
      cbn [jnorm flatten map]. unfold jnorm_tok at 1. cbn [tv]. f_equal.
      rewrite map_app. cbn [map]. f_equal.
      induction IH as [|[k w] xs [Hk Hw] _ IHxs]; [reflexivity|].
      inversion Hok as [|? ? [Hkk Hww] Hok']; subst. cbn [fst snd] in *.
      cbn [map flat_map fst snd]. rewrite !map_app, <- Hw, <- IHxs by assumption.
      f_equal. destruct k as [ktg kv]. destruct kv; try contradiction. reflexivity.
  Qed.

  Lemma json_ok_of_shape sg n :
    shape sg n -> wf_keys key_json n -> Forall jtok_ok (flatten n) -> json_ok float_ok n.
  Proof.
    induction n as [tg v Hleaf|tg d items IH|tg d es IH] using tnode_ind'; intros Hs Hwf Ht.
    - destruct Hs as [_ Hv].
      destruct v; try contradiction; cbn [json_ok]; cbn [flatten] in Ht;
        inversion Ht as [|? ? Ht1 _]; subst; unfold jtok_ok in Ht1; cbn [tv] in Ht1;
        unfold min_int64, max_int64, max_uint64; auto; try lia.
      destruct sg; lia.
    - destruct Hs as (_ & _ & _ & Hitems). apply fold_pair_Forall in Hitems. apply wf_arr in Hwf.
      cbn [flatten] in Ht. inversion Ht as [|? ? _ Ht']; subst.
      apply Forall_app in Ht'. destruct Ht' as [Ht' _]. apply Forall_flat_map in Ht'.
      cbn [json_ok]. apply fold_pair_Forall.
      clear -IH Hitems Hwf Ht'.
      induction IH as [|x xs Hx _ IHxs]; [constructor|].
      inversion Hitems; inversion Hwf; inversion Ht'; subst. constructor; auto.
    - destruct Hs as (_ & _ & _ & Hes).
      apply (fold_pair_Forall (fun kv => shape sg (fst kv) /\ shape sg (snd kv))) in Hes.
      apply wf_map in Hwf.
      cbn [flatten] in Ht. inversion Ht as [|? ? _ Ht']; subst.
      apply Forall_app in Ht'. destruct Ht' as [Ht' _]. apply Forall_flat_map in Ht'.
      cbn [json_ok].
      apply (fold_pair_Forall (fun kv => match fst kv with Node _ (VStr k) => bytes_ok k | _ => False end
                                         /\ json_ok float_ok (snd kv))).
      clear -IH Hes Hwf Ht'.
      induction IH as [|[k w] xs [Hk Hw] _ IHxs]; [constructor|].
      inversion Hes as [|? ? [Sk Sw] Hes']; inversion Hwf as [|? ? [Wk Ww] Hwf'];
        inversion Ht' as [|? ? Tkw Ht'']; subst.
      cbn [fst snd] in *. apply Forall_app in Tkw. destruct Tkw as [_ Tw].
      constructor; [|apply IHxs; assumption].
      cbn [fst snd]. split; [|apply Hw; assumption].
      destruct k as [ktg kv]. cbn [key_wf] in Wk. destruct Wk as [Wl Wj].
      destruct kv; try discriminate. destruct Sk as [_ Sk]. exact Sk.
  Qed.

  (* the tree-level core: any tree in JSON's data model *)
  Lemma c2j_core o c bs n rest a :
    ws_opts o -> dec_run c bs = DOk (flatten n) rest a -> json_ok float_ok n ->
    exists out, pump_c2j sh o c bs = PumpOk out rest /\
                jdec_run out = JDOk (flatten (jnorm fnorm n)) (top_tail o n).
  Proof.
    intros Ho H Hn.
    destruct (json_encode_parses sh float_ok fnorm Hflt o n [] Ho Hn I) as (chunks & Hrun & fuel & Hp).
    rewrite !app_nil_r in Hp.
    exists (concat chunks). split.
    - unfold pump_c2j. rewrite H, Hrun, Nat.eqb_refl. reflexivity.
    - apply (jdec_complete fuel). apply strict_implies_lenient. exact Hp.
  Qed.

  (* 4. value preservation *)
  Theorem pump_c2j_value : forall o c bs toks rest a,
    ws_opts o -> bytes_ok bs -> dec_run c bs = DOk toks rest a ->
    Forall jtok_ok toks -> json_keys_ok toks = true ->
    exists out,
      pump_c2j sh o c bs = PumpOk out rest /\
      jdec_run out = JDOk (map jnorm_tok toks) (jtail o toks) /\
      (exists n, parse_item c bs = POk n rest /\ toks = flatten n /\
                 exists fuel, jpvalue fuel false out = POk (jnorm fnorm n) (jtail o toks)).
  Proof.
    intros o c bs toks rest a Ho Hb H Ht Hk.
    destruct (dec_sound _ _ _ _ _ H) as (n & Hp & ->).
    pose proof Hp as Hp'. unfold parse_item in Hp'.
    destruct (pitem_shape _ _ _ _ _ Hb Hp') as [Hs _].
    apply grammar_ok_wf in Hk.
    pose proof (json_ok_of_shape _ _ Hs Hk Ht) as Hn.
    destruct (json_encode_parses sh float_ok fnorm Hflt o n [] Ho Hn I) as (chunks & Hrun & fuel & Hpj).
    rewrite !app_nil_r in Hpj.
    exists (concat chunks). split; [|split].
    - unfold pump_c2j. rewrite H, Hrun, Nat.eqb_refl. reflexivity.
    - rewrite <- flatten_jnorm by exact Hn. rewrite <- top_tail_jtail.
      apply (jdec_complete fuel). apply strict_implies_lenient. exact Hpj.
    - exists n. split; [exact Hp|]. split; [reflexivity|]. exists fuel. rewrite <- top_tail_jtail. exact Hpj.
  Qed.

  (* ---------- 5. round trips ------------------------------------------------ *)

  (* CBOR -> JSON -> CBOR *)
  Theorem pump_roundtrip_cjc : forall o c c' bs toks rest a,
    ws_opts o -> bytes_ok bs -> dec_run c bs = DOk toks rest a ->
    Forall jtok_ok toks -> json_keys_ok toks = true ->
    str_cap_ok (map jnorm_tok toks) = true ->
    exists j out2,
      pump_c2j sh o c bs = PumpOk j rest /\
      pump_j2c j = PumpOk out2 (jtail o toks) /\
      forall tail, exists a',
        dec_run c' (out2 ++ tail) = DOk (map canon_tok (map jnorm_tok toks)) tail a'.
  Proof.
    intros o c c' bs toks rest a Ho Hb H Ht Hk Hcap.
    destruct (pump_c2j_value o c bs toks rest a Ho Hb H Ht Hk) as (j & Hp & Hjd & _).
    destruct (pump_j2c_value c' j _ _ Hjd Hcap) as (out2 & Hp2 & Htail & _).
    exists j, out2. auto.
  Qed.

  Lemma jtail_canon o ts : jtail o (map canon_tok ts) = jtail o ts.
  Proof.
    destruct ts as [|[v tg] ts]; [reflexivity|]. cbn [map jtail]. unfold canon_tok. cbn [tv tag].
    destruct v; try reflexivity. destruct (0 <=? i); reflexivity.
  Qed.

  Lemma json_ok_canon n : jshape n -> Forall jtok_ok (flatten n) -> json_ok float_ok (canon n).
  Proof.
    induction n as [tg v Hleaf|tg d items IH|tg d es IH] using tnode_ind'; intros Hs Ht.
    - destruct Hs as [_ Hv]. unfold min_int64, max_int64, max_uint64 in *.
      destruct v; try contradiction; cbn [canon json_ok]; cbn [flatten] in Ht;
        inversion Ht as [|? ? Ht1 _]; subst; unfold jtok_ok in Ht1; cbn [tv] in Ht1; auto; try lia.
      + destruct (Z.leb_spec 0 i); cbn [json_ok]; unfold min_int64, max_int64, max_uint64; lia.
      + unfold max_uint64; lia.
    - destruct Hs as (_ & _ & Hitems). apply fold_pair_Forall in Hitems.
      cbn [flatten] in Ht. inversion Ht as [|? ? _ Ht']; subst.
      apply Forall_app in Ht'. destruct Ht' as [Ht' _]. apply Forall_flat_map in Ht'.
      rewrite canon_arr. cbn [json_ok]. apply fold_pair_Forall.
      clear -IH Hitems Ht'.
      induction IH as [|x xs Hx _ IHxs]; [constructor|].
      inversion Hitems; inversion Ht'; subst. cbn [map]. constructor; auto.
    - destruct Hs as (_ & _ & Hes). apply (fold_pair_Forall jentry) in Hes.
      cbn [flatten] in Ht. inversion Ht as [|? ? _ Ht']; subst.
      apply Forall_app in Ht'. destruct Ht' as [Ht' _]. apply Forall_flat_map in Ht'.
      rewrite canon_map. cbn [json_ok].
      apply (fold_pair_Forall (fun kv => match fst kv with Node _ (VStr k) => bytes_ok k | _ => False end
                                         /\ json_ok float_ok (snd kv))).
      clear -IH Hes Ht'.
      induction IH as [|[k w] xs [Hk Hw] _ IHxs]; [constructor|].
      inversion Hes as [|? ? [(s & Ek & Bk) Sw] Hes']; inversion Ht' as [|? ? Tkw Ht'']; subst.
      cbn [fst snd] in *. apply Forall_app in Tkw. destruct Tkw as [_ Tw]. subst k.
      cbn [map]. constructor; [|apply IHxs; assumption].
      unfold canon_pair. cbn [fst snd canon]. split; [exact Bk|apply Hw; assumption].
  Qed.

  (* JSON -> CBOR -> JSON *)
  Theorem pump_roundtrip_jcj : forall o c bs toks rest,
    ws_opts o -> jdec_run bs = JDOk toks rest -> str_cap_ok toks = true ->
    Forall jtok_ok toks ->
    exists cb out2,
      pump_j2c bs = PumpOk cb rest /\
      pump_c2j sh o c cb = PumpOk out2 [] /\
      jdec_run out2 = JDOk (map jnorm_tok (map canon_tok toks)) (jtail o toks).
  Proof.
    intros o c bs toks rest Ho H Hcap Ht.
    destruct (j2c_encodes _ _ _ H) as (n & Hp & -> & Hj & Henc & Hlen & Hrt & Hpump).
    specialize (Hrt Hcap).
    destruct (parse_rfc_enc_canon n c [] Henc Hlen Hrt) as [fuel Hf]. rewrite app_nil_r in Hf.
    destruct (dec_complete fuel c _ _ _ Hf) as [a Ha].
    pose proof (json_ok_canon n Hj Ht) as Hn.
    destruct (c2j_core o c _ _ _ _ Ho Ha Hn) as (out2 & Hp2 & Hjd).
    exists (rfc_enc n), out2. split; [exact Hpump|]. split; [exact Hp2|].
    rewrite flatten_jnorm in Hjd by exact Hn. rewrite flatten_canon in Hjd.
    rewrite top_tail_jtail, flatten_canon, jtail_canon in Hjd. exact Hjd.
  Qed.

  (* ... which is the original token list when the strings are valid UTF-8 and
     the floats read back as floats *)
  Definition jstable_tok (t : token) : Prop :=
    match tv t with Str s => valid_utf8 s = true | Flt b => fnorm b = VFlt b | _ => True end.

  Lemma jcj_fix n : jshape n -> Forall jstable_tok (flatten n) -> jnorm fnorm (canon n) = n.
  Proof.
    induction n as [tg v Hleaf|tg d items IH|tg d es IH] using tnode_ind'; intros Hs Ht.
    - destruct Hs as [-> Hv]. unfold min_int64, max_int64, max_uint64 in *.
      destruct v; try contradiction; cbn [canon jnorm]; cbn [flatten] in Ht;
        inversion Ht as [|? ? Ht1 _]; subst; unfold jstable_tok in Ht1; cbn [tv] in Ht1; try reflexivity.
      + rewrite coerce_valid_utf8 by exact Ht1. reflexivity.
      + destruct (Z.leb_spec 0 i); cbn [jnorm]; [|reflexivity].
        unfold max_int64. destruct (Z.leb_spec i 9223372036854775807); [reflexivity|lia].
      + unfold max_int64. destruct (Z.leb_spec u 9223372036854775807); [lia|reflexivity].
      + rewrite Ht1. reflexivity.
    - destruct Hs as (-> & -> & Hitems). apply fold_pair_Forall in Hitems.
      cbn [flatten] in Ht. inversion Ht as [|? ? _ Ht']; subst.
      apply Forall_app in Ht'. destruct Ht' as [Ht' _]. apply Forall_flat_map in Ht'.
      rewrite canon_arr. cbn [jnorm]. f_equal. f_equal.
      clear -IH Hitems Ht'.
      induction IH as [|x xs Hx _ IHxs]; [reflexivity|].
      inversion Hitems; inversion Ht'; subst. cbn [map]. f_equal; auto.
    - destruct Hs as (-> & -> & Hes). apply (fold_pair_Forall jentry) in Hes.
      cbn [flatten] in Ht. inversion Ht as [|? ? _ Ht']; subst.
      apply Forall_app in Ht'. destruct Ht' as [Ht' _]. apply Forall_flat_map in Ht'.
      rewrite canon_map. cbn [jnorm]. f_equal. f_equal.
      clear -IH Hes Ht'.
      induction IH as [|[k w] xs [Hk Hw] _ IHxs]; [reflexivity|].
      inversion Hes as [|? ? [(s & Ek & Bk) Sw] Hes']; inversion Ht' as [|? ? Tkw Ht'']; subst.
      cbn [fst snd] in *. apply Forall_app in Tkw. destruct Tkw as [Tk Tw].
      cbn [map]. f_equal; [|apply IHxs; assumption].
      unfold canon_pair. cbn [fst snd]. f_equal; [apply Hk|apply Hw]; auto.
      subst k. cbn [jshape]. auto.
  Qed.

  Corollary pump_roundtrip_jcj_same : forall o c bs toks rest,
    ws_opts o -> jdec_run bs = JDOk toks rest -> str_cap_ok toks = true ->
    Forall jtok_ok toks -> Forall jstable_tok toks ->
    exists cb out2,
      pump_j2c bs = PumpOk cb rest /\
      pump_c2j sh o c cb = PumpOk out2 [] /\
      jdec_run out2 = JDOk toks (jtail o toks).
  Proof.
    intros o c bs toks rest Ho H Hcap Ht Hst.
    destruct (pump_roundtrip_jcj o c bs toks rest Ho H Hcap Ht) as (cb & out2 & Hp1 & Hp2 & Hjd).
    exists cb, out2. split; [exact Hp1|]. split; [exact Hp2|].
    destruct (j2c_encodes _ _ _ H) as (n & _ & -> & Hj & _).
    pose proof (json_ok_canon n Hj Ht) as Hn.
    rewrite <- flatten_canon, <- flatten_jnorm in Hjd by exact Hn.
    rewrite (jcj_fix n Hj Hst) in Hjd. exact Hjd.
  Qed.
End ToJson.

(* "the same tokens as the original JSON text" is false in general: a float
   with an integral value is written as an integer text.  (Here the oracle is
   the true shortest-digits answer for 1.0: digits "1", decimal point after 1.) *)
Example pump_roundtrip_jcj_same_refuted :
  let sh := fun _ : Z => ([1], 1) in
  let o := JOpts None [] in
  jdec_run [49; 46; 48] = JDOk [Tok (Flt 4607182418800017408) None] [] /\
  pump_j2c [49; 46; 48] = PumpOk [251; 63; 240; 0; 0; 0; 0; 0; 0] [] /\
  pump_c2j sh o false [251; 63; 240; 0; 0; 0; 0; 0; 0] = PumpOk [49] [] /\
  jdec_run [49] = JDOk [Tok (Int 1) None] [].
Proof. vm_compute. repeat split; reflexivity. Qed.

Print Assumptions pump_c2j_unrepresentable.
Print Assumptions pump_c2j_ok_iff.
Print Assumptions pump_c2j_value.
Print Assumptions pump_roundtrip_cjc.
Print Assumptions pump_roundtrip_jcj.
Print Assumptions pump_roundtrip_jcj_same.

(* ====================================================================== *)
(* 10. Framing (C17): items written back to back are read one per call     *)
(* ====================================================================== *)

(* ---------- CBOR: every item is self-delimiting ---------------------------- *)

Theorem dec_run_frame : forall c bs toks rest a ext,
  dec_run c bs = DOk toks rest a ->
  exists a', dec_run c (bs ++ ext) = DOk toks (rest ++ ext) a'.
Proof.
  intros c bs toks rest a ext H.
  destruct (dec_sound _ _ _ _ _ H) as (n & Hp & ->). unfold parse_item in Hp.
  apply (pitem_frame _ _ _ _ _ ext) in Hp. exact (dec_complete _ _ _ _ _ Hp).
Qed.

Corollary dec_run_frame_whole : forall c bs1 bs2 toks a,
  dec_run c bs1 = DOk toks [] a -> exists a', dec_run c (bs1 ++ bs2) = DOk toks bs2 a'.
Proof. intros c bs1 bs2 toks a H. exact (dec_run_frame c bs1 toks [] a bs2 H). Qed.

(* [k] successive decoder calls, each on what the previous one left *)
Fixpoint dec_many (k : nat) (c : bool) (bs : bytes) : option (list (list token) * bytes) :=
  match k with
  | O => Some ([], bs)
  | S k' =>
      match dec_run c bs with
      | DOk toks rest _ =>
          match dec_many k' c rest with
          | Some (l, r) => Some (toks :: l, r)
          | None => None
          end
      | _ => None
      end
  end.

(* any documents, each of which decodes as exactly one item *)
Theorem dec_many_concat : forall c (docs : list (bytes * list token)) tail,
  Forall (fun d => exists a, dec_run c (fst d) = DOk (snd d) [] a) docs ->
  dec_many (length docs) c (concat (map fst docs) ++ tail) = Some (map snd docs, tail).
Proof.
  intros c docs tail H. induction H as [|[d toks] ds [a Hd] _ IH]; [reflexivity|].
  cbn [length map concat fst snd dec_many] in *. rewrite <- app_assoc.
  destruct (dec_run_frame _ _ _ _ _ (concat (map fst ds) ++ tail) Hd) as [a' Ha'].
  rewrite Ha'. cbn [app]. rewrite IH. reflexivity.
Qed.

(* the encoder's outputs (= rfc_enc, C02), back to back *)
Corollary dec_many_encoded : forall c items tail,
  Forall (fun n => enc_ok n /\ len_ok n /\ rt_ok n) items ->
  Forall (fun n => exists chunks, enc_tokens (flatten n) = Finished chunks (length (flatten n)) /\
                                  concat chunks = rfc_enc n) items /\
  dec_many (length items) c (concat (map rfc_enc items) ++ tail) =
    Some (map (fun n => map canon_tok (flatten n)) items, tail).
Proof.
  intros c items tail H. split.
  - eapply Forall_impl; [|exact H]. intros n (He & _ & _). exact (cbor_encode_spec n He).
  - pose proof (dec_many_concat c (map (fun n => (rfc_enc n, map canon_tok (flatten n))) items) tail) as D.
    rewrite map_length, !map_map in D. cbn [fst snd] in D. apply D.
    apply Forall_map. eapply Forall_impl; [|exact H]. intros n (He & Hl & Hr). cbn [fst snd].
    destruct (parse_rfc_enc_canon n c [] He Hl Hr) as [fuel Hf]. rewrite app_nil_r in Hf.
    rewrite <- flatten_canon. exact (dec_complete fuel c _ _ _ Hf).
Qed.

(* ---------- JSON: everything but a bare top-level number is self-delimiting -- *)

Definition bare_number (ts : list token) : Prop :=
  match ts with
  | [t] => match tv t with Int _ | Uint _ | Flt _ => True | _ => False end
  | _ => False
  end.

Lemma numsoft_bare n : numsoft n -> bare_number (flatten n).
Proof. destruct n as [tg v]; destruct v; cbn [numsoft]; intros H; try contradiction; exact I. Qed.

Theorem jdec_run_frame : forall bs toks rest ext,
  jdec_run bs = JDOk toks rest ->
  (rest = [] -> bare_number toks -> terminator_ok ext) ->
  jdec_run (bs ++ ext) = JDOk toks (rest ++ ext).
Proof.
  intros bs toks rest ext H Hc.
  destruct (jdec_sound _ _ _ H) as (n & Hp & ->). unfold jparse_item in Hp.
  apply (jdec_complete (4 * length bs + 4)). apply jpvalue_frame; [exact Hp|].
  intros Hr Hn. apply Hc; [exact Hr|apply numsoft_bare; exact Hn].
Qed.

(* the side condition is needed: "1" followed by "2" is the number 12 *)
Example jdec_run_frame_number_refuted :
  jdec_run [49] = JDOk [Tok (Int 1) None] [] /\
  jdec_run ([49] ++ [50]) = JDOk [Tok (Int 12) None] [].
Proof. vm_compute. split; reflexivity. Qed.

Lemma skip_ws_pre w bs : ws_bytes w -> skip_ws (w ++ bs) = skip_ws bs.
Proof.
  unfold ws_bytes. induction w as [|b w IH]; intros H; [reflexivity|].
  cbn [forallb] in H. apply andb_prop in H. destruct H as [H1 H2].
  cbn [app skip_ws]. rewrite H1. apply IH. exact H2.
Qed.

(* leading whitespace is skipped *)
Theorem jdec_run_ws : forall w bs toks rest,
  ws_bytes w -> jdec_run bs = JDOk toks rest -> jdec_run (w ++ bs) = JDOk toks rest.
Proof.
  intros w bs toks rest Hw H.
  destruct (jdec_sound _ _ _ H) as (n & Hp & ->). unfold jparse_item in Hp.
  apply (jdec_complete (4 * length bs + 4)).
  destruct (4 * length bs + 4)%nat as [|f]; [discriminate|].
  rewrite JsonDecProof.jpvalue_S in *. rewrite skip_ws_pre by exact Hw. exact Hp.
Qed.

Fixpoint jdec_many (k : nat) (bs : bytes) : option (list (list token) * bytes) :=
  match k with
  | O => Some ([], bs)
  | S k' =>
      match jdec_run bs with
      | JDOk toks rest =>
          match jdec_many k' rest with
          | Some (l, r) => Some (toks :: l, r)
          | None => None
          end
      | _ => None
      end
  end.

(* a stream of documents (text, tokens, trailing whitespace the decoder leaves):
   each text decodes to its tokens; a bare number that is not followed by
   whitespace of its own needs a terminator in what follows *)
Definition jdoc := (bytes * list token * bytes)%type.
Definition jd_text (d : jdoc) : bytes := fst (fst d).
Definition jd_toks (d : jdoc) : list token := snd (fst d).
Definition jd_ws (d : jdoc) : bytes := snd d.

Fixpoint jstream_ok (docs : list jdoc) (tail : bytes) : Prop :=
  match docs with
  | [] => True
  | d :: r =>
      jdec_run (jd_text d) = JDOk (jd_toks d) (jd_ws d) /\ ws_bytes (jd_ws d) /\
      (jd_ws d = [] -> bare_number (jd_toks d) -> terminator_ok (concat (map jd_text r) ++ tail)) /\
      jstream_ok r tail
  end.

(* what is left after the last document: its trailing whitespace, then [tail] *)
Fixpoint jrem (w0 : bytes) (docs : list jdoc) (tail : bytes) : bytes :=
  match docs with
  | [] => w0 ++ tail
  | d :: r => jrem (jd_ws d) r tail
  end.

Theorem jdec_many_concat : forall docs tail w0,
  jstream_ok docs tail -> ws_bytes w0 ->
  jdec_many (length docs) (w0 ++ concat (map jd_text docs) ++ tail) =
    Some (map jd_toks docs, jrem w0 docs tail).
Proof.
  induction docs as [|d r IH]; intros tail w0 Hs Hw0; [reflexivity|].
  destruct Hs as (Hd & Hw & Hc & Hr).
  cbn [length map concat jdec_many jrem]. rewrite <- app_assoc.
  pose proof (jdec_run_frame _ _ _ (concat (map jd_text r) ++ tail) Hd Hc) as Hf.
  rewrite (jdec_run_ws w0 _ _ _ Hw0 Hf). rewrite (IH tail (jd_ws d) Hr Hw). reflexivity.
Qed.

Print Assumptions dec_run_frame.
Print Assumptions dec_many_concat.
Print Assumptions dec_many_encoded.
Print Assumptions jdec_run_frame.
Print Assumptions jdec_run_ws.
Print Assumptions jdec_many_concat.

(* ---------- the JSON encoder's outputs, separated by whitespace ------------- *)

Lemma ws_terminator w : ws_bytes w -> terminator_ok w.
Proof.
  unfold ws_bytes. destruct w as [|b w]; [intros _; exact I|].
  cbn [forallb terminator_ok]. intros H. apply andb_prop in H. destruct H as [H _].
  unfold is_ws in H. unfold is_numchar, is_digit. lia.
Qed.

Section JsonStream.
  Variable sh : Z -> list Z * Z.
  Variable float_ok : Z -> Prop.
  Variable fnorm : Z -> tval.
  Hypothesis Hflt : forall b rest, float_ok b -> terminator_ok rest ->
    exists first more, emit_float sh b = Some [first :: more] /\
      (first = 45 \/ is_digit first = true) /\
      is_leaf (fnorm b) = true /\
      dec_number first (more ++ rest) = inl (leaf_tok (fnorm b), rest) /\
      match fnorm b with VInt _ | VUint _ | VFlt _ => True | _ => False end.

  (* the text the encoder writes for a tree (all of its Write calls) *)
  Definition jenc_out (o : jopts) (n : tnode) : bytes :=
    match jenc_tokens sh o (flatten n) with JFinished c _ => concat c | _ => [] end.

  (* item, then the separator the application writes after it *)
  Fixpoint jitems_text (o : jopts) (items : list (tnode * bytes)) : bytes :=
    match items with
    | [] => []
    | it :: r => jenc_out o (fst it) ++ snd it ++ jitems_text o r
    end.

  Lemma bare_jnorm n : bare_number (flatten (jnorm fnorm n)) -> numsoft n.
  Proof.
    destruct n as [tg v]; destruct v; cbn [jnorm flatten bare_number numsoft tv]; auto.
    - destruct (flat_map flatten (map (jnorm fnorm) items)); cbn [app]; auto.
    - destruct (flat_map (fun kv => flatten (fst kv) ++ flatten (snd kv))
                  (map (fun kv => (jnorm fnorm (fst kv), jnorm fnorm (snd kv))) entries)); cbn [app]; auto.
  Qed.

  Definition jdoc_of (o : jopts) (it : tnode * bytes) : jdoc :=
    (jenc_out o (fst it) ++ snd it, flatten (jnorm fnorm (fst it)), top_tail o (fst it) ++ snd it).

  Definition jitem_ok (it : tnode * bytes) : Prop :=
    json_ok float_ok (fst it) /\ ws_bytes (snd it) /\ (numsoft (fst it) -> snd it <> []).

  Lemma jdoc_of_ok o it ext : ws_opts o -> jitem_ok it ->
    jdec_run (jd_text (jdoc_of o it)) = JDOk (jd_toks (jdoc_of o it)) (jd_ws (jdoc_of o it)) /\
    ws_bytes (jd_ws (jdoc_of o it)) /\
    (jd_ws (jdoc_of o it) = [] -> bare_number (jd_toks (jdoc_of o it)) -> terminator_ok ext).
  Proof.
    intros Ho (Hn & Hsep & Hnum). destruct it as [n sep]. cbn [fst snd] in *.
    unfold jdoc_of, jd_text, jd_toks, jd_ws. cbn [fst snd].
    destruct (json_encode_parses sh float_ok fnorm Hflt o n [] Ho Hn I) as (chunks & Hrun & fuel & Hp).
    rewrite !app_nil_r in Hp.
    assert (Hd : jdec_run (concat chunks) = JDOk (flatten (jnorm fnorm n)) (top_tail o n)).
    { apply (jdec_complete fuel). apply strict_implies_lenient. exact Hp. }
    split; [|split].
    - unfold jenc_out. rewrite Hrun. apply jdec_run_frame; [exact Hd|].
      intros _ _. apply ws_terminator. exact Hsep.
    - apply ws_app; [apply top_tail_ws; exact Ho|exact Hsep].
    - intros Hw Hb. exfalso. apply app_eq_nil in Hw. destruct Hw as [_ Hw].
      apply bare_jnorm in Hb. exact (Hnum Hb Hw).
  Qed.

  Lemma jstream_of_items o items tail : ws_opts o -> Forall jitem_ok items ->
    jstream_ok (map (jdoc_of o) items) tail.
  Proof.
    intros Ho H. induction H as [|it r Hit _ IH]; [exact I|].
    cbn [map jstream_ok].
    destruct (jdoc_of_ok o it (concat (map jd_text (map (jdoc_of o) r)) ++ tail) Ho Hit) as (H1 & H2 & H3).
    repeat split; assumption.
  Qed.

  Lemma jitems_text_concat o items :
    concat (map jd_text (map (jdoc_of o) items)) = jitems_text o items.
  Proof.
    induction items as [|it r IH]; [reflexivity|].
    cbn [map concat jitems_text]. rewrite IH. unfold jdoc_of, jd_text. cbn [fst]. rewrite <- app_assoc. reflexivity.
  Qed.

  Lemma jrem_ws w0 docs tail : ws_bytes w0 -> Forall (fun d => ws_bytes (jd_ws d)) docs ->
    exists rem, jrem w0 docs tail = rem ++ tail /\ ws_bytes rem.
  Proof.
    intros Hw H. revert w0 Hw. induction H as [|d r Hd _ IH]; intros w0 Hw.
    - exists w0. split; [reflexivity|exact Hw].
    - cbn [jrem]. apply IH. exact Hd.
  Qed.

  (* items marshalled back to back — each followed by whitespace of the
     application's choosing, which must be non-empty after a bare number — are
     read back one per call, in order; what remains is whitespace and [tail] *)
  Theorem jdec_many_encoded : forall o items tail,
    ws_opts o -> Forall jitem_ok items ->
    exists rem, ws_bytes rem /\
      jdec_many (length items) (jitems_text o items ++ tail) =
        Some (map (fun it => flatten (jnorm fnorm (fst it))) items, rem ++ tail).
  Proof.
    intros o items tail Ho H.
    pose proof (jstream_of_items o items tail Ho H) as Hs.
    pose proof (jdec_many_concat _ tail [] Hs eq_refl) as D.
    rewrite map_length, jitems_text_concat, map_map in D. cbn [app] in D.
    destruct (jrem_ws [] (map (jdoc_of o) items) tail eq_refl) as (rem & Hrem & Hw).
    { apply Forall_map. eapply Forall_impl; [|exact H]. intros it Hit.
      destruct (jdoc_of_ok o it [] Ho Hit) as (_ & H2 & _). exact H2. }
    exists rem. split; [exact Hw|]. rewrite <- Hrem. exact D.
  Qed.
End JsonStream.

Print Assumptions jdec_many_encoded.

(* ====================================================================== *)
(* 11. Instances without any oracle hypothesis, and kernel-evaluated       *)
(*     examples showing that every hypothesis above is satisfiable         *)
(* ====================================================================== *)

(* float-free documents: the oracle hypothesis is vacuous *)
Definition no_float_ok : Z -> Prop := fun _ => False.

Lemma no_float_hyp sh : forall b rest, no_float_ok b -> terminator_ok rest ->
  exists first more, emit_float sh b = Some [first :: more] /\
    (first = 45 \/ is_digit first = true) /\
    is_leaf (VFlt b) = true /\
    dec_number first (more ++ rest) = inl (leaf_tok (VFlt b), rest) /\
    match VFlt b with VInt _ | VUint _ | VFlt _ => True | _ => False end.
Proof. intros b rest []. Qed.

(* no byte strings and no floats *)
Definition jtok_plain (t : token) : bool :=
  match tv t with Byt _ | Flt _ => false | _ => true end.

Lemma jtok_plain_ok ts : forallb jtok_plain ts = true -> Forall (jtok_ok no_float_ok) ts.
Proof.
  intros H. apply Forall_forall. intros [v tg] Hx. rewrite forallb_forall in H. specialize (H _ Hx).
  unfold jtok_plain, jtok_ok, no_float_ok in *. cbn [tv] in *. destruct v; try discriminate; exact I.
Qed.

Theorem pump_c2j_value_float_free : forall sh o c bs toks rest a,
  ws_opts o -> bytes_ok bs -> dec_run c bs = DOk toks rest a ->
  forallb jtok_plain toks = true -> json_keys_ok toks = true ->
  exists out,
    pump_c2j sh o c bs = PumpOk out rest /\
    jdec_run out = JDOk (map (jnorm_tok VFlt) toks) (jtail o toks).
Proof.
  intros sh o c bs toks rest a Ho Hb H Hp Hk.
  destruct (pump_c2j_value sh no_float_ok VFlt (no_float_hyp sh) o c bs toks rest a Ho Hb H
              (jtok_plain_ok _ Hp) Hk) as (out & H1 & H2 & _).
  eauto.
Qed.

Theorem pump_roundtrip_jcj_float_free : forall sh o c bs toks rest,
  ws_opts o -> jdec_run bs = JDOk toks rest -> str_cap_ok toks = true ->
  forallb jtok_plain toks = true ->
  exists cb out2,
    pump_j2c bs = PumpOk cb rest /\
    pump_c2j sh o c cb = PumpOk out2 [] /\
    jdec_run out2 = JDOk (map (jnorm_tok VFlt) (map canon_tok toks)) (jtail o toks).
Proof.
  intros sh o c bs toks rest Ho H Hcap Hp.
  exact (pump_roundtrip_jcj sh no_float_ok VFlt (no_float_hyp sh) o c bs toks rest Ho H Hcap (jtok_plain_ok _ Hp)).
Qed.

Print Assumptions pump_c2j_value_float_free.
Print Assumptions pump_roundtrip_jcj_float_free.

(* a CBOR document exercising the normalisations: indefinite map, a half-precision
   float (1.0), a definite array, a tag, an integer key; followed by a second item *)
Definition ex_cbor : bytes :=
  [191; 97; 107; 249; 60; 0; 1; 130; 246; 192 + 5; 32; 255; 7].

Example ex_cbor_hyps :
  bytes_okb ex_cbor = true /\
  match dec_run false ex_cbor with
  | DOk toks rest _ =>
      rest = [7] /\ cbor_keys_ok toks = true /\ str_cap_ok toks = true /\
      toks = [Tok (MapOpen (-1)) None; Tok (Str [107]) None; Tok (Flt 4607182418800017408) None;
              Tok (Uint 1) None; Tok (ArrOpen 2) None; Tok Null None; Tok (Int (-1)) (Some 5);
              Tok ArrClose None; Tok MapClose None]
  | _ => False
  end.
Proof. vm_compute. repeat split; reflexivity. Qed.

(* lengths and the tag are preserved, the half float is written as float64;
   the second item is untouched; re-pumping the output reproduces it *)
Example ex_cbor_pump :
  pump_c2c false ex_cbor =
    PumpOk [191; 97; 107; 251; 63; 240; 0; 0; 0; 0; 0; 0; 1; 130; 246; 197; 32; 255] [7] /\
  pump_c2c false [191; 97; 107; 251; 63; 240; 0; 0; 0; 0; 0; 0; 1; 130; 246; 197; 32; 255] =
    PumpOk [191; 97; 107; 251; 63; 240; 0; 0; 0; 0; 0; 0; 1; 130; 246; 197; 32; 255] [].
Proof. vm_compute. split; reflexivity. Qed.

(* a CBOR document in JSON's data model (string keys, no bytes, no floats):
   {"k": [1, -2, null, "x"], "t": true} with a tag that JSON drops *)
Definition ex_cbor_json : bytes :=
  [162; 97; 107; 132; 1; 33; 246; 192 + 7; 97; 120; 97; 116; 245].

Example ex_cbor_json_hyps :
  bytes_okb ex_cbor_json = true /\
  match dec_run false ex_cbor_json with
  | DOk toks rest _ =>
      rest = [] /\ forallb jtok_plain toks = true /\ json_keys_ok toks = true /\
      json_repr_all toks = true /\
      str_cap_ok (map (jnorm_tok VFlt) toks) = true
  | _ => False
  end.
Proof. vm_compute. repeat split; reflexivity. Qed.

Example ex_cbor_json_pump :
  let o := JOpts None [] in
  pump_c2j (fun _ => ([], 0)) o false ex_cbor_json =
    PumpOk [123; 34;107;34; 58; 91; 49; 44; 45;50; 44; 110;117;108;108; 44; 34;120;34; 93; 44;
            34;116;34; 58; 116;114;117;101; 125] [] /\
  pump_j2c [123; 34;107;34; 58; 91; 49; 44; 45;50; 44; 110;117;108;108; 44; 34;120;34; 93; 44;
            34;116;34; 58; 116;114;117;101; 125] =
    PumpOk [191; 97; 107; 159; 1; 33; 246; 97; 120; 255; 97; 116; 245; 255] [].
Proof. vm_compute. split; reflexivity. Qed.

(* a JSON text satisfying the hypotheses of the JSON-side theorems *)
Example ex_json_hyps :
  match jdec_run [32; 91; 49; 44; 32; 34; 120; 34; 93; 32] with
  | JDOk toks rest => rest = [32] /\ str_cap_ok toks = true /\ forallb jtok_plain toks = true
  | _ => False
  end.
Proof. vm_compute. repeat split; reflexivity. Qed.

(* three JSON values in one stream: "[1]" "2" (needs its terminator) "null" *)
Example ex_json_stream :
  jdec_many 3 [91; 49; 93; 50; 32; 110; 117; 108; 108; 10] =
    Some ([[Tok (ArrOpen (-1)) None; Tok (Int 1) None; Tok ArrClose None];
           [Tok (Int 2) None]; [Tok Null None]], [10]).
Proof. vm_compute. reflexivity. Qed.

(* two CBOR items in one stream *)
Example ex_cbor_stream :
  dec_many 2 false [130; 1; 2; 246; 9] =
    Some ([[Tok (ArrOpen 2) None; Tok (Uint 1) None; Tok (Uint 2) None; Tok ArrClose None];
           [Tok Null None]], [9]).
Proof. vm_compute. reflexivity. Qed.

(* ---------- CBOR -> JSON: the error side, in one statement ------------------ *)

Theorem pump_c2j_err_iff : forall sh o c bs,
  pump_c2j sh o c bs = PumpErr <->
  (exists e toks a, dec_run c bs = DFail e toks a) \/
  (exists toks rest a, dec_run c bs = DOk toks rest a /\
                       (json_repr_all toks = false \/ json_keys_ok toks = false)).
Proof.
  intros sh o c bs. split.
  - intros Hp. destruct (dec_total c bs) as [(toks & rest & a & H)|(e & toks & a & H)]; [|left; eauto].
    right. exists toks, rest, a. split; [exact H|].
    destruct (json_repr_all toks) eqn:Hr; [|left; reflexivity].
    destruct (json_keys_ok toks) eqn:Hk; [|right; reflexivity].
    destruct (proj2 (pump_c2j_ok_iff sh o c bs toks rest a H) (conj Hr Hk)) as [out Ho].
    rewrite Hp in Ho. discriminate.
  - intros [(e & toks & a & H)|(toks & rest & a & H & Hbad)].
    + eapply pump_c2j_error; eauto.
    + destruct (pump_c2j sh o c bs) as [out r|] eqn:Hp; [|reflexivity]. exfalso.
      assert (r = rest).
      { unfold pump_c2j in Hp. rewrite H in Hp.
        destruct (jenc_tokens sh o toks) as [chunks k| | |]; try discriminate.
        destruct (Nat.eqb k (length toks)); [|discriminate]. inversion Hp. reflexivity. }
      subst r.
      destruct (proj1 (pump_c2j_ok_iff sh o c bs toks rest a H) (ex_intro _ out Hp)) as [Hr Hk].
      destruct Hbad; congruence.
Qed.
Print Assumptions pump_c2j_err_iff.

(* a byte string, a NaN, an integer key: each is a pump error (never a panic) *)
Example ex_c2j_errors :
  let sh := fun _ : Z => ([], 0) in
  let o := JOpts None [] in
  pump_c2j sh o false [65; 1] = PumpErr /\
  pump_c2j sh o false [129; 249; 126; 0] = PumpErr /\
  pump_c2j sh o false [161; 1; 2] = PumpErr.
Proof. vm_compute. repeat split; reflexivity. Qed.

(* ---------- float-free round trips (no oracle hypothesis) ------------------- *)

Definition str_valid (t : token) : bool :=
  match tv t with Str s => valid_utf8 s | _ => true end.

Theorem pump_roundtrip_cjc_float_free : forall sh o c c' bs toks rest a,
  ws_opts o -> bytes_ok bs -> dec_run c bs = DOk toks rest a ->
  forallb jtok_plain toks = true -> json_keys_ok toks = true ->
  str_cap_ok (map (jnorm_tok VFlt) toks) = true ->
  exists j out2,
    pump_c2j sh o c bs = PumpOk j rest /\
    pump_j2c j = PumpOk out2 (jtail o toks) /\
    forall tail, exists a',
      dec_run c' (out2 ++ tail) = DOk (map canon_tok (map (jnorm_tok VFlt) toks)) tail a'.
Proof.
  intros sh o c c' bs toks rest a Ho Hb H Hp Hk Hcap.
  exact (pump_roundtrip_cjc sh no_float_ok VFlt (no_float_hyp sh) o c c' bs toks rest a Ho Hb H
           (jtok_plain_ok _ Hp) Hk Hcap).
Qed.

(* JSON -> CBOR -> JSON gives back the very same tokens for float-free
   documents whose strings are valid UTF-8 *)
Theorem pump_roundtrip_jcj_same_float_free : forall sh o c bs toks rest,
  ws_opts o -> jdec_run bs = JDOk toks rest -> str_cap_ok toks = true ->
  forallb jtok_plain toks = true -> forallb str_valid toks = true ->
  exists cb out2,
    pump_j2c bs = PumpOk cb rest /\
    pump_c2j sh o c cb = PumpOk out2 [] /\
    jdec_run out2 = JDOk toks (jtail o toks).
Proof.
  intros sh o c bs toks rest Ho H Hcap Hp Hv.
  apply (pump_roundtrip_jcj_same sh no_float_ok VFlt (no_float_hyp sh) o c bs toks rest Ho H Hcap
           (jtok_plain_ok _ Hp)).
  apply Forall_forall. intros [v tg] Hx. rewrite forallb_forall in Hv. specialize (Hv _ Hx).
  unfold str_valid, jstable_tok in *. cbn [tv] in *. destruct v; auto.
Qed.

Print Assumptions pump_roundtrip_cjc_float_free.
Print Assumptions pump_roundtrip_jcj_same_float_free.

Example ex_json_roundtrip :
  let sh := fun _ : Z => ([], 0) in
  let o := JOpts None [] in
  match jdec_run [123; 34; 107; 34; 58; 91; 49; 44; 45; 50; 93; 125] with
  | JDOk toks rest =>
      str_cap_ok toks = true /\ forallb jtok_plain toks = true /\ forallb str_valid toks = true /\
      match pump_j2c [123; 34; 107; 34; 58; 91; 49; 44; 45; 50; 93; 125] with
      | PumpOk cb _ =>
          match pump_c2j sh o false cb with
          | PumpOk out2 _ => jdec_run out2 = JDOk toks []
          | PumpErr => False
          end
      | PumpErr => False
      end
  | _ => False
  end.
Proof. vm_compute. repeat split; reflexivity. Qed.
