(* TranscodeProof.v — C10 (and the codec part of C12 / C17): streaming
   transcoding (a decoder pumped straight into an encoder, Pump.v) preserves
   the document; items written back to back are read back one per call.

   The development composes the existing theorems:
     decoder  = recursive-descent reading        (CborDecProof / JsonDecProof)
     encoder  = reference encoding of the tree   (CborEncProof / JsonEncProof)
     reading the reference encoding = canon/jnorm (CborRoundtrip / JsonEncProof)
     encoder verdict = token grammar             (EncAccept / TokGrammarProof)
   and adds the glue: what trees the two readings can produce ([shape],
   [jshape]), that both readings are stable under extension of the input
   (framing), and the token-level form of the normalisations. *)
From Coq Require Import List ZArith Bool Lia ZifyBool ZifyNat.
Require Import Tok TokGrammar TokGrammarProof CborSpec CborEnc CborEncProof CborDec CborParse
               CborDecProof CborRoundtrip Utf8 JsonEnc JsonFloat JsonDec JsonParse JsonDecProof
               JsonNumProof JsonStrProof JsonEncProof EncAccept Pump.
Import ListNotations.
Open Scope Z_scope.

(* ====================================================================== *)
(* 0. Token-level predicates used in the statements (all boolean)          *)
(* ====================================================================== *)

(* the token list is exactly one value of the token grammar whose map keys
   satisfy [key_ok] *)
Definition grammar_okb (key_ok : tokv -> bool) (ts : list token) : bool :=
  match ctx_run key_ok [] ts 0 with
  | CRDone n => Nat.eqb n (length ts)
  | _ => false
  end.
Definition cbor_keys_ok : list token -> bool := grammar_okb key_cbor.  (* keys: string / int / uint *)
Definition json_keys_ok : list token -> bool := grammar_okb key_json.  (* keys: string *)

(* every string / byte-string payload respects the CBOR decoder's per-item cap *)
Definition str_cap_ok (ts : list token) : bool :=
  forallb (fun t => match tv t with
                    | Str s | Byt s => Z.of_nat (length s) <=? item_cap
                    | _ => true end) ts.

(* the input really is a byte string *)
Definition bytes_okb (bs : bytes) : bool := forallb (fun b => (0 <=? b) && (b <? 256)) bs.

Lemma bytes_okb_ok bs : bytes_okb bs = true <-> bytes_ok bs.
Proof.
  unfold bytes_okb, bytes_ok, byte_ok. rewrite forallb_forall, Forall_forall.
  split; intros H x Hx; specialize (H x Hx); lia.
Qed.

(* the normalisation a CBOR round trip applies to a token (CborRoundtrip.canon):
   a non-negative Int is read back as Uint, a negative Length as -1 *)
Definition canon_tok (t : token) : token :=
  match tv t with
  | Int i => Tok (if 0 <=? i then Uint i else Int i) (tag t)
  | ArrOpen d => Tok (ArrOpen (if 0 <=? d then d else -1)) (tag t)
  | MapOpen d => Tok (MapOpen (if 0 <=? d then d else -1)) (tag t)
  | _ => t
  end.

(* ====================================================================== *)
(* 1. Lists, [Forall] over [fold_right] conjunctions                       *)
(* ====================================================================== *)

Lemma fold_pair_Forall {A} (Q : A -> Prop) l :
  fold_right (fun x acc => Q x /\ acc) True l <-> Forall Q l.
Proof.
  induction l as [|x l IH]; cbn [fold_right].
  - split; [constructor|trivial].
  - rewrite IH. split; [intros [H1 H2]; constructor; assumption|intros H; inversion H; auto].
Qed.

Lemma bytes_ok_app a b : bytes_ok (a ++ b) <-> bytes_ok a /\ bytes_ok b.
Proof. unfold bytes_ok. apply Forall_app. Qed.

Lemma bytes_ok_sfx rest bs : CborDecProof.sfx rest bs -> bytes_ok bs -> bytes_ok rest.
Proof. intros [u ->] H. apply bytes_ok_app in H. apply H. Qed.

(* ====================================================================== *)
(* 2. [flatten] is injective ([parse_node] inverts it); the token grammar  *)
(*    check on a rendering is the tree's key well-formedness               *)
(* ====================================================================== *)

Notation tparse_node := TokGrammar.parse_node.
Notation tparse_items := TokGrammar.parse_items.
Notation tparse_entries := TokGrammar.parse_entries.

Definition items_size (items : list tnode) : nat :=
  fold_right (fun x acc => nsize x + acc)%nat 0%nat items.
Definition entries_size (es : list (tnode * tnode)) : nat :=
  fold_right (fun kv acc => nsize (fst kv) + nsize (snd kv) + acc)%nat 0%nat es.

Lemma nsize_pos n : (1 <= nsize n)%nat.
Proof. destruct n as [tg v]; destruct v; cbn [nsize]; lia. Qed.

Definition not_close (t : token) : Prop :=
  match tv t with ArrClose | MapClose => False | _ => True end.

Lemma flatten_head n : exists t tl, flatten n = t :: tl /\ not_close t.
Proof.
  destruct n as [tg v]; destruct v; cbn [flatten]; eexists; eexists; (split; [reflexivity|exact I]).
Qed.

Lemma parse_items_step f t ts : not_close t ->
  tparse_items (S f) (t :: ts) =
  match tparse_node f (t :: ts) with
  | Some (x, r) => match tparse_items f r with Some (xs, r') => Some (x :: xs, r') | None => None end
  | None => None
  end.
Proof. destruct t as [v tg]. unfold not_close. cbn [tv]. destruct v; intros H; try contradiction; reflexivity. Qed.

Lemma parse_entries_step f t ts : not_close t ->
  tparse_entries (S f) (t :: ts) =
  match tparse_node f (t :: ts) with
  | Some (k, r) =>
      match tparse_node f r with
      | Some (v, r2) =>
          match tparse_entries f r2 with Some (es, r') => Some ((k, v) :: es, r') | None => None end
      | None => None
      end
  | None => None
  end.
Proof. destruct t as [v tg]. unfold not_close. cbn [tv]. destruct v; intros H; try contradiction; reflexivity. Qed.

Definition parses (n : tnode) : Prop :=
  forall fuel rest, (nsize n <= fuel)%nat -> tparse_node fuel (flatten n ++ rest) = Some (n, rest).

Lemma parse_items_flat items : Forall parses items -> forall fuel rest,
  (S (items_size items) <= fuel)%nat ->
  tparse_items fuel (flat_map flatten items ++ Tok ArrClose None :: rest) = Some (items, rest).
Proof.
  induction 1 as [|x xs Hx _ IH]; intros fuel rest Hf.
  - destruct fuel; [lia|]. reflexivity.
  - cbn [items_size fold_right] in Hf. fold (items_size xs) in Hf.
    destruct fuel as [|f]; [lia|].
    cbn [flat_map]. rewrite <- app_assoc.
    destruct (flatten_head x) as (t & tl & Ht & Hnc).
    pose proof (Hx f (flat_map flatten xs ++ Tok ArrClose None :: rest)) as Hp.
    rewrite Ht in *. cbn [app] in *. rewrite parse_items_step by exact Hnc.
    pose proof (nsize_pos x).
    rewrite Hp by lia. rewrite IH by lia. reflexivity.
Qed.

Lemma parse_entries_flat es : Forall (fun kv => parses (fst kv) /\ parses (snd kv)) es ->
  forall fuel rest, (S (entries_size es) <= fuel)%nat ->
  tparse_entries fuel (flat_map (fun kv => flatten (fst kv) ++ flatten (snd kv)) es ++ Tok MapClose None :: rest)
  = Some (es, rest).
Proof.
  induction 1 as [|[k v] xs [Hk Hv] _ IH]; intros fuel rest Hf.
  - destruct fuel; [lia|]. reflexivity.
  - cbn [entries_size fold_right fst snd] in Hf. fold (entries_size xs) in Hf.
    cbn [fst snd] in Hk, Hv.
    destruct fuel as [|f]; [lia|].
    cbn [flat_map fst snd]. rewrite <- !app_assoc.
    destruct (flatten_head k) as (t & tl & Ht & Hnc).
    pose proof (Hk f (flatten v ++ flat_map (fun kv => flatten (fst kv) ++ flatten (snd kv)) xs
                               ++ Tok MapClose None :: rest)) as Hp.
    rewrite Ht in *. cbn [app] in *. rewrite parse_entries_step by exact Hnc.
    pose proof (nsize_pos k). pose proof (nsize_pos v).
    rewrite Hp by lia. rewrite Hv by lia. rewrite IH by lia. reflexivity.
Qed.

Lemma parse_flatten n : parses n.
Proof.
  induction n as [tg v Hleaf|tg d items IH|tg d es IH] using tnode_ind'; intros fuel rest Hf.
  - destruct fuel as [|f]; [pose proof (nsize_pos (Node tg v)); lia|].
    destruct v; try contradiction; reflexivity.
  - cbn [nsize] in Hf. fold (items_size items) in Hf.
    destruct fuel as [|f]; [lia|].
    cbn [flatten]. cbn [app TokGrammar.parse_node]. rewrite <- app_assoc. cbn [app].
    rewrite (parse_items_flat items IH) by lia. reflexivity.
  - cbn [nsize] in Hf. fold (entries_size es) in Hf.
    destruct fuel as [|f]; [lia|].
    cbn [flatten]. cbn [app TokGrammar.parse_node]. rewrite <- app_assoc. cbn [app].
    rewrite (parse_entries_flat es IH) by lia. reflexivity.
Qed.

Theorem flatten_inj : forall n n', flatten n = flatten n' -> n = n'.
Proof.
  intros n n' H.
  pose proof (parse_flatten n (nsize n + nsize n')%nat [] ltac:(lia)) as P1.
  pose proof (parse_flatten n' (nsize n + nsize n')%nat [] ltac:(lia)) as P2.
  rewrite H in P1. rewrite P1 in P2. inversion P2. reflexivity.
Qed.

Lemma norm_flatten n : map norm_tok (flatten n) = flatten n.
Proof.
  induction n as [tg v Hleaf|tg d items IH|tg d es IH] using tnode_ind'.
  - destruct v; try contradiction; reflexivity.
  - cbn [flatten map]. rewrite map_app. cbn [map]. f_equal. f_equal.
    induction IH as [|x xs Hx _ IHxs]; [reflexivity|].
    cbn [flat_map]. rewrite map_app, Hx, IHxs. reflexivity.
  - cbn [flatten map]. rewrite map_app. cbn [map]. f_equal. f_equal.
    induction IH as [|x xs [Hk Hv] _ IHxs]; [reflexivity|].
    cbn [flat_map]. rewrite !map_app, Hk, Hv, IHxs. reflexivity.
Qed.

Theorem grammar_ok_wf : forall key_ok n, grammar_okb key_ok (flatten n) = true <-> wf_keys key_ok n.
Proof.
  intros key_ok n. unfold grammar_okb. split.
  - destruct (ctx_run key_ok [] (flatten n) 0) as [used| |] eqn:E; try discriminate.
    intros Hu. apply Nat.eqb_eq in Hu. subst used.
    destruct (ctx_done_is_value _ _ _ _ E) as (n' & Hwf & Hlen & Hmap).
    cbn [plus] in Hlen. rewrite <- Hlen in Hmap. rewrite firstn_all in Hmap.
    rewrite norm_flatten in Hmap. apply flatten_inj in Hmap. subst n'. exact Hwf.
  - intros Hwf. pose proof (ctx_accepts_flatten key_ok n [] 0%nat Hwf) as E.
    rewrite app_nil_r in E. rewrite E. cbn [plus]. apply Nat.eqb_refl.
Qed.

(* ====================================================================== *)
(* 3. Ranges of the CBOR terminals                                         *)
(* ====================================================================== *)

Lemma lor_range n a b : 0 <= a < 2 ^ n -> 0 <= b < 2 ^ n -> 0 <= Z.lor a b < 2 ^ n.
Proof.
  intros Ha Hb. split; [apply Z.lor_nonneg; lia|].
  destruct (Z_lt_le_dec 0 n) as [Hn|Hle].
  2:{ destruct (Z.eq_dec n 0) as [->|]; [|rewrite Z.pow_neg_r in Ha by lia; lia].
      change (2 ^ 0) with 1 in *. assert (a = 0) by lia. assert (b = 0) by lia. subst. reflexivity. }
  destruct (Z.eq_dec (Z.lor a b) 0) as [->|Hne]; [apply Z.pow_pos_nonneg; lia|].
  assert (0 <= Z.lor a b) by (apply Z.lor_nonneg; lia).
  apply Z.log2_lt_pow2; [lia|].
  rewrite Z.log2_lor by lia.
  apply Z.max_lub_lt.
  - destruct (Z.eq_dec a 0) as [->|]; [exact Hn|apply Z.log2_lt_pow2; lia].
  - destruct (Z.eq_dec b 0) as [->|]; [exact Hn|apply Z.log2_lt_pow2; lia].
Qed.

Lemma land_ones_range x k : 0 <= k -> 0 <= Z.land x (Z.ones k) < 2 ^ k.
Proof. intros Hk. rewrite Z.land_ones by exact Hk. apply Z.mod_pos_bound. apply Z.pow_pos_nonneg; lia. Qed.

Lemma hibit_spec : forall fuel m, 0 < m < 2 ^ Z.of_nat fuel ->
  0 <= hibit fuel m < Z.of_nat fuel /\ 2 ^ hibit fuel m <= m < 2 ^ (hibit fuel m + 1).
Proof.
  induction fuel as [|f IH]; intros m Hm.
  - change (2 ^ Z.of_nat 0) with 1 in Hm. lia.
  - cbn [hibit]. destruct (Z.ltb_spec m 2) as [Hlt|Hge].
    + assert (m = 1) by lia. subst m. split; [lia|]. change (2 ^ 0) with 1. change (2 ^ (0 + 1)) with 2. lia.
    + rewrite Z.shiftr_div_pow2 by lia. change (2 ^ 1) with 2.
      rewrite Nat2Z.inj_succ, Z.pow_succ_r in Hm by lia.
      assert (Hm2 : 0 < m / 2 < 2 ^ Z.of_nat f).
      { split; [apply Z.div_str_pos; lia|apply Z.div_lt_upper_bound; lia]. }
      destruct (IH _ Hm2) as [[Hp0 Hp1] [Hlo Hhi]].
      set (p := hibit f (m / 2)) in *.
      split; [lia|].
      replace (1 + p + 1) with (Z.succ (p + 1)) by lia.
      replace (1 + p) with (Z.succ p) by lia.
      rewrite !Z.pow_succ_r by lia.
      pose proof (Z.div_mod m 2 ltac:(lia)). pose proof (Z.mod_pos_bound m 2 ltac:(lia)). lia.
Qed.

Definition two64z : Z := 18446744073709551616.

Lemma single_to_double_range x : 0 <= single_to_double x < two64z.
Proof.
  unfold single_to_double.
  pose proof (land_ones_range (Z.shiftr x 31) 1 ltac:(lia)) as Hs.
  pose proof (land_ones_range (Z.shiftr x 23) 8 ltac:(lia)) as He.
  pose proof (land_ones_range x 23 ltac:(lia)) as Hm.
  change (Z.ones 1) with 1 in Hs. change (Z.ones 8) with 255 in He. change (Z.ones 23) with 8388607 in Hm.
  set (s := Z.land (Z.shiftr x 31) 1) in *.
  set (e := Z.land (Z.shiftr x 23) 255) in *.
  set (m := Z.land x 8388607) in *.
  change (2 ^ 1) with 2 in Hs. change (2 ^ 8) with 256 in He. change (2 ^ 23) with 8388608 in Hm.
  cbv zeta.
  assert (Hsign : 0 <= Z.shiftl s 63 < 2 ^ 64).
  { rewrite Z.shiftl_mul_pow2 by lia. change (2 ^ 63) with 9223372036854775808.
    change (2 ^ 64) with 18446744073709551616. lia. }
  change two64z with (2 ^ 64).
  destruct (Z.eqb_spec e 0) as [He0|He0].
  - destruct (Z.eqb_spec m 0) as [Hm0|Hm0]; [exact Hsign|].
    destruct (hibit_spec 24 m) as [[Hp0 Hp1] [Hlo Hhi]].
    { change (2 ^ Z.of_nat 24) with 16777216. lia. }
    set (p := hibit 24 m) in *. change (Z.of_nat 24) with 24 in Hp1.
    assert (Hp23 : p <= 22).
    { destruct (Z_le_gt_dec p 22); [assumption|]. exfalso.
      assert (2 ^ 23 <= 2 ^ p) by (apply Z.pow_le_mono_r; lia).
      change (2 ^ 23) with 8388608 in *. lia. }
    apply lor_range; [exact Hsign|]. apply lor_range.
    + rewrite Z.shiftl_mul_pow2 by lia. change (2 ^ 52) with 4503599627370496.
      change (2 ^ 64) with 18446744073709551616. lia.
    + rewrite (Z.shiftl_mul_pow2 1 p) by lia. rewrite Z.mul_1_l.
      rewrite Z.shiftl_mul_pow2 by lia.
      assert (Hpow : 2 ^ p * 2 ^ (52 - p) = 2 ^ 52).
      { rewrite <- Z.pow_add_r by lia. f_equal. lia. }
      assert (HB : 0 < 2 ^ (52 - p)) by (apply Z.pow_pos_nonneg; lia).
      replace (p + 1) with (Z.succ p) in Hhi by lia. rewrite Z.pow_succ_r in Hhi by lia.
      split; [apply Z.mul_nonneg_nonneg; lia|].
      apply Z.lt_trans with (2 ^ 52); [|reflexivity].
      rewrite <- Hpow. apply Z.mul_lt_mono_pos_r; lia.
  - destruct (Z.eqb_spec e 255) as [He1|He1].
    + destruct (Z.eqb_spec m 0) as [Hm0|Hm0].
      * apply lor_range; [exact Hsign|]. change (2 ^ 64) with 18446744073709551616. lia.
      * apply lor_range; [exact Hsign|]. apply lor_range.
        { change (2 ^ 64) with 18446744073709551616. lia. }
        { assert (Hl : 0 <= Z.lor m 4194304 < 2 ^ 23).
          { apply lor_range; change (2 ^ 23) with 8388608; lia. }
          rewrite Z.shiftl_mul_pow2 by lia. change (2 ^ 23) with 8388608 in Hl.
          change (2 ^ 29) with 536870912. change (2 ^ 64) with 18446744073709551616. lia. }
    + apply lor_range; [exact Hsign|]. apply lor_range.
      * rewrite Z.shiftl_mul_pow2 by lia. change (2 ^ 52) with 4503599627370496.
        change (2 ^ 64) with 18446744073709551616. lia.
      * rewrite Z.shiftl_mul_pow2 by lia. change (2 ^ 29) with 536870912.
        change (2 ^ 64) with 18446744073709551616. lia.
Qed.

(* ====================================================================== *)
(* 4. What the CBOR reading can produce, and its stability under           *)
(*    extension of the input — one pass over the reference parser          *)
(* ====================================================================== *)

(* [shape sg n]: every payload is inside its Go type, declared lengths are
   exact or -1, string payloads are bytes; with [sg = false] an Int is negative
   (what the CBOR reading yields: major type 0 is always a Uint). *)
Fixpoint shape (sg : bool) (n : tnode) : Prop :=
  match n with
  | Node tg v =>
    tag_ok tg /\
    match v with
    | VNull | VBool _ => True
    | VStr s | VByt s => bytes_ok s
    | VInt i => - 9223372036854775808 <= i < (if sg then 9223372036854775808 else 0)
    | VUint u => 0 <= u < 18446744073709551616
    | VFlt b => 0 <= b < 18446744073709551616
    | VArr d items => (d = -1 \/ d = Z.of_nat (length items)) /\ d < 9223372036854775808 /\
                      fold_right (fun x acc => shape sg x /\ acc) True items
    | VMap d es => (d = -1 \/ d = Z.of_nat (length es)) /\ d < 9223372036854775808 /\
                   fold_right (fun kv acc => (shape sg (fst kv) /\ shape sg (snd kv)) /\ acc) True es
    end
  end.

Definition pshape (sg : bool) (kv : tnode * tnode) : Prop := shape sg (fst kv) /\ shape sg (snd kv).

(* ---------- parser combinators ------------------------------------------- *)

Definition of_sum {A} (r : (A * bytes) + derr) : pres A :=
  match r with inl (a, rest) => POk a rest | inr e => PErr e end.
Definition pbind {A B} (g : bytes -> pres A) (h : A -> bytes -> pres B) (bs : bytes) : pres B :=
  match g bs with POk a r => h a r | PErr e => PErr e | PFuel => PFuel end.
Definition pmap {A B} (k : A -> B) (g : bytes -> pres A) (bs : bytes) : pres B :=
  match g bs with POk a r => POk (k a) r | PErr e => PErr e | PFuel => PFuel end.
Definition pcons {A} (h : Z -> bytes -> pres A) (bs : bytes) : pres A :=
  match bs with [] => PErr EEof | mb :: r => h mb r end.
(* a break byte ends the sequence with [d], anything else is left to [h] *)
Definition pbrk {A} (d : A) (h : bytes -> pres A) (bs : bytes) : pres A :=
  match bs with [] => PErr EEof | mb :: r => if mb =? sigBreak then POk d r else h bs end.
Definition pnobrk {A} (h : bytes -> pres A) (bs : bytes) : pres A :=
  match bs with [] => PErr EEof | mb :: _ => if mb =? sigBreak then PErr EMalformed else h bs end.

(* [good P g]: a successful run of [g] is unchanged by appending input, and on
   a byte string its value satisfies [P] and the rest is a byte string *)
Definition good {A} (P : A -> Prop) (g : bytes -> pres A) : Prop :=
  forall bs a rest, g bs = POk a rest ->
    (forall ext, g (bs ++ ext) = POk a (rest ++ ext)) /\
    (bytes_ok bs -> P a /\ bytes_ok rest).

Lemma good_ext {A} (P : A -> Prop) g h : (forall bs, g bs = h bs) -> good P h -> good P g.
Proof.
  intros E H bs a rest G. rewrite E in G. destruct (H _ _ _ G) as [X S].
  split; [intros ext; rewrite E; apply X|exact S].
Qed.

Lemma good_weaken {A} (P Q : A -> Prop) g : (forall a, P a -> Q a) -> good P g -> good Q g.
Proof.
  intros HPQ H bs a rest G. destruct (H _ _ _ G) as [X S]. split; [exact X|].
  intros Hb. destruct (S Hb). auto.
Qed.

Lemma good_ret {A} (P : A -> Prop) (a : A) : P a -> good P (fun bs => POk a bs).
Proof. intros Pa bs a' rest G. inversion G; subst. split; [reflexivity|auto]. Qed.

Lemma good_fail {A} (P : A -> Prop) (r : pres A) : (forall a rest, r <> POk a rest) -> good P (fun _ => r).
Proof. intros H bs a rest G. exfalso. eapply H; eauto. Qed.

Lemma good_err {A} (P : A -> Prop) e : good P (fun _ => @PErr A e).
Proof. apply good_fail. discriminate. Qed.

Lemma good_map {A B} (P : A -> Prop) (Q : B -> Prop) (k : A -> B) g :
  good P g -> (forall a, P a -> Q (k a)) -> good Q (pmap k g).
Proof.
  intros H HQ bs b rest G. unfold pmap in *.
  destruct (g bs) as [a r|e|] eqn:E; inversion G; subst.
  destruct (H _ _ _ E) as [X S]. split.
  - intros ext. rewrite X. reflexivity.
  - intros Hb. destruct (S Hb). auto.
Qed.

Lemma good_bind {A B} (P : A -> Prop) (Q : B -> Prop) (g : bytes -> pres A) (h : A -> bytes -> pres B) :
  good P g -> (forall a, good (fun b => P a -> Q b) (h a)) -> good Q (pbind g h).
Proof.
  intros H Hh bs b rest G. unfold pbind in *.
  destruct (g bs) as [a r|e|] eqn:E; try discriminate.
  destruct (H _ _ _ E) as [X S]. destruct (Hh a _ _ _ G) as [X2 S2]. split.
  - intros ext. rewrite X. apply X2.
  - intros Hb. destruct (S Hb) as [Pa Hr]. destruct (S2 Hr) as [Qb Hr']. auto.
Qed.

Lemma good_cons {A} (P : A -> Prop) (h : Z -> bytes -> pres A) :
  (forall mb, good (fun a => byte_ok mb -> P a) (h mb)) -> good P (pcons h).
Proof.
  intros H bs a rest G. destruct bs as [|mb r]; [discriminate|]. cbn [pcons] in G.
  destruct (H mb r a rest G) as [X S]. split.
  - intros ext. cbn [app pcons]. apply X.
  - intros Hb. inversion Hb; subst. destruct (S H3). auto.
Qed.

Lemma good_pbrk {A} (P : A -> Prop) (d : A) h : P d -> good P h -> good P (pbrk d h).
Proof.
  intros Pd H bs a rest G. destruct bs as [|mb r]; [discriminate|]. cbn [pbrk] in G.
  cbn [app pbrk]. destruct (mb =? sigBreak).
  - inversion G; subst. split; [reflexivity|]. intros Hb. inversion Hb; subst. auto.
  - destruct (H _ _ _ G) as [X S]. split; [intros ext; apply (X ext)|exact S].
Qed.

Lemma good_pnobrk {A} (P : A -> Prop) h : good P h -> good P (pnobrk h).
Proof.
  intros H bs a rest G. destruct bs as [|mb r]; [discriminate|]. cbn [pnobrk] in G.
  cbn [app pnobrk]. destruct (mb =? sigBreak); [discriminate|].
  destruct (H _ _ _ G) as [X S]. split; [intros ext; apply (X ext)|exact S].
Qed.

Lemma good_sum_map {A B} (P : A -> Prop) (Q : B -> Prop) (t : bytes -> (A * bytes) + derr) (k : A -> B) :
  good P (fun bs => of_sum (t bs)) -> (forall a, P a -> Q (k a)) ->
  good Q (fun bs => match t bs with inl (b, rest) => POk (k b) rest | inr e => PErr e end).
Proof.
  intros H HQ. eapply good_ext with (h := pmap k (fun bs => of_sum (t bs))).
  - intros bs. unfold pmap. destruct (t bs) as [[a r]|e]; reflexivity.
  - eapply good_map; eauto.
Qed.

Lemma good_sum_bind {A B} (P : A -> Prop) (Q : B -> Prop) (t : bytes -> (A * bytes) + derr)
      (h : A -> bytes -> pres B) :
  good P (fun bs => of_sum (t bs)) -> (forall a, good (fun b => P a -> Q b) (h a)) ->
  good Q (fun bs => match t bs with inl (a, r) => h a r | inr e => PErr e end).
Proof.
  intros H Hh. eapply good_ext with (h := pbind (fun bs => of_sum (t bs)) h).
  - intros bs. unfold pbind. destruct (t bs) as [[a r]|e]; reflexivity.
  - eapply good_bind; eauto.
Qed.

(* ---------- terminals ------------------------------------------------------ *)

Lemma good_readn n :
  good (fun a => bytes_ok a /\ (0 < n -> Z.of_nat (length a) = n)) (fun bs => of_sum (readn n bs)).
Proof.
  intros bs a rest G. unfold readn in *.
  destruct (Z.eqb_spec n 0) as [Hn|Hn].
  - cbn [of_sum] in G. inversion G; subst. split; [reflexivity|].
    intros Hb. split; [split; [constructor|lia]|exact Hb].
  - destruct (Z.ltb_spec (Z.of_nat (length bs)) n) as [Hl|Hl]; [discriminate|].
    cbn [of_sum] in G. inversion G; subst. clear G.
    assert (Hk : (Z.to_nat n <= length bs)%nat) by lia.
    split.
    + intros ext. destruct (Z.ltb_spec (Z.of_nat (length (bs ++ ext))) n) as [Hl2|Hl2].
      { rewrite app_length in Hl2. lia. }
      cbn [of_sum]. rewrite firstn_app, skipn_app.
      replace (Z.to_nat n - length bs)%nat with 0%nat by lia.
      cbn [firstn skipn]. rewrite app_nil_r. reflexivity.
    + intros Hb. rewrite <- (firstn_skipn (Z.to_nat n) bs) in Hb. apply bytes_ok_app in Hb.
      destruct Hb as [H1 H2]. split; [split; [exact H1|]|exact H2].
      intros Hpos. rewrite firstn_length. rewrite Nat.min_l by lia. lia.
Qed.

Lemma unbe_range a k : bytes_ok a -> Z.of_nat (length a) = k -> 0 < k <= 8 -> 0 <= unbe a < two64z.
Proof.
  intros Ha Hl Hk. pose proof (unbe_bound a Ha) as Hb. rewrite Hl in Hb.
  assert (256 ^ k <= 256 ^ 8) by (apply Z.pow_le_mono_r; lia).
  change (256 ^ 8) with two64z in *. lia.
Qed.

Lemma good_dec_uint mb : good (fun u => 0 <= u < two64z) (fun bs => of_sum (dec_uint mb bs)).
Proof.
  eapply good_ext with (h := fun bs =>
    if Z.land mb 31 <=? 23 then POk (Z.land mb 31) bs
    else if Z.land mb 31 =? 24 then pcons (fun b r => POk b r) bs
    else if Z.land mb 31 =? 25 then pmap CborSpec.unbe (fun bs => of_sum (readn 2 bs)) bs
    else if Z.land mb 31 =? 26 then pmap CborSpec.unbe (fun bs => of_sum (readn 4 bs)) bs
    else if Z.land mb 31 =? 27 then pmap CborSpec.unbe (fun bs => of_sum (readn 8 bs)) bs
    else PErr EMalformed).
  - intros bs. unfold dec_uint. cbv zeta.
    destruct (Z.land mb 31 <=? 23); [reflexivity|].
    destruct (Z.land mb 31 =? 24); [destruct bs; reflexivity|].
    unfold pmap.
    destruct (Z.land mb 31 =? 25); [destruct (readn 2 bs) as [[a r]|e]; reflexivity|].
    destruct (Z.land mb 31 =? 26); [destruct (readn 4 bs) as [[a r]|e]; reflexivity|].
    destruct (Z.land mb 31 =? 27); [destruct (readn 8 bs) as [[a r]|e]; reflexivity|].
    reflexivity.
  - assert (Hnn : 0 <= Z.land mb 31) by (apply Z.land_nonneg; lia).
    destruct (Z.leb_spec (Z.land mb 31) 23); [apply good_ret; unfold two64z; lia|].
    destruct (Z.land mb 31 =? 24).
    { apply good_cons. intros b. apply good_ret. unfold byte_ok, two64z. lia. }
    destruct (Z.land mb 31 =? 25).
    { eapply good_map; [apply good_readn|]. intros a [Ha Hl]. apply (unbe_range a 2); auto; lia. }
    destruct (Z.land mb 31 =? 26).
    { eapply good_map; [apply good_readn|]. intros a [Ha Hl]. apply (unbe_range a 4); auto; lia. }
    destruct (Z.land mb 31 =? 27).
    { eapply good_map; [apply good_readn|]. intros a [Ha Hl]. apply (unbe_range a 8); auto; lia. }
    apply good_err.
Qed.

Lemma good_dec_len mb : good (fun u => 0 <= u <= maxInt) (fun bs => of_sum (dec_len mb bs)).
Proof.
  eapply good_ext with (h := pbind (fun bs => of_sum (dec_uint mb bs))
    (fun u r => if maxInt <? u then PErr EMalformed else POk u r)).
  - intros bs. unfold dec_len, pbind. destruct (dec_uint mb bs) as [[u r]|e]; cbn [of_sum]; [|reflexivity].
    destruct (maxInt <? u); reflexivity.
  - eapply good_bind; [apply good_dec_uint|].
    intros u. destruct (Z.ltb_spec maxInt u); [apply good_err|apply good_ret; lia].
Qed.

Lemma good_dec_negint mb :
  good (fun i => - 9223372036854775808 <= i < 0) (fun bs => of_sum (dec_negint mb bs)).
Proof.
  eapply good_ext with (h := pbind (fun bs => of_sum (dec_uint mb bs))
    (fun u r => if maxInt <? u then PErr EMalformed else POk (-1 - u) r)).
  - intros bs. unfold dec_negint, pbind. destruct (dec_uint mb bs) as [[u r]|e]; cbn [of_sum]; [|reflexivity].
    destruct (maxInt <? u); reflexivity.
  - eapply good_bind; [apply good_dec_uint|].
    intros u. destruct (Z.ltb_spec maxInt u); [apply good_err|apply good_ret; unfold maxInt in *; lia].
Qed.

Lemma good_dec_float mb : good (fun b => 0 <= b < two64z) (fun bs => of_sum (dec_float mb bs)).
Proof.
  eapply good_ext with (h := fun bs =>
    if mb =? sigF16 then pmap (fun a => single_to_double (half_to_single (CborSpec.unbe a))) (fun bs => of_sum (readn 2 bs)) bs
    else if mb =? sigF32 then pmap (fun a => single_to_double (CborSpec.unbe a)) (fun bs => of_sum (readn 4 bs)) bs
    else pmap CborSpec.unbe (fun bs => of_sum (readn 8 bs)) bs).
  - intros bs. unfold dec_float, pmap.
    destruct (mb =? sigF16); [destruct (readn 2 bs) as [[a r]|e]; reflexivity|].
    destruct (mb =? sigF32); [destruct (readn 4 bs) as [[a r]|e]; reflexivity|].
    destruct (readn 8 bs) as [[a r]|e]; reflexivity.
  - destruct (mb =? sigF16).
    { eapply good_map; [apply good_readn|]. intros a _. apply single_to_double_range. }
    destruct (mb =? sigF32).
    { eapply good_map; [apply good_readn|]. intros a _. apply single_to_double_range. }
    eapply good_map; [apply good_readn|]. intros a [Ha Hl]. apply (unbe_range a 8); auto; lia.
Qed.

Lemma good_dec_bytes mb : good bytes_ok (fun bs => of_sum (fst (dec_bytes mb bs))).
Proof.
  eapply good_ext with (h := pbind (fun bs => of_sum (dec_len mb bs))
    (fun n r => if item_cap <? n then PErr EMalformed else of_sum (readn n r))).
  - intros bs. unfold dec_bytes, pbind. destruct (dec_len mb bs) as [[n r]|e]; cbn [of_sum fst]; [|reflexivity].
    destruct (item_cap <? n); reflexivity.
  - eapply good_bind; [apply good_dec_len|].
    intros n. destruct (item_cap <? n); [apply good_err|].
    eapply good_weaken; [|apply good_readn]. intros a [Ha _] _. exact Ha.
Qed.

Lemma dec_chunks_shape f want acc cap alloc bs :
  of_sum (fst (dec_chunks (S f) want acc cap alloc bs)) =
  pcons (fun mb r =>
    if mb =? sigBreak then POk acc r
    else if negb (mb - Z.land mb 31 =? want) then PErr EMalformed
    else pbind (fun r => of_sum (dec_len mb r)) (fun n r2 =>
      if item_cap <? n then PErr EMalformed
      else pbind (fun r2 => of_sum (readn n r2)) (fun c r3 =>
        of_sum (fst (dec_chunks f want (acc ++ c)
          (if cap <? Z.of_nat (length acc) + n then 2 * cap + n else cap)
          (if cap <? Z.of_nat (length acc) + n then alloc + 2 * cap + n else alloc) r3))) r2) r) bs.
Proof.
  cbn [dec_chunks]. destruct bs as [|mb r]; [reflexivity|]. cbn [readn1 pcons].
  destruct (mb =? sigBreak); [reflexivity|].
  destruct (negb (mb - Z.land mb 31 =? want)); [reflexivity|].
  unfold pbind at 1. destruct (dec_len mb r) as [[n r2]|e]; cbn [of_sum fst]; [|reflexivity].
  destruct (item_cap <? n); [reflexivity|].
  unfold pbind.
  destruct (cap <? Z.of_nat (length acc) + n);
    destruct (readn n r2) as [[c0 r3]|e]; reflexivity.
Qed.

Lemma good_dec_chunks f : forall want acc cap alloc,
  good (fun s => bytes_ok acc -> bytes_ok s) (fun bs => of_sum (fst (dec_chunks f want acc cap alloc bs))).
Proof.
  induction f as [|f IH]; intros want acc cap alloc.
  { apply good_err. }
  eapply good_ext; [intros bs; apply dec_chunks_shape|].
  apply good_cons. intros mb.
  destruct (mb =? sigBreak); [apply good_ret; auto|].
  destruct (negb (mb - Z.land mb 31 =? want)); [apply good_err|].
  eapply good_bind; [apply good_dec_len|].
  intros n. destruct (item_cap <? n); [apply good_err|].
  eapply good_bind; [apply good_readn|].
  intros c0. eapply good_weaken; [|apply IH].
  intros s Hs [Hc _] _ _ Hacc. apply Hs. apply bytes_ok_app. auto.
Qed.

Lemma dec_chunks_fuel f : forall f' want acc cap alloc bs,
  (length bs < f)%nat -> (length bs < f')%nat ->
  dec_chunks f want acc cap alloc bs = dec_chunks f' want acc cap alloc bs.
Proof.
  induction f as [|f IH]; intros f' want acc cap alloc bs L L'; [lia|].
  destruct f' as [|f']; [lia|]. cbn [dec_chunks].
  destruct bs as [|mb r]; [reflexivity|]. cbn [readn1]. cbn [length] in L, L'.
  destruct (mb =? sigBreak); [reflexivity|].
  destruct (negb (mb - Z.land mb 31 =? want)); [reflexivity|].
  destruct (dec_len mb r) as [[n r2]|e] eqn:E; [|reflexivity].
  destruct (item_cap <? n); [reflexivity|].
  apply CborDecProof.dec_len_sfx in E. apply CborDecProof.sfx_len in E.
  destruct (cap <? Z.of_nat (length acc) + n);
    destruct (readn n r2) as [[c0 r3]|e] eqn:E2; try reflexivity;
    apply CborDecProof.readn_sfx in E2; apply CborDecProof.sfx_len in E2; apply IH; lia.
Qed.

Lemma good_dec_indef_string want : good bytes_ok (fun bs => of_sum (fst (dec_indef_string want bs))).
Proof.
  intros bs a rest G. unfold dec_indef_string in *. split.
  - intros ext.
    rewrite (dec_chunks_fuel (S (length bs)) (S (length (bs ++ ext)))) in G
      by (rewrite ?app_length; lia).
    apply (good_dec_chunks (S (length (bs ++ ext))) want [] 16 16 bs a rest G).
  - intros Hb. destruct (good_dec_chunks _ _ _ _ _ _ _ _ G) as [_ S]. destruct (S Hb) as [Ha Hr].
    split; [apply Ha; constructor|exact Hr].
Qed.

(* ---------- the reference reading ----------------------------------------- *)

Definition g_item (f : nat) := forall c, good (shape false) (pitem f c).
Definition g_body (f : nat) := forall c mb tg, good (fun n => tag_ok tg -> shape false n) (pbody f c mb tg).
Definition g_ai (f : nat) := forall c, good (Forall (shape false)) (pitems_indef f c).
Definition g_ad (f : nat) := forall c n,
  good (fun xs => Forall (shape false) xs /\ n = Z.of_nat (length xs)) (pitems_def f c n).
Definition g_mi (f : nat) := forall c, good (Forall (pshape false)) (ppairs_indef f c).
Definition g_md (f : nat) := forall c n,
  good (fun es => Forall (pshape false) es /\ n = Z.of_nat (length es)) (ppairs_def f c n).

Lemma shape_arr sg tg d xs : tag_ok tg -> (d = -1 \/ d = Z.of_nat (length xs)) -> d < 9223372036854775808 ->
  Forall (shape sg) xs -> shape sg (Node tg (VArr d xs)).
Proof. intros. cbn [shape]. repeat split; auto. apply fold_pair_Forall. assumption. Qed.

Lemma shape_map sg tg d es : tag_ok tg -> (d = -1 \/ d = Z.of_nat (length es)) -> d < 9223372036854775808 ->
  Forall (pshape sg) es -> shape sg (Node tg (VMap d es)).
Proof.
  intros. cbn [shape]. repeat split; auto.
  apply (fold_pair_Forall (fun kv => shape sg (fst kv) /\ shape sg (snd kv))). assumption.
Qed.

Lemma g_item_step f : g_body f -> g_item (S f).
Proof.
  intros Hb c.
  eapply good_ext with (h := pcons (fun mb r =>
    if is_tag_byte mb then
      match dec_len mb r with
      | inl (t, r1) => pcons (fun mb2 r2 =>
          if is_tag_byte mb2 then PErr EMalformed else pbody f c mb2 (Some t) r2) r1
      | inr e => PErr e
      end
    else pbody f c mb None r)).
  - intros bs. rewrite pitem_S. destruct bs as [|mb r]; reflexivity.
  - apply good_cons. intros mb. destruct (is_tag_byte mb).
    + apply (good_sum_bind (fun u => 0 <= u <= maxInt) _ (dec_len mb)); [apply good_dec_len|].
      intros t. apply good_cons. intros mb2.
      destruct (is_tag_byte mb2); [apply good_err|].
      eapply good_weaken; [|apply Hb]. intros n Hn _ Ht _. apply Hn.
      cbn [tag_ok]. unfold maxInt, CborSpec.two63 in *. change (2 ^ 63) with 9223372036854775808. lia.
    + eapply good_weaken; [|apply Hb]. intros n Hn _. apply Hn. exact I.
Qed.

Lemma g_body_step f : g_ai f -> g_ad f -> g_mi f -> g_md f -> g_body (S f).
Proof.
  intros Hai Had Hmi Hmd c mb tg.
  eapply good_ext; [intros bs; cbn [pbody]; unfold pscalar; reflexivity|].
  cbv beta.
  destruct (mb =? sigNil); [apply good_ret; cbn [shape]; auto|].
  destruct (mb =? sigUndef); [destruct c; [apply good_ret; cbn [shape]; auto|apply good_err]|].
  destruct (mb =? sigFalse); [apply good_ret; cbn [shape]; auto|].
  destruct (mb =? sigTrue); [apply good_ret; cbn [shape]; auto|].
  destruct ((mb =? sigF16) || (mb =? sigF32) || (mb =? sigF64)).
  { apply (good_sum_map (fun b => 0 <= b < two64z) _ (dec_float mb) (fun b => Node tg (VFlt b)));
      [apply good_dec_float|]. intros b Hb Ht. cbn [shape]. auto. }
  destruct (mb =? sigIndefBytes).
  { apply (good_sum_map bytes_ok _ (fun bs => fst (dec_indef_string majBytes bs)) (fun b => Node tg (VByt b)));
      [apply good_dec_indef_string|]. intros b Hb Ht. cbn [shape]. auto. }
  destruct (mb =? sigIndefString).
  { apply (good_sum_map bytes_ok _ (fun bs => fst (dec_indef_string majString bs)) (fun b => Node tg (VStr b)));
      [apply good_dec_indef_string|]. intros b Hb Ht. cbn [shape]. auto. }
  destruct (mb =? sigIndefArray).
  { eapply (good_map _ _ (fun xs => Node tg (VArr (-1) xs))); [apply Hai|].
    intros xs Hxs Ht. apply shape_arr; auto; lia. }
  destruct (mb =? sigIndefMap).
  { eapply (good_map _ _ (fun xs => Node tg (VMap (-1) xs))); [apply Hmi|].
    intros xs Hxs Ht. apply shape_map; auto; lia. }
  destruct (mb <? majNegInt).
  { apply (good_sum_map (fun b => 0 <= b < two64z) _ (dec_uint mb) (fun b => Node tg (VUint b)));
      [apply good_dec_uint|]. intros b Hb Ht. cbn [shape]. auto. }
  destruct (mb <? majBytes).
  { apply (good_sum_map (fun i => - 9223372036854775808 <= i < 0) _ (dec_negint mb) (fun b => Node tg (VInt b)));
      [apply good_dec_negint|]. intros b Hb Ht. cbn [shape]. auto. }
  destruct (mb <? majString).
  { apply (good_sum_map bytes_ok _ (fun bs => fst (dec_bytes mb bs)) (fun b => Node tg (VByt b)));
      [apply good_dec_bytes|]. intros b Hb Ht. cbn [shape]. auto. }
  destruct (mb <? majArray).
  { apply (good_sum_map bytes_ok _ (fun bs => fst (dec_bytes mb bs)) (fun b => Node tg (VStr b)));
      [apply good_dec_bytes|]. intros b Hb Ht. cbn [shape]. auto. }
  destruct (mb <? majMap).
  { apply (good_sum_bind (fun u => 0 <= u <= maxInt) _ (dec_len mb)); [apply good_dec_len|]. intros n.
    eapply (good_map _ _ (fun xs => Node tg (VArr n xs))); [apply Had|].
    intros xs [Hxs Hl] Hn Ht. apply shape_arr; auto. unfold maxInt in Hn. lia. }
  destruct (mb <? majTag).
  { apply (good_sum_bind (fun u => 0 <= u <= maxInt) _ (dec_len mb)); [apply good_dec_len|]. intros n.
    eapply (good_map _ _ (fun xs => Node tg (VMap n xs))); [apply Hmd|].
    intros xs [Hxs Hl] Hn Ht. apply shape_map; auto. unfold maxInt in Hn. lia. }
  apply good_err.
Qed.

Lemma g_ai_step f : g_item f -> g_ai f -> g_ai (S f).
Proof.
  intros Hi Hai c.
  eapply good_ext with (h := pbrk [] (pbind (pitem f c) (fun x => pmap (cons x) (pitems_indef f c)))).
  - intros bs. rewrite pitems_indef_S. destruct bs as [|mb r]; reflexivity.
  - apply good_pbrk; [constructor|].
    eapply good_bind; [apply Hi|]. intros x.
    eapply good_map; [apply Hai|]. intros xs Hxs Hx. constructor; assumption.
Qed.

Lemma g_ad_step f : g_item f -> g_ad f -> g_ad (S f).
Proof.
  intros Hi Had c n.
  eapply good_ext with (h := fun bs =>
    if n =? 0 then POk [] bs
    else pbind (pitem f c) (fun x => pmap (cons x) (pitems_def f c (n - 1))) bs).
  - intros bs. rewrite pitems_def_S. reflexivity.
  - destruct (Z.eqb_spec n 0); [apply good_ret; split; [constructor|cbn [length]; lia]|].
    eapply good_bind; [apply Hi|]. intros x.
    eapply good_map; [apply Had|]. intros xs [Hxs Hl] Hx.
    split; [constructor; assumption|cbn [length]; lia].
Qed.

Lemma g_mi_step f : g_item f -> g_mi f -> g_mi (S f).
Proof.
  intros Hi Hmi c.
  eapply good_ext with (h := pbrk [] (pbind (pitem f c) (fun k =>
           pnobrk (pbind (pitem f c) (fun v => pmap (cons (k, v)) (ppairs_indef f c)))))).
  - intros bs. rewrite ppairs_indef_S. destruct bs as [|mb r]; [reflexivity|]. cbn [pbrk].
    destruct (mb =? sigBreak); [reflexivity|]. unfold pbind at 1.
    destruct (pitem f c (mb :: r)) as [k r1|e|]; try reflexivity.
    destruct r1 as [|mb2 r2]; reflexivity.
  - apply good_pbrk; [constructor|].
    eapply good_bind; [apply Hi|]. intros k.
    apply good_pnobrk.
    eapply good_bind; [eapply good_weaken; [|apply Hi]; intros v Hv; exact Hv|]. intros v.
    eapply good_map; [apply Hmi|]. intros es Hes Hv Hk. constructor; [split; assumption|assumption].
Qed.

Lemma g_md_step f : g_item f -> g_md f -> g_md (S f).
Proof.
  intros Hi Hmd c n.
  eapply good_ext with (h := fun bs =>
    if n =? 0 then POk [] bs
    else pbind (pitem f c) (fun k =>
           pbind (pitem f c) (fun v => pmap (cons (k, v)) (ppairs_def f c (n - 1)))) bs).
  - intros bs. rewrite ppairs_def_S. reflexivity.
  - destruct (Z.eqb_spec n 0); [apply good_ret; split; [constructor|cbn [length]; lia]|].
    eapply good_bind; [apply Hi|]. intros k.
    eapply good_bind; [eapply good_weaken; [|apply Hi]; intros v Hv; exact Hv|]. intros v.
    eapply good_map; [apply Hmd|]. intros es [Hes Hl] Hv Hk.
    split; [constructor; [split; assumption|assumption]|cbn [length]; lia].
Qed.

Lemma g_all : forall f, g_item f /\ g_body f /\ g_ai f /\ g_ad f /\ g_mi f /\ g_md f.
Proof.
  induction f as [|f IH].
  { repeat split; repeat intro; discriminate. }
  destruct IH as (IHi & IHb & IHai & IHad & IHmi & IHmd).
  split; [|split; [|split; [|split; [|split]]]].
  - apply g_item_step; assumption.
  - apply g_body_step; assumption.
  - apply g_ai_step; assumption.
  - apply g_ad_step; assumption.
  - apply g_mi_step; assumption.
  - apply g_md_step; assumption.
Qed.

(* the two facts used below *)
Lemma pitem_frame f c bs n rest ext :
  pitem f c bs = POk n rest -> pitem f c (bs ++ ext) = POk n (rest ++ ext).
Proof. intros H. destruct (g_all f) as [Hi _]. apply (Hi c bs n rest H). Qed.

Lemma pitem_shape f c bs n rest :
  bytes_ok bs -> pitem f c bs = POk n rest -> shape false n /\ bytes_ok rest.
Proof. intros Hb H. destruct (g_all f) as [Hi _]. apply (Hi c bs n rest H). exact Hb. Qed.
