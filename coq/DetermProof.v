(* DetermProof.v — property C08: the marshaller's output is a deterministic
   function of the *value*: it does not depend on the order in which a Go
   map's entries are stored / iterated, and keys are emitted in the configured
   order (map keys sorted by [key_ltb mode], struct fields in atlas order).

   Contents
     1. the comparators [bytes_ltb], [rfc7049_ltb], [key_ltb mode] are strict
        total orders, with their specifications;
     2. [sort_keys] is a sorting function, and is invariant under permutation
        of its input when the keys are pairwise distinct;
     3. [vperm] (permutation of map entries at any depth), [keys_distinct]
        (a decidable, type-directed check mirroring the marshaller's
        traversal) and the theorem [marshal_perm_invariant]; the hypothesis is
        necessary: [marshal_perm_invariant_nodistinct_refuted];
     4. the keys of an emitted map are the sorted stringified keys;
     5. the keys of an emitted struct are the live fields in atlas order. *)
From Coq Require Import List ZArith Bool Lia ZifyBool ZifyNat Permutation Sorted.
Require Import Tok TokGrammar TokGrammarProof GoVal Marshal ObjProof.
Import ListNotations.
Open Scope Z_scope.

(* ====================================================================== *)
(* 1. Comparators                                                           *)
(* ====================================================================== *)

(* the standard lexicographic order on byte strings *)
Inductive lex_lt : bytes -> bytes -> Prop :=
| lex_nil y b : lex_lt [] (y :: b)
| lex_head x y a b : x < y -> lex_lt (x :: a) (y :: b)
| lex_tail x a b : lex_lt a b -> lex_lt (x :: a) (x :: b).

Theorem bytes_ltb_spec a b : bytes_ltb a b = true <-> lex_lt a b.
Proof.
  revert b; induction a as [|x a IH]; intros [|y b]; cbn [bytes_ltb].
  - split; [discriminate | inversion 1].
  - split; [constructor | reflexivity].
  - split; [discriminate | inversion 1].
  - destruct (x <? y) eqn:E1.
    + split; [intros _; apply lex_head; lia | reflexivity].
    + destruct (y <? x) eqn:E2.
      * split; [discriminate|]. inversion 1; subst; lia.
      * assert (x = y) by lia. subst y. rewrite IH.
        split; [apply lex_tail|]. inversion 1; subst; [lia|assumption].
Qed.
Print Assumptions bytes_ltb_spec.

(* the same, through the longest common prefix: a is a proper prefix of b, or
   the first position where they differ has the smaller byte in a *)
Lemma lex_lt_prefix a b :
  lex_lt a b <->
  exists p, (exists y b', a = p /\ b = p ++ y :: b') \/
            (exists x y a' b', a = p ++ x :: a' /\ b = p ++ y :: b' /\ x < y).
Proof.
  split.
  - induction 1 as [y b | x y a b Hxy | x a b H IH].
    + exists []. left. exists y, b. split; reflexivity.
    + exists []. right. exists x, y, a, b. repeat split; assumption.
    + destruct IH as (p & [(y & b' & -> & ->) | (x' & y & a' & b' & -> & -> & Hlt)]).
      * exists (x :: p). left. exists y, b'. split; reflexivity.
      * exists (x :: p). right. exists x', y, a', b'. repeat split; assumption.
  - intros (p & H). revert a b H. induction p as [|c p IH]; intros a b H.
    + destruct H as [(y & b' & -> & ->) | (x & y & a' & b' & -> & -> & Hlt)]; cbn.
      * constructor.
      * apply lex_head; assumption.
    + destruct H as [(y & b' & -> & ->) | (x & y & a' & b' & -> & -> & Hlt)]; cbn;
        apply lex_tail; apply IH.
      * left. exists y, b'. split; reflexivity.
      * right. exists x, y, a', b'. repeat split; assumption.
Qed.

Theorem bytes_ltb_prefix_spec a b :
  bytes_ltb a b = true <->
  exists p, (exists y b', a = p /\ b = p ++ y :: b') \/
            (exists x y a' b', a = p ++ x :: a' /\ b = p ++ y :: b' /\ x < y).
Proof. rewrite bytes_ltb_spec. apply lex_lt_prefix. Qed.
Print Assumptions bytes_ltb_prefix_spec.

Lemma bytes_ltb_irrefl a : bytes_ltb a a = false.
Proof.
  induction a as [|x a IH]; cbn [bytes_ltb]; [reflexivity|].
  rewrite Z.ltb_irrefl. exact IH.
Qed.

Lemma bytes_ltb_trans a : forall b c,
  bytes_ltb a b = true -> bytes_ltb b c = true -> bytes_ltb a c = true.
Proof.
  induction a as [|x a IH]; intros [|y b] [|z c]; cbn [bytes_ltb];
    try discriminate; try reflexivity.
  destruct (x <? y) eqn:E1; destruct (y <? x) eqn:E2;
  destruct (y <? z) eqn:E3; destruct (z <? y) eqn:E4;
  destruct (x <? z) eqn:E5; destruct (z <? x) eqn:E6;
    try reflexivity; try discriminate; try lia.
  apply IH.
Qed.

Lemma bytes_ltb_total a : forall b, a <> b -> bytes_ltb a b = true \/ bytes_ltb b a = true.
Proof.
  induction a as [|x a IH]; intros [|y b] Hne; cbn [bytes_ltb].
  - contradiction Hne; reflexivity.
  - left; reflexivity.
  - right; reflexivity.
  - destruct (x <? y) eqn:E1; [left; reflexivity|].
    destruct (y <? x) eqn:E2; [right; reflexivity|].
    assert (x = y) by lia. subst y.
    apply IH. intros ->. apply Hne. reflexivity.
Qed.

Theorem rfc7049_spec a b :
  rfc7049_ltb a b = true <->
  (length a < length b)%nat \/ (length a = length b /\ bytes_ltb a b = true).
Proof.
  unfold rfc7049_ltb.
  destruct (Nat.ltb_spec (length a) (length b)) as [H1|H1].
  - split; [intros _; left; exact H1 | reflexivity].
  - destruct (Nat.ltb_spec (length b) (length a)) as [H2|H2].
    + split; [discriminate|]. intros [H|[H _]]; lia.
    + split.
      * intros H. right. split; [lia | exact H].
      * intros [H|[_ H]]; [lia | exact H].
Qed.
Print Assumptions rfc7049_spec.

Lemma rfc7049_irrefl a : rfc7049_ltb a a = false.
Proof.
  destruct (rfc7049_ltb a a) eqn:E; [|reflexivity].
  apply rfc7049_spec in E. destruct E as [E|[_ E]]; [lia|].
  rewrite bytes_ltb_irrefl in E. discriminate.
Qed.

Lemma rfc7049_trans a b c :
  rfc7049_ltb a b = true -> rfc7049_ltb b c = true -> rfc7049_ltb a c = true.
Proof.
  rewrite !rfc7049_spec. intros [H1|[H1 L1]] [H2|[H2 L2]]; try (left; lia).
  right. split; [lia|]. eapply bytes_ltb_trans; eassumption.
Qed.

Lemma rfc7049_total a b : a <> b -> rfc7049_ltb a b = true \/ rfc7049_ltb b a = true.
Proof.
  intros Hne. rewrite !rfc7049_spec.
  destruct (Nat.lt_trichotomy (length a) (length b)) as [H|[H|H]].
  - left; left; exact H.
  - destruct (bytes_ltb_total a b Hne) as [L|L].
    + left; right; split; assumption.
    + right; right; split; [symmetry|]; assumption.
  - right; left; exact H.
Qed.

Theorem key_ltb_irrefl mode a : key_ltb mode a a = false.
Proof. unfold key_ltb. destruct (mode =? 2); [apply rfc7049_irrefl | apply bytes_ltb_irrefl]. Qed.
Print Assumptions key_ltb_irrefl.

Theorem key_ltb_trans mode a b c :
  key_ltb mode a b = true -> key_ltb mode b c = true -> key_ltb mode a c = true.
Proof. unfold key_ltb. destruct (mode =? 2); [apply rfc7049_trans | apply bytes_ltb_trans]. Qed.
Print Assumptions key_ltb_trans.

Theorem key_ltb_total mode a b :
  a <> b -> key_ltb mode a b = true \/ key_ltb mode b a = true.
Proof. unfold key_ltb. destruct (mode =? 2); [apply rfc7049_total | apply bytes_ltb_total]. Qed.
Print Assumptions key_ltb_total.

Theorem key_ltb_asym mode a b : key_ltb mode a b = true -> key_ltb mode b a = false.
Proof.
  intros H. destruct (key_ltb mode b a) eqn:E; [|reflexivity].
  pose proof (key_ltb_trans mode a b a H E) as C. rewrite key_ltb_irrefl in C. discriminate.
Qed.
Print Assumptions key_ltb_asym.

(* which order each mode is *)
Lemma key_ltb_mode2 a b : key_ltb 2 a b = rfc7049_ltb a b.
Proof. reflexivity. Qed.
Lemma key_ltb_other mode a b : mode <> 2 -> key_ltb mode a b = bytes_ltb a b.
Proof. intros H. unfold key_ltb. destruct (mode =? 2) eqn:E; [lia | reflexivity]. Qed.

Definition bytes_dec : forall a b : bytes, {a = b} + {a <> b} := list_eq_dec Z.eq_dec.

(* ====================================================================== *)
(* 2. Sorting                                                               *)
(* ====================================================================== *)

Lemma insert_key_perm {X} lt (x : bytes * X) l : Permutation (insert_key lt x l) (x :: l).
Proof.
  induction l as [|y r IH]; cbn [insert_key]; [apply Permutation_refl|].
  destruct (lt (fst y) (fst x)); [|apply Permutation_refl].
  eapply Permutation_trans; [apply perm_skip; exact IH | apply perm_swap].
Qed.

Theorem sort_keys_perm {X} lt (l : list (bytes * X)) : Permutation (sort_keys lt l) l.
Proof.
  induction l as [|x r IH]; cbn [sort_keys]; [apply Permutation_refl|].
  eapply Permutation_trans; [apply insert_key_perm | apply perm_skip; exact IH].
Qed.
Print Assumptions sort_keys_perm.

Section Sorting.
  Context {X : Type}.
  Variable lt : bytes -> bytes -> bool.
  Hypothesis lt_irrefl : forall a, lt a a = false.
  Hypothesis lt_trans : forall a b c, lt a b = true -> lt b c = true -> lt a c = true.
  Hypothesis lt_total : forall a b, a <> b -> lt a b = true \/ lt b a = true.

  Definition le_key (a b : bytes * X) : Prop := lt (fst b) (fst a) = false.
  Definition lt_key (a b : bytes * X) : Prop := lt (fst a) (fst b) = true.

  Lemma lt_asym a b : lt a b = true -> lt b a = false.
  Proof.
    intros H. destruct (lt b a) eqn:E; [|reflexivity].
    pose proof (lt_trans a b a H E) as C. rewrite lt_irrefl in C. discriminate.
  Qed.

  Lemma lt_negtrans z y x : lt z y = false -> lt y x = false -> lt z x = false.
  Proof.
    intros Hzy Hyx. destruct (lt z x) eqn:E; [|reflexivity]. exfalso.
    destruct (bytes_dec y x) as [->|Hne]; [rewrite E in Hzy; discriminate|].
    destruct (lt_total y x Hne) as [H|H]; [rewrite H in Hyx; discriminate|].
    rewrite (lt_trans z x y E H) in Hzy. discriminate.
  Qed.

  Lemma insert_key_sorted x l :
    StronglySorted le_key l -> StronglySorted le_key (insert_key lt x l).
  Proof.
    induction l as [|y r IH]; intros Hs; cbn [insert_key].
    - constructor; constructor.
    - inversion Hs as [|? ? Hr Hy]; subst.
      destruct (lt (fst y) (fst x)) eqn:E.
      + constructor; [apply IH; exact Hr|].
        apply Forall_forall. intros p Hp. apply In_insert_key in Hp.
        destruct Hp as [->|Hp].
        * unfold le_key. apply lt_asym. exact E.
        * rewrite Forall_forall in Hy. apply Hy. exact Hp.
      + constructor; [exact Hs|].
        constructor; [exact E|].
        apply Forall_forall. intros p Hp. rewrite Forall_forall in Hy.
        specialize (Hy p Hp). unfold le_key in *.
        eapply lt_negtrans; eassumption.
  Qed.

  Theorem sort_keys_sorted (l : list (bytes * X)) : StronglySorted le_key (sort_keys lt l).
  Proof.
    induction l as [|x r IH]; cbn [sort_keys]; [constructor|].
    apply insert_key_sorted. exact IH.
  Qed.

  Lemma sorted_strict l :
    StronglySorted le_key l -> NoDup (map fst l) -> StronglySorted lt_key l.
  Proof.
    induction 1 as [|a l Hs IH Ha]; intros Hnd; [constructor|].
    cbn [map] in Hnd. inversion Hnd as [|? ? Hnin Hnd']; subst.
    constructor; [apply IH; exact Hnd'|].
    apply Forall_forall. intros b Hb. rewrite Forall_forall in Ha.
    specialize (Ha b Hb). unfold le_key in Ha. unfold lt_key.
    assert (Hne : fst a <> fst b).
    { intros E. apply Hnin. rewrite E. apply in_map. exact Hb. }
    destruct (lt_total _ _ Hne) as [H|H]; [exact H|].
    rewrite H in Ha. discriminate.
  Qed.

  Theorem sort_keys_strict (l : list (bytes * X)) :
    NoDup (map fst l) -> StronglySorted lt_key (sort_keys lt l).
  Proof.
    intros Hnd. apply sorted_strict; [apply sort_keys_sorted|].
    eapply Permutation_NoDup; [|exact Hnd].
    apply Permutation_map. apply Permutation_sym. apply sort_keys_perm.
  Qed.

  (* a strictly sorted list is determined by its set of elements *)
  Lemma strict_sorted_unique l1 : forall l2,
    StronglySorted lt_key l1 -> StronglySorted lt_key l2 -> Permutation l1 l2 -> l1 = l2.
  Proof.
    induction l1 as [|a l1 IH]; intros l2 H1 H2 Hp.
    - apply Permutation_nil in Hp. symmetry; exact Hp.
    - destruct l2 as [|b l2].
      { apply Permutation_sym, Permutation_nil in Hp. discriminate. }
      inversion H1 as [|? ? H1' Ha]; subst. inversion H2 as [|? ? H2' Hb]; subst.
      assert (Eab : a = b).
      { assert (Ia : In a (b :: l2)) by (eapply Permutation_in; [exact Hp | left; reflexivity]).
        assert (Ib : In b (a :: l1)) by (eapply Permutation_in; [apply Permutation_sym; exact Hp | left; reflexivity]).
        destruct Ia as [E|Ia]; [symmetry; exact E|].
        destruct Ib as [E|Ib]; [exact E|]. exfalso.
        rewrite Forall_forall in Ha, Hb.
        pose proof (Ha b Ib) as L1. pose proof (Hb a Ia) as L2. unfold lt_key in *.
        pose proof (lt_trans _ _ _ L1 L2) as C. rewrite lt_irrefl in C. discriminate. }
      subst b. f_equal. apply IH; [exact H1' | exact H2'|].
      eapply Permutation_cons_inv. exact Hp.
  Qed.

  Theorem sort_keys_perm_invariant (l l' : list (bytes * X)) :
    Permutation l l' -> NoDup (map fst l) -> sort_keys lt l = sort_keys lt l'.
  Proof.
    intros Hp Hnd. apply strict_sorted_unique.
    - apply sort_keys_strict. exact Hnd.
    - apply sort_keys_strict. eapply Permutation_NoDup; [|exact Hnd].
      apply Permutation_map. exact Hp.
    - eapply Permutation_trans; [apply sort_keys_perm|].
      eapply Permutation_trans; [exact Hp|]. apply Permutation_sym. apply sort_keys_perm.
  Qed.
End Sorting.

Print Assumptions sort_keys_sorted.
Print Assumptions sort_keys_strict.
Print Assumptions sort_keys_perm_invariant.

(* instances for the configured orders; the statements of the task *)
Theorem sort_keys_sorted_mode {X} mode (l : list (bytes * X)) :
  StronglySorted (fun a b => key_ltb mode (fst b) (fst a) = false) (sort_keys (key_ltb mode) l).
Proof.
  apply (sort_keys_sorted (key_ltb mode) (key_ltb_irrefl mode) (key_ltb_trans mode) (key_ltb_total mode)).
Qed.
Print Assumptions sort_keys_sorted_mode.

Theorem sort_keys_strict_mode {X} mode (l : list (bytes * X)) :
  NoDup (map fst l) ->
  StronglySorted (fun a b => key_ltb mode (fst a) (fst b) = true) (sort_keys (key_ltb mode) l).
Proof.
  apply (sort_keys_strict (key_ltb mode) (key_ltb_irrefl mode) (key_ltb_trans mode) (key_ltb_total mode)).
Qed.
Print Assumptions sort_keys_strict_mode.

Theorem sort_keys_perm_invariant_mode {X} mode (l l' : list (bytes * X)) :
  Permutation l l' -> NoDup (map fst l) -> sort_keys (key_ltb mode) l = sort_keys (key_ltb mode) l'.
Proof.
  apply (sort_keys_perm_invariant (key_ltb mode) (key_ltb_irrefl mode) (key_ltb_trans mode) (key_ltb_total mode)).
Qed.
Print Assumptions sort_keys_perm_invariant_mode.

(* sorting only looks at the keys: pointwise-related inputs give pointwise-related outputs *)
Definition kv_rel {K V} (R : V -> V -> Prop) (p q : K * V) : Prop := fst p = fst q /\ R (snd p) (snd q).

Lemma insert_key_Forall2 {X} (R : X -> X -> Prop) lt (x x' : bytes * X) l l' :
  kv_rel R x x' -> Forall2 (kv_rel R) l l' ->
  Forall2 (kv_rel R) (insert_key lt x l) (insert_key lt x' l').
Proof.
  intros Hx H. induction H as [|y y' r r' Hy Hr IH]; cbn [insert_key].
  - constructor; [exact Hx | constructor].
  - destruct Hx as [Ex Rx]. destruct Hy as [Ey Ry]. rewrite <- Ex, <- Ey.
    destruct (lt (fst y) (fst x)).
    + constructor; [split; assumption | exact IH].
    + constructor; [split; assumption|]. constructor; [split; assumption | exact Hr].
Qed.

Lemma sort_keys_Forall2 {X} (R : X -> X -> Prop) lt (l l' : list (bytes * X)) :
  Forall2 (kv_rel R) l l' -> Forall2 (kv_rel R) (sort_keys lt l) (sort_keys lt l').
Proof.
  induction 1 as [|x x' r r' Hx Hr IH]; cbn [sort_keys]; [constructor|].
  apply insert_key_Forall2; assumption.
Qed.

(* ====================================================================== *)
(* 3. Value-level permutation invariance                                    *)
(* ====================================================================== *)

(* [vperm v v']: v' is v with, at any depth, the entry lists of maps permuted.
   Map keys stay syntactically equal. *)
Inductive vperm : gval -> gval -> Prop :=
| vp_refl v : vperm v v
| vp_slice l l' : Forall2 vperm l l' -> vperm (VSlice (Some l)) (VSlice (Some l'))
| vp_arr l l' : Forall2 vperm l l' -> vperm (GVArr l) (GVArr l')
| vp_struct l l' : Forall2 vperm l l' -> vperm (VStruct l) (VStruct l')
| vp_ptr x x' : vperm x x' -> vperm (VPtr (Some x)) (VPtr (Some x'))
| vp_any t x x' : vperm x x' -> vperm (VAny (Some (t, x))) (VAny (Some (t, x')))
| vp_map es es1 es' :
    Forall2 (kv_rel vperm) es es1 -> Permutation es1 es' ->
    vperm (GVMap (Some es)) (GVMap (Some es')).

Lemma Forall2_refl {T} (R : T -> T -> Prop) (l : list T) : (forall x, R x x) -> Forall2 R l l.
Proof. intros H. induction l; constructor; auto. Qed.

Lemma Forall2_len {T U} (R : T -> U -> Prop) l l' : Forall2 R l l' -> length l = length l'.
Proof. induction 1; cbn; congruence. Qed.

Lemma kv_vperm_refl (p : gval * gval) : kv_rel vperm p p.
Proof. split; [reflexivity | apply vp_refl]. Qed.

(* inversion by the shape of the left value *)
Lemma vperm_inv v v' : vperm v v' ->
  match v with
  | VSlice (Some l) => exists l', v' = VSlice (Some l') /\ Forall2 vperm l l'
  | GVArr l => exists l', v' = GVArr l' /\ Forall2 vperm l l'
  | VStruct l => exists l', v' = VStruct l' /\ Forall2 vperm l l'
  | VPtr (Some x) => exists x', v' = VPtr (Some x') /\ vperm x x'
  | VAny (Some (t, x)) => exists x', v' = VAny (Some (t, x')) /\ vperm x x'
  | GVMap (Some es) => exists es1 es', v' = GVMap (Some es') /\
                                       Forall2 (kv_rel vperm) es es1 /\ Permutation es1 es'
  | _ => v' = v
  end.
Proof.
  intros H. destruct H as [v|l l' H|l l' H|l l' H|x x' H|t x x' H|es es1 es' H Hp].
  - destruct v as [b|z|bits|s|o|s|o|l|o|o|o|l|]; try reflexivity.
    + destruct o as [l|]; [|reflexivity]. exists l. split; [reflexivity|].
      apply Forall2_refl. apply vp_refl.
    + exists l. split; [reflexivity|]. apply Forall2_refl. apply vp_refl.
    + destruct o as [es|]; [|reflexivity]. exists es, es. split; [reflexivity|].
      split; [apply Forall2_refl; apply kv_vperm_refl | apply Permutation_refl].
    + destruct o as [x|]; [|reflexivity]. exists x. split; [reflexivity | apply vp_refl].
    + destruct o as [[t x]|]; [|reflexivity]. exists x. split; [reflexivity | apply vp_refl].
    + exists l. split; [reflexivity|]. apply Forall2_refl. apply vp_refl.
  - exists l'. split; [reflexivity | exact H].
  - exists l'. split; [reflexivity | exact H].
  - exists l'. split; [reflexivity | exact H].
  - exists x'. split; [reflexivity | exact H].
  - exists x'. split; [reflexivity | exact H].
  - exists es1, es'. split; [reflexivity|]. split; assumption.
Qed.

(* inversion by the shape of the right value: the same table *)
Lemma vperm_inv_r v v' : vperm v v' ->
  match v' with
  | VSlice (Some l') => exists l, v = VSlice (Some l) /\ Forall2 vperm l l'
  | GVArr l' => exists l, v = GVArr l /\ Forall2 vperm l l'
  | VStruct l' => exists l, v = VStruct l /\ Forall2 vperm l l'
  | VPtr (Some x') => exists x, v = VPtr (Some x) /\ vperm x x'
  | VAny (Some (t, x')) => exists x, v = VAny (Some (t, x)) /\ vperm x x'
  | GVMap (Some es') => exists es es1, v = GVMap (Some es) /\
                                       Forall2 (kv_rel vperm) es es1 /\ Permutation es1 es'
  | _ => v = v'
  end.
Proof.
  intros H. destruct H as [v|l l' H|l l' H|l l' H|x x' H|t x x' H|es es1 es' H Hp].
  - destruct v as [b|z|bits|s|o|s|o|l|o|o|o|l|]; try reflexivity.
    + destruct o as [l|]; [|reflexivity]. exists l. split; [reflexivity|].
      apply Forall2_refl. apply vp_refl.
    + exists l. split; [reflexivity|]. apply Forall2_refl. apply vp_refl.
    + destruct o as [es|]; [|reflexivity]. exists es, es. split; [reflexivity|].
      split; [apply Forall2_refl; apply kv_vperm_refl | apply Permutation_refl].
    + destruct o as [x|]; [|reflexivity]. exists x. split; [reflexivity | apply vp_refl].
    + destruct o as [[t x]|]; [|reflexivity]. exists x. split; [reflexivity | apply vp_refl].
    + exists l. split; [reflexivity|]. apply Forall2_refl. apply vp_refl.
  - exists l. split; [reflexivity | exact H].
  - exists l. split; [reflexivity | exact H].
  - exists l. split; [reflexivity | exact H].
  - exists x. split; [reflexivity | exact H].
  - exists x. split; [reflexivity | exact H].
  - exists es, es1. split; [reflexivity|]. split; assumption.
Qed.

(* a nested-list induction principle for [gval] *)
Section gval_ind.
  Variable P : gval -> Prop.
  Hypothesis Hleaf : forall v,
      match v with
      | VSlice (Some _) | GVArr _ | VStruct _ | GVMap (Some _) | VPtr (Some _) | VAny (Some _) => False
      | _ => True
      end -> P v.
  Hypothesis Hslice : forall l, Forall P l -> P (VSlice (Some l)).
  Hypothesis Harr : forall l, Forall P l -> P (GVArr l).
  Hypothesis Hstruct : forall l, Forall P l -> P (VStruct l).
  Hypothesis Hmap : forall es, Forall (fun kv => P (fst kv) /\ P (snd kv)) es -> P (GVMap (Some es)).
  Hypothesis Hptr : forall x, P x -> P (VPtr (Some x)).
  Hypothesis Hany : forall t x, P x -> P (VAny (Some (t, x))).

  Fixpoint gval_ind' (v : gval) : P v.
  Proof.
    destruct v as [b|z|bits|s|o|s|o|l|o|o|o|l|]; try (apply Hleaf; exact I).
    - destruct o as [l|]; [|apply Hleaf; exact I].
      apply Hslice. induction l as [|x xs IH]; constructor; [apply gval_ind' | exact IH].
    - apply Harr. induction l as [|x xs IH]; constructor; [apply gval_ind' | exact IH].
    - destruct o as [es|]; [|apply Hleaf; exact I].
      apply Hmap. induction es as [|[k w] xs IH]; constructor; [split; apply gval_ind' | exact IH].
    - destruct o as [x|]; [|apply Hleaf; exact I]. apply Hptr. apply gval_ind'.
    - destruct o as [[t x]|]; [|apply Hleaf; exact I]. apply Hany. apply gval_ind'.
    - apply Hstruct. induction l as [|x xs IH]; constructor; [apply gval_ind' | exact IH].
  Qed.
End gval_ind.

(* ---------- how the marshaller's helper functions see [vperm] ------------ *)

Ltac vinv H := apply vperm_inv in H; cbn in H.
Ltac decomp :=
  repeat match goal with
         | H : exists _, _ |- _ => destruct H
         | H : _ /\ _ |- _ => destruct H
         end.

Lemma is_empty_struct fs : is_empty (VStruct fs) = forallb is_empty fs.
Proof.
  induction fs as [|a fs IH]; [reflexivity|].
  change (is_empty (VStruct (a :: fs))) with (is_empty a && is_empty (VStruct fs)).
  rewrite IH. reflexivity.
Qed.

Lemma is_empty_vperm : forall v v', vperm v v' -> is_empty v = is_empty v'.
Proof.
  intros v. induction v as [v Hv|l IH|l IH|l IH|es IH|x IH|t x IH] using gval_ind'; intros v' H.
  - destruct v as [b|z|bits|s|o|s|o|l|o|o|o|l|]; try contradiction;
      try (destruct o; try contradiction); vinv H; subst; reflexivity.
  - vinv H. destruct H as (l' & -> & H). destruct H; reflexivity.
  - vinv H. destruct H as (l' & -> & H). destruct H; reflexivity.
  - vinv H. destruct H as (l' & -> & H). rewrite !is_empty_struct.
    induction H as [|a a' r r' Ha Hr IHr]; [reflexivity|]. cbn [forallb].
    inversion IH; subst. f_equal; [auto | apply IHr; assumption].
  - vinv H. destruct H as (es1 & es' & -> & H & Hp).
    destruct H as [|a a' r r' Ha Hr].
    + apply Permutation_nil in Hp. subst. reflexivity.
    + destruct es' as [|b es']; [|reflexivity].
      apply Permutation_sym, Permutation_nil in Hp. discriminate.
  - vinv H. destruct H as (x' & -> & H). reflexivity.
  - vinv H. destruct H as (x' & -> & H). reflexivity.
Qed.

Definition opt_rel {T} (R : T -> T -> Prop) (a b : option T) : Prop :=
  match a, b with Some x, Some y => R x y | None, None => True | _, _ => False end.

Lemma deref_vperm n : forall v v', vperm v v' -> opt_rel vperm (deref n v) (deref n v').
Proof.
  induction n as [|n IH]; intros v v' H; cbn [deref]; [exact H|].
  destruct v as [b|z|bits|s|o|s|o|l|o|o|o|l|]; try (destruct o as [?|]);
    try match goal with p : (gtype * gval)%type |- _ => destruct p end;
    vinv H; decomp; subst; try exact I.
  apply IH. assumption.
Qed.

Lemma Forall2_nth_error {T} (R : T -> T -> Prop) l l' :
  Forall2 R l l' -> forall i, opt_rel R (nth_error l i) (nth_error l' i).
Proof.
  induction 1 as [|a a' r r' Ha Hr IH]; intros [|i]; cbn; auto.
Qed.

Lemma struct_of_vperm v v' : vperm v v' -> opt_rel (Forall2 vperm) (struct_of v) (struct_of v').
Proof.
  intros H.
  destruct v as [b|z|bits|s|o|s|o|l|o|o|o|l|]; try (destruct o as [?|]);
    try match goal with p : (gtype * gval)%type |- _ => destruct p end;
    vinv H; decomp; subst; try exact I; cbn; try assumption.
  match goal with H : vperm ?a ?b |- _ => rename H into Hx; rename a into y end.
  destruct y as [b|z|bits|s|o|s|o|l|o|o|o|l|]; try (destruct o as [p|]); try (destruct p);
    vinv Hx; decomp; subst; try exact I; cbn; assumption.
Qed.

Lemma traverse_vperm r : forall v v', vperm v v' -> opt_rel vperm (traverse r v) (traverse r v').
Proof.
  induction r as [|i r IH]; intros v v' H; [exact H|].
  rewrite !traverse_cons. pose proof (struct_of_vperm v v' H) as Hs.
  destruct (struct_of v) as [fs|], (struct_of v') as [fs'|]; cbn in Hs; try contradiction; try exact I.
  pose proof (Forall2_nth_error _ _ _ Hs i) as Hn.
  destruct (nth_error fs i) as [a|], (nth_error fs' i) as [a'|]; cbn in Hn; try contradiction; try exact I.
  apply IH. exact Hn.
Qed.

Lemma live_fields_vperm fields v v' : vperm v v' -> live_fields fields v = live_fields fields v'.
Proof.
  intros H. unfold live_fields. apply filter_ext. intros fe. f_equal.
  pose proof (traverse_vperm (fe_route fe) v v' H) as Ht.
  destruct (traverse (fe_route fe) v) as [a|], (traverse (fe_route fe) v') as [a'|];
    cbn in Ht; try contradiction; [|reflexivity].
  rewrite (is_empty_vperm a a' Ht). reflexivity.
Qed.

(* values on which [vperm] is the identity *)
Definition simple (v : gval) : Prop := forall v', (vperm v v' -> v' = v) /\ (vperm v' v -> v' = v).

Definition leafy (v : gval) : bool :=
  match v with
  | GVBool _ | VNum _ | GVFlt _ | GVStr _ | VBytes _ | VByteArr _ | VBadV => true
  | _ => false
  end.

Lemma leafy_simple v : leafy v = true -> simple v.
Proof.
  intros L v'. destruct v; try discriminate; split; intros H;
    [vinv H | apply vperm_inv_r in H; cbn in H | vinv H | apply vperm_inv_r in H; cbn in H
    | vinv H | apply vperm_inv_r in H; cbn in H | vinv H | apply vperm_inv_r in H; cbn in H
    | vinv H | apply vperm_inv_r in H; cbn in H | vinv H | apply vperm_inv_r in H; cbn in H
    | vinv H | apply vperm_inv_r in H; cbn in H ]; exact H.
Qed.

Lemma simple_list l : Forall simple l ->
  forall l', (Forall2 vperm l l' -> l' = l) /\ (Forall2 vperm l' l -> l' = l).
Proof.
  induction 1 as [|a r Sa Sr IH]; intros l'; split; intros H; inversion H; subst; try reflexivity.
  - f_equal; [apply (proj1 (Sa _)); assumption | apply (proj1 (IH _)); assumption].
  - f_equal; [apply (proj2 (Sa _)); assumption | apply (proj2 (IH _)); assumption].
Qed.

Lemma simple_struct l : Forall simple l -> simple (VStruct l).
Proof.
  intros Hs v'. split; intros H.
  - vinv H. destruct H as (l' & -> & H). f_equal. apply (proj1 (simple_list l Hs l')). exact H.
  - apply vperm_inv_r in H. cbn in H. destruct H as (l' & -> & H). f_equal.
    apply (proj2 (simple_list l Hs l')). exact H.
Qed.

(* kinds 1..8 accept only values without maps; kind 9 (struct{V interface{}} <-> interface{})
   accepts any dynamic content, which may contain maps *)
Lemma tr_fwd_simple kind v w : (kind =? 9) = false -> tr_fwd kind v = Some w -> simple v.
Proof.
  unfold tr_fwd. intros Hk H. rewrite Hk in H.
  repeat match type of H with
         | (if ?c then _ else _) = _ => destruct c
         end; try discriminate;
  repeat match type of H with
         | context [match ?x with _ => _ end] => destruct x; try discriminate H
         end;
  try (apply leafy_simple; reflexivity);
  apply simple_struct; repeat constructor; apply leafy_simple; reflexivity.
Qed.

Lemma tr_fwd_9 v : tr_fwd 9 v = match v with VStruct [VAny o] => Some (VAny o) | _ => None end.
Proof. reflexivity. Qed.

Lemma tr_fwd_9_some v w : tr_fwd 9 v = Some w -> exists o, v = VStruct [VAny o] /\ w = VAny o.
Proof.
  rewrite tr_fwd_9. destruct v as [b|z|bits|s|o|s|o|l|o|o|o|l|]; try discriminate.
  destruct l as [|x [|y r]]; try discriminate; destruct x; try discriminate.
  intros H; inversion H; subst. eauto.
Qed.

(* [vperm] commutes with the transform functions *)
Lemma tr_fwd_vperm kind v v' : vperm v v' -> opt_rel vperm (tr_fwd kind v) (tr_fwd kind v').
Proof.
  intros H. destruct (kind =? 9) eqn:Ek.
  - assert (kind = 9) by lia. subst kind.
    destruct (tr_fwd 9 v) as [w|] eqn:E1.
    + apply tr_fwd_9_some in E1. destruct E1 as (o & -> & ->).
      vinv H. destruct H as (l' & -> & H).
      inversion H as [|a a' r r' Ha Hr]; subst. inversion Hr; subst.
      destruct o as [[t x]|]; vinv Ha.
      * destruct Ha as (x' & -> & Hx). cbn. apply vp_any. exact Hx.
      * subst a'. cbn. apply vp_refl.
    + destruct (tr_fwd 9 v') as [w'|] eqn:E2; [|exact I].
      apply tr_fwd_9_some in E2. destruct E2 as (o & -> & ->).
      apply vperm_inv_r in H. cbn in H. destruct H as (l & -> & H).
      inversion H as [|a a' r r' Ha Hr]; subst. inversion Hr; subst.
      destruct o as [[t x]|]; apply vperm_inv_r in Ha; cbn in Ha.
      * destruct Ha as (x0 & -> & Hx). discriminate E1.
      * subst a. discriminate E1.
  - destruct (tr_fwd kind v) as [w|] eqn:E1.
    + apply (tr_fwd_simple _ _ _ Ek) in E1 as S. rewrite (proj1 (S v') H), E1. apply vp_refl.
    + destruct (tr_fwd kind v') as [w'|] eqn:E2; [|exact I].
      apply (tr_fwd_simple _ _ _ Ek) in E2 as S. rewrite (proj2 (S v) H) in E1. congruence.
Qed.

(* when a transform of kind 1..8 applies, the value contains no map at all *)
Lemma tr_fwd_vperm_eq kind v v' w :
  (kind =? 9) = false -> vperm v v' -> tr_fwd kind v = Some w -> v' = v.
Proof. intros Hk H E. apply (tr_fwd_simple _ _ _ Hk) in E. apply (proj1 (E v')). exact H. Qed.

(* ---------- distinct stringified keys: a decidable, type-directed check ---- *)

Fixpoint memb (a : bytes) (l : list bytes) : bool :=
  match l with [] => false | b :: r => bytes_eqb a b || memb a r end.
Fixpoint nodupb (l : list bytes) : bool :=
  match l with [] => true | a :: r => negb (memb a r) && nodupb r end.

Lemma bytes_eqb_refl a : bytes_eqb a a = true.
Proof. induction a as [|x a IH]; cbn; [reflexivity|]. rewrite Z.eqb_refl. exact IH. Qed.

Lemma bytes_eqb_eq a : forall b, bytes_eqb a b = true <-> a = b.
Proof.
  induction a as [|x a IH]; intros [|y b]; cbn; try (split; [discriminate|congruence]); [tauto|].
  rewrite andb_true_iff, IH. split.
  - intros [E ->]. f_equal. lia.
  - intros E; inversion E; subst. split; [lia | reflexivity].
Qed.

Lemma memb_In a l : memb a l = true <-> In a l.
Proof.
  induction l as [|b r IH]; cbn; [split; [discriminate|contradiction]|].
  rewrite orb_true_iff, IH, bytes_eqb_eq. split; intros [H|H]; auto.
Qed.

Lemma nodupb_NoDup l : nodupb l = true <-> NoDup l.
Proof.
  induction l as [|a r IH]; cbn; [split; [constructor|reflexivity]|].
  rewrite andb_true_iff, IH, negb_true_iff. split.
  - intros [H1 H2]. constructor; [|exact H2]. rewrite <- memb_In. rewrite H1. discriminate.
  - intros H; inversion H; subst. split; [|assumption].
    destruct (memb a r) eqn:E; [|reflexivity]. apply memb_In in E. contradiction.
Qed.

Definition map_defaulted (keyed : list (option bytes * gval)) : list (bytes * gval) :=
  map (fun p => (match fst p with Some s => s | None => [] end, snd p)) keyed.

Lemma map_sorted_eq mode keyed : map_sorted mode keyed = sort_keys (key_ltb mode) (map_defaulted keyed).
Proof. reflexivity. Qed.

(* the serial keys of a map's entries under a stringifier *)
Definition stringified (str : gval -> option bytes) (es : list (gval * gval)) : list (bytes * gval) :=
  map_defaulted (map_keyed str es).

(* [kd A fuel t v]: the traversal of [marshal A fuel t v] (same recursion, same
   fuel), checking at every map it reaches that the stringified keys are
   pairwise distinct.  [true] where the marshaller stops (errors, nil, fuel). *)
Section KD.
  Variable A : atlas.

  Fixpoint kd (fuel : nat) (t : gtype) (v : gval) : bool :=
    match fuel with
    | O => true
    | S f =>
      let '(n, base) := peel t in
      match deref n v with
      | None => true
      | Some bv => kd_bare f base bv
      end
    end
  with kd_bare (fuel : nat) (t : gtype) (v : gval) : bool :=
    match fuel with
    | O => true
    | S f =>
      if is_unnamed_prim t then kd_kind f t v
      else match atlas_get A t with
           | Some e => kd_entry f e v
           | None => kd_kind f (strip_named t) v
           end
    end
  with kd_kind (fuel : nat) (t : gtype) (v : gval) : bool :=
    match fuel with
    | O => true
    | S f =>
      match t, v with
      | GSlice et, VSlice (Some items) => kd_items f et items
      | GArr _ et, GVArr items => kd_items f et items
      | GMap kt vt, GVMap o => kd_map f (a_mode A) kt vt o
      | GAny, VAny (Some (dt, dv)) => kd f dt dv
      | GIface _, VAny (Some (dt, dv)) => kd f dt dv
      | _, _ => true
      end
    end
  with kd_items (fuel : nat) (et : gtype) (items : list gval) : bool :=
    match fuel with
    | O => true
    | S f =>
      match items with
      | [] => true
      | x :: r => kd f et x && kd_items f et r
      end
    end
  with kd_map (fuel : nat) (mode : Z) (kt vt : gtype) (o : option (list (gval * gval))) : bool :=
    match fuel with
    | O => true
    | S f =>
      match map_stringer A kt with
      | None => true
      | Some str =>
        match o with
        | None => true
        | Some es =>
          let keyed := map_keyed str es in
          if existsb (fun p => match fst p with None => true | Some _ => false end) keyed then true
          else nodupb (map fst (map_defaulted keyed)) && kd_entries f vt (map_sorted mode keyed)
        end
      end
    end
  with kd_entries (fuel : nat) (vt : gtype) (es : list (bytes * gval)) : bool :=
    match fuel with
    | O => true
    | S f =>
      match es with
      | [] => true
      | (k, x) :: r => kd f vt x && kd_entries f vt r
      end
    end
  with kd_entry (fuel : nat) (e : atlas_entry) (v : gval) : bool :=
    match fuel with
    | O => true
    | S f =>
      match ae_kind e with
      | ETransform kind wire =>      (* the serial form may contain maps (kind 9): follow it *)
          match tr_fwd kind v with
          | None => true
          | Some w => kd f wire w
          end
      | EStruct fields => kd_fields f (live_fields fields v) v
      | EUnion members =>
          match v with
          | VAny (Some (mt, mv)) =>
              match find (fun m => gtype_eqb (snd m) mt) members with
              | None => true
              | Some _ =>
                  match atlas_get A mt with
                  | None => true
                  | Some me => kd_entry f me mv
                  end
              end
          | _ => true
          end
      | EMapMorphism mode =>
          match strip_named (ae_type e), v with
          | GMap kt vt, GVMap o => kd_map f mode kt vt o
          | _, _ => true
          end
      end
    end
  with kd_fields (fuel : nat) (fields : list field_entry) (v : gval) : bool :=
    match fuel with
    | O => true
    | S f =>
      match fields with
      | [] => true
      | fe :: r =>
          match traverse (fe_route fe) v with
          | None => kd_fields f r v
          | Some fv => kd f (fe_type fe) fv && kd_fields f r v
          end
      end
    end.
End KD.

(* the decidable hypothesis of the main theorem, at the fuel of the marshaller run *)
Definition keys_distinct (A : atlas) (fuel : nat) (t : gtype) (v : gval) : bool := kd A fuel t v.
(* fuel-independent version *)
Definition keys_distinct_all (A : atlas) (t : gtype) (v : gval) : Prop := forall f, kd A f t v = true.

Lemma kd_S A f t v : kd A (S f) t v =
  let '(n, base) := peel t in
  match deref n v with None => true | Some bv => kd_bare A f base bv end.
Proof. reflexivity. Qed.
Lemma kd_bare_S A f t v : kd_bare A (S f) t v =
  if is_unnamed_prim t then kd_kind A f t v
  else match atlas_get A t with Some e => kd_entry A f e v | None => kd_kind A f (strip_named t) v end.
Proof. reflexivity. Qed.
Lemma kd_kind_S A f t v : kd_kind A (S f) t v =
  match t, v with
  | GSlice et, VSlice (Some items) => kd_items A f et items
  | GArr _ et, GVArr items => kd_items A f et items
  | GMap kt vt, GVMap o => kd_map A f (a_mode A) kt vt o
  | GAny, VAny (Some (dt, dv)) => kd A f dt dv
  | GIface _, VAny (Some (dt, dv)) => kd A f dt dv
  | _, _ => true
  end.
Proof. reflexivity. Qed.
Lemma kd_items_S A f et items : kd_items A (S f) et items =
  match items with [] => true | x :: r => kd A f et x && kd_items A f et r end.
Proof. reflexivity. Qed.
Lemma kd_map_S A f mode kt vt o : kd_map A (S f) mode kt vt o =
  match map_stringer A kt with
  | None => true
  | Some str =>
    match o with
    | None => true
    | Some es =>
      let keyed := map_keyed str es in
      if existsb (fun p => match fst p with None => true | Some _ => false end) keyed then true
      else nodupb (map fst (map_defaulted keyed)) && kd_entries A f vt (map_sorted mode keyed)
    end
  end.
Proof. reflexivity. Qed.
Lemma kd_entries_S A f vt es : kd_entries A (S f) vt es =
  match es with [] => true | (k, x) :: r => kd A f vt x && kd_entries A f vt r end.
Proof. reflexivity. Qed.
Lemma kd_entry_S A f e v : kd_entry A (S f) e v =
  match ae_kind e with
  | ETransform kind wire => match tr_fwd kind v with None => true | Some w => kd A f wire w end
  | EStruct fields => kd_fields A f (live_fields fields v) v
  | EUnion members =>
      match v with
      | VAny (Some (mt, mv)) =>
          match find (fun m => gtype_eqb (snd m) mt) members with
          | None => true
          | Some _ => match atlas_get A mt with None => true | Some me => kd_entry A f me mv end
          end
      | _ => true
      end
  | EMapMorphism mode =>
      match strip_named (ae_type e), v with
      | GMap kt vt, GVMap o => kd_map A f mode kt vt o
      | _, _ => true
      end
  end.
Proof. reflexivity. Qed.
Lemma kd_fields_S A f fields v : kd_fields A (S f) fields v =
  match fields with
  | [] => true
  | fe :: r =>
      match traverse (fe_route fe) v with
      | None => kd_fields A f r v
      | Some fv => kd A f (fe_type fe) fv && kd_fields A f r v
      end
  end.
Proof. reflexivity. Qed.

(* ---------- the main induction ------------------------------------------ *)

Definition nonep (p : option bytes * gval) : bool :=
  match fst p with None => true | Some _ => false end.

Lemma existsb_perm {T} (p : T -> bool) l l' : Permutation l l' -> existsb p l = existsb p l'.
Proof.
  induction 1 as [|x l l' H IH|x y l|l l' l'' H1 IH1 H2 IH2]; cbn.
  - reflexivity.
  - rewrite IH. reflexivity.
  - destruct (p x), (p y); reflexivity.
  - congruence.
Qed.

Lemma keyed_rel str es es1 :
  Forall2 (kv_rel vperm) es es1 ->
  map fst (map_keyed str es) = map fst (map_keyed str es1) /\
  Forall2 (kv_rel vperm) (stringified str es) (stringified str es1).
Proof.
  unfold stringified, map_defaulted, map_keyed.
  induction 1 as [|p q r r' [Ek Hv] Hr [IH1 IH2]]; cbn [map fst snd]; [split; constructor|].
  rewrite Ek. split; [f_equal; exact IH1|].
  constructor; [split; [reflexivity | exact Hv] | exact IH2].
Qed.

Lemma existsb_nonep_keys l l' :
  map fst l = map fst l' -> existsb nonep l = existsb nonep l'.
Proof.
  revert l'. induction l as [|a l IH]; intros [|b l'] E; try discriminate; [reflexivity|].
  cbn in E. inversion E as [[E1 E2]]. cbn [existsb]. unfold nonep at 1 3. rewrite E1.
  f_equal. apply IH. exact E2.
Qed.

Section PI.
  Variable A : atlas.

  Definition pi_all (f : nat) : Prop :=
    (forall t v v', vperm v v' -> kd A f t v = true -> marshal A f t v = marshal A f t v') /\
    (forall t v v', vperm v v' -> kd_bare A f t v = true -> marshal_bare A f t v = marshal_bare A f t v') /\
    (forall t v v', vperm v v' -> kd_kind A f t v = true -> marshal_kind A f t v = marshal_kind A f t v') /\
    (forall et l l', Forall2 vperm l l' -> kd_items A f et l = true ->
                     marshal_items A f et l = marshal_items A f et l') /\
    (forall m kt vt o o', vperm (GVMap o) (GVMap o') -> kd_map A f m kt vt o = true ->
                          marshal_map A f m kt vt o = marshal_map A f m kt vt o') /\
    (forall vt es es', Forall2 (kv_rel vperm) es es' -> kd_entries A f vt es = true ->
                       marshal_entries A f vt es = marshal_entries A f vt es') /\
    (forall e v v', vperm v v' -> kd_entry A f e v = true -> marshal_entry A f e v = marshal_entry A f e v') /\
    (forall l v v', vperm v v' -> kd_fields A f l v = true -> marshal_fields A f l v = marshal_fields A f l v').

  Lemma pi_zero : pi_all 0.
  Proof. repeat split; intros; reflexivity. Qed.

  Lemma pi_step f : pi_all f -> pi_all (S f).
  Proof.
    intros (Hm & Hb & Hk & Hi & Hmap & Hes & He & Hf).
    repeat split.
    - intros t v v' H K. rewrite kd_S in K. rewrite !marshal_S.
      destruct (peel t) as [n base].
      pose proof (deref_vperm n v v' H) as Hd.
      destruct (deref n v) as [b|], (deref n v') as [b'|]; cbn in Hd; try contradiction;
        [apply Hb; assumption | reflexivity].
    - intros t v v' H K. rewrite kd_bare_S in K. rewrite !marshal_bare_S.
      destruct (is_unnamed_prim t); [apply Hk; assumption|].
      destruct (atlas_get A t); [apply He | apply Hk]; assumption.
    - intros t v v' H K. rewrite kd_kind_S in K. rewrite !marshal_kind_S.
      pose proof H as H'.
      destruct t; destruct v as [b|z|bits|s|o|s|o|l|o|o|o|l|]; try (destruct o as [?|]);
        try match goal with p : (gtype * gval)%type |- _ => destruct p end;
        vinv H; decomp; subst; try reflexivity.
      + rewrite (Forall2_len _ _ _ H0), (Hi _ _ _ H0 K). reflexivity.
      + rewrite (Forall2_len _ _ _ H0), (Hi _ _ _ H0 K). reflexivity.
      + apply Hmap; assumption.
      + apply Hm; assumption.
      + apply Hm; assumption.
    - intros et l l' H K. rewrite kd_items_S in K. rewrite !marshal_items_S.
      destruct H as [|x x' r r' Hx Hr]; [reflexivity|].
      apply andb_true_iff in K. destruct K as [K1 K2].
      rewrite (Hm _ _ _ Hx K1), (Hi _ _ _ Hr K2). reflexivity.
    - intros m kt vt o o' H K. rewrite kd_map_S in K. rewrite !marshal_map_S.
      destruct (map_stringer A kt) as [str|]; [|reflexivity]. cbv zeta.
      destruct o as [es|]; vinv H; [|inversion H; subst; reflexivity].
      destruct H as (es1 & es' & E & H1 & Hp). inversion E; subst o'. clear E.
      cbv zeta in K.
      destruct (keyed_rel str es es1 H1) as [Ek Hs].
      assert (Hp' : Permutation (map_keyed str es1) (map_keyed str es'))
        by (apply Permutation_map; exact Hp).
      assert (Ex : existsb nonep (map_keyed str es) = existsb nonep (map_keyed str es')).
      { rewrite (existsb_nonep_keys _ _ Ek). apply existsb_perm. exact Hp'. }
      fold nonep in K |- *. rewrite <- Ex.
      destruct (existsb nonep (map_keyed str es)); [reflexivity|].
      apply andb_true_iff in K. destruct K as [K1 K2]. apply nodupb_NoDup in K1.
      assert (El : length es = length es').
      { rewrite (Forall2_len _ _ _ H1). apply Permutation_length. exact Hp. }
      rewrite El. f_equal.
      assert (Es : map_sorted m (map_keyed str es') = map_sorted m (map_keyed str es1)).
      { rewrite !map_sorted_eq. symmetry. apply sort_keys_perm_invariant_mode.
        - apply Permutation_map. exact Hp'.
        - unfold map_defaulted in *. rewrite map_map in *. cbn [fst] in *.
          rewrite <- (map_map fst (fun o : option bytes => match o with Some s => s | None => [] end)) in *.
          rewrite <- Ek. exact K1. }
      rewrite Es. apply Hes; [|exact K2].
      rewrite !map_sorted_eq. apply sort_keys_Forall2. exact Hs.
    - intros vt es es' H K. rewrite kd_entries_S in K. rewrite !marshal_entries_S.
      destruct H as [|[k x] [k' x'] r r' [Ek Hx] Hr]; [reflexivity|].
      cbn in Ek, Hx. subst k'.
      apply andb_true_iff in K. destruct K as [K1 K2].
      rewrite (Hm _ _ _ Hx K1), (Hes _ _ _ Hr K2). reflexivity.
    - intros e v v' H K. rewrite kd_entry_S in K. rewrite !marshal_entry_S.
      destruct (ae_kind e) as [fields|kind wire|members|mode].
      + cbv zeta. rewrite <- (live_fields_vperm fields v v' H). f_equal. apply Hf; assumption.
      + pose proof (tr_fwd_vperm kind v v' H) as Ht.
        destruct (tr_fwd kind v) as [w|], (tr_fwd kind v') as [w'|]; cbn in Ht; try contradiction;
          [|reflexivity].
        rewrite (Hm _ _ _ Ht K). reflexivity.
      + destruct v as [b|z|bits|s|o|s|o|l|o|o|o|l|]; try (destruct o as [?|]);
          try match goal with p : (gtype * gval)%type |- _ => destruct p end;
          vinv H; decomp; subst; try reflexivity.
        destruct (find _ members) as [[name ?]|]; [|reflexivity].
        destruct (atlas_get A g) as [me|]; [|reflexivity].
        f_equal. apply He; assumption.
      + destruct (strip_named (ae_type e)); try reflexivity.
        pose proof H as H'.
        destruct v as [b|z|bits|s|o|s|o|l|o|o|o|l|]; try (destruct o as [?|]);
          try match goal with p : (gtype * gval)%type |- _ => destruct p end;
          vinv H; decomp; subst; try reflexivity.
        apply Hmap; assumption.
    - intros l v v' H K. rewrite kd_fields_S in K. rewrite !marshal_fields_S.
      destruct l as [|fe r]; [reflexivity|].
      pose proof (traverse_vperm (fe_route fe) v v' H) as Ht.
      destruct (traverse (fe_route fe) v) as [a|], (traverse (fe_route fe) v') as [a'|];
        cbn in Ht; try contradiction.
      + apply andb_true_iff in K. destruct K as [K1 K2].
        rewrite (Hm _ _ _ Ht K1), (Hf _ _ _ H K2). reflexivity.
      + apply Hf; assumption.
  Qed.

  Lemma pi_all_holds f : pi_all f.
  Proof. induction f; [apply pi_zero | apply pi_step; assumption]. Qed.
End PI.

(* C08, main statement: permuting the entries of maps (at any depth) does not
   change the marshaller's result — tokens, or error and the tokens before it —
   provided the stringified keys of every map the run reaches are distinct. *)
Theorem marshal_perm_invariant : forall A f t v v',
  vperm v v' -> keys_distinct A f t v = true -> marshal A f t v = marshal A f t v'.
Proof.
  intros A f t v v' H K. destruct (pi_all_holds A f) as (Hm & _). apply Hm; assumption.
Qed.
Print Assumptions marshal_perm_invariant.

Corollary marshal_perm_invariant_all : forall A f t v v',
  vperm v v' -> keys_distinct_all A t v -> marshal A f t v = marshal A f t v'.
Proof. intros A f t v v' H K. apply marshal_perm_invariant; [exact H | apply K]. Qed.
Print Assumptions marshal_perm_invariant_all.

(* The hypothesis is needed.  Two distinct struct keys whose (non-injective)
   transform kind 6  A ++ ":" ++ B  gives the same serial key "a:b:c": the output
   follows the iteration order.  This is a genuine nondeterminism of the Go
   code for non-injective key transforms (there: sort.Sort on equal keys over a
   randomised iteration order). *)
Definition cexA : atlas := Atlas [AE (GStruct 1) None (ETransform 6 GStr)] 0.
Definition cex_k1 : gval := VStruct [GVStr [97;58;98]; GVStr [99]].      (* {"a:b", "c"} *)
Definition cex_k2 : gval := VStruct [GVStr [97]; GVStr [98;58;99]].      (* {"a", "b:c"} *)
Definition cex_v  : gval := GVMap (Some [(cex_k1, VNum 1); (cex_k2, VNum 2)]).
Definition cex_v' : gval := GVMap (Some [(cex_k2, VNum 2); (cex_k1, VNum 1)]).

Lemma cex_vperm : vperm cex_v cex_v'.
Proof.
  eapply vp_map; [apply Forall2_refl; apply kv_vperm_refl | apply perm_swap].
Qed.

Example marshal_perm_invariant_nodistinct_refuted :
  marshal cexA 20 (GMap (GStruct 1) (GNum IInt)) cex_v =
    MOk [Tok (MapOpen 2) None; Tok (Str [97;58;98;58;99]) None; Tok (Int 1) None;
         Tok (Str [97;58;98;58;99]) None; Tok (Int 2) None; Tok MapClose None] /\
  marshal cexA 20 (GMap (GStruct 1) (GNum IInt)) cex_v' =
    MOk [Tok (MapOpen 2) None; Tok (Str [97;58;98;58;99]) None; Tok (Int 2) None;
         Tok (Str [97;58;98;58;99]) None; Tok (Int 1) None; Tok MapClose None] /\
  keys_distinct cexA 20 (GMap (GStruct 1) (GNum IInt)) cex_v = false.
Proof. vm_compute. repeat split; reflexivity. Qed.

Theorem marshal_perm_invariant_needs_distinct :
  ~ (forall A f t v v', vperm v v' -> marshal A f t v = marshal A f t v').
Proof.
  intros H. specialize (H cexA 20%nat (GMap (GStruct 1) (GNum IInt)) cex_v cex_v' cex_vperm).
  vm_compute in H. discriminate.
Qed.
Print Assumptions marshal_perm_invariant_needs_distinct.

(* kind 9: the serial form is the dynamic content of an interface{} field and may
   contain maps; [keys_distinct] follows the transform into it *)
Definition k9A : atlas := Atlas [AE (GStruct 1) (Some 50) (ETransform 9 GAny)] 0.
Definition k9_v (es : list (gval * gval)) : gval :=
  VStruct [VAny (Some (GMap GStr (GNum IInt), GVMap (Some es)))].
Example kind9_map_inside_transform :
  let a := (GVStr [97], VNum 1) in
  let b := (GVStr [98], VNum 2) in
  keys_distinct k9A 20 (GStruct 1) (k9_v [b; a]) = true /\
  keys_distinct k9A 20 (GStruct 1) (k9_v [b; (GVStr [98], VNum 1)]) = false /\
  marshal k9A 20 (GStruct 1) (k9_v [a; b]) = marshal k9A 20 (GStruct 1) (k9_v [b; a]) /\
  marshal k9A 20 (GStruct 1) (k9_v [b; a]) =
    MOk [Tok (MapOpen 2) (Some 50); Tok (Str [97]) None; Tok (Int 1) None;
         Tok (Str [98]) None; Tok (Int 2) None; Tok MapClose None].
Proof. vm_compute. repeat split; reflexivity. Qed.

(* For plain string keys the hypothesis is automatic from the distinctness of the
   Go map's keys; for struct keys it is an injectivity demand on the user's
   transform (which kind 6 does not meet when A may contain ':'). *)
Lemma In_stringified str r s :
  In s (map fst (stringified str r)) -> existsb nonep (map_keyed str r) = false ->
  exists k x, In (k, x) r /\ str k = Some s.
Proof.
  unfold stringified, map_defaulted, map_keyed.
  induction r as [|[k1 x1] r IH]; cbn [map fst snd existsb In]; [contradiction|].
  intros Hin Hex. apply orb_false_iff in Hex. destruct Hex as [H1 H2].
  unfold nonep in H1. cbn [fst] in H1.
  destruct (str k1) as [b1|] eqn:E1; [|discriminate].
  destruct Hin as [<-|Hin].
  - exists k1, x1. split; [left; reflexivity | exact E1].
  - destruct (IH Hin H2) as (k & x & Hk & Es). exists k, x. split; [right; exact Hk | exact Es].
Qed.

Lemma inj_keys_distinct str (es : list (gval * gval)) :
  (forall k k' s, str k = Some s -> str k' = Some s -> k = k') ->
  NoDup (map fst es) -> existsb nonep (map_keyed str es) = false ->
  NoDup (map fst (stringified str es)).
Proof.
  intros Hinj. induction es as [|[k x] r IH]; intros Hnd Hex; [constructor|].
  cbn [map fst] in Hnd. inversion Hnd as [|? ? Hnin Hnd']; subst.
  change (map_keyed str ((k, x) :: r)) with ((str k, x) :: map_keyed str r) in Hex.
  cbn [existsb] in Hex. apply orb_false_iff in Hex. destruct Hex as [H1 H2].
  unfold nonep in H1. cbn [fst] in H1.
  destruct (str k) as [b|] eqn:Ek; [|discriminate].
  change (map fst (stringified str ((k, x) :: r)))
    with ((match str k with Some s => s | None => [] end) :: map fst (stringified str r)).
  rewrite Ek. constructor; [|apply IH; assumption].
  intros Hin. destruct (In_stringified str r b Hin H2) as (k' & x' & Hk' & Es).
  apply Hnin. rewrite (Hinj k k' b Ek Es). apply (in_map fst) in Hk'. exact Hk'.
Qed.

Lemma string_keys_distinct (es : list (gval * gval)) :
  let str := fun k => match k with GVStr s => Some s | _ => None end in
  NoDup (map fst es) -> existsb nonep (map_keyed str es) = false ->
  NoDup (map fst (stringified str es)).
Proof.
  intros str. apply inj_keys_distinct.
  intros k k' s E1 E2. unfold str in *.
  destruct k; try discriminate. destruct k'; try discriminate. congruence.
Qed.

(* ---------- [vperm] is an equivalence (it is a congruence by construction) -- *)

Lemma Forall2_perm_l {T U} (R : T -> U -> Prop) l1 l2 :
  Permutation l1 l2 -> forall m1, Forall2 R l1 m1 -> exists m2, Forall2 R l2 m2 /\ Permutation m1 m2.
Proof.
  induction 1 as [|x l l' H IH|x y l|l l' l'' H1 IH1 H2 IH2]; intros m1 F.
  - inversion F; subst. exists []. split; constructor.
  - inversion F as [|? b ? m Hb Hm]; subst. destruct (IH m Hm) as (m2 & F2 & P2).
    exists (b :: m2). split; [constructor; assumption | apply perm_skip; exact P2].
  - inversion F as [|? b ? m Hb Hm]; subst. inversion Hm as [|? a ? m' Ha Hm']; subst.
    exists (a :: b :: m'). split; [repeat constructor; assumption | apply perm_swap].
  - destruct (IH1 m1 F) as (m2 & F2 & P2). destruct (IH2 m2 F2) as (m3 & F3 & P3).
    exists m3. split; [exact F3 | eapply Permutation_trans; eassumption].
Qed.

Lemma F2_sym_IH {T} (R : T -> T -> Prop) l :
  Forall (fun x => forall y, R x y -> R y x) l -> forall l', Forall2 R l l' -> Forall2 R l' l.
Proof.
  induction 1 as [|a r Ha Hr IH]; intros l' F; inversion F; subst; constructor; auto.
Qed.

Lemma F2_trans_IH {T} (R : T -> T -> Prop) l :
  Forall (fun x => forall y z, R x y -> R y z -> R x z) l ->
  forall l' l'', Forall2 R l l' -> Forall2 R l' l'' -> Forall2 R l l''.
Proof.
  induction 1 as [|a r Ha Hr IH]; intros l' l'' F G; inversion F; subst; inversion G; subst;
    constructor; eauto.
Qed.

Theorem vperm_sym : forall v v', vperm v v' -> vperm v' v.
Proof.
  intros v. induction v as [v Hv|l IH|l IH|l IH|es IH|x IH|t x IH] using gval_ind'; intros v' H.
  - destruct v as [b|z|bits|s|o|s|o|l|o|o|o|l|]; try contradiction;
      try (destruct o; try contradiction); vinv H; subst; apply vp_refl.
  - vinv H. destruct H as (l' & -> & H). apply vp_slice. eapply F2_sym_IH; eassumption.
  - vinv H. destruct H as (l' & -> & H). apply vp_arr. eapply F2_sym_IH; eassumption.
  - vinv H. destruct H as (l' & -> & H). apply vp_struct. eapply F2_sym_IH; eassumption.
  - vinv H. destruct H as (es1 & es' & -> & H & Hp).
    assert (Hs : Forall2 (kv_rel vperm) es1 es).
    { eapply F2_sym_IH; [|exact H]. eapply Forall_impl; [|exact IH].
      intros [k x] [_ Px] [k' x'] [Ek Hx]. unfold kv_rel. cbn in *. split; [symmetry; exact Ek | apply Px; exact Hx]. }
    destruct (Forall2_perm_l _ _ _ Hp _ Hs) as (m2 & F2 & P2).
    eapply vp_map; [exact F2 | apply Permutation_sym; exact P2].
  - vinv H. destruct H as (x' & -> & H). apply vp_ptr. apply IH. exact H.
  - vinv H. destruct H as (x' & -> & H). apply vp_any. apply IH. exact H.
Qed.
Print Assumptions vperm_sym.

Theorem vperm_trans : forall v v' v'', vperm v v' -> vperm v' v'' -> vperm v v''.
Proof.
  intros v. induction v as [v Hv|l IH|l IH|l IH|es IH|x IH|t x IH] using gval_ind'; intros v' v'' H G.
  - destruct v as [b|z|bits|s|o|s|o|l|o|o|o|l|]; try contradiction;
      try (destruct o; try contradiction); vinv H; subst; exact G.
  - vinv H. destruct H as (l' & -> & H). vinv G. destruct G as (l'' & -> & G).
    apply vp_slice. eapply F2_trans_IH; eassumption.
  - vinv H. destruct H as (l' & -> & H). vinv G. destruct G as (l'' & -> & G).
    apply vp_arr. eapply F2_trans_IH; eassumption.
  - vinv H. destruct H as (l' & -> & H). vinv G. destruct G as (l'' & -> & G).
    apply vp_struct. eapply F2_trans_IH; eassumption.
  - vinv H. destruct H as (es1 & es' & -> & H & Hp).
    vinv G. destruct G as (es2 & es'' & -> & G & Gp).
    destruct (Forall2_perm_l _ _ _ (Permutation_sym Hp) _ G) as (m & F2 & P2).
    assert (Ht : Forall2 (kv_rel vperm) es m).
    { eapply F2_trans_IH; [|exact H|exact F2]. eapply Forall_impl; [|exact IH].
      intros [k x] [_ Px] [k1 x1] [k2 x2] [E1 H1] [E2 H2]. unfold kv_rel. cbn in *.
      split; [congruence | eapply Px; eassumption]. }
    eapply vp_map; [exact Ht|].
    eapply Permutation_trans; [apply Permutation_sym; exact P2 | exact Gp].
  - vinv H. destruct H as (x' & -> & H). vinv G. destruct G as (x'' & -> & G).
    apply vp_ptr. eapply IH; eassumption.
  - vinv H. destruct H as (x' & -> & H). vinv G. destruct G as (x'' & -> & G).
    apply vp_any. eapply IH; eassumption.
Qed.
Print Assumptions vperm_trans.

(* ---------- the top-level entry point ------------------------------------ *)

Lemma fold_sum_perm {T} (g : T -> nat) l l' :
  Permutation l l' ->
  fold_right (fun x a => (g x + a)%nat) 0%nat l = fold_right (fun x a => (g x + a)%nat) 0%nat l'.
Proof.
  induction 1 as [|x l l' H IH|x y l|l l' l'' H1 IH1 H2 IH2]; cbn [fold_right]; try lia.
Qed.

Lemma vsize_vperm f : forall v v', vperm v v' -> vsize f v = vsize f v'.
Proof.
  induction f as [|f IH]; intros v v' H; [reflexivity|].
  assert (HL : forall l l', Forall2 vperm l l' ->
            fold_right (fun x a => (vsize f x + a)%nat) 0%nat l =
            fold_right (fun x a => (vsize f x + a)%nat) 0%nat l').
  { induction 1 as [|a a' r r' Ha Hr IHr]; cbn [fold_right]; [reflexivity|].
    rewrite (IH _ _ Ha), IHr. reflexivity. }
  assert (HM : forall l l', Forall2 (kv_rel vperm) l l' ->
            fold_right (fun kv a => (vsize f (fst kv) + vsize f (snd kv) + a)%nat) 0%nat l =
            fold_right (fun kv a => (vsize f (fst kv) + vsize f (snd kv) + a)%nat) 0%nat l').
  { induction 1 as [|p q r r' [Ek Hx] Hr IHr]; cbn [fold_right]; [reflexivity|].
    rewrite Ek, (IH _ _ Hx), IHr. reflexivity. }
  destruct v as [b|z|bits|s|o|s|o|l|o|o|o|l|]; try (destruct o as [?|]);
    try match goal with p : (gtype * gval)%type |- _ => destruct p end;
    vinv H; decomp; subst; try reflexivity; cbn [vsize].
  - f_equal. apply HL. assumption.
  - f_equal. apply HL. assumption.
  - f_equal.
    match goal with Hp : Permutation ?a ?b |- _ =>
      rewrite <- (fold_sum_perm (fun kv => (vsize f (fst kv) + vsize f (snd kv))%nat) a b Hp) end.
    apply HM. assumption.
  - f_equal. apply IH. assumption.
  - f_equal. apply IH. assumption.
  - f_equal. apply HL. assumption.
Qed.

Theorem marshal_top_perm_invariant : forall E A t v v',
  vperm v v' -> keys_distinct A (200 + 12 * vsize 100 v) t v = true ->
  marshal_top E A t v = marshal_top E A t v'.
Proof.
  intros E A t v v' H K. unfold marshal_top.
  rewrite <- (vsize_vperm 100 v v' H). apply marshal_perm_invariant; assumption.
Qed.
Print Assumptions marshal_top_perm_invariant.

(* ====================================================================== *)
(* 4. Emitted key order                                                     *)
(* ====================================================================== *)

(* [parse_node] inverts [flatten] *)
Lemma parse_node_S f v tg rest : parse_node (S f) (Tok v tg :: rest) =
  match v with
  | ArrOpen d => match parse_items f rest with
                 | Some (items, rest') => Some (Node tg (VArr d items), rest') | None => None end
  | MapOpen d => match parse_entries f rest with
                 | Some (es, rest') => Some (Node tg (VMap d es), rest') | None => None end
  | ArrClose | MapClose => None
  | _ => match leaf_of v with Some l => Some (Node tg l, rest) | None => None end
  end.
Proof. reflexivity. Qed.

Definition not_close (v : tokv) : Prop := v <> ArrClose /\ v <> MapClose.

Lemma parse_items_S f v tg rest : not_close v ->
  parse_items (S f) (Tok v tg :: rest) =
  match parse_node f (Tok v tg :: rest) with
  | Some (x, r) => match parse_items f r with Some (xs, r') => Some (x :: xs, r') | None => None end
  | None => None
  end.
Proof. intros [H1 H2]. destruct v; try reflexivity; contradiction. Qed.

Lemma parse_entries_S f v tg rest : not_close v ->
  parse_entries (S f) (Tok v tg :: rest) =
  match parse_node f (Tok v tg :: rest) with
  | Some (k, r) =>
      match parse_node f r with
      | Some (w, r2) => match parse_entries f r2 with Some (es, r') => Some ((k, w) :: es, r') | None => None end
      | None => None
      end
  | None => None
  end.
Proof. intros [H1 H2]. destruct v; try reflexivity; contradiction. Qed.

Lemma flatten_head n : exists v tg more, flatten n = Tok v tg :: more /\ not_close v.
Proof.
  destruct n as [tg v]. destruct v; cbn [flatten]; eexists _, _, _; (split; [reflexivity|]);
    split; discriminate.
Qed.

Definition parses (n : tnode) : Prop :=
  forall f rest, (length (flatten n) <= f)%nat -> parse_node f (flatten n ++ rest) = Some (n, rest).

Lemma parse_items_flatten items : Forall parses items ->
  forall f rest, (length (flat_map flatten items) + 1 <= f)%nat ->
    parse_items f (flat_map flatten items ++ Tok ArrClose None :: rest) = Some (items, rest).
Proof.
  induction 1 as [|x xs Hx Hxs IH]; intros f rest Hf.
  - destruct f as [|f]; [cbn in Hf; lia|]. reflexivity.
  - cbn [flat_map] in *. rewrite app_length in Hf. destruct f as [|f]; [lia|].
    rewrite <- app_assoc.
    destruct (flatten_head x) as (v & tg & more & E & Hnc).
    assert (Hl : (1 <= length (flatten x))%nat) by (rewrite E; cbn; lia).
    pose proof (Hx f (flat_map flatten xs ++ Tok ArrClose None :: rest) ltac:(lia)) as Px.
    rewrite E in Px |- *. cbn [app] in Px |- *.
    rewrite (parse_items_S f v tg _ Hnc), Px, IH by lia. reflexivity.
Qed.

Lemma parse_entries_flatten es : Forall (fun kv => parses (fst kv) /\ parses (snd kv)) es ->
  forall f rest, (length (flat_map flat_entry es) + 1 <= f)%nat ->
    parse_entries f (flat_map flat_entry es ++ Tok MapClose None :: rest) = Some (es, rest).
Proof.
  induction 1 as [|[k w] xs [Hk Hw] Hxs IH]; intros f rest Hf.
  - destruct f as [|f]; [cbn in Hf; lia|]. reflexivity.
  - cbn [flat_map fst snd] in *. unfold flat_entry at 1 in Hf. unfold flat_entry at 1.
    cbn [fst snd] in *. rewrite !app_length in Hf. destruct f as [|f]; [lia|].
    rewrite <- !app_assoc.
    destruct (flatten_head k) as (v & tg & more & E & Hnc).
    destruct (flatten_head w) as (v2 & tg2 & more2 & E2 & _).
    assert (Hl : (1 <= length (flatten k))%nat) by (rewrite E; cbn; lia).
    assert (Hl2 : (1 <= length (flatten w))%nat) by (rewrite E2; cbn; lia).
    pose proof (Hk f (flatten w ++ flat_map flat_entry xs ++ Tok MapClose None :: rest) ltac:(lia)) as Pk.
    pose proof (Hw f (flat_map flat_entry xs ++ Tok MapClose None :: rest) ltac:(lia)) as Pw.
    rewrite E in Pk |- *. cbn [app] in Pk |- *.
    rewrite (parse_entries_S f v tg _ Hnc), Pk, Pw, IH by lia. reflexivity.
Qed.

Lemma parse_flatten n : parses n.
Proof.
  induction n as [tg v Hv|tg d items IH|tg d es IH] using tnode_ind'; intros f rest Hf.
  - destruct f as [|f]; [destruct v; cbn in Hf; lia|].
    destruct v; try contradiction; reflexivity.
  - rewrite flatten_arr in *. cbn [length] in Hf. rewrite app_length in Hf. cbn [length] in Hf.
    destruct f as [|f]; [lia|]. cbn [app]. rewrite <- app_assoc. cbn [app].
    rewrite parse_node_S, parse_items_flatten by (assumption || lia). reflexivity.
  - rewrite flatten_map in *. cbn [length] in Hf. rewrite app_length in Hf. cbn [length] in Hf.
    destruct f as [|f]; [lia|]. cbn [app]. rewrite <- app_assoc. cbn [app].
    rewrite parse_node_S, parse_entries_flatten by (assumption || lia). reflexivity.
Qed.

Theorem unflatten_flatten n : unflatten (flatten n) = Some n.
Proof.
  unfold unflatten.
  pose proof (parse_flatten n (S (length (flatten n))) [] ltac:(lia)) as H.
  rewrite app_nil_r in H. rewrite H. reflexivity.
Qed.
Print Assumptions unflatten_flatten.

(* the top-level keys of an emitted map, read back through the token grammar *)
Definition node_keys (n : tnode) : list bytes :=
  match n with
  | Node _ (VMap _ es) =>
      flat_map (fun kv => match fst kv with Node _ (VStr s) => [s] | _ => [] end) es
  | _ => []
  end.
Definition top_keys (ts : list token) : list bytes :=
  match unflatten ts with Some n => node_keys n | None => [] end.

Definition key_node (k : bytes) : tnode := Node None (VStr k).

Lemma node_keys_key_nodes tg d (tes : list (tnode * tnode)) ks :
  map fst tes = map key_node ks -> node_keys (Node tg (VMap d tes)) = ks.
Proof.
  cbn [node_keys]. revert ks. induction tes as [|[k w] r IH]; intros [|k0 ks] E; try discriminate; [reflexivity|].
  cbn [map fst] in E. inversion E as [[E1 E2]]. cbn [flat_map fst]. unfold key_node. cbn [app].
  f_equal. apply IH. exact E2.
Qed.

Lemma top_keys_map d tg (tes : list (tnode * tnode)) ks :
  map fst tes = map key_node ks ->
  top_keys (Tok (MapOpen d) tg :: flat_map flat_entry tes ++ [Tok MapClose None]) = ks.
Proof.
  intros E. rewrite <- flatten_map. unfold top_keys. rewrite unflatten_flatten.
  apply node_keys_key_nodes. exact E.
Qed.

(* what [marshal_entries] / [marshal_fields] emit, keeping track of the keys *)
Lemma marshal_entries_keys A vt es : forall f ts,
  marshal_entries A f vt es = MOk ts ->
  exists tes, ts = flat_map flat_entry tes ++ [Tok MapClose None] /\
              map fst tes = map key_node (map fst es).
Proof.
  induction es as [|[k x] r IH]; intros [|f] ts H; try discriminate; rewrite marshal_entries_S in H.
  - inversion H; subst. exists []. split; reflexivity.
  - apply mprepend_ok in H. destruct H as (ts0 & H & ->).
    apply mseq_ok in H. destruct H as (ts1 & H1 & H).
    apply mprepend_ok in H. destruct H as (ts2 & H2 & ->).
    destruct (marshal_wf _ _ _ _ _ H1) as (n & -> & _).
    destruct (IH _ _ H2) as (tes & -> & E).
    exists ((key_node k, n) :: tes). split.
    + cbn [flat_map]. unfold flat_entry at 2. cbn [fst snd key_node flatten app].
      rewrite <- !app_assoc. reflexivity.
    + cbn [map fst]. rewrite E. reflexivity.
Qed.

Lemma marshal_fields_keys A v l : forall f ts,
  marshal_fields A f l v = MOk ts ->
  exists tes, ts = flat_map flat_entry tes ++ [Tok MapClose None] /\
              map fst tes = map key_node (map fe_name (filter (has_route v) l)).
Proof.
  induction l as [|fe r IH]; intros [|f] ts H; try discriminate; rewrite marshal_fields_S in H.
  - inversion H; subst. exists []. split; reflexivity.
  - cbn [filter]. unfold has_route at 1.
    destruct (traverse (fe_route fe) v) as [fv|]; [|apply (IH _ _ H)].
    apply mprepend_ok in H. destruct H as (ts0 & H & ->).
    apply mseq_ok in H. destruct H as (ts1 & H1 & H).
    apply mprepend_ok in H. destruct H as (ts2 & H2 & ->).
    destruct (marshal_wf _ _ _ _ _ H1) as (n & -> & _).
    destruct (IH _ _ H2) as (tes & -> & E).
    exists ((key_node (fe_name fe), n) :: tes). split.
    + cbn [flat_map]. unfold flat_entry at 2. cbn [fst snd key_node flatten app].
      rewrite <- !app_assoc. reflexivity.
    + cbn [map fst]. rewrite E. reflexivity.
Qed.

Lemma StronglySorted_map_fst {T} (R : bytes -> bytes -> Prop) (l : list (bytes * T)) :
  StronglySorted (fun a b => R (fst a) (fst b)) l -> StronglySorted R (map fst l).
Proof.
  induction 1 as [|a l Hs IH Ha]; cbn [map]; constructor; [exact IH|].
  apply Forall_forall. intros k Hk. apply in_map_iff in Hk. destruct Hk as (b & <- & Hb).
  rewrite Forall_forall in Ha. apply Ha. exact Hb.
Qed.

(* C08, emitted order of map keys: the top-level keys of the tokens of a map
   are exactly the stringified keys, sorted by the order of [mode]. *)
Theorem map_keys_emitted_in_order : forall A f mode kt vt es ts,
  marshal_map A f mode kt vt (Some es) = MOk ts ->
  exists str,
    map_stringer A kt = Some str /\
    existsb nonep (map_keyed str es) = false /\          (* every key was stringified *)
    top_keys ts = map fst (sort_keys (key_ltb mode) (stringified str es)) /\
    Permutation (top_keys ts) (map fst (stringified str es)) /\
    StronglySorted (fun a b => key_ltb mode b a = false) (top_keys ts) /\
    (NoDup (map fst (stringified str es)) ->
     StronglySorted (fun a b => key_ltb mode a b = true) (top_keys ts)).
Proof.
  intros A [|f] mode kt vt es ts H; [discriminate|]. rewrite marshal_map_S in H.
  destruct (map_stringer A kt) as [str|]; [|discriminate]. cbv zeta in H.
  fold nonep in H. destruct (existsb nonep (map_keyed str es)) eqn:Ex; [discriminate|].
  apply mprepend_ok in H. destruct H as (ts' & H & ->).
  apply marshal_entries_keys in H. destruct H as (tes & -> & E).
  exists str. split; [reflexivity|]. split; [exact Ex|].
  assert (Et : top_keys ([Tok (MapOpen (Z.of_nat (length es))) None] ++
                         flat_map flat_entry tes ++ [Tok MapClose None]) =
               map fst (sort_keys (key_ltb mode) (stringified str es))).
  { cbn [app]. apply top_keys_map. exact E. }
  rewrite Et. split; [reflexivity|]. split; [|split].
  - apply Permutation_map. apply sort_keys_perm.
  - apply StronglySorted_map_fst with (R := fun a b => key_ltb mode b a = false).
    apply sort_keys_sorted_mode.
  - intros Hnd. apply StronglySorted_map_fst with (R := fun a b => key_ltb mode a b = true).
    apply sort_keys_strict_mode. exact Hnd.
Qed.
Print Assumptions map_keys_emitted_in_order.

(* which [mode] applies: the atlas default for a map type without its own
   entry, the entry's mode for a map-morphism entry *)
Theorem map_mode_default A f kt vt o :
  marshal_kind A (S f) (GMap kt vt) (GVMap o) = marshal_map A f (a_mode A) kt vt o.
Proof. reflexivity. Qed.

Theorem map_mode_morphism A f t tg mode kt vt o :
  strip_named t = GMap kt vt ->
  marshal_entry A (S f) (AE t tg (EMapMorphism mode)) (GVMap o) = marshal_map A f mode kt vt o.
Proof. intros E. rewrite marshal_entry_S. cbn [ae_kind ae_type]. rewrite E. reflexivity. Qed.

Corollary map_value_keys_default_mode : forall A f kt vt es ts,
  atlas_get A (GMap kt vt) = None ->
  marshal A f (GMap kt vt) (GVMap (Some es)) = MOk ts ->
  exists str, map_stringer A kt = Some str /\
    top_keys ts = map fst (sort_keys (key_ltb (a_mode A)) (stringified str es)).
Proof.
  intros A f kt vt es ts Hg H.
  destruct f as [|f]; [discriminate|].
  rewrite marshal_S in H. cbn [peel deref] in H.
  destruct f as [|f]; [discriminate|].
  rewrite marshal_bare_S in H. cbn [is_unnamed_prim] in H. rewrite Hg in H.
  cbn [strip_named] in H.
  destruct f as [|f]; [discriminate|]. rewrite map_mode_default in H.
  destruct (map_keys_emitted_in_order _ _ _ _ _ _ _ H) as (str & Hs & _ & Ek & _).
  exists str. split; assumption.
Qed.
Print Assumptions map_value_keys_default_mode.

Corollary map_value_keys_morphism_mode : forall A f t tg mode kt vt es ts,
  strip_named t = GMap kt vt ->
  marshal_entry A f (AE t tg (EMapMorphism mode)) (GVMap (Some es)) = MOk ts ->
  exists str, map_stringer A kt = Some str /\
    top_keys ts = map fst (sort_keys (key_ltb mode) (stringified str es)).
Proof.
  intros A f t tg mode kt vt es ts Hs H. destruct f as [|f]; [discriminate|].
  rewrite (map_mode_morphism _ _ _ _ _ _ _ _ Hs) in H.
  destruct (map_keys_emitted_in_order _ _ _ _ _ _ _ H) as (str & Hst & _ & Ek & _).
  exists str. split; assumption.
Qed.
Print Assumptions map_value_keys_morphism_mode.

(* ====================================================================== *)
(* 5. Struct fields in atlas order                                          *)
(* ====================================================================== *)

Inductive sublist {T} : list T -> list T -> Prop :=
| sl_nil : sublist [] []
| sl_skip x l l' : sublist l l' -> sublist l (x :: l')
| sl_keep x l l' : sublist l l' -> sublist (x :: l) (x :: l').

Lemma filter_sublist {T} (p : T -> bool) l : sublist (filter p l) l.
Proof.
  induction l as [|x r IH]; cbn [filter]; [constructor|].
  destruct (p x); [apply sl_keep | apply sl_skip]; exact IH.
Qed.

Lemma map_sublist {T U} (g : T -> U) l l' : sublist l l' -> sublist (map g l) (map g l').
Proof. induction 1; cbn [map]; constructor; assumption. Qed.

(* C08, struct fields: the keys of an emitted struct are the serial names of
   the live fields (not ignored, route resolves, not omitted-as-empty), in the
   order of the atlas entry. *)
Theorem struct_keys_in_atlas_order : forall A f t tg fields v ts,
  marshal_entry A f (AE t tg (EStruct fields)) v = MOk ts ->
  top_keys ts = map fe_name (live_fields fields v) /\
  live_fields fields v = filter (has_route v) (live_fields fields v) /\
  sublist (top_keys ts) (map fe_name fields).
Proof.
  intros A [|f] t tg fields v ts H; [discriminate|].
  rewrite marshal_entry_S in H. cbn [ae_kind ae_tag] in H. cbv zeta in H.
  apply mprepend_ok in H. destruct H as (ts' & H & ->).
  apply marshal_fields_keys in H. destruct H as (tes & -> & E).
  rewrite live_has_route in E.
  assert (Et : top_keys ([Tok (MapOpen (Z.of_nat (length (live_fields fields v)))) tg] ++
                         flat_map flat_entry tes ++ [Tok MapClose None]) =
               map fe_name (live_fields fields v)).
  { cbn [app]. apply top_keys_map. exact E. }
  rewrite Et. split; [reflexivity|]. split; [symmetry; apply live_has_route|].
  apply map_sublist. unfold live_fields. apply filter_sublist.
Qed.
Print Assumptions struct_keys_in_atlas_order.

(* ====================================================================== *)
(* Examples (non-vacuity)                                                   *)
(* ====================================================================== *)

(* "a" < "ab" < "b" < "é" bytewise; RFC 7049 puts the shorter "b" before "ab" *)
Example cmp_prefix : bytes_ltb [97] [97;98] = true /\ bytes_ltb [97;98] [97] = false.
Proof. vm_compute. split; reflexivity. Qed.
Example cmp_modes :
  key_ltb 0 [97;98] [98] = true /\ key_ltb 2 [97;98] [98] = false /\ key_ltb 2 [98] [97;98] = true /\
  key_ltb 0 [98] [195;169] = true /\ key_ltb 2 [97;98] [195;169] = true.
Proof. vm_compute. repeat split; reflexivity. Qed.

(* a 4-key map, keys "ab", "a", "é" (two bytes), "b", in two iteration orders *)
Definition ex_es : list (gval * gval) :=
  [(GVStr [97;98], VNum 1); (GVStr [97], VNum 2); (GVStr [195;169], VNum 3); (GVStr [98], VNum 4)].
Definition ex_m1 : gval := GVMap (Some ex_es).
Definition ex_m2 : gval := GVMap (Some (rev ex_es)).
Definition ex_ty : gtype := GMap GStr (GNum IInt).

Lemma ex_vperm : vperm ex_m1 ex_m2.
Proof.
  eapply vp_map; [apply Forall2_refl; apply kv_vperm_refl | apply Permutation_rev].
Qed.

Example ex_mode0 :
  marshal_top [] (Atlas [] 0) ex_ty ex_m1 =
    MOk [Tok (MapOpen 4) None; Tok (Str [97]) None; Tok (Int 2) None; Tok (Str [97;98]) None; Tok (Int 1) None;
         Tok (Str [98]) None; Tok (Int 4) None; Tok (Str [195;169]) None; Tok (Int 3) None; Tok MapClose None] /\
  marshal_top [] (Atlas [] 0) ex_ty ex_m2 = marshal_top [] (Atlas [] 0) ex_ty ex_m1.
Proof. vm_compute. split; reflexivity. Qed.

Example ex_mode2 :
  marshal_top [] (Atlas [] 2) ex_ty ex_m1 =
    MOk [Tok (MapOpen 4) None; Tok (Str [97]) None; Tok (Int 2) None; Tok (Str [98]) None; Tok (Int 4) None;
         Tok (Str [97;98]) None; Tok (Int 1) None; Tok (Str [195;169]) None; Tok (Int 3) None; Tok MapClose None] /\
  marshal_top [] (Atlas [] 2) ex_ty ex_m2 = marshal_top [] (Atlas [] 2) ex_ty ex_m1.
Proof. vm_compute. split; reflexivity. Qed.

(* the hypothesis of the theorem holds for these inputs, and the theorem gives the equality *)
Example ex_keys_distinct :
  keys_distinct (Atlas [] 0) 50 ex_ty ex_m1 = true /\ keys_distinct (Atlas [] 2) 50 ex_ty ex_m1 = true.
Proof. vm_compute. split; reflexivity. Qed.

Example ex_by_theorem mode : (mode = 0 \/ mode = 2) ->
  marshal (Atlas [] mode) 50 ex_ty ex_m1 = marshal (Atlas [] mode) 50 ex_ty ex_m2.
Proof.
  intros [->| ->]; apply marshal_perm_invariant; try apply ex_vperm; vm_compute; reflexivity.
Qed.

Example ex_top_keys :
  (forall ts, marshal_top [] (Atlas [] 0) ex_ty ex_m2 = MOk ts ->
              top_keys ts = [[97]; [97;98]; [98]; [195;169]]) /\
  (forall ts, marshal_top [] (Atlas [] 2) ex_ty ex_m2 = MOk ts ->
              top_keys ts = [[97]; [98]; [97;98]; [195;169]]).
Proof. split; intros ts H; vm_compute in H; inversion H; subst; vm_compute; reflexivity. Qed.

(* permutation at depth: maps inside slices inside a map *)
Definition ex_in1 : gval := GVMap (Some [(GVStr [120], VNum 1); (GVStr [121], VNum 2)]).
Definition ex_in2 : gval := GVMap (Some [(GVStr [121], VNum 2); (GVStr [120], VNum 1)]).
Definition ex_d1 : gval :=
  GVMap (Some [(GVStr [107], VSlice (Some [ex_in1; ex_in1])); (GVStr [106], VSlice (Some [ex_in2]))]).
Definition ex_d2 : gval :=
  GVMap (Some [(GVStr [106], VSlice (Some [ex_in1])); (GVStr [107], VSlice (Some [ex_in2; ex_in1]))]).
Definition ex_dty : gtype := GMap GStr (GSlice (GMap GStr (GNum IInt))).

Lemma ex_in12 : vperm ex_in1 ex_in2.
Proof. eapply vp_map; [apply Forall2_refl; apply kv_vperm_refl | apply perm_swap]. Qed.

Lemma ex_deep_vperm : vperm ex_d1 ex_d2.
Proof.
  eapply vp_map with
    (es1 := [(GVStr [107], VSlice (Some [ex_in2; ex_in1])); (GVStr [106], VSlice (Some [ex_in1]))]);
    [|apply perm_swap].
  constructor; [|constructor; [|constructor]].
  - split; [reflexivity|]. apply vp_slice.
    constructor; [apply ex_in12 | constructor; [apply vp_refl | constructor]].
  - split; [reflexivity|]. apply vp_slice.
    constructor; [apply vperm_sym; apply ex_in12 | constructor].
Qed.

Example ex_deep :
  keys_distinct (Atlas [] 0) 60 ex_dty ex_d1 = true /\
  marshal (Atlas [] 0) 60 ex_dty ex_d1 = marshal (Atlas [] 0) 60 ex_dty ex_d2 /\
  marshal (Atlas [] 0) 60 ex_dty ex_d1 <> MFuel.
Proof.
  split; [vm_compute; reflexivity|]. split.
  - apply marshal_perm_invariant; [apply ex_deep_vperm | vm_compute; reflexivity].
  - vm_compute. discriminate.
Qed.

(* struct keys through an injective use of transform kind 6, map-morphism entry with its own mode *)
Definition ex_sA : atlas :=
  Atlas [AE (GStruct 1) None (ETransform 6 GStr);
         AE (GMap (GStruct 1) (GNum IInt)) None (EMapMorphism 2)] 0.
Definition ex_s1 : gval :=
  GVMap (Some [(VStruct [GVStr [97;97]; GVStr [98]], VNum 1); (VStruct [GVStr [99]; GVStr []], VNum 2)]).
Definition ex_s2 : gval :=
  GVMap (Some [(VStruct [GVStr [99]; GVStr []], VNum 2); (VStruct [GVStr [97;97]; GVStr [98]], VNum 1)]).

Example ex_struct_keys :
  keys_distinct ex_sA 30 (GMap (GStruct 1) (GNum IInt)) ex_s1 = true /\
  marshal ex_sA 30 (GMap (GStruct 1) (GNum IInt)) ex_s1 =
    MOk [Tok (MapOpen 2) None; Tok (Str [99;58]) None; Tok (Int 2) None;
         Tok (Str [97;97;58;98]) None; Tok (Int 1) None; Tok MapClose None] /\
  marshal ex_sA 30 (GMap (GStruct 1) (GNum IInt)) ex_s2 = marshal ex_sA 30 (GMap (GStruct 1) (GNum IInt)) ex_s1.
Proof. vm_compute. repeat split; reflexivity. Qed.

(* struct fields: atlas order, ignored / omitted-empty / nil-embedded fields dropped *)
Definition ex_fields : list field_entry :=
  [FE [122] [1%nat] GStr false false;            (* "z" : field 1 *)
   FE [97] [0%nat] (GNum IInt) true false;       (* "a" : field 0, omitempty *)
   FE [109] [2%nat; 0%nat] GStr false false;         (* "m" : through embedded pointer field 2 *)
   FE [105] [1%nat] GStr false true;             (* "i" : ignored *)
   FE [98] [3%nat] GBool false false].           (* "b" : field 3 *)
Definition ex_stA : atlas := Atlas [AE (GStruct 7) None (EStruct ex_fields)] 0.
Definition ex_st : gval := VStruct [VNum 0; GVStr [104]; VPtr None; GVBool true].

Example ex_struct_order :
  forall ts, marshal ex_stA 30 (GStruct 7) ex_st = MOk ts -> top_keys ts = [[122]; [98]].
Proof. intros ts H. vm_compute in H. inversion H; subst. vm_compute. reflexivity. Qed.
