(* AutogenProof.v — property C19: the breadth-first exploration [explore] of
   Autogen.v (a transcription of atlas.AutogenerateStructMapEntryUsingTags /
   exploreFields) selects exactly the fields that Go's promotion rules, applied
   to serial names over the full unfolding of the embedding tree, select
   ([selected]); the result is sorted by the chosen mode, has distinct names,
   every field is addressed by its route, and routes are pairwise unrelated.

   Structure of the development
     A. strict total orders, insertion sort
     B. counting, the order-free selection predicate [sel]
     C. [dominate] on a by_name-sorted list and [select_name] both compute [sel]
     D. fields of a struct: [cands], [embeds]; [unfold] as levels ([full])
     E. addressing: routes determine fields ([field_at]), prefix-freeness
     F. the pruned unfolding ([pruned]) against the full one
     G. the BFS against the pruned unfolding (counts up to "1 versus >= 2")
     H. the main theorems and the examples *)
From Coq Require Import List ZArith Bool Lia ZifyBool ZifyNat Permutation Sorted Arith.
Require Import Tok Utf8 GoVal Marshal Autogen ObjProof.
Import ListNotations.
Open Scope Z_scope.

(* ====================================================================== *)
(* A. strict total orders and insertion sort                                 *)
(* ====================================================================== *)

Record sto {K} (eqb ltb : K -> K -> bool) : Prop := {
  sto_eq : forall a b, eqb a b = true <-> a = b ;
  sto_irrefl : forall a, ltb a a = false ;
  sto_trans : forall a b c, ltb a b = true -> ltb b c = true -> ltb a c = true ;
  sto_total : forall a b, a <> b -> ltb a b = true \/ ltb b a = true }.

Lemma sto_asym {K} (e l : K -> K -> bool) : sto e l -> forall a b, l a b = true -> l b a = false.
Proof.
  intros S a b H. destruct (l b a) eqn:E; [|reflexivity].
  pose proof (sto_trans _ _ S _ _ _ H E) as C. rewrite (sto_irrefl _ _ S) in C. discriminate.
Qed.

Lemma sto_eq_refl {K} (e l : K -> K -> bool) : sto e l -> forall a, e a a = true.
Proof. intros S a. apply (sto_eq _ _ S). reflexivity. Qed.

Lemma sto_dec {K} (e l : K -> K -> bool) : sto e l -> forall a b : K, a = b \/ a <> b.
Proof.
  intros S a b. destruct (e a b) eqn:E.
  - left. apply (sto_eq _ _ S). exact E.
  - right. intros ->. rewrite (sto_eq_refl _ _ S) in E. discriminate.
Qed.

(* le a b := ltb b a = false is transitive *)
Lemma sto_le_trans {K} (e l : K -> K -> bool) : sto e l ->
  forall a b c, l b a = false -> l c b = false -> l c a = false.
Proof.
  intros S a b c H1 H2. destruct (l c a) eqn:E; [|reflexivity].
  destruct (sto_dec _ _ S a b) as [->|Hne].
  - rewrite E in H2. discriminate.
  - destruct (sto_total _ _ S _ _ Hne) as [H|H].
    + rewrite (sto_trans _ _ S _ _ _ E H) in H2. discriminate.
    + rewrite H in H1. discriminate.
Qed.

Lemma sto_antisym {K} (e l : K -> K -> bool) : sto e l ->
  forall a b, l a b = false -> l b a = false -> a = b.
Proof.
  intros S a b H1 H2. destruct (sto_dec _ _ S a b) as [E|Hne]; [exact E|].
  destruct (sto_total _ _ S _ _ Hne) as [H|H]; congruence.
Qed.

(* lexicographic product *)
Definition lexb {A B} (eqa lta : A -> A -> bool) (ltb : B -> B -> bool) (p q : A * B) : bool :=
  if negb (eqa (fst p) (fst q)) then lta (fst p) (fst q) else ltb (snd p) (snd q).
Definition paireqb {A B} (eqa : A -> A -> bool) (eqb : B -> B -> bool) (p q : A * B) : bool :=
  eqa (fst p) (fst q) && eqb (snd p) (snd q).

Lemma sto_lex {A B} (eqa lta : A -> A -> bool) (eqb ltb : B -> B -> bool) :
  sto eqa lta -> sto eqb ltb -> sto (paireqb eqa eqb) (lexb eqa lta ltb).
Proof.
  intros SA SB. constructor.
  - intros [a b] [a' b']. unfold paireqb. cbn [fst snd]. rewrite andb_true_iff.
    rewrite (sto_eq _ _ SA), (sto_eq _ _ SB). split; [intros [-> ->]; reflexivity|]. intros H; inversion H; auto.
  - intros [a b]. unfold lexb. cbn [fst snd]. rewrite (sto_eq_refl _ _ SA). cbn. apply (sto_irrefl _ _ SB).
  - intros [a1 b1] [a2 b2] [a3 b3]. unfold lexb. cbn [fst snd].
    destruct (eqa a1 a2) eqn:E12; cbn [negb].
    + apply (sto_eq _ _ SA) in E12. subst a2.
      destruct (eqa a1 a3) eqn:E13; cbn [negb]; [|auto].
      apply (sto_trans _ _ SB).
    + destruct (eqa a2 a3) eqn:E23; cbn [negb].
      * apply (sto_eq _ _ SA) in E23. subst a3. rewrite E12. cbn. auto.
      * intros H1 H2. pose proof (sto_trans _ _ SA _ _ _ H1 H2) as H3.
        destruct (eqa a1 a3) eqn:E13; cbn [negb]; [|exact H3].
        apply (sto_eq _ _ SA) in E13. subst a3. rewrite (sto_irrefl _ _ SA) in H3. discriminate.
  - intros [a b] [a' b'] Hne. unfold lexb. cbn [fst snd].
    destruct (eqa a a') eqn:E.
    + pose proof E as E'. apply (sto_eq _ _ SA) in E'. subst a'. rewrite E. cbn [negb].
      apply (sto_total _ _ SB). intros ->. apply Hne. reflexivity.
    + assert (Hn : a <> a') by (intros ->; rewrite (sto_eq_refl _ _ SA) in E; discriminate).
      assert (E' : eqa a' a = false).
      { destruct (eqa a' a) eqn:E2; [|reflexivity]. apply (sto_eq _ _ SA) in E2. congruence. }
      rewrite E'. cbn [negb]. apply (sto_total _ _ SA). exact Hn.
Qed.

(* --- bytes --- *)
Lemma ag_bytes_eqb_eq a : forall b, bytes_eqb a b = true <-> a = b.
Proof.
  induction a as [|x a IH]; intros [|y b]; cbn [bytes_eqb]; try (split; [discriminate|discriminate]);
    [split; reflexivity|].
  rewrite andb_true_iff, IH. split; [intros [H ->]; f_equal; lia|]. intros H; inversion H; subst. split; [lia|reflexivity].
Qed.
Lemma ag_bytes_eqb_refl a : bytes_eqb a a = true.
Proof. apply ag_bytes_eqb_eq. reflexivity. Qed.

Lemma ag_bytes_ltb_irrefl a : bytes_ltb a a = false.
Proof. induction a as [|x a IH]; cbn [bytes_ltb]; [reflexivity|]. rewrite Z.ltb_irrefl. exact IH. Qed.

Lemma ag_bytes_ltb_trans a : forall b c, bytes_ltb a b = true -> bytes_ltb b c = true -> bytes_ltb a c = true.
Proof.
  induction a as [|x a IH]; intros [|y b] [|z c]; cbn [bytes_ltb]; try discriminate; try reflexivity.
  destruct (x <? y) eqn:E1; destruct (y <? x) eqn:E2; destruct (y <? z) eqn:E3; destruct (z <? y) eqn:E4;
  destruct (x <? z) eqn:E5; destruct (z <? x) eqn:E6; try reflexivity; try discriminate; try lia.
  apply IH.
Qed.

Lemma ag_bytes_ltb_total a : forall b, a <> b -> bytes_ltb a b = true \/ bytes_ltb b a = true.
Proof.
  induction a as [|x a IH]; intros [|y b] Hne; cbn [bytes_ltb].
  - contradiction Hne; reflexivity.
  - left; reflexivity.
  - right; reflexivity.
  - destruct (x <? y) eqn:E1; [left; reflexivity|]. destruct (y <? x) eqn:E2; [right; reflexivity|].
    assert (x = y) by lia. subst y. apply IH. intros ->. apply Hne. reflexivity.
Qed.

Lemma sto_bytes : sto bytes_eqb bytes_ltb.
Proof.
  constructor; [apply ag_bytes_eqb_eq|apply ag_bytes_ltb_irrefl|apply ag_bytes_ltb_trans|apply ag_bytes_ltb_total].
Qed.

Lemma ag_rfc7049_spec a b :
  rfc7049_ltb a b = true <-> (length a < length b)%nat \/ (length a = length b /\ bytes_ltb a b = true).
Proof.
  unfold rfc7049_ltb.
  destruct (Nat.ltb_spec (length a) (length b)) as [H1|H1].
  - split; [intros _; left; exact H1 | reflexivity].
  - destruct (Nat.ltb_spec (length b) (length a)) as [H2|H2].
    + split; [discriminate|]. intros [H|[H _]]; lia.
    + split; [intros H; right; split; [lia | exact H]|]. intros [H|[_ H]]; [lia | exact H].
Qed.

Lemma sto_rfc7049 : sto bytes_eqb rfc7049_ltb.
Proof.
  constructor.
  - apply ag_bytes_eqb_eq.
  - intros a. destruct (rfc7049_ltb a a) eqn:E; [|reflexivity].
    apply ag_rfc7049_spec in E. destruct E as [E|[_ E]]; [lia|]. rewrite ag_bytes_ltb_irrefl in E. discriminate.
  - intros a b c. rewrite !ag_rfc7049_spec. intros [H1|[H1 L1]] [H2|[H2 L2]]; try (left; lia).
    right. split; [lia|]. eapply ag_bytes_ltb_trans; eassumption.
  - intros a b Hne. rewrite !ag_rfc7049_spec.
    destruct (Nat.lt_trichotomy (length a) (length b)) as [H|[H|H]].
    + left; left; exact H.
    + destruct (ag_bytes_ltb_total a b Hne) as [L|L]; [left|right]; right; split; auto.
    + right; left; exact H.
Qed.

(* --- routes --- *)
Definition route_eqb (a b : list nat) : bool := if list_eq_dec Nat.eq_dec a b then true else false.

Lemma sto_route : sto route_eqb route_ltb.
Proof.
  constructor.
  - intros a b. unfold route_eqb. destruct (list_eq_dec Nat.eq_dec a b); split; congruence.
  - induction a as [|x a IH]; cbn [route_ltb]; [reflexivity|]. rewrite Nat.ltb_irrefl. exact IH.
  - induction a as [|x a IH]; intros [|y b] [|z c]; cbn [route_ltb]; try discriminate; try reflexivity.
    destruct (Nat.ltb_spec x y); destruct (Nat.ltb_spec y x); destruct (Nat.ltb_spec y z);
    destruct (Nat.ltb_spec z y); destruct (Nat.ltb_spec x z); destruct (Nat.ltb_spec z x);
      try reflexivity; try discriminate; try lia.
    apply IH.
  - induction a as [|x a IH]; intros [|y b] Hne; cbn [route_ltb].
    + contradiction Hne; reflexivity.
    + left; reflexivity.
    + right; reflexivity.
    + destruct (Nat.ltb_spec x y); [left; reflexivity|]. destruct (Nat.ltb_spec y x); [right; reflexivity|].
      assert (x = y) by lia. subst y. apply IH. intros ->. apply Hne. reflexivity.
Qed.

(* --- nat, bool (true first) --- *)
Lemma sto_nat : sto Nat.eqb Nat.ltb.
Proof.
  constructor.
  - apply Nat.eqb_eq.
  - apply Nat.ltb_irrefl.
  - intros a b c. rewrite !Nat.ltb_lt. lia.
  - intros a b. rewrite !Nat.ltb_lt. lia.
Qed.

Definition bool_ltb (a b : bool) : bool := a && negb b.
Lemma sto_bool : sto Bool.eqb bool_ltb.
Proof.
  constructor.
  - intros [|] [|]; cbn; split; congruence.
  - intros [|]; reflexivity.
  - intros [|] [|] [|]; cbn; congruence.
  - intros [|] [|]; cbn; intros H; auto; contradiction H; reflexivity.
Qed.

(* --- the by_name order as a lexicographic product on a key --- *)
Definition bn_key (c : cand) : bytes * (nat * (bool * list nat)) :=
  (c_name c, (length (c_route c), (c_tagged c, c_route c))).
Definition bn_klt := lexb bytes_eqb bytes_ltb (lexb Nat.eqb Nat.ltb (lexb Bool.eqb bool_ltb route_ltb)).
Definition bn_keq := paireqb bytes_eqb (paireqb Nat.eqb (paireqb Bool.eqb route_eqb)).

Lemma sto_bn : sto bn_keq bn_klt.
Proof. repeat apply sto_lex; [apply sto_bytes|apply sto_nat|apply sto_bool|apply sto_route]. Qed.

Lemma by_name_ltb_key x y : by_name_ltb x y = bn_klt (bn_key x) (bn_key y).
Proof.
  unfold by_name_ltb, bn_klt, bn_key, lexb. cbn [fst snd].
  destruct (negb (bytes_eqb _ _)); [reflexivity|].
  destruct (negb (Nat.eqb _ _)); [reflexivity|].
  destruct (c_tagged x), (c_tagged y); reflexivity.
Qed.

(* --- insertion sort, generically, for lt x y := klt (key x) (key y) --- *)
Section SortBy.
  Context {X K : Type} (key : X -> K) (keq klt : K -> K -> bool) (S : sto keq klt).
  Let lt (x y : X) := klt (key x) (key y).
  Let le (x y : X) : Prop := lt y x = false.

  Lemma insert_by_perm (f : X -> X -> bool) x l : Permutation (insert_by f x l) (x :: l).
  Proof.
    induction l as [|y r IH]; cbn [insert_by]; [apply Permutation_refl|].
    destruct (f x y); [apply Permutation_refl|].
    eapply perm_trans; [apply perm_skip; exact IH|apply perm_swap].
  Qed.

  Lemma sort_by_perm (f : X -> X -> bool) l : Permutation (sort_by f l) l.
  Proof.
    induction l as [|x r IH]; [apply Permutation_refl|]. unfold sort_by in *. cbn [fold_right].
    eapply perm_trans; [apply insert_by_perm|]. apply perm_skip. exact IH.
  Qed.

  Lemma insert_by_sorted x l : StronglySorted le l -> StronglySorted le (insert_by lt x l).
  Proof.
    induction 1 as [|y r Hs IH Hall]; cbn [insert_by].
    - constructor; constructor.
    - destruct (lt x y) eqn:E.
      + constructor; [constructor; assumption|].
        assert (Hxy : le x y) by (apply (sto_asym _ _ S); exact E).
        constructor; [exact Hxy|].
        rewrite Forall_forall in *. intros z Hz. specialize (Hall z Hz).
        unfold le, lt in *. eapply (sto_le_trans _ _ S); eassumption.
      + constructor; [exact IH|].
        rewrite Forall_forall in *. intros z Hz.
        apply (Permutation_in _ (insert_by_perm lt x r)) in Hz. destruct Hz as [<-|Hz]; [exact E|auto].
  Qed.

  Lemma sort_by_sorted l : StronglySorted le (sort_by lt l).
  Proof.
    induction l as [|x r IH]; [constructor|]. unfold sort_by in *. cbn [fold_right].
    apply insert_by_sorted. exact IH.
  Qed.

  Lemma sorted_strict l : StronglySorted le l -> NoDup (map key l) ->
    StronglySorted (fun x y => lt x y = true) l.
  Proof.
    induction 1 as [|x r Hs IH Hall]; intros Hnd; [constructor|].
    cbn [map] in Hnd. inversion Hnd as [|? ? Hnin Hnd']; subst.
    constructor; [auto|].
    rewrite Forall_forall in *. intros y Hy. specialize (Hall y Hy).
    destruct (lt x y) eqn:E; [reflexivity|].
    exfalso. apply Hnin. unfold le, lt in *.
    rewrite (sto_antisym _ _ S _ _ E Hall). apply in_map. exact Hy.
  Qed.

  Lemma sort_by_strict l : NoDup (map key l) -> StronglySorted (fun x y => lt x y = true) (sort_by lt l).
  Proof.
    intros Hnd. apply sorted_strict; [apply sort_by_sorted|].
    eapply Permutation_NoDup; [|exact Hnd]. apply Permutation_map. apply Permutation_sym, sort_by_perm.
  Qed.
End SortBy.

(* ====================================================================== *)
(* B. counting; the order-free selection predicate                           *)
(* ====================================================================== *)

Definition cnt {X} (p : X -> bool) (l : list X) : nat := length (filter p l).

Lemma cnt_nil {X} (p : X -> bool) : cnt p [] = 0%nat.
Proof. reflexivity. Qed.
Lemma cnt_cons {X} (p : X -> bool) x l : cnt p (x :: l) = ((if p x then 1 else 0) + cnt p l)%nat.
Proof. unfold cnt. cbn [filter]. destruct (p x); reflexivity. Qed.
Lemma cnt_app {X} (p : X -> bool) l1 l2 : cnt p (l1 ++ l2) = (cnt p l1 + cnt p l2)%nat.
Proof. unfold cnt. rewrite filter_app, app_length. reflexivity. Qed.
Lemma cnt_perm {X} (p : X -> bool) l l' : Permutation l l' -> cnt p l = cnt p l'.
Proof.
  induction 1 as [|x l l' _ IH|x y l|l l' l'' _ IH1 _ IH2]; rewrite ?cnt_cons in *; try lia.
Qed.
Lemma cnt_ext_in {X} (p q : X -> bool) l : (forall x, In x l -> p x = q x) -> cnt p l = cnt q l.
Proof.
  induction l as [|x r IH]; intros H; [reflexivity|]. rewrite !cnt_cons, IH, (H x (or_introl eq_refl)); [reflexivity|].
  intros y Hy. apply H. right. exact Hy.
Qed.
Lemma cnt_zero {X} (p : X -> bool) l : (forall x, In x l -> p x = false) -> cnt p l = 0%nat.
Proof.
  induction l as [|x r IH]; intros H; [reflexivity|]. rewrite cnt_cons, IH, (H x (or_introl eq_refl)); [reflexivity|].
  intros y Hy. apply H. right. exact Hy.
Qed.
Lemma cnt_pos_in {X} (p : X -> bool) l : (0 < cnt p l)%nat -> exists x, In x l /\ p x = true.
Proof.
  induction l as [|x r IH]; rewrite ?cnt_nil, ?cnt_cons; [lia|]. destruct (p x) eqn:E.
  - intros _. exists x. split; [left; reflexivity|exact E].
  - intros H. destruct IH as (y & Hy & Py); [lia|]. exists y. split; [right; exact Hy|exact Py].
Qed.
Lemma cnt_in_pos {X} (p : X -> bool) l x : In x l -> p x = true -> (0 < cnt p l)%nat.
Proof.
  induction l as [|y r IH]; [contradiction|]. rewrite cnt_cons. intros [->|H] Px; [rewrite Px; lia|].
  specialize (IH H Px). lia.
Qed.
Lemma cnt_one_unique {X} (p : X -> bool) l x y :
  cnt p l = 1%nat -> In x l -> p x = true -> In y l -> p y = true -> x = y.
Proof.
  induction l as [|z r IH]; [contradiction|]. rewrite cnt_cons. intros Hc Hx Px Hy Py.
  destruct Hx as [->|Hx], Hy as [->|Hy].
  - reflexivity.
  - rewrite Px in Hc. pose proof (cnt_in_pos p r y Hy Py). lia.
  - rewrite Py in Hc. pose proof (cnt_in_pos p r x Hx Px). lia.
  - destruct (p z); [pose proof (cnt_in_pos p r x Hx Px); lia|]. apply IH; auto.
Qed.
Lemma cnt_le_length {X} (p : X -> bool) l : (cnt p l <= length l)%nat.
Proof. unfold cnt. induction l as [|x r IH]; cbn [filter length]; [lia|]. destruct (p x); cbn [length]; lia. Qed.

Lemma filter_filter' {X} (p q : X -> bool) l : filter p (filter q l) = filter (fun x => q x && p x) l.
Proof.
  induction l as [|x r IH]; [reflexivity|]. cbn [filter]. destruct (q x); cbn [filter andb]; [|exact IH].
  destruct (p x); rewrite IH; reflexivity.
Qed.

Lemma length_one {X} (l : list X) : length l = 1%nat -> exists x, l = [x].
Proof. destruct l as [|x [|y r]]; cbn; try discriminate. intros _. exists x. reflexivity. Qed.

(* name n, depth d, and (when tg) tagged *)
Definition pq (n : bytes) (d : nat) (tg : bool) (c : cand) : bool :=
  bytes_eqb (c_name c) n && Nat.eqb (depth_of c) d && implb tg (c_tagged c).

Lemma pq_true n d tg c : pq n d tg c = true <-> c_name c = n /\ depth_of c = d /\ (tg = true -> c_tagged c = true).
Proof.
  unfold pq. rewrite !andb_true_iff, ag_bytes_eqb_eq, Nat.eqb_eq.
  destruct tg, (c_tagged c); cbn; intuition congruence.
Qed.

(* [c] is selected from the candidates [L]: it is at the minimal depth among the candidates of its
   name and is the only one there, or the only tagged one there (counted with multiplicity) *)
Definition sel (L : list cand) (c : cand) : Prop :=
  In c L /\
  (forall y, In y L -> c_name y = c_name c -> (depth_of c <= depth_of y)%nat) /\
  (cnt (pq (c_name c) (depth_of c) false) L = 1%nat \/
   (c_tagged c = true /\ cnt (pq (c_name c) (depth_of c) true) L = 1%nat)).

Lemma sel_perm L L' c : Permutation L L' -> sel L c -> sel L' c.
Proof.
  intros P (Hin & Hmin & Hc). split; [eapply Permutation_in; eassumption|]. split.
  - intros y Hy. apply Hmin. eapply Permutation_in; [apply Permutation_sym; exact P|exact Hy].
  - rewrite <- !(cnt_perm _ _ _ P). exact Hc.
Qed.

Lemma sel_unique_name L c c' : sel L c -> sel L c' -> c_name c = c_name c' -> c = c'.
Proof.
  intros (Hin & Hmin & Hc) (Hin' & Hmin' & Hc') Hn.
  assert (Hd : depth_of c = depth_of c').
  { pose proof (Hmin c' Hin' (eq_sym Hn)). pose proof (Hmin' c Hin Hn). lia. }
  assert (P0 : forall tg, (tg = true -> c_tagged c = true) -> pq (c_name c) (depth_of c) tg c = true).
  { intros tg H. apply pq_true. auto. }
  assert (P1 : forall tg, (tg = true -> c_tagged c' = true) -> pq (c_name c) (depth_of c) tg c' = true).
  { intros tg H. apply pq_true. auto. }
  assert (F : forall tg : bool, false = true -> tg = true) by discriminate.
  destruct Hc as [Hc|[Ht Hc]].
  - exact (cnt_one_unique _ _ c c' Hc Hin (P0 false (F _)) Hin' (P1 false (F _))).
  - rewrite <- Hn, <- Hd in Hc'. destruct Hc' as [Hc'|[Ht' Hc']].
    + exact (cnt_one_unique _ _ c c' Hc' Hin (P0 false (F _)) Hin' (P1 false (F _))).
    + exact (cnt_one_unique _ _ c c' Hc' Hin (P0 true (fun _ => Ht)) Hin' (P1 true (fun _ => Ht'))).
Qed.

Lemma sel_app_l L1 L2 c : (forall y, In y L2 -> c_name y <> c_name c) -> (sel (L1 ++ L2) c <-> sel L1 c).
Proof.
  intros Hno.
  assert (Z : forall tg, cnt (pq (c_name c) (depth_of c) tg) L2 = 0%nat).
  { intros tg. apply cnt_zero. intros y Hy. destruct (pq _ _ _ y) eqn:E; [|reflexivity].
    apply pq_true in E. destruct E as [E _]. exfalso. eapply Hno; eauto. }
  unfold sel. rewrite !cnt_app, !Z, !Nat.add_0_r. split; intros (Hin & Hmin & Hc); (split; [|split; [|exact Hc]]).
  - apply in_app_or in Hin. destruct Hin as [H|H]; [exact H|]. exfalso. eapply Hno; eauto.
  - intros y Hy. apply Hmin. apply in_or_app. left. exact Hy.
  - apply in_or_app. left. exact Hin.
  - intros y Hy Hn. apply in_app_or in Hy. destruct Hy as [H|H]; [auto|]. exfalso. eapply Hno; eauto.
Qed.

Lemma sel_app_r L1 L2 c : (forall y, In y L1 -> c_name y <> c_name c) -> (sel (L1 ++ L2) c <-> sel L2 c).
Proof.
  intros Hno. rewrite <- (sel_app_l L2 L1 c Hno).
  split; apply sel_perm; apply Permutation_app_comm.
Qed.

(* ====================================================================== *)
(* C. select_name and dominate both compute [sel]                            *)
(* ====================================================================== *)

Definition pick1 (top ttop : list cand) : option cand :=
  match top with [c] => Some c | _ => match ttop with [t] => Some t | _ => None end end.
Definition pick2 (top ttop : list cand) : option cand :=
  match ttop with
  | [t] => Some t
  | _ :: _ :: _ => None
  | [] => match top with [c] => Some c | _ => None end
  end.

Lemma pick12 top : pick1 top (filter c_tagged top) = pick2 top (filter c_tagged top).
Proof.
  destruct top as [|a [|b r]]; [reflexivity| |].
  - cbn [filter]. destruct (c_tagged a); reflexivity.
  - unfold pick1, pick2. destruct (filter c_tagged (a :: b :: r)) as [|t [|t' r']]; reflexivity.
Qed.

Lemma top_eq L n d :
  filter (fun c => Nat.eqb (depth_of c) d) (filter (fun c => bytes_eqb (c_name c) n) L) = filter (pq n d false) L.
Proof.
  rewrite filter_filter'. apply filter_ext. intros x. unfold pq. cbn [implb]. rewrite andb_true_r. reflexivity.
Qed.
Lemma ttop_eq L n d : filter c_tagged (filter (pq n d false) L) = filter (pq n d true) L.
Proof.
  rewrite filter_filter'. apply filter_ext. intros x. unfold pq. cbn [implb]. rewrite andb_true_r. reflexivity.
Qed.

Lemma pick_spec L n d :
  (forall y, In y L -> c_name y = n -> (d <= depth_of y)%nat) ->
  forall c, pick1 (filter (pq n d false) L) (filter (pq n d true) L) = Some c <->
            (sel L c /\ c_name c = n /\ depth_of c = d).
Proof.
  intros Hmin c. split.
  - unfold pick1. intros H.
    assert (Hcase : (filter (pq n d false) L = [c]) \/ (filter (pq n d true) L = [c])).
    { destruct (filter (pq n d false) L) as [|a [|b r]];
        [| inversion H; left; reflexivity |];
        (destruct (filter (pq n d true) L) as [|t [|t' r']]; try discriminate; inversion H; right; reflexivity). }
    destruct Hcase as [Ht|Ht].
    + assert (Hc : In c (filter (pq n d false) L)) by (rewrite Ht; left; reflexivity).
      apply filter_In in Hc. destruct Hc as [Hin Hp]. apply pq_true in Hp. destruct Hp as (Hn & Hd & _).
      split; [|auto]. split; [exact Hin|]. split.
      * intros y Hy Hny. rewrite Hd. apply Hmin; [exact Hy|congruence].
      * left. unfold cnt. rewrite Hn, Hd, Ht. reflexivity.
    + assert (Hc : In c (filter (pq n d true) L)) by (rewrite Ht; left; reflexivity).
      apply filter_In in Hc. destruct Hc as [Hin Hp]. apply pq_true in Hp. destruct Hp as (Hn & Hd & Htg).
      split; [|auto]. split; [exact Hin|]. split.
      * intros y Hy Hny. rewrite Hd. apply Hmin; [exact Hy|congruence].
      * right. split; [auto|]. unfold cnt. rewrite Hn, Hd, Ht. reflexivity.
  - intros ((Hin & _ & Hc) & Hn & Hd). rewrite Hn, Hd in Hc.
    assert (Hct : In c (filter (pq n d false) L)).
    { apply filter_In. split; [exact Hin|]. apply pq_true. repeat split; auto. discriminate. }
    destruct Hc as [Hc|[Htg Hc]].
    + apply length_one in Hc. destruct Hc as [x Hx]. rewrite Hx in Hct |- *.
      destruct Hct as [->|[]]. reflexivity.
    + assert (Hctt : In c (filter (pq n d true) L)).
      { apply filter_In. split; [exact Hin|]. apply pq_true. repeat split; auto. }
      apply length_one in Hc. destruct Hc as [x Hx]. rewrite Hx in Hctt |- *.
      destruct Hctt as [->|[]]. unfold pick1.
      destruct (filter (pq n d false) L) as [|a [|b r]]; [reflexivity| |reflexivity].
      destruct Hct as [->|[]]. reflexivity.
Qed.

Lemma fold_min_spec d0 l :
  let d := fold_right Nat.min d0 l in
  (forall x, In x l -> (d <= x)%nat) /\ (d = d0 \/ In d l).
Proof.
  induction l as [|x r [IH1 IH2]]; cbn [fold_right].
  - split; [intros ? []|left; reflexivity].
  - split.
    + intros y [->|Hy]; [apply Nat.le_min_l|]. specialize (IH1 y Hy). lia.
    + destruct (Nat.min_spec x (fold_right Nat.min d0 r)) as [[_ ->]|[_ ->]]; [right; left; reflexivity|].
      destruct IH2 as [E|H]; [left; exact E|right; right; exact H].
Qed.

Theorem select_name_spec L n c : select_name L n = Some c <-> (sel L c /\ c_name c = n).
Proof.
  unfold select_name. cbv zeta. rewrite top_eq, ttop_eq.
  set (same := filter (fun c => bytes_eqb (c_name c) n) L).
  set (d := fold_right Nat.min (match same with c :: _ => depth_of c | [] => O end) (map depth_of same)).
  change (pick1 (filter (pq n d false) L) (filter (pq n d true) L) = Some c <-> sel L c /\ c_name c = n).
  assert (Hsame : forall y, In y same <-> In y L /\ c_name y = n).
  { intros y. unfold same. rewrite filter_In, ag_bytes_eqb_eq. reflexivity. }
  destruct (fold_min_spec (match same with c :: _ => depth_of c | [] => O end) (map depth_of same)) as [Hle Hat].
  fold d in Hle, Hat.
  assert (Hmin : forall y, In y L -> c_name y = n -> (d <= depth_of y)%nat).
  { intros y Hy Hn. apply Hle. apply in_map. apply Hsame. auto. }
  rewrite (pick_spec L n d Hmin c).
  split; [intros (H & Hn & _); auto|]. intros [H Hn]. split; [exact H|]. split; [exact Hn|].
  assert (Hcs : In c same) by (apply Hsame; split; [apply H|exact Hn]).
  assert (Hat' : exists y, In y same /\ depth_of y = d).
  { destruct Hat as [E|Hi].
    - destruct same as [|c0 r]; [contradiction|]. exists c0. split; [left; reflexivity|auto].
    - apply in_map_iff in Hi. destruct Hi as (y & E & Hy). exists y. auto. }
  destruct Hat' as (y & Hy & Hd). apply Hsame in Hy. destruct Hy as [HyL Hyn].
  destruct H as (_ & Hm & _). specialize (Hm y HyL (eq_trans Hyn (eq_sym Hn))).
  specialize (Hmin c (proj1 (proj1 (Hsame c) Hcs)) Hn). lia.
Qed.
Print Assumptions select_name_spec.

(* --- dedup_names, selected --- *)
Lemma existsb_bytes_In x l : existsb (bytes_eqb x) l = true <-> In x l.
Proof.
  rewrite existsb_exists. split.
  - intros (y & Hy & E). apply ag_bytes_eqb_eq in E. subst. exact Hy.
  - intros H. exists x. split; [exact H|apply ag_bytes_eqb_refl].
Qed.

Lemma dedup_names_In x l : In x (dedup_names l) <-> In x l.
Proof.
  induction l as [|y r IH]; [reflexivity|]. cbn [dedup_names].
  destruct (existsb (bytes_eqb y) r) eqn:E.
  - rewrite IH. apply existsb_bytes_In in E. split; [right; assumption|]. intros [->|H]; assumption.
  - cbn [In]. rewrite IH. reflexivity.
Qed.

Lemma dedup_names_NoDup l : NoDup (dedup_names l).
Proof.
  induction l as [|y r IH]; [constructor|]. cbn [dedup_names].
  destruct (existsb (bytes_eqb y) r) eqn:E; [exact IH|].
  constructor; [|exact IH]. rewrite dedup_names_In. intros H. apply existsb_bytes_In in H. congruence.
Qed.

Definition select_all (all : list cand) : list cand :=
  flat_map (fun n => match select_name all n with Some c => [c] | None => [] end) (dedup_names (map c_name all)).

Lemma selected_eq SE id : selected SE id = select_all (unfold (S (length SE)) SE id []).
Proof. reflexivity. Qed.

Theorem select_all_spec all c : In c (select_all all) <-> sel all c.
Proof.
  unfold select_all. rewrite in_flat_map. split.
  - intros (n & _ & H). destruct (select_name all n) as [c'|] eqn:E; [|contradiction].
    destruct H as [->|[]]. apply select_name_spec in E. apply E.
  - intros H. exists (c_name c). split.
    + apply dedup_names_In. apply in_map. apply H.
    + assert (E : select_name all (c_name c) = Some c) by (apply select_name_spec; auto).
      rewrite E. left. reflexivity.
Qed.
Print Assumptions select_all_spec.

Lemma select_all_names_NoDup all : NoDup (map c_name (select_all all)).
Proof.
  unfold select_all.
  assert (G : forall ns, NoDup ns ->
    NoDup (map c_name (flat_map (fun n => match select_name all n with Some c => [c] | None => [] end) ns)) /\
    (forall m, In m (map c_name (flat_map (fun n => match select_name all n with Some c => [c] | None => [] end) ns)) -> In m ns)).
  { induction 1 as [|n ns Hn Hnd [IH1 IH2]]; cbn [flat_map map]; [split; [constructor|intros ? []]|].
    destruct (select_name all n) as [c|] eqn:E.
    - apply select_name_spec in E. destruct E as [_ E]. cbn [app map]. split.
      + constructor; [|exact IH1]. rewrite E. intros H. apply Hn. apply IH2. exact H.
      + intros m [<-|H]; [left; auto|right; apply IH2; exact H].
    - cbn [app]. split; [exact IH1|]. intros m H. right. apply IH2. exact H. }
  apply G. apply dedup_names_NoDup.
Qed.

(* --- dominate on a by_name-sorted list --- *)
Definition le_bn (x y : cand) : Prop := by_name_ltb y x = false.
Definition name_lt (x y : cand) : Prop := bytes_ltb (c_name x) (c_name y) = true.

Lemma le_bn_name x y : le_bn x y -> bytes_ltb (c_name y) (c_name x) = false.
Proof.
  unfold le_bn, by_name_ltb. destruct (bytes_eqb (c_name y) (c_name x)) eqn:E; cbn [negb]; [|auto].
  apply ag_bytes_eqb_eq in E. rewrite E. intros _. apply ag_bytes_ltb_irrefl.
Qed.

Lemma le_bn_depth x y : le_bn x y -> c_name x = c_name y -> (depth_of x <= depth_of y)%nat.
Proof.
  unfold le_bn, by_name_ltb, depth_of. intros H E. rewrite E, ag_bytes_eqb_refl in H. cbn [negb] in H.
  destruct (Nat.eqb_spec (length (c_route y)) (length (c_route x))) as [E2|E2]; cbn [negb] in H; [lia|].
  apply Nat.ltb_ge in H. exact H.
Qed.

Lemma StronglySorted_app_inv {X} (R : X -> X -> Prop) a b :
  StronglySorted R (a ++ b) ->
  StronglySorted R a /\ StronglySorted R b /\ (forall x y, In x a -> In y b -> R x y).
Proof.
  induction a as [|x a IH]; cbn [app]; intros H.
  - split; [constructor|]. split; [exact H|]. intros ? ? [].
  - inversion H as [|? ? Hs Hall]; subst. destruct (IH Hs) as (Ha & Hb & Hab).
    rewrite Forall_forall in Hall. split; [|split; [exact Hb|]].
    + constructor; [exact Ha|]. rewrite Forall_forall. intros y Hy. apply Hall. apply in_or_app. left. exact Hy.
    + intros x' y [->|Hx] Hy; [apply Hall; apply in_or_app; right; exact Hy|auto].
Qed.

Lemma take_run_spec n l : forall a b, take_run n l = (a, b) ->
  l = a ++ b /\ (forall y, In y a -> c_name y = n) /\ match b with [] => True | z :: _ => c_name z <> n end.
Proof.
  induction l as [|c r IH]; cbn [take_run]; intros a b H.
  - inversion H; subst. split; [reflexivity|]. split; [intros ? []|exact I].
  - destruct (bytes_eqb (c_name c) n) eqn:E.
    + destruct (take_run n r) as [a' b'] eqn:Et. inversion H; subst.
      destruct (IH _ _ eq_refl) as (-> & Ha & Hb). apply ag_bytes_eqb_eq in E.
      split; [reflexivity|]. split; [|exact Hb]. intros y [<-|Hy]; auto.
    + inversion H; subst. split; [reflexivity|]. split; [intros ? []|].
      intros Hn. rewrite Hn, ag_bytes_eqb_refl in E. discriminate.
Qed.

Lemma dominant_spec R c0 run n :
  R = c0 :: run -> (forall y, In y R -> c_name y = n) ->
  (forall y, In y R -> (depth_of c0 <= depth_of y)%nat) ->
  forall c, dominant R = Some c <-> sel R c.
Proof.
  intros HR Hn Hd c.
  assert (E : dominant R = pick1 (filter (pq n (depth_of c0) false) R) (filter (pq n (depth_of c0) true) R)).
  { rewrite <- ttop_eq, pick12. subst R. unfold dominant. cbv zeta.
    assert (F : filter (fun c1 => Nat.eqb (length (c_route c1)) (length (c_route c0))) (c0 :: run)
                = filter (pq n (depth_of c0) false) (c0 :: run)).
    { apply filter_ext_in. intros y Hy. unfold pq. rewrite (Hn y Hy), ag_bytes_eqb_refl. cbn [implb andb].
      rewrite andb_true_r. reflexivity. }
    rewrite F. reflexivity. }
  rewrite E, pick_spec; [|intros y Hy _; apply Hd; exact Hy].
  split; [intros H; apply H|]. intros H. split; [exact H|]. split; [apply Hn; apply H|].
  assert (H0 : In c0 R) by (subst R; left; reflexivity).
  destruct H as (Hin & Hm & _). specialize (Hm c0 H0). rewrite (Hn c0 H0), (Hn c Hin) in Hm.
  specialize (Hm eq_refl). specialize (Hd c Hin). lia.
Qed.

Lemma dominant_single c : dominant [c] = Some c.
Proof. unfold dominant. cbn [filter]. rewrite Nat.eqb_refl. cbn [filter]. destruct (c_tagged c); reflexivity. Qed.

Lemma bytes_ne_dec (a b : bytes) : a = b \/ a <> b.
Proof. apply (sto_dec _ _ sto_bytes). Qed.

Theorem dominate_spec : forall fuel l, (length l < fuel)%nat -> StronglySorted le_bn l ->
  (forall c, In c (dominate fuel l) <-> sel l c) /\ StronglySorted name_lt (dominate fuel l).
Proof.
  induction fuel as [|f IH]; intros l Hlen Hs; [lia|].
  destruct l as [|c0 r].
  - cbn [dominate]. split; [|constructor]. intros c. split; [intros []|intros [[] _]].
  - cbn [dominate]. destruct (take_run (c_name c0) r) as [run rest] eqn:Et.
    destruct (take_run_spec _ _ _ _ Et) as (Hr & Hrun & Hrest).
    set (n := c_name c0) in *. set (R := c0 :: run).
    assert (Hl : c0 :: r = R ++ rest) by (unfold R; rewrite Hr; reflexivity).
    rewrite Hl in Hs. destruct (StronglySorted_app_inv _ _ _ Hs) as (HsR & Hsrest & Hcross).
    assert (HRn : forall y, In y R -> c_name y = n).
    { intros y [<-|Hy]; [reflexivity|auto]. }
    assert (HRd : forall y, In y R -> (depth_of c0 <= depth_of y)%nat).
    { intros y [<-|Hy]; [lia|]. inversion HsR as [|? ? _ Hall]; subst. rewrite Forall_forall in Hall.
      apply le_bn_depth; [apply Hall; exact Hy|]. symmetry. apply Hrun. exact Hy. }
    assert (Hgt : forall y, In y rest -> bytes_ltb n (c_name y) = true).
    { destruct rest as [|z rest']; [intros ? []|].
      assert (Hz : bytes_ltb n (c_name z) = true).
      { assert (Hle : bytes_ltb (c_name z) n = false).
        { apply (le_bn_name c0 z). apply Hcross; left; reflexivity. }
        destruct (ag_bytes_ltb_total n (c_name z)) as [H|H]; [congruence|exact H|congruence]. }
      intros y [<-|Hy]; [exact Hz|].
      inversion Hsrest as [|? ? _ Hall]; subst. rewrite Forall_forall in Hall.
      pose proof (le_bn_name _ _ (Hall y Hy)) as Hzy.
      destruct (bytes_ltb n (c_name y)) eqn:E; [reflexivity|].
      rewrite (sto_le_trans _ _ sto_bytes _ _ _ Hzy E) in Hz. discriminate. }
    assert (Hne : forall y, In y rest -> c_name y <> n).
    { intros y Hy E. specialize (Hgt y Hy). rewrite E, ag_bytes_ltb_irrefl in Hgt. discriminate. }
    assert (Hlen' : (length rest < f)%nat).
    { cbn [length] in Hlen. rewrite Hr, app_length in Hlen. lia. }
    destruct (IH rest Hlen' Hsrest) as [IHin IHs].
    assert (Hdom : forall c, dominant R = Some c <-> sel R c) by (apply (dominant_spec R c0 run n); auto).
    assert (Heq : match run with
                  | [] => c0 :: dominate f rest
                  | _ :: _ => match dominant R with
                              | Some d => d :: dominate f rest
                              | None => dominate f rest
                              end
                  end = (match dominant R with Some d => [d] | None => [] end) ++ dominate f rest).
    { unfold R. destruct run as [|c1 run']; [rewrite dominant_single; reflexivity|].
      destruct (dominant (c0 :: c1 :: run')); reflexivity. }
    rewrite Heq, Hl. split.
    + intros c. rewrite in_app_iff. split.
      * intros [H|H].
        -- destruct (dominant R) as [d|] eqn:Ed; [|contradiction]. destruct H as [->|[]].
           clear Ed. assert (Ed : sel R c) by (apply Hdom; reflexivity). apply sel_app_l; [|exact Ed].
           intros y Hy. rewrite (HRn c (proj1 Ed)). apply Hne. exact Hy.
        -- apply IHin in H. apply sel_app_r; [|exact H].
           intros y Hy. rewrite (HRn y Hy). intros E. apply (Hne c); [apply H|auto].
      * intros H. destruct (bytes_ne_dec (c_name c) n) as [E|E].
        -- left. apply sel_app_l in H; [|intros y Hy; rewrite E; apply Hne; exact Hy].
           apply Hdom in H. rewrite H. left. reflexivity.
        -- right. apply IHin. apply sel_app_r in H; [exact H|].
           intros y Hy. rewrite (HRn y Hy). congruence.
    + destruct (dominant R) as [d|] eqn:Ed; cbn [app]; [|exact IHs].
      constructor; [exact IHs|]. rewrite Forall_forall. intros y Hy.
      clear Ed. assert (Ed : sel R d) by (apply Hdom; reflexivity). unfold name_lt. rewrite (HRn d (proj1 Ed)). apply Hgt. apply IHin in Hy. apply Hy.
Qed.
Print Assumptions dominate_spec.

(* ====================================================================== *)
(* D. the fields of one struct; the unfolding by levels                      *)
(* ====================================================================== *)

Definition fields_of (SE : senv) (id : Z) : list sfield :=
  match senv_get SE id with Some fs => fs | None => [] end.

Fixpoint cands_from (fs : list sfield) (i : nat) (route : list nat) : list cand :=
  match fs with
  | [] => []
  | sf :: r => match classify route i sf with
               | FCand c => c :: cands_from r (S i) route
               | _ => cands_from r (S i) route
               end
  end.
Fixpoint embeds_from (fs : list sfield) (i : nat) (route : list nat) : list (list nat * Z) :=
  match fs with
  | [] => []
  | sf :: r => match classify route i sf with
               | FEmbed id' => (route ++ [i], id') :: embeds_from r (S i) route
               | _ => embeds_from r (S i) route
               end
  end.

(* a path: the route to an embedded struct and its id *)
Definition path := (list nat * Z)%type.
Definition cands (SE : senv) (p : path) : list cand := cands_from (fields_of SE (snd p)) O (fst p).
Definition embeds (SE : senv) (p : path) : list path := embeds_from (fields_of SE (snd p)) O (fst p).

Definition set_route (r : list nat) (c : cand) : cand := Cand (c_name c) r (c_type c) (c_tagged c) (c_omit c).

Lemma classify_route r i sf :
  classify r i sf = match classify [] i sf with
                    | FSkip => FSkip
                    | FCand c => FCand (set_route (r ++ [i]) c)
                    | FEmbed id => FEmbed id
                    end.
Proof.
  unfold classify.
  destruct (negb (sf_exported sf) && negb (sf_anon sf)); [reflexivity|].
  destruct (sf_anon sf && negb (sf_exported sf) && _); [reflexivity|].
  destruct (bytes_eqb (sf_tag sf) [45]); [reflexivity|].
  destruct (tag_split (sf_tag sf) []) as [nm0 opts].
  destruct (_ || _); [reflexivity|].
  destruct (struct_id (follow (sf_type sf))); reflexivity.
Qed.

Lemma classify_cand_route r i sf c : classify r i sf = FCand c -> c_route c = r ++ [i].
Proof. rewrite classify_route. destruct (classify [] i sf); try discriminate. intros H; inversion H. reflexivity. Qed.

Lemma cands_from_reroute fs r r' : forall i,
  cands_from fs i r' = map (fun c => set_route (r' ++ [last (c_route c) O]) c) (cands_from fs i r).
Proof.
  induction fs as [|sf fs IH]; intros i; [reflexivity|]. cbn [cands_from].
  rewrite (classify_route r), (classify_route r'). destruct (classify [] i sf); [apply IH| |apply IH].
  cbn [map]. rewrite <- IH. f_equal. unfold set_route. cbn [c_route c_name c_type c_tagged c_omit].
  rewrite last_last. reflexivity.
Qed.

Lemma cands_from_names fs r r' i : map c_name (cands_from fs i r') = map c_name (cands_from fs i r).
Proof. rewrite (cands_from_reroute fs r r'), map_map. reflexivity. Qed.

Lemma cands_from_depth fs r : forall i c, In c (cands_from fs i r) -> depth_of c = S (length r).
Proof.
  induction fs as [|sf fs IH]; intros i c; [intros []|]. cbn [cands_from].
  destruct (classify r i sf) eqn:E; [apply IH| |apply IH].
  intros [<-|H]; [|eapply IH; exact H]. unfold depth_of. rewrite (classify_cand_route _ _ _ _ E), app_length. cbn. lia.
Qed.

Lemma cands_depth SE p c : In c (cands SE p) -> depth_of c = S (length (fst p)).
Proof. apply cands_from_depth. Qed.

Lemma cnt_pq_reroute fs r r' n d tg : length r = length r' -> forall i,
  cnt (pq n d tg) (cands_from fs i r') = cnt (pq n d tg) (cands_from fs i r).
Proof.
  intros Hl. induction fs as [|sf fs IH]; intros i; [reflexivity|]. cbn [cands_from].
  rewrite (classify_route r), (classify_route r'). destruct (classify [] i sf); [apply IH| |apply IH].
  rewrite !cnt_cons, IH. f_equal.
  unfold pq, depth_of, set_route. cbn [c_name c_route c_tagged]. rewrite !app_length, Hl. reflexivity.
Qed.

Lemma embeds_from_ids fs r r' : forall i, map snd (embeds_from fs i r') = map snd (embeds_from fs i r).
Proof.
  induction fs as [|sf fs IH]; intros i; [reflexivity|]. cbn [embeds_from].
  rewrite (classify_route r), (classify_route r'). destruct (classify [] i sf); [apply IH|apply IH|].
  cbn [map snd]. rewrite IH. reflexivity.
Qed.

Lemma embeds_from_len fs r : forall i p, In p (embeds_from fs i r) -> length (fst p) = S (length r).
Proof.
  induction fs as [|sf fs IH]; intros i p; [intros []|]. cbn [embeds_from].
  destruct (classify r i sf) eqn:E; [apply IH|apply IH|].
  intros [<-|H]; [|eapply IH; exact H]. cbn [fst]. rewrite app_length. cbn. lia.
Qed.

Lemma embeds_len SE p p' : In p' (embeds SE p) -> length (fst p') = S (length (fst p)).
Proof. apply embeds_from_len. Qed.

Lemma cands_names SE r r' T : map c_name (cands SE (r', T)) = map c_name (cands SE (r, T)).
Proof. apply cands_from_names. Qed.
Lemma embeds_ids SE r r' T : map snd (embeds SE (r', T)) = map snd (embeds SE (r, T)).
Proof. apply embeds_from_ids. Qed.
Lemma cands_cnt SE r r' T n d tg : length r = length r' ->
  cnt (pq n d tg) (cands SE (r', T)) = cnt (pq n d tg) (cands SE (r, T)).
Proof. intros H. apply cnt_pq_reroute. exact H. Qed.

(* --- unfold, one step --- *)
Lemma unfold_S f SE id route :
  Permutation (unfold (S f) SE id route)
              (cands SE (route, id) ++ flat_map (fun p => unfold f SE (snd p) (fst p)) (embeds SE (route, id))).
Proof.
  unfold cands, embeds. cbn [unfold fst snd]. fold (fields_of SE id).
  generalize (fields_of SE id) as fs. generalize O as i. intros i fs. revert i.
  induction fs as [|sf fs IH]; intros i; [apply Permutation_refl|].
  cbn [cands_from embeds_from]. destruct (classify route i sf) eqn:E.
  - apply IH.
  - cbn [app]. apply perm_skip. apply IH.
  - cbn [flat_map fst snd].
    eapply perm_trans; [apply Permutation_app_head; apply IH|].
    rewrite !app_assoc. apply Permutation_app_tail. apply Permutation_app_comm.
Qed.

Fixpoint full (fuel : nat) (SE : senv) (P : list path) : list cand :=
  match fuel with
  | O => []
  | S f => flat_map (cands SE) P ++ full f SE (flat_map (embeds SE) P)
  end.

Lemma flat_map_perm {X Y} (g : X -> list Y) l l' : Permutation l l' -> Permutation (flat_map g l) (flat_map g l').
Proof.
  induction 1 as [|x l l' _ IH|x y l|l l' l'' _ IH1 _ IH2]; cbn [flat_map].
  - apply Permutation_refl.
  - apply Permutation_app_head. exact IH.
  - rewrite !app_assoc. apply Permutation_app_tail. apply Permutation_app_comm.
  - eapply perm_trans; eassumption.
Qed.

Lemma full_perm f SE : forall P P', Permutation P P' -> Permutation (full f SE P) (full f SE P').
Proof.
  induction f as [|f IH]; intros P P' H; [apply Permutation_refl|]. cbn [full].
  apply Permutation_app; [apply flat_map_perm; exact H|]. apply IH. apply flat_map_perm. exact H.
Qed.

Lemma full_app f SE : forall P1 P2, Permutation (full f SE (P1 ++ P2)) (full f SE P1 ++ full f SE P2).
Proof.
  induction f as [|f IH]; intros P1 P2; [apply Permutation_refl|]. cbn [full].
  rewrite !flat_map_app.
  eapply perm_trans; [apply Permutation_app_head; apply IH|].
  rewrite <- !app_assoc. apply Permutation_app_head.
  rewrite !app_assoc. apply Permutation_app_tail. apply Permutation_app_comm.
Qed.

Lemma full_nil f SE : full f SE [] = [].
Proof. induction f as [|f IH]; [reflexivity|]. cbn [full flat_map app]. exact IH. Qed.

Lemma full_flat f SE L : Permutation (flat_map (fun p => full f SE [p]) L) (full f SE L).
Proof.
  induction L as [|p L IH]; cbn [flat_map].
  - rewrite full_nil. apply Permutation_refl.
  - eapply perm_trans; [apply Permutation_app_head; exact IH|].
    apply Permutation_sym. apply (full_app f SE [p] L).
Qed.

Theorem unfold_full SE : forall f id route, Permutation (unfold f SE id route) (full f SE [(route, id)]).
Proof.
  induction f as [|f IH]; intros id route; [apply Permutation_refl|].
  eapply perm_trans; [apply unfold_S|]. cbn [full flat_map]. rewrite !app_nil_r.
  apply Permutation_app_head.
  eapply perm_trans; [|apply full_flat].
  induction (embeds SE (route, id)) as [|p L IHL]; cbn [flat_map]; [apply Permutation_refl|].
  apply Permutation_app; [destruct p; apply IH|exact IHL].
Qed.
Print Assumptions unfold_full.

(* ====================================================================== *)
(* E. addressing: a route determines the field                               *)
(* ====================================================================== *)

Lemma cands_from_nth fs r : forall i c, In c (cands_from fs i r) ->
  exists j sf, nth_error fs j = Some sf /\ classify r (i + j) sf = FCand c.
Proof.
  induction fs as [|sf fs IH]; intros i c; [intros []|]. cbn [cands_from].
  assert (Hrec : In c (cands_from fs (S i) r) ->
                 exists j sf0, nth_error (sf :: fs) j = Some sf0 /\ classify r (i + j) sf0 = FCand c).
  { intros H. destruct (IH _ _ H) as (j & sf0 & Hn & Hc). exists (S j), sf0. split; [exact Hn|].
    rewrite <- Hc. f_equal. lia. }
  destruct (classify r i sf) eqn:E; [exact Hrec| |exact Hrec].
  intros [<-|H]; [|auto]. exists O, sf. split; [reflexivity|]. rewrite Nat.add_0_r. exact E.
Qed.

Lemma embeds_from_nth fs r : forall i p, In p (embeds_from fs i r) ->
  exists j sf, nth_error fs j = Some sf /\ classify r (i + j) sf = FEmbed (snd p) /\ fst p = r ++ [(i + j)%nat].
Proof.
  induction fs as [|sf fs IH]; intros i p; [intros []|]. cbn [embeds_from].
  assert (Hrec : In p (embeds_from fs (S i) r) ->
                 exists j sf0, nth_error (sf :: fs) j = Some sf0 /\ classify r (i + j) sf0 = FEmbed (snd p)
                               /\ fst p = r ++ [(i + j)%nat]).
  { intros H. destruct (IH _ _ H) as (j & sf0 & Hn & Hc & Hr). exists (S j), sf0. split; [exact Hn|].
    replace (i + S j)%nat with (S i + j)%nat by lia. auto. }
  destruct (classify r i sf) eqn:E; [exact Hrec|exact Hrec|].
  intros [<-|H]; [|auto]. exists O, sf. rewrite Nat.add_0_r. cbn [fst snd]. auto.
Qed.

(* follow a route from struct [id] (reached along [pre]): every index but the last must select an
   embedded struct (or pointer to struct) field that is explored; the result is the last field *)
Fixpoint field_at (SE : senv) (id : Z) (pre rt : list nat) : option (list nat * nat * sfield) :=
  match rt with
  | [] => None
  | i :: rest =>
      match nth_error (fields_of SE id) i with
      | None => None
      | Some sf =>
          match rest with
          | [] => Some (pre, i, sf)
          | _ :: _ => match classify pre i sf with
                      | FEmbed id' => field_at SE id' (pre ++ [i]) rest
                      | _ => None
                      end
          end
      end
  end.

Lemma unfold_addr SE : forall f id route c, In c (unfold f SE id route) ->
  exists rest pre i sf, c_route c = route ++ rest /\ field_at SE id route rest = Some (pre, i, sf)
                        /\ classify pre i sf = FCand c.
Proof.
  induction f as [|f IH]; intros id route c; [intros []|].
  intros H. apply (Permutation_in _ (unfold_S f SE id route)) in H. apply in_app_or in H.
  destruct H as [H|H].
  - apply cands_from_nth in H. destruct H as (j & sf & Hn & Hc). cbn [snd fst Nat.add] in *.
    exists [j], route, j, sf. split; [apply (classify_cand_route _ _ _ _ Hc)|]. split; [|exact Hc].
    cbn [field_at]. rewrite Hn. reflexivity.
  - apply in_flat_map in H. destruct H as (p & Hp & H).
    apply embeds_from_nth in Hp. destruct Hp as (j & sf & Hn & Hc & Hr). cbn [snd fst Nat.add] in *.
    apply IH in H. destruct H as (rest & pre & i & sf' & Hroute & Hat & Hcl).
    exists (j :: rest), pre, i, sf'. split; [|split; [|exact Hcl]].
    + rewrite Hroute, Hr, <- app_assoc. reflexivity.
    + cbn [field_at]. rewrite Hn. destruct rest as [|k rest']; [discriminate Hat|].
      rewrite Hc, <- Hr. exact Hat.
Qed.

Theorem unfold_addresses SE f id c : In c (unfold f SE id []) ->
  exists pre i sf, field_at SE id [] (c_route c) = Some (pre, i, sf) /\ classify pre i sf = FCand c
                   /\ c_route c = pre ++ [i].
Proof.
  intros H. apply unfold_addr in H. destruct H as (rest & pre & i & sf & Hr & Hat & Hc).
  cbn [app] in Hr. subst rest. exists pre, i, sf. split; [exact Hat|]. split; [exact Hc|].
  apply (classify_cand_route _ _ _ _ Hc).
Qed.
Print Assumptions unfold_addresses.

(* what [classify = FCand] says about the field *)
Definition tag_name (sf : sfield) : bytes := fst (tag_split (sf_tag sf) []).
Definition tag_opts (sf : sfield) : bytes := snd (tag_split (sf_tag sf) []).
Definition unexported_embedded (sf : sfield) : bool := sf_anon sf && negb (sf_exported sf).
Definition tag_usable (sf : sfield) : bool := is_valid_tag (tag_name sf) && negb (unexported_embedded sf).

Theorem classify_cand_inv r i sf c : classify r i sf = FCand c ->
  c_route c = r ++ [i] /\ c_type c = sf_type sf /\
  (sf_exported sf = true \/ sf_anon sf = true) /\
  bytes_eqb (sf_tag sf) [45] = false /\
  (unexported_embedded sf = true -> exists id, struct_id (follow (sf_type sf)) = Some id) /\
  c_omit c = opts_contains (tag_opts sf) omitempty_word /\
  c_tagged c = tag_usable sf /\
  c_name c = (if tag_usable sf then tag_name sf else downcase_first (sf_name sf)) /\
  (sf_anon sf = true -> tag_usable sf = false -> struct_id (follow (sf_type sf)) = None).
Proof.
  unfold classify, tag_usable, tag_name, tag_opts, unexported_embedded.
  destruct (sf_exported sf), (sf_anon sf); cbn [negb andb]; try discriminate.
  - destruct (bytes_eqb (sf_tag sf) [45]); [discriminate|].
    destruct (tag_split (sf_tag sf) []) as [nm0 opts]. cbn [fst snd]. rewrite andb_true_r.
    destruct (is_valid_tag nm0) eqn:Ev.
    + destruct nm0 as [|b nm0]; [discriminate Ev|]. cbn [orb]. intros H; inversion H; subst.
      cbn [c_route c_type c_omit c_tagged c_name]. repeat split; auto; try discriminate.
    + cbn [orb negb]. destruct (struct_id (follow (sf_type sf))) eqn:Es; [discriminate|].
      intros H; inversion H; subst. cbn [c_route c_type c_omit c_tagged c_name]. repeat split; auto; discriminate.
  - destruct (bytes_eqb (sf_tag sf) [45]); [discriminate|].
    destruct (tag_split (sf_tag sf) []) as [nm0 opts]. cbn [fst snd]. rewrite andb_true_r.
    destruct (is_valid_tag nm0) eqn:Ev.
    + destruct nm0 as [|b nm0]; [discriminate Ev|]. cbn [orb]. intros H; inversion H; subst.
      cbn [c_route c_type c_omit c_tagged c_name]. repeat split; auto; try discriminate.
    + cbn [orb negb]. intros H; inversion H; subst.
      cbn [c_route c_type c_omit c_tagged c_name]. repeat split; auto; discriminate.
  - destruct (struct_id (follow (sf_type sf))) as [id'|] eqn:Es; [|discriminate]. cbn [andb].
    destruct (bytes_eqb (sf_tag sf) [45]); [discriminate|].
    destruct (tag_split (sf_tag sf) []) as [nm0 opts]. cbn [fst snd]. rewrite andb_false_r.
    cbn [orb negb]. discriminate.
Qed.
Print Assumptions classify_cand_inv.

(* and [classify = FEmbed]: an untagged embedded field whose type is a struct or a pointer to one *)
Theorem classify_embed_inv r i sf id : classify r i sf = FEmbed id ->
  sf_anon sf = true /\ struct_id (follow (sf_type sf)) = Some id /\ tag_usable sf = false /\
  bytes_eqb (sf_tag sf) [45] = false.
Proof.
  unfold classify, tag_usable, tag_name, unexported_embedded.
  destruct (sf_exported sf), (sf_anon sf); cbn [negb andb]; try discriminate.
  - destruct (bytes_eqb (sf_tag sf) [45]); [discriminate|].
    destruct (tag_split (sf_tag sf) []) as [nm0 opts]. cbn [fst snd]. rewrite andb_true_r.
    destruct (is_valid_tag nm0) eqn:Ev.
    + destruct nm0 as [|b nm0]; [discriminate Ev|]. cbn [orb]. discriminate.
    + cbn [orb negb]. destruct (struct_id (follow (sf_type sf))) eqn:Es; [|discriminate].
      intros H; inversion H; subst. auto.
  - destruct (bytes_eqb (sf_tag sf) [45]); [discriminate|].
    destruct (tag_split (sf_tag sf) []) as [nm0 opts]. cbn [fst snd]. rewrite andb_true_r.
    destruct (is_valid_tag nm0) eqn:Ev.
    + destruct nm0 as [|b nm0]; [discriminate Ev|]. cbn [orb]. discriminate.
    + cbn [orb negb]. discriminate.
  - destruct (struct_id (follow (sf_type sf))) as [id'|] eqn:Es; [|discriminate]. cbn [andb].
    destruct (bytes_eqb (sf_tag sf) [45]); [discriminate|].
    destruct (tag_split (sf_tag sf) []) as [nm0 opts]. cbn [fst snd]. rewrite andb_false_r.
    cbn [orb negb]. intros H; inversion H; subst. auto.
Qed.
Print Assumptions classify_embed_inv.

Lemma field_at_prefix SE : forall r1 id pre s pre1 i1 sf1,
  field_at SE id pre r1 = Some (pre1, i1, sf1) -> s <> [] ->
  field_at SE id pre (r1 ++ s) = match classify pre1 i1 sf1 with
                                 | FEmbed id' => field_at SE id' (pre1 ++ [i1]) s
                                 | _ => None
                                 end.
Proof.
  induction r1 as [|i rest IH]; intros id pre s pre1 i1 sf1 H Hs; [discriminate H|].
  cbn [field_at app] in *. destruct (nth_error (fields_of SE id) i) as [sf|]; [|discriminate H].
  destruct rest as [|k rest'].
  - inversion H; subst. cbn [app]. destruct s as [|x s']; [contradiction Hs; reflexivity|]. reflexivity.
  - cbn [app]. destruct (classify pre i sf) as [| |id']; try discriminate H.
    apply (IH _ _ _ _ _ _ H Hs).
Qed.

Lemma is_prefix_app a : forall b, is_prefix a b = true -> exists s, b = a ++ s.
Proof.
  induction a as [|x a IH]; intros b H; [exists b; reflexivity|].
  destruct b as [|y b]; [discriminate H|]. cbn [is_prefix] in H. apply andb_true_iff in H.
  destruct H as [E H]. apply Nat.eqb_eq in E. subst y. destruct (IH _ H) as [s ->]. exists s. reflexivity.
Qed.

Theorem unfold_prefix_eq SE f id c1 c2 :
  In c1 (unfold f SE id []) -> In c2 (unfold f SE id []) ->
  is_prefix (c_route c1) (c_route c2) = true -> c1 = c2.
Proof.
  intros H1 H2 Hp.
  apply unfold_addresses in H1. destruct H1 as (pre1 & i1 & sf1 & Hat1 & Hc1 & _).
  apply unfold_addresses in H2. destruct H2 as (pre2 & i2 & sf2 & Hat2 & Hc2 & _).
  apply is_prefix_app in Hp. destruct Hp as [s Hs]. destruct s as [|x s].
  - rewrite app_nil_r in Hs. rewrite Hs, Hat1 in Hat2. inversion Hat2; subst. congruence.
  - rewrite Hs, (field_at_prefix _ _ _ _ (x :: s) _ _ _ Hat1), Hc1 in Hat2; [discriminate|discriminate].
Qed.
Print Assumptions unfold_prefix_eq.

Lemma is_prefix_refl a : is_prefix a a = true.
Proof. induction a as [|x a IH]; [reflexivity|]. cbn [is_prefix]. rewrite Nat.eqb_refl. exact IH. Qed.

Corollary unfold_route_inj SE f id c1 c2 :
  In c1 (unfold f SE id []) -> In c2 (unfold f SE id []) -> c_route c1 = c_route c2 -> c1 = c2.
Proof. intros H1 H2 E. apply (unfold_prefix_eq SE f id); auto. rewrite E. apply is_prefix_refl. Qed.

Lemma prefix_free_pairwise (rs : list (list nat)) :
  NoDup rs -> (forall a b, In a rs -> In b rs -> a <> b -> unrelated a b = true) -> prefix_free rs = true.
Proof.
  induction 1 as [|r rs Hn Hnd IH]; intros H; [reflexivity|]. cbn [prefix_free]. apply andb_true_iff. split.
  - apply forallb_forall. intros b Hb. apply H; [left; reflexivity|right; exact Hb|].
    intros ->. contradiction.
  - apply IH. intros a b Ha Hb. apply H; right; assumption.
Qed.

(* ====================================================================== *)
(* F. the pruned unfolding: only the first visit of a struct type matters    *)
(* ====================================================================== *)

Definition memZ (T : Z) (V : list Z) : bool := existsb (Z.eqb T) V.
Lemma memZ_In T V : memZ T V = true <-> In T V.
Proof.
  unfold memZ. rewrite existsb_exists. split.
  - intros (x & Hx & E). apply Z.eqb_eq in E. subst. exact Hx.
  - intros H. exists T. split; [exact H|apply Z.eqb_refl].
Qed.
Lemma memZ_false T V : memZ T V = false <-> ~ In T V.
Proof. rewrite <- memZ_In. destruct (memZ T V); split; congruence. Qed.

Definition freshb (V : list Z) (p : path) : bool := negb (memZ (snd p) V).

(* level by level, paths that end in a struct type already seen at a smaller depth are dropped
   (together with everything below them) *)
Fixpoint pruned (fuel : nat) (SE : senv) (Q : list path) (V : list Z) : list cand :=
  match fuel with
  | O => []
  | S f => let F := filter (freshb V) Q in
           flat_map (cands SE) F ++ pruned f SE (flat_map (embeds SE) F) (map snd Q ++ V)
  end.

Lemma pruned_nil f SE : forall V, pruned f SE [] V = [].
Proof. induction f as [|f IH]; intros V; [reflexivity|]. cbn [pruned filter flat_map map app]. apply IH. Qed.

Lemma filter_partition_perm {X} (p : X -> bool) l :
  Permutation l (filter p l ++ filter (fun x => negb (p x)) l).
Proof.
  induction l as [|x l IH]; [apply Permutation_refl|]. cbn [filter]. destruct (p x); cbn [negb app].
  - apply perm_skip. exact IH.
  - apply Permutation_cons_app. exact IH.
Qed.

Lemma full_vs_pruned SE : forall fuel d P Q X V prev,
  Permutation P (Q ++ X) ->
  (forall p, In p P -> length (fst p) = d) ->
  (forall p, In p X -> In (snd p) V) ->
  (forall T r p', In T V -> In p' (embeds SE (r, T)) -> In (snd p') V \/ In (snd p') (map snd Q)) ->
  (forall T r c, In T V -> In c (cands SE (r, T)) ->
                 exists y, In y prev /\ c_name y = c_name c /\ (depth_of y <= d)%nat) ->
  incl (pruned fuel SE Q V) (full fuel SE P) /\
  (forall x, In x (full fuel SE P) ->
             exists y, In y (prev ++ pruned fuel SE Q V) /\ c_name y = c_name x /\ (depth_of y <= depth_of x)%nat) /\
  (forall n dq tg, (forall y, In y (prev ++ full fuel SE P) -> c_name y = n -> (dq <= depth_of y)%nat) ->
                   cnt (pq n dq tg) (full fuel SE P) = cnt (pq n dq tg) (pruned fuel SE Q V)).
Proof.
  induction fuel as [|f IH]; intros d P Q X V prev HP Hlen HX Hclosed Hcov.
  { cbn [full pruned]. split; [intros ? []|]. split; [intros ? []|reflexivity]. }
  cbn [full pruned].
  set (F := filter (freshb V) Q).
  set (XX := filter (fun x => negb (freshb V x)) Q ++ X).
  assert (HPF : Permutation P (F ++ XX)).
  { eapply perm_trans; [exact HP|]. unfold XX. rewrite app_assoc. apply Permutation_app_tail.
    apply filter_partition_perm. }
  assert (HXX : forall p, In p XX -> In (snd p) V).
  { intros p Hp. apply in_app_or in Hp. destruct Hp as [Hp|Hp]; [|auto].
    apply filter_In in Hp. destruct Hp as [_ Hp]. unfold freshb in Hp. rewrite negb_involutive in Hp.
    apply memZ_In. exact Hp. }
  assert (HFQ : forall p, In p F -> In p Q /\ ~ In (snd p) V).
  { intros p Hp. apply filter_In in Hp. destruct Hp as [Hq Hp]. split; [exact Hq|].
    unfold freshb in Hp. apply negb_true_iff in Hp. apply memZ_false. exact Hp. }
  assert (HinP : forall p, In p F \/ In p XX -> In p P).
  { intros p Hp. eapply Permutation_in; [apply Permutation_sym; exact HPF|]. apply in_or_app. exact Hp. }
  set (D := flat_map (cands SE) F).
  set (E := flat_map (cands SE) XX).
  assert (HC : Permutation (flat_map (cands SE) P) (D ++ E)).
  { unfold D, E. rewrite <- flat_map_app. apply flat_map_perm. exact HPF. }
  assert (HE : forall e, In e E -> depth_of e = S d /\
                                   exists y, In y prev /\ c_name y = c_name e /\ (depth_of y <= d)%nat).
  { intros e He. apply in_flat_map in He. destruct He as (p & Hp & He). split.
    - rewrite (cands_depth _ _ _ He). f_equal. apply Hlen. apply HinP. right. exact Hp.
    - destruct p as [r T]. apply (Hcov T r e); [apply (HXX _ Hp)|exact He]. }
  assert (HD : forall c, In c D -> depth_of c = S d).
  { intros c Hc. apply in_flat_map in Hc. destruct Hc as (p & Hp & Hc).
    rewrite (cands_depth _ _ _ Hc). f_equal. apply Hlen. apply HinP. left. exact Hp. }
  (* the next level *)
  set (P' := flat_map (embeds SE) P). set (Q' := flat_map (embeds SE) F).
  set (X' := flat_map (embeds SE) XX). set (V' := map snd Q ++ V).
  assert (HP' : Permutation P' (Q' ++ X')).
  { unfold P', Q', X'. rewrite <- flat_map_app. apply flat_map_perm. exact HPF. }
  assert (Hlen' : forall p, In p P' -> length (fst p) = S d).
  { intros p Hp. apply in_flat_map in Hp. destruct Hp as (p0 & Hp0 & Hp).
    rewrite (embeds_len _ _ _ Hp). f_equal. apply Hlen. exact Hp0. }
  assert (HVV' : forall T, In T V -> In T V') by (intros T H; apply in_or_app; right; exact H).
  assert (HQV' : forall T, In T (map snd Q) -> In T V') by (intros T H; apply in_or_app; left; exact H).
  assert (HX' : forall p, In p X' -> In (snd p) V').
  { intros p Hp. apply in_flat_map in Hp. destruct Hp as ([r T] & Hp0 & Hp).
    destruct (Hclosed T r p (HXX _ Hp0) Hp) as [H|H]; auto. }
  assert (Hfresh_dec : forall T, In T V' -> In T V \/ (exists p, In p F /\ snd p = T)).
  { intros T HT. destruct (memZ T V) eqn:Em; [left; apply memZ_In; exact Em|]. right.
    apply in_app_or in HT. destruct HT as [HT|HT]; [|apply memZ_In in HT; congruence].
    apply in_map_iff in HT. destruct HT as (p & <- & Hp). exists p. split; [|reflexivity].
    apply filter_In. split; [exact Hp|]. unfold freshb. rewrite Em. reflexivity. }
  assert (Hclosed' : forall T r p', In T V' -> In p' (embeds SE (r, T)) ->
                                    In (snd p') V' \/ In (snd p') (map snd Q')).
  { intros T r p' HT Hp'. destruct (Hfresh_dec T HT) as [HV|([r0 T0] & Hp & <-)].
    - left. destruct (Hclosed T r p' HV Hp') as [H|H]; auto.
    - right. cbn [snd] in *.
      assert (Hi : In (snd p') (map snd (embeds SE (r0, T0)))).
      { rewrite (embeds_ids SE r r0 T0). apply in_map. exact Hp'. }
      apply in_map_iff in Hi. destruct Hi as (q & Hq & Hi). apply in_map_iff. exists q. split; [exact Hq|].
      apply in_flat_map. exists (r0, T0). auto. }
  assert (Hcov' : forall T r c, In T V' -> In c (cands SE (r, T)) ->
                    exists y, In y (prev ++ D) /\ c_name y = c_name c /\ (depth_of y <= S d)%nat).
  { intros T r c HT Hc. destruct (Hfresh_dec T HT) as [HV|([r0 T0] & Hp & <-)].
    - destruct (Hcov T r c HV Hc) as (y & Hy & Hn & Hd). exists y. split; [apply in_or_app; left; exact Hy|].
      split; [exact Hn|lia].
    - cbn [snd] in *.
      assert (Hn : In (c_name c) (map c_name (cands SE (r0, T0)))).
      { rewrite (cands_names SE r r0 T0). apply in_map. exact Hc. }
      apply in_map_iff in Hn. destruct Hn as (y & Hn & Hy).
      assert (HyD : In y D) by (apply in_flat_map; exists (r0, T0); auto).
      exists y. split; [apply in_or_app; right; exact HyD|]. split; [exact Hn|]. rewrite (HD y HyD). lia. }
  destruct (IH (S d) P' Q' X' V' (prev ++ D) HP' Hlen' HX' Hclosed' Hcov') as (I1 & I2 & I3).
  fold D Q' V' P'.
  split; [|split].
  - intros c Hc. apply in_app_or in Hc. apply in_or_app. destruct Hc as [Hc|Hc]; [left|right; apply I1; exact Hc].
    eapply Permutation_in; [apply Permutation_sym; exact HC|]. apply in_or_app. left. exact Hc.
  - intros x Hx. apply in_app_or in Hx. destruct Hx as [Hx|Hx].
    + apply (Permutation_in _ HC) in Hx. apply in_app_or in Hx. destruct Hx as [Hx|Hx].
      * exists x. split; [|split; [reflexivity|lia]]. apply in_or_app. right. apply in_or_app. left. exact Hx.
      * destruct (HE x Hx) as (Hdx & y & Hy & Hn & Hd). exists y. split; [apply in_or_app; left; exact Hy|].
        split; [exact Hn|lia].
    + destruct (I2 x Hx) as (y & Hy & Hn & Hd). exists y. split; [|auto].
      rewrite <- app_assoc in Hy. exact Hy.
  - intros n dq tg Hmin. rewrite !cnt_app, (cnt_perm _ _ _ HC), cnt_app.
    assert (Z : cnt (pq n dq tg) E = 0%nat).
    { apply cnt_zero. intros e He. destruct (pq n dq tg e) eqn:Epq; [|reflexivity].
      apply pq_true in Epq. destruct Epq as (Hn & Hd & _).
      destruct (HE e He) as (Hde & y & Hy & Hny & Hdy).
      assert (dq <= depth_of y)%nat; [|lia].
      apply Hmin; [apply in_or_app; left; exact Hy|congruence]. }
    rewrite Z, Nat.add_0_r. f_equal. apply I3.
    intros y Hy. apply Hmin. rewrite <- app_assoc in Hy. apply in_app_or in Hy. apply in_or_app.
    destruct Hy as [Hy|Hy]; [left; exact Hy|right]. apply in_app_or in Hy. apply in_or_app.
    destruct Hy as [Hy|Hy]; [left|right; exact Hy].
    eapply Permutation_in; [apply Permutation_sym; exact HC|]. apply in_or_app. left. exact Hy.
Qed.
Print Assumptions full_vs_pruned.

(* --- the pruned unfolding stops after at most [length SE] levels (pigeonhole on declared ids) --- *)
Definition declared (SE : senv) (T : Z) : bool := match senv_get SE T with Some _ => true | None => false end.

Lemma declared_In SE T : declared SE T = true -> In T (map fst SE).
Proof.
  unfold declared. induction SE as [|[i fs] SE IH]; cbn [senv_get map fst]; [discriminate|].
  destruct (Z.eqb_spec i T); [left; assumption|]. intros H. right. apply IH. exact H.
Qed.
Lemma undeclared_fields SE T : declared SE T = false -> fields_of SE T = [].
Proof. unfold declared, fields_of. destruct (senv_get SE T); [discriminate|reflexivity]. Qed.

Lemma flat_map_nil {X Y} (g : X -> list Y) l : (forall x, In x l -> g x = []) -> flat_map g l = [].
Proof.
  induction l as [|x l IH]; intros H; [reflexivity|]. cbn [flat_map]. rewrite (H x (or_introl eq_refl)), IH; [reflexivity|].
  intros y Hy. apply H. right. exact Hy.
Qed.

Definition witness (SE : senv) (d : nat) (Q : list path) (V : list Z) : Prop :=
  Q <> [] -> exists W, NoDup W /\ incl W V /\ (forall T, In T W -> declared SE T = true) /\ (d <= length W)%nat.

Lemma witness_bound SE W : NoDup W -> (forall T, In T W -> declared SE T = true) -> (length W <= length SE)%nat.
Proof.
  intros Hnd Hd. rewrite <- (map_length fst SE). apply NoDup_incl_length; [exact Hnd|].
  intros T HT. apply declared_In. apply Hd. exact HT.
Qed.

Lemma witness_fresh_undeclared SE d Q V p :
  witness SE d Q V -> (length SE <= d)%nat -> In p (filter (freshb V) Q) -> declared SE (snd p) = false.
Proof.
  intros HW Hd Hp. apply filter_In in Hp. destruct Hp as [Hq Hf].
  destruct (declared SE (snd p)) eqn:E; [|reflexivity]. exfalso.
  destruct HW as (W & Hnd & Hincl & Hdec & Hlen); [intros ->; contradiction|].
  unfold freshb in Hf. apply negb_true_iff, memZ_false in Hf.
  assert (Hb : (length (snd p :: W) <= length SE)%nat).
  { apply witness_bound.
    - constructor; [|exact Hnd]. intros H. apply Hf. apply Hincl. exact H.
    - intros T [<-|HT]; auto. }
  cbn [length] in Hb. lia.
Qed.

Lemma pruned_empty SE f d Q V : witness SE d Q V -> (length SE <= d)%nat -> pruned f SE Q V = [].
Proof.
  intros HW Hd. destruct f as [|f]; [reflexivity|]. cbn [pruned].
  assert (Hc : flat_map (cands SE) (filter (freshb V) Q) = []).
  { apply flat_map_nil. intros p Hp. unfold cands.
    rewrite (undeclared_fields _ _ (witness_fresh_undeclared _ _ _ _ _ HW Hd Hp)). reflexivity. }
  assert (He : flat_map (embeds SE) (filter (freshb V) Q) = []).
  { apply flat_map_nil. intros p Hp. unfold embeds.
    rewrite (undeclared_fields _ _ (witness_fresh_undeclared _ _ _ _ _ HW Hd Hp)). reflexivity. }
  rewrite Hc, He. apply pruned_nil.
Qed.

Lemma witness_step SE d Q V :
  witness SE d Q V -> witness SE (S d) (flat_map (embeds SE) (filter (freshb V) Q)) (map snd Q ++ V).
Proof.
  intros HW Hne.
  assert (Hex : exists p, In p (filter (freshb V) Q) /\ embeds SE p <> []).
  { clear HW. induction (filter (freshb V) Q) as [|p l IH]; [contradiction Hne; reflexivity|].
    cbn [flat_map] in Hne. destruct (embeds SE p) eqn:E.
    - destruct IH as (q & Hq & Hq'); [exact Hne|]. exists q. split; [right; exact Hq|exact Hq'].
    - exists p. split; [left; reflexivity|]. rewrite E. discriminate. }
  destruct Hex as (p & Hp & Hemb). apply filter_In in Hp. destruct Hp as [Hq Hf].
  assert (Hdec : declared SE (snd p) = true).
  { destruct (declared SE (snd p)) eqn:E; [reflexivity|]. exfalso. apply Hemb. unfold embeds.
    rewrite (undeclared_fields _ _ E). reflexivity. }
  destruct HW as (W & Hnd & Hincl & HdecW & Hlen); [intros ->; contradiction|].
  unfold freshb in Hf. apply negb_true_iff, memZ_false in Hf.
  exists (snd p :: W). split; [|split; [|split]].
  - constructor; [|exact Hnd]. intros H. apply Hf. apply Hincl. exact H.
  - intros T [<-|HT]; apply in_or_app; [left; apply in_map; exact Hq|right; apply Hincl; exact HT].
  - intros T [<-|HT]; auto.
  - cbn [length]. lia.
Qed.

Lemma pruned_stable SE : forall f1 f2 d Q V, witness SE d Q V ->
  (length SE - d <= f1)%nat -> (length SE - d <= f2)%nat -> pruned f1 SE Q V = pruned f2 SE Q V.
Proof.
  induction f1 as [|f1 IH]; intros f2 d Q V HW H1 H2.
  - rewrite (pruned_empty SE f2 d Q V HW); [reflexivity|lia].
  - destruct f2 as [|f2].
    + rewrite (pruned_empty SE (S f1) d Q V HW); [reflexivity|lia].
    + cbn [pruned]. f_equal. apply (IH f2 (S d)); [apply witness_step; exact HW|lia|lia].
Qed.

Lemma witness_root SE id : witness SE 0 [([], id)] [].
Proof. intros _. exists []. split; [constructor|]. split; [intros ? []|]. split; [intros ? []|cbn; lia]. Qed.

(* ====================================================================== *)
(* G. the breadth-first search against the pruned unfolding                  *)
(* ====================================================================== *)

Definition cap2 (n : nat) : nat := Nat.min n 2.
Definition cw (m : nat) : nat := if Nat.ltb 1 m then 2%nat else 1%nat.
Definition dupc (b : bool) (c : cand) : list cand := if b then [c; c] else [c].
Definition ideq (T : Z) (p : path) : bool := snd p =? T.

Lemma cap2_add a b : cap2 (a + b) = cap2 (cap2 a + cap2 b).
Proof. unfold cap2. lia. Qed.
Lemma cap2_mul a e : cap2 (cap2 a * e) = cap2 (a * e).
Proof.
  unfold cap2. destruct (Nat.le_gt_cases a 2) as [H|H]; [rewrite (Nat.min_l a 2 H); reflexivity|].
  rewrite (Nat.min_r a 2) by lia. destruct e as [|e]; [rewrite !Nat.mul_0_r; reflexivity|]. nia.
Qed.
Lemma cap2_idem a : cap2 (cap2 a) = cap2 a.
Proof. unfold cap2. lia. Qed.
Lemma cap2_sumf {X} (g h : X -> nat) l :
  (forall x, In x l -> cap2 (g x) = cap2 (h x)) -> cap2 (sumf g l) = cap2 (sumf h l).
Proof.
  induction l as [|x l IH]; intros H; [reflexivity|]. cbn [sumf].
  rewrite cap2_add, (cap2_add (h x)), (H x (or_introl eq_refl)), IH; [reflexivity|].
  intros y Hy. apply H. right. exact Hy.
Qed.
Lemma cw_cap2 m : (1 <= m)%nat -> cw m = cap2 m.
Proof. unfold cw, cap2. destruct (Nat.ltb_spec 1 m); lia. Qed.

Lemma sumf_app {X} (g : X -> nat) l1 l2 : sumf g (l1 ++ l2) = (sumf g l1 + sumf g l2)%nat.
Proof. induction l1 as [|x l IH]; [reflexivity|]. cbn [app sumf]. rewrite IH. lia. Qed.
Lemma sumf_ext_in {X} (g h : X -> nat) l : (forall x, In x l -> g x = h x) -> sumf g l = sumf h l.
Proof.
  induction l as [|x l IH]; intros H; [reflexivity|]. cbn [sumf]. rewrite (H x (or_introl eq_refl)), IH; [reflexivity|].
  intros y Hy. apply H. right. exact Hy.
Qed.
Lemma sumf_ge {X} (g : X -> nat) l x : In x l -> (g x <= sumf g l)%nat.
Proof. induction l as [|y l IH]; [intros []|]. cbn [sumf]. intros [->|H]; [lia|]. specialize (IH H). lia. Qed.
Lemma cnt_flat_map {X Y} (p : Y -> bool) (g : X -> list Y) l : cnt p (flat_map g l) = sumf (fun x => cnt p (g x)) l.
Proof. induction l as [|x l IH]; [reflexivity|]. cbn [flat_map sumf]. rewrite cnt_app, IH. reflexivity. Qed.
Lemma cnt_dupc p b l : cnt p (flat_map (dupc b) l) = ((if b then 2 else 1) * cnt p l)%nat.
Proof.
  induction l as [|c l IH]; [cbn; lia|]. cbn [flat_map]. rewrite cnt_app, cnt_cons, IH.
  unfold dupc. destruct b; rewrite ?cnt_cons, cnt_nil; destruct (p c); lia.
Qed.

(* --- counts --- *)
Lemma count_get_add c id k T :
  count_get (count_add c id k) T = (count_get c T + (if Z.eqb id T then k else 0))%nat.
Proof.
  induction c as [|[i n] r IH]; cbn [count_add count_get].
  - destruct (id =? T); lia.
  - destruct (Z.eqb_spec i id) as [->|Hne]; cbn [count_get].
    + destruct (id =? T); lia.
    + destruct (Z.eqb_spec i T) as [->|Hne2]; [|exact IH].
      destruct (Z.eqb_spec id T); [congruence|lia].
Qed.

(* the queue for the next level holds exactly the ids with a positive count, once each *)
Definition NX (a : bfs_acc) : Prop :=
  NoDup (map snd (b_next a)) /\ forall T, In T (map snd (b_next a)) <-> (0 < count_get (b_ncount a) T)%nat.

Lemma NoDup_snoc {X} (l : list X) x : NoDup l -> ~ In x l -> NoDup (l ++ [x]).
Proof.
  intros H Hn. eapply Permutation_NoDup; [apply Permutation_cons_append|]. constructor; assumption.
Qed.

Lemma scan_spec : forall fs i route mult a, NX a ->
  let a' := scan fs i route mult a in
  b_fields a' = b_fields a ++ flat_map (dupc (Nat.ltb 1 mult)) (cands_from fs i route) /\
  (forall T, count_get (b_ncount a') T
             = (count_get (b_ncount a) T + cw mult * cnt (ideq T) (embeds_from fs i route))%nat) /\
  NX a' /\
  (forall p', In p' (b_next a') -> In p' (b_next a) \/ In p' (embeds_from fs i route)).
Proof.
  induction fs as [|sf fs IH]; intros i route mult a HNX; cbv zeta.
  { cbn [scan cands_from embeds_from flat_map]. rewrite app_nil_r. split; [reflexivity|].
    split; [intros T; rewrite cnt_nil; lia|]. split; [exact HNX|]. auto. }
  cbn [scan cands_from embeds_from]. destruct (classify route i sf) as [|c|id] eqn:Ec.
  - apply IH. exact HNX.
  - match goal with |- context [scan fs (S i) route mult ?a1] => set (A1 := a1) end.
    assert (HNX1 : NX A1) by exact HNX.
    destruct (IH (S i) route mult A1 HNX1) as (Hf & Hcn & HNX' & Hnx). cbv zeta in *.
    split; [|split; [|split]]; auto.
    rewrite Hf. unfold A1. cbn [b_fields flat_map]. rewrite <- app_assoc. reflexivity.
  - match goal with |- context [scan fs (S i) route mult ?a1] => set (A1 := a1) end.
    destruct HNX as [Hnd Hcov].
    assert (HNX1 : NX A1).
    { unfold A1, NX. cbn [b_next b_ncount]. split.
      - destruct (Nat.eqb_spec (count_get (b_ncount a) id) 0) as [E|E]; [|exact Hnd].
        rewrite map_app. cbn [map snd]. apply NoDup_snoc; [exact Hnd|]. rewrite Hcov. lia.
      - intros T. rewrite count_get_add.
        destruct (Nat.eqb_spec (count_get (b_ncount a) id) 0) as [E|E].
        + rewrite map_app, in_app_iff, Hcov. cbn [map snd In].
          destruct (Z.eqb_spec id T) as [->|Hne]; unfold cw; destruct (Nat.ltb 1 mult); intuition lia.
        + rewrite Hcov. destruct (Z.eqb_spec id T) as [->|Hne]; unfold cw; destruct (Nat.ltb 1 mult); lia. }
    destruct (IH (S i) route mult A1 HNX1) as (Hf & Hcn & HNX' & Hnx). cbv zeta in *.
    split; [|split; [|split]]; auto.
    + intros T. rewrite Hcn. unfold A1. cbn [b_ncount]. rewrite count_get_add, cnt_cons.
      unfold ideq at 2. cbn [snd]. fold (cw mult). destruct (id =? T); lia.
    + intros p' Hp'. destruct (Hnx p' Hp') as [H|H]; [|right; right; exact H].
      unfold A1 in H. cbn [b_next] in H.
      destruct (Nat.eqb (count_get (b_ncount a) id) 0); [|left; exact H].
      apply in_app_or in H. destruct H as [H|[<-|[]]]; [left; exact H|right; left; reflexivity].
Qed.

Lemma level_spec SE count : forall cur visited a, NoDup (map snd cur) -> NX a ->
  let r := level SE cur count visited a in
  let Fr := filter (freshb visited) cur in
  (forall T, In T (fst r) <-> In T visited \/ In T (map snd cur)) /\
  b_fields (snd r) = b_fields a ++
     flat_map (fun p => flat_map (dupc (Nat.ltb 1 (count_get count (snd p)))) (cands SE p)) Fr /\
  (forall T, count_get (b_ncount (snd r)) T
             = (count_get (b_ncount a) T
                + sumf (fun p => cw (count_get count (snd p)) * cnt (ideq T) (embeds SE p)) Fr)%nat) /\
  NX (snd r) /\
  (forall p', In p' (b_next (snd r)) -> In p' (b_next a) \/ exists p, In p Fr /\ In p' (embeds SE p)).
Proof.
  induction cur as [|[route id] rest IH]; intros visited a Hnd HNX; cbv zeta.
  { cbn [level filter flat_map sumf fst snd map In]. rewrite app_nil_r. split; [intros T; tauto|].
    split; [reflexivity|]. split; [intros T; lia|]. split; [exact HNX|]. auto. }
  cbn [map snd] in Hnd. inversion Hnd as [|? ? Hnin Hnd']; subst.
  cbn [level filter]. change (freshb visited (route, id)) with (negb (existsb (Z.eqb id) visited)).
  destruct (existsb (Z.eqb id) visited) eqn:Ev; cbn [negb].
  - destruct (IH visited a Hnd' HNX) as (Hv & Hf & Hc & HN & Hn). cbv zeta in *.
    split; [|auto]. intros T. rewrite Hv. cbn [map snd In].
    assert (In id visited) by (apply memZ_In; exact Ev). intuition (subst; auto).
  - fold (fields_of SE id).
    set (a1 := scan (fields_of SE id) 0 route (count_get count id) a).
    destruct (scan_spec (fields_of SE id) 0 route (count_get count id) a HNX) as (Sf & Sc & SN & Sn).
    cbv zeta in *. fold a1 in Sf, Sc, SN, Sn.
    destruct (IH (id :: visited) a1 Hnd' SN) as (Hv & Hf & Hc & HN & Hn). cbv zeta in *.
    assert (EF : filter (freshb (id :: visited)) rest = filter (freshb visited) rest).
    { apply filter_ext_in. intros p Hp. unfold freshb, memZ. cbn [existsb].
      destruct (Z.eqb_spec (snd p) id) as [E|E]; [|reflexivity].
      exfalso. apply Hnin. rewrite <- E. apply in_map. exact Hp. }
    rewrite EF in *.
    split; [|split; [|split; [|split]]].
    + intros T. rewrite Hv. cbn [map snd In]. tauto.
    + rewrite Hf, Sf. cbn [flat_map snd]. rewrite <- app_assoc. reflexivity.
    + intros T. rewrite Hc, Sc. cbn [sumf snd]. unfold embeds. cbn [fst snd]. lia.
    + exact HN.
    + intros p' Hp'. destruct (Hn p' Hp') as [H|(p & Hp & H)].
      * destruct (Sn p' H) as [H'|H']; [left; exact H'|]. right. exists (route, id). split; [left; reflexivity|exact H'].
      * right. exists p. split; [right; exact Hp|exact H].
Qed.

(* --- grouping a list of paths by struct id --- *)
Lemma sumf_zero {X} (g : X -> nat) l : (forall x, In x l -> g x = 0%nat) -> sumf g l = 0%nat.
Proof.
  induction l as [|x l IH]; intros H; [reflexivity|]. cbn [sumf]. rewrite (H x (or_introl eq_refl)), IH; [reflexivity|].
  intros y Hy. apply H. right. exact Hy.
Qed.
Lemma sumf_add {X} (g h : X -> nat) l : sumf (fun x => (g x + h x)%nat) l = (sumf g l + sumf h l)%nat.
Proof. induction l as [|x l IH]; [reflexivity|]. cbn [sumf]. rewrite IH. lia. Qed.

Lemma sumf_pick (Fr : list path) (h : path -> nat) p0 : NoDup (map snd Fr) -> In p0 Fr ->
  sumf (fun p => ((if Z.eqb (snd p0) (snd p) then 1 else 0) * h p)%nat) Fr = h p0.
Proof.
  induction Fr as [|p Fr IH]; intros Hnd Hin; [contradiction|].
  cbn [map] in Hnd. inversion Hnd as [|? ? Hnin Hnd']; subst. cbn [sumf]. destruct Hin as [->|Hin].
  - rewrite Z.eqb_refl. rewrite sumf_zero; [lia|]. intros q Hq.
    destruct (Z.eqb_spec (snd p0) (snd q)) as [E|E]; [|lia]. exfalso. apply Hnin. rewrite E. apply in_map. exact Hq.
  - rewrite (IH Hnd' Hin). destruct (Z.eqb_spec (snd p0) (snd p)) as [E|E]; [|lia].
    exfalso. apply Hnin. rewrite <- E. apply in_map. exact Hin.
Qed.

Lemma group_sum (F Fr : list path) (g : path -> nat) :
  NoDup (map snd Fr) -> incl Fr F -> (forall p, In p F -> In (snd p) (map snd Fr)) ->
  (forall p p', In p F -> In p' F -> snd p = snd p' -> g p = g p') ->
  sumf g F = sumf (fun p0 => (cnt (ideq (snd p0)) F * g p0)%nat) Fr.
Proof.
  intros Hnd Hincl Hcov Hg.
  assert (G : forall L, incl L F -> sumf g L = sumf (fun p0 => (cnt (ideq (snd p0)) L * g p0)%nat) Fr).
  { induction L as [|x L IH]; intros HL.
    - cbn [sumf]. symmetry. apply sumf_zero. intros; rewrite cnt_nil; lia.
    - cbn [sumf]. rewrite IH by (intros y Hy; apply HL; right; exact Hy).
      assert (HxF : In x F) by (apply HL; left; reflexivity).
      destruct (proj1 (in_map_iff _ _ _) (Hcov x HxF)) as (x0 & E0 & Hx0).
      rewrite (Hg x x0 HxF (Hincl _ Hx0) (eq_sym E0)).
      rewrite <- (sumf_pick Fr g x0 Hnd Hx0) at 1. rewrite <- sumf_add. apply sumf_ext_in.
      intros p _. rewrite cnt_cons. unfold ideq. rewrite <- E0.
      fold (ideq (snd p)). lia. }
  apply G. apply incl_refl.
Qed.

Lemma group_cap2 (F Fr : list path) (g w : path -> nat) :
  NoDup (map snd Fr) -> incl Fr F -> (forall p, In p F -> In (snd p) (map snd Fr)) ->
  (forall p p', In p F -> In p' F -> snd p = snd p' -> g p = g p') ->
  (forall p0, In p0 Fr -> w p0 = cap2 (cnt (ideq (snd p0)) F)) ->
  cap2 (sumf (fun p0 => (w p0 * g p0)%nat) Fr) = cap2 (sumf g F).
Proof.
  intros Hnd Hincl Hcov Hg Hw. rewrite (group_sum F Fr g Hnd Hincl Hcov Hg).
  apply cap2_sumf. intros p Hp. rewrite (Hw p Hp). apply cap2_mul.
Qed.

Lemma NoDup_map_filter {X Y} (f : X -> Y) (p : X -> bool) l : NoDup (map f l) -> NoDup (map f (filter p l)).
Proof.
  induction l as [|x l IH]; intros H; [constructor|]. cbn [map] in H. inversion H as [|? ? Hn Hnd]; subst.
  cbn [filter]. destruct (p x); [|auto]. cbn [map]. constructor; [|auto].
  intros Hi. apply Hn. apply in_map_iff in Hi. destruct Hi as (y & E & Hy). apply filter_In in Hy.
  rewrite <- E. apply in_map. apply Hy.
Qed.

Lemma cnt_ideq_map T (l : list path) : cnt (ideq T) l = cnt (fun x => x =? T) (map snd l).
Proof. induction l as [|p l IH]; [reflexivity|]. cbn [map]. rewrite !cnt_cons, IH. reflexivity. Qed.

Lemma in_dupc b (l : list cand) c : In c (flat_map (dupc b) l) -> In c l.
Proof.
  induction l as [|x l IH]; [intros []|]. cbn [flat_map]. intros H. apply in_app_or in H.
  destruct H as [H|H]; [|right; auto]. left. unfold dupc in H. destruct b; cbn [In] in H; intuition.
Qed.

(* --- the invariant between the BFS state and the pruned unfolding at one level --- *)
Record Inv (SE : senv) (d : nat) (cur : list path) (count : counts) (visited : list Z)
           (Q : list path) (V : list Z) : Prop := {
  inv_nd : NoDup (map snd cur) ;
  inv_incl : incl cur Q ;
  inv_cov : forall p, In p Q -> In (snd p) (map snd cur) ;
  inv_cw : forall p, In p Q -> cw (count_get count (snd p)) = cap2 (cnt (ideq (snd p)) Q) ;
  inv_vis : forall T, In T visited <-> In T V ;
  inv_len : forall p, In p Q -> length (fst p) = d }.

Lemma level_step SE d cur count visited Q V fields :
  Inv SE d cur count visited Q V ->
  let r := level SE cur count visited (Acc [] [] fields) in
  let F := filter (freshb V) Q in
  Inv SE (S d) (b_next (snd r)) (b_ncount (snd r)) (fst r) (flat_map (embeds SE) F) (map snd Q ++ V) /\
  exists Rl, b_fields (snd r) = fields ++ Rl /\ incl Rl (flat_map (cands SE) F) /\
             forall n dq tg, cap2 (cnt (pq n dq tg) Rl) = cap2 (cnt (pq n dq tg) (flat_map (cands SE) F)).
Proof.
  intros [Hnd Hincl Hcov Hcw Hvis Hlen]. cbv zeta.
  set (F := filter (freshb V) Q).
  assert (HNX0 : NX (Acc [] [] fields)).
  { split; [constructor|]. intros T. cbn. split; [intros []|lia]. }
  destruct (level_spec SE count cur visited (Acc [] [] fields) Hnd HNX0) as (Lv & Lf & Lc & LN & Ln).
  cbv zeta in *. set (r := level SE cur count visited (Acc [] [] fields)) in *.
  assert (Hfr : forall p, freshb visited p = freshb V p).
  { intros p. unfold freshb. f_equal. destruct (memZ (snd p) V) eqn:E.
    - apply memZ_In. apply Hvis. apply memZ_In. exact E.
    - apply memZ_false. rewrite Hvis. apply memZ_false. exact E. }
  rewrite (filter_ext _ _ Hfr cur) in *.
  set (Fr := filter (freshb V) cur) in *.
  assert (FrF : incl Fr F).
  { intros p Hp. apply filter_In in Hp. apply filter_In. split; [apply Hincl; apply Hp|apply Hp]. }
  assert (FrNd : NoDup (map snd Fr)) by (apply NoDup_map_filter; exact Hnd).
  assert (Fcov : forall p, In p F -> In (snd p) (map snd Fr)).
  { intros p Hp. apply filter_In in Hp. destruct Hp as [HpQ Hf].
    destruct (proj1 (in_map_iff _ _ _) (Hcov p HpQ)) as (p0 & E & Hp0).
    apply in_map_iff. exists p0. split; [exact E|]. apply filter_In. split; [exact Hp0|].
    unfold freshb in *. rewrite E. exact Hf. }
  assert (FinQ : forall p, In p F -> In p Q) by (intros p Hp; apply filter_In in Hp; apply Hp).
  assert (Fw : forall p0, In p0 Fr -> cw (count_get count (snd p0)) = cap2 (cnt (ideq (snd p0)) F)).
  { intros p0 Hp0. pose proof (FrF _ Hp0) as HF. rewrite (Hcw p0 (FinQ _ HF)). f_equal.
    unfold F, cnt. rewrite filter_filter'. f_equal. apply filter_ext_in. intros x _.
    unfold ideq. destruct (Z.eqb_spec (snd x) (snd p0)) as [E|E]; [|symmetry; apply andb_false_r].
    rewrite andb_true_r. apply filter_In in HF. destruct HF as [_ HF]. unfold freshb in *. rewrite E. symmetry. exact HF. }
  (* the count of an embedded id in terms of Fr *)
  assert (Ecnt : forall T', cap2 (count_get (b_ncount (snd r)) T')
                            = cap2 (cnt (ideq T') (flat_map (embeds SE) F))).
  { intros T'. rewrite Lc. cbn [b_ncount count_get Nat.add]. rewrite cnt_flat_map.
    apply (group_cap2 F Fr (fun p => cnt (ideq T') (embeds SE p)) (fun p => cw (count_get count (snd p))));
      auto.
    intros [r1 T1] [r2 T2] _ _ E. cbn [snd] in E. subst T2.
    rewrite !cnt_ideq_map, (embeds_ids SE r1 r2 T1). reflexivity. }
  assert (Epos : forall p', In p' (flat_map (embeds SE) F) -> (1 <= count_get (b_ncount (snd r)) (snd p'))%nat).
  { intros p' Hp'. assert (H1 : (1 <= cnt (ideq (snd p')) (flat_map (embeds SE) F))%nat).
    { apply (cnt_in_pos _ _ p' Hp'). unfold ideq. apply Z.eqb_refl. }
    pose proof (Ecnt (snd p')) as E. unfold cap2 in E. lia. }
  split.
  - constructor.
    + apply LN.
    + intros p' Hp'. destruct (Ln p' Hp') as [[]|(p & Hp & H)]. apply in_flat_map. exists p. auto.
    + intros p' Hp'. apply LN. specialize (Epos p' Hp'). lia.
    + intros p' Hp'. rewrite <- Ecnt. apply cw_cap2. apply Epos. exact Hp'.
    + intros T. rewrite Lv, in_app_iff, Hvis. split; intros [H|H]; auto.
      * left. apply in_map_iff in H. destruct H as (p & <- & Hp). apply in_map. apply Hincl. exact Hp.
      * right. apply in_map_iff in H. destruct H as (p & <- & Hp). apply Hcov. exact Hp.
    + intros p' Hp'. apply in_flat_map in Hp'. destruct Hp' as (p & Hp & Hp').
      rewrite (embeds_len _ _ _ Hp'). f_equal. apply Hlen. apply FinQ. exact Hp.
  - eexists. split; [exact Lf|]. split.
    + intros c Hc. apply in_flat_map in Hc. destruct Hc as (p & Hp & Hc). apply in_dupc in Hc.
      apply in_flat_map. exists p. auto.
    + intros n dq tg. rewrite !cnt_flat_map.
      rewrite (sumf_ext_in _ (fun p => (cw (count_get count (snd p)) * cnt (pq n dq tg) (cands SE p))%nat))
        by (intros p _; apply cnt_dupc).
      apply (group_cap2 F Fr (fun p => cnt (pq n dq tg) (cands SE p)) (fun p => cw (count_get count (snd p))));
        auto.
      intros [r1 T1] [r2 T2] H1 H2 E. cbn [snd] in E. subst T2. apply cands_cnt.
      pose proof (Hlen _ (FinQ _ H1)) as L1. pose proof (Hlen _ (FinQ _ H2)) as L2. cbn [fst] in L1, L2. congruence.
Qed.

Theorem bfs_vs_pruned SE : forall fuel d cur count visited fields Q V,
  Inv SE d cur count visited Q V ->
  exists R, bfs fuel SE cur count visited fields = fields ++ R /\
            incl R (pruned fuel SE Q V) /\
            forall n dq tg, cap2 (cnt (pq n dq tg) R) = cap2 (cnt (pq n dq tg) (pruned fuel SE Q V)).
Proof.
  induction fuel as [|f IH]; intros d cur count visited fields Q V HI.
  { exists []. cbn [bfs pruned]. rewrite app_nil_r. split; [reflexivity|]. split; [intros ? []|reflexivity]. }
  destruct cur as [|c0 cur'].
  - assert (Q = []).
    { destruct Q as [|p Q]; [reflexivity|]. destruct (inv_cov _ _ _ _ _ _ _ HI p (or_introl eq_refl)). }
    subst Q. exists []. cbn [bfs]. rewrite pruned_nil, app_nil_r.
    split; [reflexivity|]. split; [intros ? []|reflexivity].
  - remember (c0 :: cur') as cur eqn:Ecur.
    destruct (level_step SE d cur count visited Q V fields HI) as (HI' & Rl & Hf & Hincl & Hcap).
    cbv zeta in *.
    assert (Eb : bfs (S f) SE cur count visited fields =
                 bfs f SE (b_next (snd (level SE cur count visited (Acc [] [] fields))))
                     (b_ncount (snd (level SE cur count visited (Acc [] [] fields))))
                     (fst (level SE cur count visited (Acc [] [] fields)))
                     (b_fields (snd (level SE cur count visited (Acc [] [] fields))))).
    { rewrite Ecur. cbn [bfs]. rewrite <- Ecur. destruct (level SE cur count visited (Acc [] [] fields)). reflexivity. }
    destruct (IH _ _ _ _ (b_fields (snd (level SE cur count visited (Acc [] [] fields)))) _ _ HI')
      as (R' & Hb & Hincl' & Hcap').
    exists (Rl ++ R'). rewrite Eb, Hb, Hf, <- app_assoc. split; [reflexivity|]. cbn [pruned]. split.
    + intros c Hc. apply in_app_or in Hc. apply in_or_app. destruct Hc as [Hc|Hc]; [left; auto|right; auto].
    + intros n dq tg. rewrite !cnt_app, cap2_add, Hcap, Hcap', <- cap2_add. reflexivity.
Qed.
Print Assumptions bfs_vs_pruned.

Lemma Inv_root SE id : Inv SE 0 [([], id)] [] [] [([], id)] [].
Proof.
  constructor.
  - cbn. constructor; [intros []|constructor].
  - apply incl_refl.
  - intros p [<-|[]]. left. reflexivity.
  - intros p [<-|[]]. cbn. unfold ideq. cbn [snd]. rewrite Z.eqb_refl. reflexivity.
  - intros T. reflexivity.
  - intros p [<-|[]]. reflexivity.
Qed.

(* ====================================================================== *)
(* H. the main theorems                                                      *)
(* ====================================================================== *)

(* the BFS output before sorting and the dominance pass; all candidates of the unfolding *)
Definition raw (SE : senv) (id : Z) : list cand := bfs (S (S (length SE))) SE [([], id)] [] [] [].
Definition all_cands (SE : senv) (id : Z) : list cand := unfold (S (length SE)) SE id [].

Lemma sel_transfer A Rw :
  incl Rw A ->
  (forall x, In x A -> exists y, In y Rw /\ c_name y = c_name x /\ (depth_of y <= depth_of x)%nat) ->
  (forall n d tg, (forall y, In y A -> c_name y = n -> (d <= depth_of y)%nat) ->
                  cap2 (cnt (pq n d tg) A) = cap2 (cnt (pq n d tg) Rw)) ->
  forall c, sel A c <-> sel Rw c.
Proof.
  intros Hincl Hdom Hcap c. split.
  - intros (Hin & Hmin & Hc).
    assert (Hcap' := fun tg => Hcap (c_name c) (depth_of c) tg Hmin).
    assert (Hone : forall tg, (tg = true -> c_tagged c = true) ->
                              cnt (pq (c_name c) (depth_of c) tg) A = 1%nat ->
                              In c Rw /\ cnt (pq (c_name c) (depth_of c) tg) Rw = 1%nat).
    { intros tg Htg H1. specialize (Hcap' tg). rewrite H1 in Hcap'.
      assert (H1' : cnt (pq (c_name c) (depth_of c) tg) Rw = 1%nat) by (unfold cap2 in Hcap'; lia).
      split; [|exact H1'].
      destruct (cnt_pos_in (pq (c_name c) (depth_of c) tg) Rw) as (y & Hy & Py); [lia|].
      assert (y = c); [|subst; exact Hy].
      apply (cnt_one_unique _ _ y c H1); auto. apply pq_true. auto. }
    assert (HinR : In c Rw).
    { destruct Hc as [Hc|[Ht Hc]]; [apply (Hone false); auto; discriminate|apply (Hone true); auto]. }
    split; [exact HinR|]. split; [intros y Hy; apply Hmin; apply Hincl; exact Hy|].
    destruct Hc as [Hc|[Ht Hc]]; [left; apply (Hone false); auto; discriminate|right; split; [exact Ht|apply (Hone true); auto]].
  - intros (Hin & Hmin & Hc).
    assert (HminA : forall y, In y A -> c_name y = c_name c -> (depth_of c <= depth_of y)%nat).
    { intros y Hy Hn. destruct (Hdom y Hy) as (z & Hz & Hnz & Hdz).
      specialize (Hmin z Hz (eq_trans Hnz Hn)). lia. }
    assert (Hcap' := fun tg => Hcap (c_name c) (depth_of c) tg HminA).
    split; [apply Hincl; exact Hin|]. split; [exact HminA|].
    destruct Hc as [Hc|[Ht Hc]]; [left|right; split; [exact Ht|]].
    + specialize (Hcap' false). rewrite Hc in Hcap'. unfold cap2 in Hcap'. lia.
    + specialize (Hcap' true). rewrite Hc in Hcap'. unfold cap2 in Hcap'. lia.
Qed.

Theorem raw_vs_all SE id :
  incl (raw SE id) (all_cands SE id) /\
  (forall x, In x (all_cands SE id) ->
             exists y, In y (raw SE id) /\ c_name y = c_name x /\ (depth_of y <= depth_of x)%nat) /\
  (forall n d tg, (forall y, In y (all_cands SE id) -> c_name y = n -> (d <= depth_of y)%nat) ->
                  cap2 (cnt (pq n d tg) (all_cands SE id)) = cap2 (cnt (pq n d tg) (raw SE id))).
Proof.
  set (K := length SE). set (Q0 := [(@nil nat, id)]).
  destruct (bfs_vs_pruned SE (S (S K)) 0 Q0 [] [] [] Q0 [] (Inv_root SE id)) as (R & HR & HRincl & HRcap).
  cbn [app] in HR. change (raw SE id = R) in HR.
  rewrite (pruned_stable SE (S (S K)) (S K) 0 Q0 [] (witness_root SE id)) in HRincl, HRcap by (unfold K; lia).
  assert (HP0 : Permutation Q0 (Q0 ++ [])) by (rewrite app_nil_r; apply Permutation_refl).
  destruct (full_vs_pruned SE (S K) 0 Q0 Q0 [] [] [] HP0) as (I1 & I2 & I3).
  { intros p [<-|[]]. reflexivity. }
  { intros p []. }
  { intros T r p' []. }
  { intros T r c []. }
  cbn [app] in I2, I3.
  pose proof (unfold_full SE (S K) id []) as HU. fold Q0 in HU. change (unfold (S K) SE id []) with (all_cands SE id) in HU.
  rewrite HR. split; [|split].
  - intros c Hc. eapply Permutation_in; [apply Permutation_sym; exact HU|]. apply I1. apply HRincl. exact Hc.
  - intros x Hx. apply (Permutation_in _ HU) in Hx. destruct (I2 x Hx) as (y & Hy & Hn & Hd).
    assert (Hpos : (0 < cnt (pq (c_name y) (depth_of y) false) R)%nat).
    { pose proof (HRcap (c_name y) (depth_of y) false) as E.
      assert (0 < cnt (pq (c_name y) (depth_of y) false) (pruned (S K) SE Q0 []))%nat.
      { apply (cnt_in_pos _ _ y Hy). apply pq_true. repeat split; auto. discriminate. }
      unfold cap2 in E. lia. }
    apply cnt_pos_in in Hpos. destruct Hpos as (z & Hz & Pz). apply pq_true in Pz. destruct Pz as (Hnz & Hdz & _).
    exists z. split; [exact Hz|]. split; [congruence|lia].
  - intros n d tg Hmin. rewrite (cnt_perm _ _ _ HU), I3, HRcap; [reflexivity|].
    intros y Hy. apply Hmin. eapply Permutation_in; [apply Permutation_sym; exact HU|exact Hy].
Qed.
Print Assumptions raw_vs_all.

Theorem sel_raw_all SE id c : sel (all_cands SE id) c <-> sel (raw SE id) c.
Proof. destruct (raw_vs_all SE id) as (H1 & H2 & H3). apply sel_transfer; assumption. Qed.

(* --- explore in terms of [sel] --- *)
Lemma sort_by_ext {X} (f g : X -> X -> bool) l : (forall x y, f x y = g x y) -> sort_by f l = sort_by g l.
Proof.
  intros H. induction l as [|x l IH]; [reflexivity|]. unfold sort_by in *. cbn [fold_right]. rewrite IH.
  generalize (fold_right (insert_by g) [] l). intros m. induction m as [|y m IHm]; [reflexivity|].
  cbn [insert_by]. rewrite H, IHm. reflexivity.
Qed.
Print Assumptions sel_raw_all.

Lemma StronglySorted_impl {X} (R R' : X -> X -> Prop) l :
  (forall x y, R x y -> R' x y) -> StronglySorted R l -> StronglySorted R' l.
Proof.
  intros H. induction 1 as [|x l Hs IH Hall]; constructor; [exact IH|].
  rewrite Forall_forall in *. auto.
Qed.

Lemma sort_by_name_sorted l : StronglySorted le_bn (sort_by by_name_ltb l).
Proof.
  rewrite (sort_by_ext _ (fun x y => bn_klt (bn_key x) (bn_key y))) by apply by_name_ltb_key.
  eapply StronglySorted_impl; [|apply (sort_by_sorted bn_key bn_keq bn_klt sto_bn)].
  intros x y H. unfold le_bn. rewrite by_name_ltb_key. exact H.
Qed.

Lemma final_sort_perm mode l : Permutation (final_sort mode l) l.
Proof. unfold final_sort. destruct (mode =? 0); [apply sort_by_perm|]. destruct (mode =? 2); [apply sort_by_perm|apply Permutation_refl]. Qed.

Definition dominated (SE : senv) (id : Z) : list cand :=
  let sorted := sort_by by_name_ltb (raw SE id) in dominate (S (length sorted)) sorted.

Lemma explore_eq SE id mode : explore SE id mode = final_sort mode (dominated SE id).
Proof. reflexivity. Qed.

Lemma dominated_spec SE id :
  (forall c, In c (dominated SE id) <-> sel (raw SE id) c) /\ StronglySorted name_lt (dominated SE id).
Proof.
  unfold dominated. cbv zeta.
  destruct (dominate_spec (S (length (sort_by by_name_ltb (raw SE id)))) (sort_by by_name_ltb (raw SE id)))
    as [H1 H2]; [lia|apply sort_by_name_sorted|].
  split; [|exact H2]. intros c. rewrite H1. split; apply sel_perm; [|apply Permutation_sym]; apply sort_by_perm.
Qed.

Theorem explore_In SE id mode c : In c (explore SE id mode) <-> sel (all_cands SE id) c.
Proof.
  rewrite explore_eq, sel_raw_all, <- (proj1 (dominated_spec SE id)).
  split; apply Permutation_in; [|apply Permutation_sym]; apply final_sort_perm.
Qed.
Print Assumptions explore_In.

Theorem explore_iff_selected SE id mode c : In c (explore SE id mode) <-> In c (selected SE id).
Proof. rewrite explore_In, selected_eq, select_all_spec. reflexivity. Qed.
Print Assumptions explore_iff_selected.

(* 2. distinct names *)
Lemma name_lt_NoDup l : StronglySorted name_lt l -> NoDup (map c_name l).
Proof.
  induction 1 as [|x l Hs IH Hall]; cbn [map]; constructor; [|exact IH].
  intros Hi. apply in_map_iff in Hi. destruct Hi as (y & E & Hy). rewrite Forall_forall in Hall.
  specialize (Hall y Hy). unfold name_lt in Hall. rewrite E, ag_bytes_ltb_irrefl in Hall. discriminate.
Qed.

Theorem explore_names_distinct SE id mode : NoDup (map c_name (explore SE id mode)).
Proof.
  rewrite explore_eq. eapply Permutation_NoDup.
  - apply Permutation_map. apply Permutation_sym. apply final_sort_perm.
  - apply name_lt_NoDup. apply dominated_spec.
Qed.
Print Assumptions explore_names_distinct.

(* 3. soundness *)
Theorem explore_sound SE id mode c : In c (explore SE id mode) -> In c (unfold (S (length SE)) SE id []).
Proof. intros H. apply explore_In in H. apply H. Qed.
Print Assumptions explore_sound.

Theorem explore_addresses SE id mode c : In c (explore SE id mode) ->
  exists pre i sf, field_at SE id [] (c_route c) = Some (pre, i, sf) /\ classify pre i sf = FCand c
                   /\ c_route c = pre ++ [i].
Proof. intros H. apply explore_sound in H. apply unfold_addresses in H. exact H. Qed.
Print Assumptions explore_addresses.

(* 4. the main theorem, in the boolean form of Autogen.v *)
Lemma ag_gtype_eqb_refl a : gtype_eqb a a = true.
Proof.
  induction a; cbn; try reflexivity; rewrite ?Nat.eqb_refl, ?Z.eqb_refl, ?IHa, ?IHa1, ?IHa2; try reflexivity.
  destruct k; reflexivity.
Qed.

Lemma cand_eqb_refl c : cand_eqb c c = true.
Proof.
  unfold cand_eqb. rewrite ag_bytes_eqb_refl, ag_gtype_eqb_refl, eqb_reflx.
  destruct (list_eq_dec Nat.eq_dec (c_route c) (c_route c)); [reflexivity|congruence].
Qed.

Lemma same_set_of_iff a b : NoDup a -> NoDup b -> (forall c, In c a <-> In c b) -> same_set a b = true.
Proof.
  intros Ha Hb H. unfold same_set. rewrite !andb_true_iff. split; [split|].
  - apply Nat.eqb_eq. apply Nat.le_antisymm; apply NoDup_incl_length; auto; intros c Hc; apply H; exact Hc.
  - apply forallb_forall. intros x Hx. apply existsb_exists. exists x. split; [apply H; exact Hx|apply cand_eqb_refl].
  - apply forallb_forall. intros x Hx. apply existsb_exists. exists x. split; [apply H; exact Hx|apply cand_eqb_refl].
Qed.

Lemma NoDup_of_map {X Y} (f : X -> Y) l : NoDup (map f l) -> NoDup l.
Proof.
  induction l as [|x l IH]; intros H; [constructor|]. cbn [map] in H. inversion H as [|? ? Hn Hnd]; subst.
  constructor; [|auto]. intros Hi. apply Hn. apply in_map. exact Hi.
Qed.

Theorem explore_matches_selected SE id mode : explore_matches_spec SE id mode = true.
Proof.
  unfold explore_matches_spec. apply same_set_of_iff.
  - apply (NoDup_of_map c_name). apply explore_names_distinct.
  - apply (NoDup_of_map c_name). rewrite selected_eq. apply select_all_names_NoDup.
  - intros c. apply explore_iff_selected.
Qed.
Print Assumptions explore_matches_selected.

(* the specification, spelled out: a candidate of the unfolding survives iff, among all the candidates of the
   same name, it is at the minimal depth and is the only one there or the only tagged one there *)
Theorem explore_characterised SE id mode c :
  In c (explore SE id mode) <->
  let all := unfold (S (length SE)) SE id [] in
  In c all /\
  (forall y, In y all -> c_name y = c_name c -> (length (c_route c) <= length (c_route y))%nat) /\
  (length (filter (fun y => bytes_eqb (c_name y) (c_name c) && Nat.eqb (length (c_route y)) (length (c_route c))) all) = 1%nat \/
   (c_tagged c = true /\
    length (filter (fun y => bytes_eqb (c_name y) (c_name c) && Nat.eqb (length (c_route y)) (length (c_route c))
                             && c_tagged y) all) = 1%nat)).
Proof.
  rewrite explore_In. unfold sel, all_cands, cnt. cbv zeta.
  assert (E1 : forall l, filter (pq (c_name c) (depth_of c) false) l =
    filter (fun y => bytes_eqb (c_name y) (c_name c) && Nat.eqb (length (c_route y)) (length (c_route c))) l).
  { intros l. apply filter_ext. intros y. unfold pq, depth_of. cbn [implb]. apply andb_true_r. }
  assert (E2 : forall l, filter (pq (c_name c) (depth_of c) true) l =
    filter (fun y => bytes_eqb (c_name y) (c_name c) && Nat.eqb (length (c_route y)) (length (c_route c)) && c_tagged y) l).
  { intros l. apply filter_ext. intros y. unfold pq, depth_of. cbn [implb]. reflexivity. }
  rewrite E1, E2. reflexivity.
Qed.
Print Assumptions explore_characterised.

(* 1. sortedness *)
Lemma routes_NoDup SE id l : incl l (all_cands SE id) -> NoDup l -> NoDup (map c_route l).
Proof.
  intros Hincl. induction 1 as [|x l Hn Hnd IH]; cbn [map]; constructor.
  - intros Hi. apply in_map_iff in Hi. destruct Hi as (y & E & Hy). apply Hn.
    assert (y = x); [|subst; exact Hy].
    apply (unfold_route_inj SE (S (length SE)) id); auto; apply Hincl; [right; exact Hy|left; reflexivity].
  - apply IH. intros y Hy. apply Hincl. right. exact Hy.
Qed.

Lemma dominated_incl SE id : incl (dominated SE id) (all_cands SE id).
Proof.
  intros c Hc. apply (proj1 (dominated_spec SE id)) in Hc. apply sel_raw_all in Hc. apply Hc.
Qed.

Theorem explore_sorted_mode0 SE id :
  StronglySorted (fun x y => route_ltb (c_route x) (c_route y) = true) (explore SE id 0).
Proof.
  rewrite explore_eq. unfold final_sort. cbn [Z.eqb].
  apply (sort_by_strict c_route route_eqb route_ltb sto_route).
  apply (routes_NoDup SE id); [apply dominated_incl|].
  apply (NoDup_of_map c_name). apply name_lt_NoDup. apply dominated_spec.
Qed.
Print Assumptions explore_sorted_mode0.

Theorem explore_sorted_mode2 SE id :
  StronglySorted (fun x y => rfc7049_ltb (c_name x) (c_name y) = true) (explore SE id 2).
Proof.
  rewrite explore_eq. unfold final_sort. cbn [Z.eqb].
  apply (sort_by_strict c_name bytes_eqb rfc7049_ltb sto_rfc7049).
  apply name_lt_NoDup. apply dominated_spec.
Qed.
Print Assumptions explore_sorted_mode2.

Theorem explore_sorted_mode1 SE id mode : mode <> 0 -> mode <> 2 ->
  StronglySorted (fun x y => bytes_ltb (c_name x) (c_name y) = true) (explore SE id mode).
Proof.
  intros H0 H2. rewrite explore_eq. unfold final_sort.
  destruct (Z.eqb_spec mode 0); [contradiction|]. destruct (Z.eqb_spec mode 2); [contradiction|].
  apply dominated_spec.
Qed.
Print Assumptions explore_sorted_mode1.

Definition mode_lt (mode : Z) (x y : cand) : bool :=
  if mode =? 0 then route_ltb (c_route x) (c_route y)
  else if mode =? 2 then rfc7049_ltb (c_name x) (c_name y)
  else bytes_ltb (c_name x) (c_name y).

Theorem explore_sorted SE id mode : StronglySorted (fun x y => mode_lt mode x y = true) (explore SE id mode).
Proof.
  unfold mode_lt. destruct (Z.eqb_spec mode 0) as [->|H0]; [apply explore_sorted_mode0|].
  destruct (Z.eqb_spec mode 2) as [->|H2]; [apply explore_sorted_mode2|apply explore_sorted_mode1; assumption].
Qed.
Print Assumptions explore_sorted.

Corollary explore_locally_sorted SE id mode : Sorted (fun x y => mode_lt mode x y = true) (explore SE id mode).
Proof. apply StronglySorted_Sorted. apply explore_sorted. Qed.

(* 5. the routes of an autogenerated entry are non-empty and pairwise unrelated *)
Theorem autogen_entry_routes_ok SE id mode : entry_routes_ok (autogen_entry SE id mode) = true.
Proof.
  unfold entry_routes_ok, autogen_entry. cbn [ae_kind]. unfold routes_ok. cbv zeta.
  assert (Ef : filter active (map cand_entry (explore SE id mode)) = map cand_entry (explore SE id mode)).
  { induction (explore SE id mode) as [|c l IH]; [reflexivity|]. cbn [map filter]. unfold active at 1.
    cbn [cand_entry fe_ignore negb]. rewrite IH. reflexivity. }
  rewrite Ef, map_map. cbn [cand_entry fe_route].
  assert (Hincl : incl (explore SE id mode) (all_cands SE id)) by (intros c Hc; apply (explore_sound _ _ _ _ Hc)).
  assert (Hnd : NoDup (explore SE id mode)) by (apply (NoDup_of_map c_name); apply explore_names_distinct).
  apply andb_true_iff. split.
  - apply forallb_forall. intros r Hr. apply in_map_iff in Hr. destruct Hr as (c & <- & Hc).
    destruct (explore_addresses _ _ _ _ Hc) as (pre & i & sf & _ & _ & ->). destruct pre; reflexivity.
  - apply prefix_free_pairwise; [apply (routes_NoDup SE id); assumption|].
    intros a b Ha Hb Hne. apply in_map_iff in Ha, Hb. destruct Ha as (ca & <- & Hca). destruct Hb as (cb & <- & Hcb).
    unfold unrelated. apply andb_true_iff. split; apply negb_true_iff.
    + destruct (is_prefix (c_route ca) (c_route cb)) eqn:E; [|reflexivity]. exfalso. apply Hne.
      rewrite (unfold_prefix_eq SE (S (length SE)) id ca cb); auto.
    + destruct (is_prefix (c_route cb) (c_route ca)) eqn:E; [|reflexivity]. exfalso. apply Hne.
      rewrite (unfold_prefix_eq SE (S (length SE)) id cb ca); auto.
Qed.
Print Assumptions autogen_entry_routes_ok.

(* hence the token bound of ObjProof applies to atlases whose struct entries are all autogenerated *)
Corollary autogen_atlas_routes_ok (A : atlas) :
  (forall e, In e (a_entries A) ->
     (exists SE id mode, e = autogen_entry SE id mode) \/ (match ae_kind e with EStruct _ => False | _ => True end)) ->
  atlas_routes_ok A = true.
Proof.
  intros H. unfold atlas_routes_ok. apply forallb_forall. intros e He.
  destruct (H e He) as [(SE & id & mode & ->)|Hk]; [apply autogen_entry_routes_ok|].
  unfold entry_routes_ok. destruct (ae_kind e); [contradiction|reflexivity..].
Qed.

Corollary autogen_marshal_bounded (A : atlas) f t v ts :
  (forall e, In e (a_entries A) ->
     (exists SE id mode, e = autogen_entry SE id mode) \/ (match ae_kind e with EStruct _ => False | _ => True end)) ->
  marshal A f t v = MOk ts -> (length ts + 1 <= 3 * gsize v)%nat.
Proof. intros H. apply marshal_bounded_disjoint_routes. apply autogen_atlas_routes_ok. exact H. Qed.
Print Assumptions autogen_marshal_bounded.

(* ====================================================================== *)
(* Examples (evaluated by the kernel)                                        *)
(* ====================================================================== *)

Definition show (l : list cand) := map (fun c => (c_name c, c_route c, c_tagged c)) l.
Definition fld (name : bytes) (t : gtype) : sfield := SF name true false [] t.
Definition emb (name : bytes) (t : gtype) : sfield := SF name true true [] t.
Definition tagd (name tag : bytes) (t : gtype) : sfield := SF name true false tag t.

(* T{X int64; A}  A{X string; Y int64}: the shallower X hides A.X, A.Y is promoted *)
Definition ex_hide : senv :=
  [(1, [fld [88] (GNum I64); emb [65] (GStruct 2)]);
   (2, [fld [88] GStr; fld [89] (GNum I64)])].
Example ex_shallower_hides_deeper :
  show (explore ex_hide 1 0) = [([120], [0%nat], false); ([121], [1%nat; 1%nat], false)]
  /\ show (all_cands ex_hide 1) = [([120], [0%nat], false); ([120], [1%nat; 0%nat], false); ([121], [1%nat; 1%nat], false)]
  /\ explore_matches_spec ex_hide 1 0 = true.
Proof. vm_compute. repeat split; reflexivity. Qed.

(* T{A; B}  A{X; P}  B{X; Q}: X is ambiguous at depth 2 and disappears, P and Q stay *)
Definition ex_ambig : senv :=
  [(1, [emb [65] (GStruct 2); emb [66] (GStruct 3)]);
   (2, [fld [88] (GNum I64); fld [80] (GNum I64)]);
   (3, [fld [88] (GNum I64); fld [81] (GNum I64)])].
Example ex_equal_depth_ambiguity :
  show (explore ex_ambig 1 1) = [([112], [0%nat; 1%nat], false); ([113], [1%nat; 1%nat], false)]
  /\ show (selected ex_ambig 1) = [([112], [0%nat; 1%nat], false); ([113], [1%nat; 1%nat], false)].
Proof. vm_compute. split; reflexivity. Qed.

(* T{A; B}  A{X `x`}  B{X}: same name "x" at the same depth, the tagged one wins *)
Definition ex_tagged : senv :=
  [(1, [emb [65] (GStruct 2); emb [66] (GStruct 3)]);
   (2, [tagd [88] [120] (GNum I64)]);
   (3, [fld [88] GStr])].
Example ex_tagged_wins :
  show (explore ex_tagged 1 0) = [([120], [0%nat; 0%nat], true)]
  /\ map c_type (explore ex_tagged 1 0) = [GNum I64].
Proof. vm_compute. split; reflexivity. Qed.
(* ... but two tagged ones at the same depth annihilate *)
Definition ex_tagged2 : senv :=
  [(1, [emb [65] (GStruct 2); emb [66] (GStruct 3)]);
   (2, [tagd [88] [120] (GNum I64)]);
   (3, [tagd [89] [120] GStr])].
Example ex_two_tagged_annihilate : explore ex_tagged2 1 0 = [] /\ selected ex_tagged2 1 = [].
Proof. vm_compute. split; reflexivity. Qed.

(* the diamond T{A; B} A{C} B{C} C{X; D} D{Y}: C is reached along two paths, so C.X is ambiguous, and
   so is everything below C (D.Y), although D is embedded only once in C (D19) *)
Definition ex_diamond : senv :=
  [(1, [emb [65] (GStruct 2); emb [66] (GStruct 3)]);
   (2, [emb [67] (GStruct 4)]);
   (3, [emb [67] (GStruct 4)]);
   (4, [fld [88] (GNum I64); emb [68] (GStruct 5)]);
   (5, [fld [89] (GNum I64)])].
Example ex_diamond_nested :
  explore ex_diamond 1 0 = [] /\ selected ex_diamond 1 = []
  /\ show (raw ex_diamond 1) = [([120], [0%nat; 0%nat; 0%nat], false); ([120], [0%nat; 0%nat; 0%nat], false);
                                 ([121], [0%nat; 0%nat; 1%nat; 0%nat], false); ([121], [0%nat; 0%nat; 1%nat; 0%nat], false)]
  /\ show (all_cands ex_diamond 1) = [([120], [0%nat; 0%nat; 0%nat], false); ([121], [0%nat; 0%nat; 1%nat; 0%nat], false);
                                       ([120], [1%nat; 0%nat; 0%nat], false); ([121], [1%nat; 0%nat; 1%nat; 0%nat], false)].
Proof. vm_compute. repeat split; reflexivity. Qed.
(* the diamond with a shallower Y beside it: T{A; B; Y} — Y at depth 1 is selected, the ambiguous ones vanish *)
Definition ex_diamond_y : senv :=
  (0, [emb [65] (GStruct 2); emb [66] (GStruct 3); fld [89] GStr]) :: ex_diamond.
Example ex_diamond_shallow_y : show (explore ex_diamond_y 0 0) = [([121], [2%nat], false)]
  /\ explore_matches_spec ex_diamond_y 0 0 = true.
Proof. vm_compute. split; reflexivity. Qed.

(* a pointer cycle: type T struct { X int64; *T } — the BFS visits T once; the unfolding (cut at depth 2)
   also lists T.T.X, which the shallower X hides *)
Definition ex_cycle : senv := [(1, [fld [88] (GNum I64); emb [84] (GPtr (GStruct 1))])].
Example ex_pointer_cycle :
  show (explore ex_cycle 1 0) = [([120], [0%nat], false)]
  /\ show (all_cands ex_cycle 1) = [([120], [0%nat], false); ([120], [1%nat; 0%nat], false)]
  /\ show (selected ex_cycle 1) = [([120], [0%nat], false)].
Proof. vm_compute. repeat split; reflexivity. Qed.
(* a longer cycle through two types, entered from a third: R{A} A{X; *B} B{Y; *A; X} *)
Definition ex_cycle2 : senv :=
  [(1, [emb [65] (GStruct 2)]);
   (2, [fld [88] (GNum I64); emb [66] (GPtr (GStruct 3))]);
   (3, [fld [89] (GNum I64); emb [65] (GPtr (GStruct 2)); fld [88] GStr])].
Example ex_two_type_cycle :
  show (explore ex_cycle2 1 0) = [([120], [0%nat; 0%nat], false); ([121], [0%nat; 1%nat; 0%nat], false)]
  /\ explore_matches_spec ex_cycle2 1 0 = true.
Proof. vm_compute. split; reflexivity. Qed.

(* environments that are not well formed are covered as well (no hypothesis on SE is needed):
   an embedded struct id that is not declared, and an id declared twice (the first declaration counts) *)
Definition ex_illformed : senv :=
  [(1, [emb [65] (GStruct 7); fld [88] GStr; emb [66] (GStruct 2)]); (2, [fld [89] GStr]); (2, [fld [90] GStr])].
Example ex_illformed_env :
  show (explore ex_illformed 1 0) = [([120], [1%nat], false); ([121], [2%nat; 0%nat], false)]
  /\ explore_matches_spec ex_illformed 1 0 = true /\ explore ex_illformed 9 0 = [].
Proof. vm_compute. repeat split; reflexivity. Qed.

(* skipped fields and D18: unexported plain field, tag "-", embedded unexported non-struct are skipped;
   an embedded struct of unexported type is never a field itself, even when tagged: only its fields are promoted *)
Definition ex_skips : senv :=
  [(1, [SF [120] false false [] GStr;                 (* x string (unexported) *)
        SF [89] true false [45] GStr;                 (* Y string `-` *)
        SF [109] false true [] (GNamed 50 GStr);      (* embedded unexported non-struct *)
        SF [105] false true [116] (GStruct 2);        (* embedded unexported struct, tagged "t" *)
        SF [90] true false [122;44;111;109;105;116;101;109;112;116;121] GStr]);   (* Z string `z,omitempty` *)
   (2, [fld [87] GStr])].
Example ex_skipped_fields :
  map (fun c => (c_name c, c_route c, c_omit c)) (explore ex_skips 1 0)
  = [([119], [3%nat; 0%nat], false); ([122], [4%nat], true)].
Proof. vm_compute. reflexivity. Qed.

(* 14 fields, mode 2 (RFC 7049 canonical: shorter names first, then bytewise), against modes 1 and 0 *)
Definition ex_14 : senv :=
  [(1, [fld [78] GStr;                  (* N  -> n *)
        fld [66;66] GStr;               (* BB -> bB *)
        fld [65;65;65] GStr;            (* AAA -> aAA *)
        fld [77] GStr;                  (* M -> m *)
        fld [67;67] GStr;               (* CC -> cC *)
        fld [65;66] GStr;               (* AB -> aB *)
        fld [90] GStr;                  (* Z -> z *)
        fld [65;65;65;65] GStr;         (* AAAA -> aAAA *)
        fld [66] GStr;                  (* B -> b *)
        fld [65;67] GStr;               (* AC -> aC *)
        fld [89;89;89] GStr;            (* YYY -> yYY *)
        fld [65] GStr;                  (* A -> a *)
        fld [68;65] GStr;               (* DA -> dA *)
        fld [75] GStr])].               (* K -> k *)
Example ex_14_fields_mode2 :
  map c_name (explore ex_14 1 2)
  = [[97]; [98]; [107]; [109]; [110]; [122]; [97;66]; [97;67]; [98;66]; [99;67]; [100;65]; [97;65;65]; [121;89;89]; [97;65;65;65]]
  /\ map c_name (explore ex_14 1 1)
  = [[97]; [97;65;65]; [97;65;65;65]; [97;66]; [97;67]; [98]; [98;66]; [99;67]; [100;65]; [107]; [109]; [110]; [121;89;89]; [122]]
  /\ map c_route (explore ex_14 1 0)
  = [[0]; [1]; [2]; [3]; [4]; [5]; [6]; [7]; [8]; [9]; [10]; [11]; [12]; [13]]%nat
  /\ length (explore ex_14 1 2) = 14%nat.
Proof. vm_compute. repeat split; reflexivity. Qed.

(* the route of a selected field addresses it *)
Example ex_field_at :
  field_at ex_hide 1 [] [1%nat; 1%nat] = Some ([1%nat], 1%nat, fld [89] (GNum I64))
  /\ classify [1%nat] 1 (fld [89] (GNum I64)) = FCand (Cand [121] [1%nat; 1%nat] (GNum I64) false false).
Proof. vm_compute. split; reflexivity. Qed.

Example ex_entry_routes_ok : entry_routes_ok (autogen_entry ex_cycle2 1 2) = true.
Proof. vm_compute. reflexivity. Qed.
