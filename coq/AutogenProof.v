(* AutogenProof.v — property C19: the breadth-first exploration [explore] of
   Autogen.v (a transcription of atlas.AutogenerateStructMapEntryUsingTags /
   exploreFields) selects exactly the fields that Go's promotion rules, applied
   to serial names over the full unfolding of the embedding tree, select
   ([selected]); the result is sorted by the chosen mode, has distinct names,
   every field is addressed by its route, and routes are pairwise unrelated.

   Structure of the development
     A. strict total orders, insertion sort
     B. counting, the order-free selection predicate [sel]
     C. [dominate] on a by_name-sorted list and [select_name] both compute [sel]
     D. fields of a struct: [cands], [embeds]; [unfold] as levels ([full])
     E. addressing: routes determine fields ([field_at]), prefix-freeness
     F. the pruned unfolding ([pruned]) against the full one
     G. the BFS against the pruned unfolding (counts up to "1 versus >= 2")
     H. the main theorems and the examples *)
From Coq Require Import List ZArith Bool Lia ZifyBool ZifyNat Permutation Sorted Arith.
Require Import Tok Utf8 GoVal Autogen ObjProof.
Import ListNotations.
Open Scope Z_scope.

(* ====================================================================== *)
(* A. strict total orders and insertion sort                                 *)
(* ====================================================================== *)

Record sto {K} (eqb ltb : K -> K -> bool) : Prop := {
  sto_eq : forall a b, eqb a b = true <-> a = b ;
  sto_irrefl : forall a, ltb a a = false ;
  sto_trans : forall a b c, ltb a b = true -> ltb b c = true -> ltb a c = true ;
  sto_total : forall a b, a <> b -> ltb a b = true \/ ltb b a = true }.

Lemma sto_asym {K} (e l : K -> K -> bool) : sto e l -> forall a b, l a b = true -> l b a = false.
Proof.
  intros S a b H. destruct (l b a) eqn:E; [|reflexivity].
  pose proof (sto_trans _ _ S _ _ _ H E) as C. rewrite (sto_irrefl _ _ S) in C. discriminate.
Qed.

Lemma sto_eq_refl {K} (e l : K -> K -> bool) : sto e l -> forall a, e a a = true.
Proof. intros S a. apply (sto_eq _ _ S). reflexivity. Qed.

Lemma sto_dec {K} (e l : K -> K -> bool) : sto e l -> forall a b : K, a = b \/ a <> b.
Proof.
  intros S a b. destruct (e a b) eqn:E.
  - left. apply (sto_eq _ _ S). exact E.
  - right. intros ->. rewrite (sto_eq_refl _ _ S) in E. discriminate.
Qed.

(* le a b := ltb b a = false is transitive *)
Lemma sto_le_trans {K} (e l : K -> K -> bool) : sto e l ->
  forall a b c, l b a = false -> l c b = false -> l c a = false.
Proof.
  intros S a b c H1 H2. destruct (l c a) eqn:E; [|reflexivity].
  destruct (sto_dec _ _ S a b) as [->|Hne].
  - rewrite E in H2. discriminate.
  - destruct (sto_total _ _ S _ _ Hne) as [H|H].
    + rewrite (sto_trans _ _ S _ _ _ E H) in H2. discriminate.
    + rewrite H in H1. discriminate.
Qed.

Lemma sto_antisym {K} (e l : K -> K -> bool) : sto e l ->
  forall a b, l a b = false -> l b a = false -> a = b.
Proof.
  intros S a b H1 H2. destruct (sto_dec _ _ S a b) as [E|Hne]; [exact E|].
  destruct (sto_total _ _ S _ _ Hne) as [H|H]; congruence.
Qed.

(* lexicographic product *)
Definition lexb {A B} (eqa lta : A -> A -> bool) (ltb : B -> B -> bool) (p q : A * B) : bool :=
  if negb (eqa (fst p) (fst q)) then lta (fst p) (fst q) else ltb (snd p) (snd q).
Definition paireqb {A B} (eqa : A -> A -> bool) (eqb : B -> B -> bool) (p q : A * B) : bool :=
  eqa (fst p) (fst q) && eqb (snd p) (snd q).

Lemma sto_lex {A B} (eqa lta : A -> A -> bool) (eqb ltb : B -> B -> bool) :
  sto eqa lta -> sto eqb ltb -> sto (paireqb eqa eqb) (lexb eqa lta ltb).
Proof.
  intros SA SB. constructor.
  - intros [a b] [a' b']. unfold paireqb. cbn [fst snd]. rewrite andb_true_iff.
    rewrite (sto_eq _ _ SA), (sto_eq _ _ SB). split; [intros [-> ->]; reflexivity|]. intros H; inversion H; auto.
  - intros [a b]. unfold lexb. cbn [fst snd]. rewrite (sto_eq_refl _ _ SA). cbn. apply (sto_irrefl _ _ SB).
  - intros [a1 b1] [a2 b2] [a3 b3]. unfold lexb. cbn [fst snd].
    destruct (eqa a1 a2) eqn:E12; cbn [negb].
    + apply (sto_eq _ _ SA) in E12. subst a2.
      destruct (eqa a1 a3) eqn:E13; cbn [negb]; [|auto].
      apply (sto_trans _ _ SB).
    + destruct (eqa a2 a3) eqn:E23; cbn [negb].
      * apply (sto_eq _ _ SA) in E23. subst a3. rewrite E12. cbn. auto.
      * intros H1 H2. pose proof (sto_trans _ _ SA _ _ _ H1 H2) as H3.
        destruct (eqa a1 a3) eqn:E13; cbn [negb]; [|exact H3].
        apply (sto_eq _ _ SA) in E13. subst a3. rewrite (sto_irrefl _ _ SA) in H3. discriminate.
  - intros [a b] [a' b'] Hne. unfold lexb. cbn [fst snd].
    destruct (eqa a a') eqn:E.
    + pose proof E as E'. apply (sto_eq _ _ SA) in E'. subst a'. rewrite E. cbn [negb].
      apply (sto_total _ _ SB). intros ->. apply Hne. reflexivity.
    + assert (Hn : a <> a') by (intros ->; rewrite (sto_eq_refl _ _ SA) in E; discriminate).
      assert (E' : eqa a' a = false).
      { destruct (eqa a' a) eqn:E2; [|reflexivity]. apply (sto_eq _ _ SA) in E2. congruence. }
      rewrite E'. cbn [negb]. apply (sto_total _ _ SA). exact Hn.
Qed.

(* --- bytes --- *)
Lemma ag_bytes_eqb_eq a : forall b, bytes_eqb a b = true <-> a = b.
Proof.
  induction a as [|x a IH]; intros [|y b]; cbn [bytes_eqb]; try (split; [discriminate|discriminate]);
    [split; reflexivity|].
  rewrite andb_true_iff, IH. split; [intros [H ->]; f_equal; lia|]. intros H; inversion H; subst. split; [lia|reflexivity].
Qed.
Lemma ag_bytes_eqb_refl a : bytes_eqb a a = true.
Proof. apply ag_bytes_eqb_eq. reflexivity. Qed.

Lemma ag_bytes_ltb_irrefl a : bytes_ltb a a = false.
Proof. induction a as [|x a IH]; cbn [bytes_ltb]; [reflexivity|]. rewrite Z.ltb_irrefl. exact IH. Qed.

Lemma ag_bytes_ltb_trans a : forall b c, bytes_ltb a b = true -> bytes_ltb b c = true -> bytes_ltb a c = true.
Proof.
  induction a as [|x a IH]; intros [|y b] [|z c]; cbn [bytes_ltb]; try discriminate; try reflexivity.
  destruct (x <? y) eqn:E1; destruct (y <? x) eqn:E2; destruct (y <? z) eqn:E3; destruct (z <? y) eqn:E4;
  destruct (x <? z) eqn:E5; destruct (z <? x) eqn:E6; try reflexivity; try discriminate; try lia.
  apply IH.
Qed.

Lemma ag_bytes_ltb_total a : forall b, a <> b -> bytes_ltb a b = true \/ bytes_ltb b a = true.
Proof.
  induction a as [|x a IH]; intros [|y b] Hne; cbn [bytes_ltb].
  - contradiction Hne; reflexivity.
  - left; reflexivity.
  - right; reflexivity.
  - destruct (x <? y) eqn:E1; [left; reflexivity|]. destruct (y <? x) eqn:E2; [right; reflexivity|].
    assert (x = y) by lia. subst y. apply IH. intros ->. apply Hne. reflexivity.
Qed.

Lemma sto_bytes : sto bytes_eqb bytes_ltb.
Proof.
  constructor; [apply ag_bytes_eqb_eq|apply ag_bytes_ltb_irrefl|apply ag_bytes_ltb_trans|apply ag_bytes_ltb_total].
Qed.

Lemma ag_rfc7049_spec a b :
  rfc7049_ltb a b = true <-> (length a < length b)%nat \/ (length a = length b /\ bytes_ltb a b = true).
Proof.
  unfold rfc7049_ltb.
  destruct (Nat.ltb_spec (length a) (length b)) as [H1|H1].
  - split; [intros _; left; exact H1 | reflexivity].
  - destruct (Nat.ltb_spec (length b) (length a)) as [H2|H2].
    + split; [discriminate|]. intros [H|[H _]]; lia.
    + split; [intros H; right; split; [lia | exact H]|]. intros [H|[_ H]]; [lia | exact H].
Qed.

Lemma sto_rfc7049 : sto bytes_eqb rfc7049_ltb.
Proof.
  constructor.
  - apply ag_bytes_eqb_eq.
  - intros a. destruct (rfc7049_ltb a a) eqn:E; [|reflexivity].
    apply ag_rfc7049_spec in E. destruct E as [E|[_ E]]; [lia|]. rewrite ag_bytes_ltb_irrefl in E. discriminate.
  - intros a b c. rewrite !ag_rfc7049_spec. intros [H1|[H1 L1]] [H2|[H2 L2]]; try (left; lia).
    right. split; [lia|]. eapply ag_bytes_ltb_trans; eassumption.
  - intros a b Hne. rewrite !ag_rfc7049_spec.
    destruct (Nat.lt_trichotomy (length a) (length b)) as [H|[H|H]].
    + left; left; exact H.
    + destruct (ag_bytes_ltb_total a b Hne) as [L|L]; [left|right]; right; split; auto.
    + right; left; exact H.
Qed.

(* --- routes --- *)
Definition route_eqb (a b : list nat) : bool := if list_eq_dec Nat.eq_dec a b then true else false.

Lemma sto_route : sto route_eqb route_ltb.
Proof.
  constructor.
  - intros a b. unfold route_eqb. destruct (list_eq_dec Nat.eq_dec a b); split; congruence.
  - induction a as [|x a IH]; cbn [route_ltb]; [reflexivity|]. rewrite Nat.ltb_irrefl. exact IH.
  - induction a as [|x a IH]; intros [|y b] [|z c]; cbn [route_ltb]; try discriminate; try reflexivity.
    destruct (Nat.ltb_spec x y); destruct (Nat.ltb_spec y x); destruct (Nat.ltb_spec y z);
    destruct (Nat.ltb_spec z y); destruct (Nat.ltb_spec x z); destruct (Nat.ltb_spec z x);
      try reflexivity; try discriminate; try lia.
    apply IH.
  - induction a as [|x a IH]; intros [|y b] Hne; cbn [route_ltb].
    + contradiction Hne; reflexivity.
    + left; reflexivity.
    + right; reflexivity.
    + destruct (Nat.ltb_spec x y); [left; reflexivity|]. destruct (Nat.ltb_spec y x); [right; reflexivity|].
      assert (x = y) by lia. subst y. apply IH. intros ->. apply Hne. reflexivity.
Qed.

(* --- nat, bool (true first) --- *)
Lemma sto_nat : sto Nat.eqb Nat.ltb.
Proof.
  constructor.
  - apply Nat.eqb_eq.
  - apply Nat.ltb_irrefl.
  - intros a b c. rewrite !Nat.ltb_lt. lia.
  - intros a b. rewrite !Nat.ltb_lt. lia.
Qed.

Definition bool_ltb (a b : bool) : bool := a && negb b.
Lemma sto_bool : sto Bool.eqb bool_ltb.
Proof.
  constructor.
  - intros [|] [|]; cbn; split; congruence.
  - intros [|]; reflexivity.
  - intros [|] [|] [|]; cbn; congruence.
  - intros [|] [|]; cbn; intros H; auto; contradiction H; reflexivity.
Qed.

(* --- the by_name order as a lexicographic product on a key --- *)
Definition bn_key (c : cand) : bytes * (nat * (bool * list nat)) :=
  (c_name c, (length (c_route c), (c_tagged c, c_route c))).
Definition bn_klt := lexb bytes_eqb bytes_ltb (lexb Nat.eqb Nat.ltb (lexb Bool.eqb bool_ltb route_ltb)).
Definition bn_keq := paireqb bytes_eqb (paireqb Nat.eqb (paireqb Bool.eqb route_eqb)).

Lemma sto_bn : sto bn_keq bn_klt.
Proof. repeat apply sto_lex; [apply sto_bytes|apply sto_nat|apply sto_bool|apply sto_route]. Qed.

Lemma by_name_ltb_key x y : by_name_ltb x y = bn_klt (bn_key x) (bn_key y).
Proof.
  unfold by_name_ltb, bn_klt, bn_key, lexb. cbn [fst snd].
  destruct (negb (bytes_eqb _ _)); [reflexivity|].
  destruct (negb (Nat.eqb _ _)); [reflexivity|].
  destruct (c_tagged x), (c_tagged y); reflexivity.
Qed.

(* --- insertion sort, generically, for lt x y := klt (key x) (key y) --- *)
Section SortBy.
  Context {X K : Type} (key : X -> K) (keq klt : K -> K -> bool) (S : sto keq klt).
  Let lt (x y : X) := klt (key x) (key y).
  Let le (x y : X) : Prop := lt y x = false.

  Lemma insert_by_perm (f : X -> X -> bool) x l : Permutation (insert_by f x l) (x :: l).
  Proof.
    induction l as [|y r IH]; cbn [insert_by]; [apply Permutation_refl|].
    destruct (f x y); [apply Permutation_refl|].
    eapply perm_trans; [apply perm_skip; exact IH|apply perm_swap].
  Qed.

  Lemma sort_by_perm (f : X -> X -> bool) l : Permutation (sort_by f l) l.
  Proof.
    induction l as [|x r IH]; [apply Permutation_refl|]. unfold sort_by in *. cbn [fold_right].
    eapply perm_trans; [apply insert_by_perm|]. apply perm_skip. exact IH.
  Qed.

  Lemma insert_by_sorted x l : StronglySorted le l -> StronglySorted le (insert_by lt x l).
  Proof.
    induction 1 as [|y r Hs IH Hall]; cbn [insert_by].
    - constructor; constructor.
    - destruct (lt x y) eqn:E.
      + constructor; [constructor; assumption|].
        assert (Hxy : le x y) by (apply (sto_asym _ _ S); exact E).
        constructor; [exact Hxy|].
        rewrite Forall_forall in *. intros z Hz. specialize (Hall z Hz).
        unfold le, lt in *. eapply (sto_le_trans _ _ S); eassumption.
      + constructor; [exact IH|].
        rewrite Forall_forall in *. intros z Hz.
        apply (Permutation_in _ (insert_by_perm lt x r)) in Hz. destruct Hz as [<-|Hz]; [exact E|auto].
  Qed.

  Lemma sort_by_sorted l : StronglySorted le (sort_by lt l).
  Proof.
    induction l as [|x r IH]; [constructor|]. unfold sort_by in *. cbn [fold_right].
    apply insert_by_sorted. exact IH.
  Qed.

  Lemma sorted_strict l : StronglySorted le l -> NoDup (map key l) ->
    StronglySorted (fun x y => lt x y = true) l.
  Proof.
    induction 1 as [|x r Hs IH Hall]; intros Hnd; [constructor|].
    cbn [map] in Hnd. inversion Hnd as [|? ? Hnin Hnd']; subst.
    constructor; [auto|].
    rewrite Forall_forall in *. intros y Hy. specialize (Hall y Hy).
    destruct (lt x y) eqn:E; [reflexivity|].
    exfalso. apply Hnin. unfold le, lt in *.
    rewrite (sto_antisym _ _ S _ _ E Hall). apply in_map. exact Hy.
  Qed.

  Lemma sort_by_strict l : NoDup (map key l) -> StronglySorted (fun x y => lt x y = true) (sort_by lt l).
  Proof.
    intros Hnd. apply sorted_strict; [apply sort_by_sorted|].
    eapply Permutation_NoDup; [|exact Hnd]. apply Permutation_map. apply Permutation_sym, sort_by_perm.
  Qed.
End SortBy.

(* ====================================================================== *)
(* B. counting; the order-free selection predicate                           *)
(* ====================================================================== *)

Definition cnt {X} (p : X -> bool) (l : list X) : nat := length (filter p l).

Lemma cnt_nil {X} (p : X -> bool) : cnt p [] = 0%nat.
Proof. reflexivity. Qed.
Lemma cnt_cons {X} (p : X -> bool) x l : cnt p (x :: l) = ((if p x then 1 else 0) + cnt p l)%nat.
Proof. unfold cnt. cbn [filter]. destruct (p x); reflexivity. Qed.
Lemma cnt_app {X} (p : X -> bool) l1 l2 : cnt p (l1 ++ l2) = (cnt p l1 + cnt p l2)%nat.
Proof. unfold cnt. rewrite filter_app, app_length. reflexivity. Qed.
Lemma cnt_perm {X} (p : X -> bool) l l' : Permutation l l' -> cnt p l = cnt p l'.
Proof.
  induction 1 as [|x l l' _ IH|x y l|l l' l'' _ IH1 _ IH2]; rewrite ?cnt_cons in *; try lia.
Qed.
Lemma cnt_ext_in {X} (p q : X -> bool) l : (forall x, In x l -> p x = q x) -> cnt p l = cnt q l.
Proof.
  induction l as [|x r IH]; intros H; [reflexivity|]. rewrite !cnt_cons, IH, (H x (or_introl eq_refl)); [reflexivity|].
  intros y Hy. apply H. right. exact Hy.
Qed.
Lemma cnt_zero {X} (p : X -> bool) l : (forall x, In x l -> p x = false) -> cnt p l = 0%nat.
Proof.
  induction l as [|x r IH]; intros H; [reflexivity|]. rewrite cnt_cons, IH, (H x (or_introl eq_refl)); [reflexivity|].
  intros y Hy. apply H. right. exact Hy.
Qed.
Lemma cnt_pos_in {X} (p : X -> bool) l : (0 < cnt p l)%nat -> exists x, In x l /\ p x = true.
Proof.
  induction l as [|x r IH]; rewrite ?cnt_nil, ?cnt_cons; [lia|]. destruct (p x) eqn:E.
  - intros _. exists x. split; [left; reflexivity|exact E].
  - intros H. destruct IH as (y & Hy & Py); [lia|]. exists y. split; [right; exact Hy|exact Py].
Qed.
Lemma cnt_in_pos {X} (p : X -> bool) l x : In x l -> p x = true -> (0 < cnt p l)%nat.
Proof.
  induction l as [|y r IH]; [contradiction|]. rewrite cnt_cons. intros [->|H] Px; [rewrite Px; lia|].
  specialize (IH H Px). lia.
Qed.
Lemma cnt_one_unique {X} (p : X -> bool) l x y :
  cnt p l = 1%nat -> In x l -> p x = true -> In y l -> p y = true -> x = y.
Proof.
  induction l as [|z r IH]; [contradiction|]. rewrite cnt_cons. intros Hc Hx Px Hy Py.
  destruct Hx as [->|Hx], Hy as [->|Hy].
  - reflexivity.
  - rewrite Px in Hc. pose proof (cnt_in_pos p r y Hy Py). lia.
  - rewrite Py in Hc. pose proof (cnt_in_pos p r x Hx Px). lia.
  - destruct (p z); [pose proof (cnt_in_pos p r x Hx Px); lia|]. apply IH; auto.
Qed.
Lemma cnt_le_incl_nodup {X} (p : X -> bool) l : (cnt p l <= length l)%nat.
Proof. unfold cnt. induction l as [|x r IH]; cbn [filter length]; [lia|]. destruct (p x); cbn [length]; lia. Qed.

Lemma filter_filter' {X} (p q : X -> bool) l : filter p (filter q l) = filter (fun x => q x && p x) l.
Proof.
  induction l as [|x r IH]; [reflexivity|]. cbn [filter]. destruct (q x); cbn [filter andb]; [|exact IH].
  destruct (p x); rewrite IH; reflexivity.
Qed.

Lemma length_one {X} (l : list X) : length l = 1%nat -> exists x, l = [x].
Proof. destruct l as [|x [|y r]]; cbn; try discriminate. intros _. exists x. reflexivity. Qed.

(* name n, depth d, and (when tg) tagged *)
Definition pq (n : bytes) (d : nat) (tg : bool) (c : cand) : bool :=
  bytes_eqb (c_name c) n && Nat.eqb (depth_of c) d && implb tg (c_tagged c).

Lemma pq_true n d tg c : pq n d tg c = true <-> c_name c = n /\ depth_of c = d /\ (tg = true -> c_tagged c = true).
Proof.
  unfold pq. rewrite !andb_true_iff, ag_bytes_eqb_eq, Nat.eqb_eq.
  destruct tg, (c_tagged c); cbn; intuition congruence.
Qed.

(* [c] is selected from the candidates [L]: it is at the minimal depth among the candidates of its
   name and is the only one there, or the only tagged one there (counted with multiplicity) *)
Definition sel (L : list cand) (c : cand) : Prop :=
  In c L /\
  (forall y, In y L -> c_name y = c_name c -> (depth_of c <= depth_of y)%nat) /\
  (cnt (pq (c_name c) (depth_of c) false) L = 1%nat \/
   (c_tagged c = true /\ cnt (pq (c_name c) (depth_of c) true) L = 1%nat)).

Lemma sel_perm L L' c : Permutation L L' -> sel L c -> sel L' c.
Proof.
  intros P (Hin & Hmin & Hc). split; [eapply Permutation_in; eassumption|]. split.
  - intros y Hy. apply Hmin. eapply Permutation_in; [apply Permutation_sym; exact P|exact Hy].
  - rewrite <- !(cnt_perm _ _ _ P). exact Hc.
Qed.

Lemma sel_unique_name L c c' : sel L c -> sel L c' -> c_name c = c_name c' -> c = c'.
Proof.
  intros (Hin & Hmin & Hc) (Hin' & Hmin' & Hc') Hn.
  assert (Hd : depth_of c = depth_of c').
  { pose proof (Hmin c' Hin' (eq_sym Hn)). pose proof (Hmin' c Hin Hn). lia. }
  assert (P0 : forall tg, (tg = true -> c_tagged c = true) -> pq (c_name c) (depth_of c) tg c = true).
  { intros tg H. apply pq_true. auto. }
  assert (P1 : forall tg, (tg = true -> c_tagged c' = true) -> pq (c_name c) (depth_of c) tg c' = true).
  { intros tg H. apply pq_true. auto. }
  assert (F : forall tg : bool, false = true -> tg = true) by discriminate.
  destruct Hc as [Hc|[Ht Hc]].
  - exact (cnt_one_unique _ _ c c' Hc Hin (P0 false (F _)) Hin' (P1 false (F _))).
  - rewrite <- Hn, <- Hd in Hc'. destruct Hc' as [Hc'|[Ht' Hc']].
    + exact (cnt_one_unique _ _ c c' Hc' Hin (P0 false (F _)) Hin' (P1 false (F _))).
    + exact (cnt_one_unique _ _ c c' Hc' Hin (P0 true (fun _ => Ht)) Hin' (P1 true (fun _ => Ht'))).
Qed.

Lemma sel_app_l L1 L2 c : (forall y, In y L2 -> c_name y <> c_name c) -> (sel (L1 ++ L2) c <-> sel L1 c).
Proof.
  intros Hno.
  assert (Z : forall tg, cnt (pq (c_name c) (depth_of c) tg) L2 = 0%nat).
  { intros tg. apply cnt_zero. intros y Hy. destruct (pq _ _ _ y) eqn:E; [|reflexivity].
    apply pq_true in E. destruct E as [E _]. exfalso. eapply Hno; eauto. }
  unfold sel. rewrite !cnt_app, !Z, !Nat.add_0_r. split; intros (Hin & Hmin & Hc); (split; [|split; [|exact Hc]]).
  - apply in_app_or in Hin. destruct Hin as [H|H]; [exact H|]. exfalso. eapply Hno; eauto.
  - intros y Hy. apply Hmin. apply in_or_app. left. exact Hy.
  - apply in_or_app. left. exact Hin.
  - intros y Hy Hn. apply in_app_or in Hy. destruct Hy as [H|H]; [auto|]. exfalso. eapply Hno; eauto.
Qed.

Lemma sel_app_r L1 L2 c : (forall y, In y L1 -> c_name y <> c_name c) -> (sel (L1 ++ L2) c <-> sel L2 c).
Proof.
  intros Hno. rewrite <- (sel_app_l L2 L1 c Hno).
  split; apply sel_perm; apply Permutation_app_comm.
Qed.
