(* TruncProof.v — truncation (C04, C05, C16): cutting a well-formed item short
   at any byte strictly inside it makes the reference reading — hence the
   decoder — fail with an end-of-input error (never a value, never "malformed"). *)
From Coq Require Import List ZArith Bool Lia.
From Coq Require Import ZifyBool ZifyNat.
Require Import Tok CborSpec CborEnc CborDec CborParse CborDecProof JsonFloat JsonDec JsonParse JsonDecProof.
Import ListNotations.
Open Scope Z_scope.

Definition eof_class (e : derr) : Prop := e = EEof \/ e = EUnexpectedEof.

(* ====================================================================== *)
(* 1. Generic framework: truncation-safe readers                           *)
(* ====================================================================== *)

(* the result is an end-of-input class error *)
Definition eofr {A} (r : pres A) : Prop := exists e, r = PErr e /\ eof_class e.

(* [tr_at soft bad g bs]: if [g] succeeds on [bs] consuming [u] (bs = u ++ rest) then
   - it gives the same value on every prefix of [bs] that still contains [u];
   - on every proper prefix [p] of [u] it fails with an end-of-input error, or
     (only when the value is [soft], e.g. a JSON number) it succeeds consuming
     all of [p], or it fails with EMalformed and [bad p] holds ([bad] is empty
     for CBOR; for JSON: [p] ends in a number text that is out of range). *)
Definition tr_at {A} (soft : A -> Prop) (bad : bytes -> Prop) (g : bytes -> pres A) (bs : bytes) : Prop :=
  forall a rest, g bs = POk a rest ->
  exists u, bs = u ++ rest /\
    (forall p2 q2, rest = p2 ++ q2 -> g (u ++ p2) = POk a p2) /\
    (forall p q, u = p ++ q -> q <> [] ->
       eofr (g p) \/ (soft a /\ exists a', g p = POk a' []) \/ (g p = PErr EMalformed /\ bad p)).

Definition tr_ok {A} (soft : A -> Prop) (bad : bytes -> Prop) (g : bytes -> pres A) : Prop :=
  forall bs, tr_at soft bad g bs.

Definition nosoft {A} : A -> Prop := fun _ => False.
Definition nobad : bytes -> Prop := fun _ => False.

Definition pbind {A B} (g : bytes -> pres A) (h : A -> bytes -> pres B) (bs : bytes) : pres B :=
  match g bs with POk a r => h a r | PErr e => PErr e | PFuel => PFuel end.
Definition pmap {A B} (k : A -> B) (g : bytes -> pres A) (bs : bytes) : pres B :=
  match g bs with POk a r => POk (k a) r | PErr e => PErr e | PFuel => PFuel end.
Definition pcons {A} (h : Z -> bytes -> pres A) (bs : bytes) : pres A :=
  match bs with [] => PErr EEof | mb :: r => h mb r end.
Definition of_sum {A} (r : (A * bytes) + derr) : pres A :=
  match r with inl (a, rest) => POk a rest | inr e => PErr e end.

Lemma eofr_eof {A} : eofr (@PErr A EEof).
Proof. exists EEof. split; [reflexivity|left; reflexivity]. Qed.

Lemma app_split {A} (p q u1 u2 : list A) : p ++ q = u1 ++ u2 ->
  (exists q1, q1 <> [] /\ u1 = p ++ q1 /\ q = q1 ++ u2) \/
  (exists p2, p = u1 ++ p2 /\ u2 = p2 ++ q).
Proof.
  revert u1. induction p as [|x p IH]; intros u1 H.
  - destruct u1 as [|y u1].
    + right. exists []. split; [reflexivity|exact (eq_sym H)].
    + left. exists (y :: u1). split; [discriminate|]. split; [reflexivity|exact H].
  - destruct u1 as [|y u1].
    + right. exists (x :: p). split; [reflexivity|exact (eq_sym H)].
    + cbn [app] in H. injection H as -> H. apply IH in H.
      destruct H as [[q1 [N [-> ->]]]|[p2 [-> ->]]].
      * left. exists q1. repeat split; assumption.
      * right. exists p2. split; reflexivity.
Qed.

Lemma tr_ext {A} (soft : A -> Prop) (bad : bytes -> Prop) g h :
  (forall bs, g bs = h bs) -> tr_ok soft bad h -> tr_ok soft bad g.
Proof.
  intros E H bs a rest G. rewrite E in G.
  destruct (H bs a rest G) as (u & Hu & St & Tr).
  exists u. split; [exact Hu|]. split.
  - intros p2 q2 Hr. rewrite E. eapply St; eauto.
  - intros p q Hp Hq. rewrite E. eapply Tr; eauto.
Qed.

(* the same, only for the inputs no longer than [bs] *)
Lemma tr_at_ext {A} (soft : A -> Prop) (bad : bytes -> Prop) g h bs :
  (forall p, (length p <= length bs)%nat -> g p = h p) -> tr_at soft bad h bs -> tr_at soft bad g bs.
Proof.
  intros E H a rest G. rewrite E in G by lia.
  destruct (H a rest G) as (u & Hu & St & Tr).
  exists u. split; [exact Hu|]. split.
  - intros p2 q2 Hr. rewrite E; [eapply St; eauto|].
    subst. rewrite !app_length. lia.
  - intros p q Hp Hq. rewrite E; [eapply Tr; eauto|].
    subst. rewrite !app_length. lia.
Qed.

Lemma tr_weaken {A} (s s' : A -> Prop) (b b' : bytes -> Prop) g :
  tr_ok s b g -> (forall a, s a -> s' a) -> (forall p, b p -> b' p) -> tr_ok s' b' g.
Proof.
  intros H Hs Hb bs a rest G.
  destruct (H bs a rest G) as (u & Hu & St & Tr).
  exists u. split; [exact Hu|]. split; [exact St|].
  intros p q Hp Hq. destruct (Tr p q Hp Hq) as [E|[[S E]|[E B]]]; auto.
Qed.

Lemma tr_ret {A} (soft : A -> Prop) (bad : bytes -> Prop) (a : A) : tr_ok soft bad (fun bs => POk a bs).
Proof.
  intros bs a' rest H. inversion H; subst. exists []. split; [reflexivity|]. split.
  - intros p2 q2 _. reflexivity.
  - intros p q Hp Hq. symmetry in Hp. apply app_eq_nil in Hp. destruct Hp as [_ Hp]. contradiction.
Qed.

Lemma tr_fail {A} (soft : A -> Prop) (bad : bytes -> Prop) (r : pres A) :
  (forall a rest, r <> POk a rest) -> tr_ok soft bad (fun _ => r).
Proof. intros N bs a rest H. exfalso. exact (N _ _ H). Qed.

Lemma tr_err {A} (soft : A -> Prop) (bad : bytes -> Prop) e : tr_ok soft bad (fun _ => @PErr A e).
Proof. apply tr_fail. discriminate. Qed.

Lemma tr_map {A B} (s : A -> Prop) (s' : B -> Prop) (bad : bytes -> Prop) (k : A -> B) g :
  (forall a, s a -> s' (k a)) -> tr_ok s bad g -> tr_ok s' bad (pmap k g).
Proof.
  intros Hs H bs b rest G. unfold pmap in G.
  destruct (g bs) as [a r|e|] eqn:E; inversion G; subst.
  destruct (H bs a rest E) as (u & Hu & St & Tr).
  exists u. split; [exact Hu|]. split.
  - intros p2 q2 Hr. unfold pmap. rewrite (St p2 q2 Hr). reflexivity.
  - intros p q Hp Hq. destruct (Tr p q Hp Hq) as [[e [E1 C]]|[[S [a' E1]]|[E1 Bd]]].
    + left. exists e. unfold pmap. rewrite E1. split; [reflexivity|exact C].
    + right. left. split; [apply Hs; exact S|]. exists (k a'). unfold pmap. rewrite E1. reflexivity.
    + right. right. unfold pmap. rewrite E1. split; [reflexivity|exact Bd].
Qed.

Lemma tr_bind {A B} (s1 : A -> Prop) (s2 : B -> Prop) (bad1 bad2 bad : bytes -> Prop)
  (g : bytes -> pres A) (h : A -> bytes -> pres B) :
  tr_ok s1 bad1 g -> (forall a, tr_ok s2 bad2 (h a)) ->
  (forall a, s1 a -> forall a', eofr (h a' [])) ->
  (forall p, bad1 p -> bad p) -> (forall u p, bad2 p -> bad (u ++ p)) ->
  tr_ok s2 bad (pbind g h).
Proof.
  intros Hg Hh Hsoft Hb1 Hb2 bs b rest G. unfold pbind in G.
  destruct (g bs) as [a r1|e|] eqn:E; try discriminate.
  destruct (Hg bs a r1 E) as (u1 & Hu1 & St1 & Tr1).
  destruct (Hh a r1 b rest G) as (u2 & Hu2 & St2 & Tr2).
  exists (u1 ++ u2). split; [subst; rewrite app_assoc; reflexivity|]. split.
  - intros p2 q2 Hr. unfold pbind. rewrite <- app_assoc.
    rewrite (St1 (u2 ++ p2) q2) by (subst; rewrite app_assoc; reflexivity).
    eapply St2; eauto.
  - intros p q Hp Hq. symmetry in Hp. apply app_split in Hp.
    destruct Hp as [[q1 [N [Hp ->]]]|[p2 [-> Hp]]].
    + destruct (Tr1 p q1 Hp N) as [[e [E1 C]]|[[S [a' E1]]|[E1 Bd]]].
      * left. exists e. unfold pbind. rewrite E1. split; [reflexivity|exact C].
      * left. unfold pbind. rewrite E1. eapply Hsoft; eauto.
      * right. right. unfold pbind. rewrite E1. split; [reflexivity|apply Hb1; exact Bd].
    + unfold pbind.
      rewrite (St1 p2 (q ++ rest)) by (subst; rewrite app_assoc; reflexivity).
      destruct (Tr2 p2 q Hp Hq) as [E1|[E1|[E1 Bd]]]; auto.
Qed.

Lemma tr_cons {A} (soft : A -> Prop) (badh : Z -> bytes -> Prop) (bad : bytes -> Prop) (h : Z -> bytes -> pres A) :
  (forall mb, tr_ok soft (badh mb) (h mb)) -> (forall mb p, badh mb p -> bad (mb :: p)) ->
  tr_ok soft bad (pcons h).
Proof.
  intros H Hb bs a rest G. destruct bs as [|mb r]; [discriminate|]. cbn [pcons] in G.
  destruct (H mb r a rest G) as (u & Hu & St & Tr).
  exists (mb :: u). split; [subst; reflexivity|]. split.
  - intros p2 q2 Hr. cbn [app pcons]. eapply St; eauto.
  - intros p q Hp Hq. destruct p as [|x p].
    + left. apply eofr_eof.
    + cbn [app] in Hp. injection Hp as <- Hp. cbn [pcons].
      destruct (Tr p q Hp Hq) as [E1|[E1|[E1 Bd]]]; auto.
Qed.

(* a reader that consumes at least one byte, seen after its first byte *)
Definition adv {A} (g : bytes -> pres A) : Prop :=
  forall bs a rest, g bs = POk a rest -> (length rest < length bs)%nat.

Lemma tr_uncons {A} (soft : A -> Prop) (bad : bytes -> Prop) g mb :
  tr_ok soft bad g -> adv g -> tr_ok soft (fun p => bad (mb :: p)) (fun r => g (mb :: r)).
Proof.
  intros H Ha r a rest G.
  destruct (H (mb :: r) a rest G) as (u & Hu & St & Tr).
  apply Ha in G.
  destruct u as [|x u].
  { cbn [app] in Hu. subst rest. lia. }
  cbn [app] in Hu. injection Hu as <- Hu.
  exists u. split; [exact Hu|]. split.
  - intros p2 q2 Hr. apply (St p2 q2 Hr).
  - intros p q Hp Hq. apply (Tr (mb :: p) q); [subst; reflexivity|exact Hq].
Qed.

Lemma tr_len {A} (soft : A -> Prop) (bad : bytes -> Prop) g bs a rest :
  tr_ok soft bad g -> g bs = POk a rest -> (length rest <= length bs)%nat.
Proof.
  intros H G. destruct (H bs a rest G) as (u & -> & _). rewrite app_length. lia.
Qed.

Lemma adv_bind {A B} (s : B -> Prop) (bad : bytes -> Prop) (g : bytes -> pres A) (h : A -> bytes -> pres B) :
  adv g -> (forall a, tr_ok s bad (h a)) -> adv (pbind g h).
Proof.
  intros Ha Hh bs b rest G. unfold pbind in G.
  destruct (g bs) as [a r1|e|] eqn:E; try discriminate.
  apply Ha in E. eapply tr_len in G; [|apply Hh]. lia.
Qed.

(* terminals given as sums *)
Lemma tr_sum_map {A B} (s' : B -> Prop) (bad' : bytes -> Prop) (t : bytes -> (A * bytes) + derr) (k : A -> B) :
  tr_ok nosoft nobad (fun bs => of_sum (t bs)) ->
  tr_ok s' bad' (fun bs => match t bs with inl (b, rest) => POk (k b) rest | inr e => PErr e end).
Proof.
  intros H. eapply tr_ext with (h := pmap k (fun bs => of_sum (t bs))).
  - intros bs. unfold pmap, of_sum. destruct (t bs) as [[b r]|e]; reflexivity.
  - eapply tr_weaken; [apply (tr_map nosoft nosoft nobad k _ (fun _ F => F) H)| |]; intros ? [].
Qed.

Lemma tr_sum_bind {A B} (s2 : B -> Prop) (bad2 bad : bytes -> Prop) (t : bytes -> (A * bytes) + derr) (h : A -> bytes -> pres B) :
  tr_ok nosoft nobad (fun bs => of_sum (t bs)) -> (forall a, tr_ok s2 bad2 (h a)) ->
  (forall u p, bad2 p -> bad (u ++ p)) ->
  tr_ok s2 bad (fun bs => match t bs with inl (a, r) => h a r | inr e => PErr e end).
Proof.
  intros H Hh Hb. apply (tr_ext s2 bad _ (pbind (fun bs => of_sum (t bs)) h)).
  - intros bs. unfold pbind, of_sum. destruct (t bs) as [[b r]|e]; reflexivity.
  - eapply tr_bind; [exact H|exact Hh| | |exact Hb].
    + intros a [].
    + intros p [].
Qed.

(* the special case used for CBOR: no soft values, no bad cuts *)
Notation tr0 g := (tr_ok nosoft nobad g).

Lemma tr0_map {A B} (k : A -> B) g : tr0 g -> tr0 (pmap k g).
Proof. apply tr_map. intros a []. Qed.

Lemma tr0_bind {A B} (g : bytes -> pres A) (h : A -> bytes -> pres B) :
  tr0 g -> (forall a, tr0 (h a)) -> tr0 (pbind g h).
Proof.
  intros Hg Hh. eapply tr_bind; [exact Hg|exact Hh| | |].
  - intros a [].
  - intros p [].
  - intros u p [].
Qed.

Lemma tr0_cons {A} (h : Z -> bytes -> pres A) : (forall mb, tr0 (h mb)) -> tr0 (pcons h).
Proof. intros H. eapply tr_cons; [exact H|]. intros mb p []. Qed.

Lemma tr0_uncons {A} (g : bytes -> pres A) mb : tr0 g -> adv g -> tr0 (fun r => g (mb :: r)).
Proof. intros H Ha. exact (tr_uncons nosoft nobad g mb H Ha). Qed.

Lemma tr0_sum_bind {A B} (t : bytes -> (A * bytes) + derr) (h : A -> bytes -> pres B) :
  tr0 (fun bs => of_sum (t bs)) -> (forall a, tr0 (h a)) ->
  tr0 (fun bs => match t bs with inl (a, r) => h a r | inr e => PErr e end).
Proof. intros H Hh. eapply tr_sum_bind; [exact H|exact Hh|]. intros u p []. Qed.

(* ====================================================================== *)
(* 2. CBOR terminals                                                       *)
(* ====================================================================== *)

Lemma firstn_len_app {A} (a r : list A) : firstn (length a) (a ++ r) = a.
Proof. induction a as [|x a IH]; cbn [length firstn app]; [destruct r|]; congruence. Qed.

Lemma skipn_len_app {A} (a r : list A) : skipn (length a) (a ++ r) = r.
Proof. induction a as [|x a IH]; cbn [length skipn app]; congruence. Qed.

Definition readn_shape (n : Z) (a : bytes) : Prop :=
  (n <= 0 /\ a = []) \/ (0 < n /\ Z.of_nat (length a) = n).

Lemma readn_inv n bs a rest : readn n bs = inl (a, rest) -> bs = a ++ rest /\ readn_shape n a.
Proof.
  unfold readn, readn_shape. destruct (n =? 0) eqn:N0.
  { intros H; inversion H; subst. split; [reflexivity|]. left. split; [lia|reflexivity]. }
  destruct (Z.of_nat (length bs) <? n) eqn:L; [discriminate|].
  intros H; inversion H; subst. split; [symmetry; apply firstn_skipn|].
  destruct (Z_lt_le_dec 0 n) as [P|P].
  - right. split; [exact P|]. rewrite firstn_length. lia.
  - left. split; [exact P|]. replace (Z.to_nat n) with 0%nat by lia. reflexivity.
Qed.

Lemma readn_app n a r : readn_shape n a -> readn n (a ++ r) = inl (a, r).
Proof.
  unfold readn, readn_shape. intros [[P ->]|[P L]].
  - destruct (n =? 0) eqn:N0; [reflexivity|].
    destruct (Z.of_nat (length ([] ++ r)) <? n) eqn:L; [lia|].
    replace (Z.to_nat n) with 0%nat by lia. reflexivity.
  - destruct (n =? 0) eqn:N0; [lia|].
    destruct (Z.of_nat (length (a ++ r)) <? n) eqn:L1; [rewrite app_length in L1; lia|].
    replace (Z.to_nat n) with (length a) by lia.
    rewrite firstn_len_app, skipn_len_app. reflexivity.
Qed.

Lemma readn_short n p : Z.of_nat (length p) < n -> exists e, readn n p = inr e /\ eof_class e.
Proof.
  intros L. unfold readn. destruct (n =? 0) eqn:N0; [lia|].
  destruct (Z.of_nat (length p) <? n) eqn:L1; [|lia].
  destruct p; eexists; (split; [reflexivity|]); [left|right]; reflexivity.
Qed.

Lemma tr_readn n : tr0 (fun bs => of_sum (readn n bs)).
Proof.
  intros bs a rest G. cbv beta in G. destruct (readn n bs) as [[a' r']|e] eqn:E; inversion G; subst.
  apply readn_inv in E. destruct E as [-> Sh].
  exists a. split; [reflexivity|]. split.
  - intros p2 q2 _. rewrite readn_app by exact Sh. reflexivity.
  - intros p q Hp Hq. left.
    destruct (readn_short n p) as [e [E C]].
    + destruct Sh as [[_ ->]|[P L]].
      * symmetry in Hp. apply app_eq_nil in Hp. destruct Hp as [_ Hp]. contradiction.
      * subst a. rewrite app_length in L. destruct q; [contradiction|]. cbn [length] in L. lia.
    + exists e. rewrite E. split; [reflexivity|exact C].
Qed.

Lemma tr_dec_uint mb : tr0 (fun bs => of_sum (dec_uint mb bs)).
Proof.
  eapply tr_ext with (h := fun bs =>
    if Z.land mb 31 <=? 23 then POk (Z.land mb 31) bs
    else if Z.land mb 31 =? 24 then pcons (fun b r => POk b r) bs
    else if Z.land mb 31 =? 25 then pmap CborSpec.unbe (fun bs => of_sum (readn 2 bs)) bs
    else if Z.land mb 31 =? 26 then pmap CborSpec.unbe (fun bs => of_sum (readn 4 bs)) bs
    else if Z.land mb 31 =? 27 then pmap CborSpec.unbe (fun bs => of_sum (readn 8 bs)) bs
    else PErr EMalformed).
  - intros bs. unfold dec_uint. cbv zeta.
    destruct (Z.land mb 31 <=? 23); [reflexivity|].
    destruct (Z.land mb 31 =? 24); [destruct bs; reflexivity|].
    unfold pmap.
    destruct (Z.land mb 31 =? 25); [destruct (readn 2 bs) as [[a r]|e]; reflexivity|].
    destruct (Z.land mb 31 =? 26); [destruct (readn 4 bs) as [[a r]|e]; reflexivity|].
    destruct (Z.land mb 31 =? 27); [destruct (readn 8 bs) as [[a r]|e]; reflexivity|].
    reflexivity.
  - destruct (Z.land mb 31 <=? 23); [apply tr_ret|].
    destruct (Z.land mb 31 =? 24); [apply tr0_cons; intros b; apply tr_ret|].
    destruct (Z.land mb 31 =? 25); [apply tr0_map; apply tr_readn|].
    destruct (Z.land mb 31 =? 26); [apply tr0_map; apply tr_readn|].
    destruct (Z.land mb 31 =? 27); [apply tr0_map; apply tr_readn|].
    apply tr_err.
Qed.

Lemma tr_dec_len mb : tr0 (fun bs => of_sum (dec_len mb bs)).
Proof.
  eapply tr_ext with (h := pbind (fun bs => of_sum (dec_uint mb bs))
    (fun u r => if maxInt <? u then PErr EMalformed else POk u r)).
  - intros bs. unfold dec_len, pbind. destruct (dec_uint mb bs) as [[u r]|e]; cbn [of_sum]; [|reflexivity].
    destruct (maxInt <? u); reflexivity.
  - apply tr0_bind; [apply tr_dec_uint|].
    intros u. destruct (maxInt <? u); [apply tr_err|apply tr_ret].
Qed.

Lemma tr_dec_negint mb : tr0 (fun bs => of_sum (dec_negint mb bs)).
Proof.
  eapply tr_ext with (h := pbind (fun bs => of_sum (dec_uint mb bs))
    (fun u r => if maxInt <? u then PErr EMalformed else POk (-1 - u) r)).
  - intros bs. unfold dec_negint, pbind. destruct (dec_uint mb bs) as [[u r]|e]; cbn [of_sum]; [|reflexivity].
    destruct (maxInt <? u); reflexivity.
  - apply tr0_bind; [apply tr_dec_uint|].
    intros u. destruct (maxInt <? u); [apply tr_err|apply tr_ret].
Qed.

Lemma tr_dec_float mb : tr0 (fun bs => of_sum (dec_float mb bs)).
Proof.
  eapply tr_ext with (h := fun bs =>
    if mb =? sigF16 then pmap (fun a => single_to_double (half_to_single (CborSpec.unbe a))) (fun bs => of_sum (readn 2 bs)) bs
    else if mb =? sigF32 then pmap (fun a => single_to_double (CborSpec.unbe a)) (fun bs => of_sum (readn 4 bs)) bs
    else pmap CborSpec.unbe (fun bs => of_sum (readn 8 bs)) bs).
  - intros bs. unfold dec_float, pmap.
    destruct (mb =? sigF16); [destruct (readn 2 bs) as [[a r]|e]; reflexivity|].
    destruct (mb =? sigF32); [destruct (readn 4 bs) as [[a r]|e]; reflexivity|].
    destruct (readn 8 bs) as [[a r]|e]; reflexivity.
  - destruct (mb =? sigF16); [apply tr0_map; apply tr_readn|].
    destruct (mb =? sigF32); [apply tr0_map; apply tr_readn|].
    apply tr0_map; apply tr_readn.
Qed.

Lemma tr_dec_bytes mb : tr0 (fun bs => of_sum (fst (dec_bytes mb bs))).
Proof.
  eapply tr_ext with (h := pbind (fun bs => of_sum (dec_len mb bs))
    (fun n r => if item_cap <? n then PErr EMalformed else of_sum (readn n r))).
  - intros bs. unfold dec_bytes, pbind. destruct (dec_len mb bs) as [[n r]|e]; cbn [of_sum fst]; [|reflexivity].
    destruct (item_cap <? n); reflexivity.
  - apply tr0_bind; [apply tr_dec_len|].
    intros n. destruct (item_cap <? n); [apply tr_err|apply tr_readn].
Qed.

(* indefinite strings: first at a fixed fuel ... *)
Lemma dec_chunks_shape f want acc cap alloc bs :
  of_sum (fst (dec_chunks (S f) want acc cap alloc bs)) =
  pcons (fun mb r =>
    if mb =? sigBreak then POk acc r
    else if negb (mb - Z.land mb 31 =? want) then PErr EMalformed
    else pbind (fun r => of_sum (dec_len mb r)) (fun n r2 =>
      if item_cap <? n then PErr EMalformed
      else pbind (fun r2 => of_sum (readn n r2)) (fun c r3 =>
        of_sum (fst (dec_chunks f want (acc ++ c)
          (if cap <? Z.of_nat (length acc) + n then 2 * cap + n else cap)
          (if cap <? Z.of_nat (length acc) + n then alloc + 2 * cap + n else alloc) r3))) r2) r) bs.
Proof.
  cbn [dec_chunks]. destruct bs as [|mb r]; [reflexivity|]. cbn [readn1 pcons].
  destruct (mb =? sigBreak); [reflexivity|].
  destruct (negb (mb - Z.land mb 31 =? want)); [reflexivity|].
  unfold pbind at 1. destruct (dec_len mb r) as [[n r2]|e]; cbn [of_sum fst]; [|reflexivity].
  destruct (item_cap <? n); [reflexivity|].
  unfold pbind.
  destruct (cap <? Z.of_nat (length acc) + n);
    destruct (readn n r2) as [[c0 r3]|e]; reflexivity.
Qed.

Lemma tr_dec_chunks f : forall want acc cap alloc,
  tr0 (fun bs => of_sum (fst (dec_chunks f want acc cap alloc bs))).
Proof.
  induction f as [|f IH]; intros want acc cap alloc.
  { apply tr_err. }
  eapply tr_ext; [intros bs; apply dec_chunks_shape|].
  apply tr0_cons. intros mb.
  destruct (mb =? sigBreak); [apply tr_ret|].
  destruct (negb (mb - Z.land mb 31 =? want)); [apply tr_err|].
  apply tr0_bind; [apply tr_dec_len|].
  intros n. destruct (item_cap <? n); [apply tr_err|].
  apply tr0_bind; [apply tr_readn|].
  intros c0. apply IH.
Qed.

(* ... then the result does not depend on the fuel once it exceeds the input length *)
Lemma dec_chunks_fuel f : forall f' want acc cap alloc bs,
  (length bs < f)%nat -> (length bs < f')%nat ->
  dec_chunks f want acc cap alloc bs = dec_chunks f' want acc cap alloc bs.
Proof.
  induction f as [|f IH]; intros f' want acc cap alloc bs L L'; [lia|].
  destruct f' as [|f']; [lia|]. cbn [dec_chunks].
  destruct bs as [|mb r]; [reflexivity|]. cbn [readn1]. cbn [length] in L, L'.
  destruct (mb =? sigBreak); [reflexivity|].
  destruct (negb (mb - Z.land mb 31 =? want)); [reflexivity|].
  destruct (dec_len mb r) as [[n r2]|e] eqn:E; [|reflexivity].
  destruct (item_cap <? n); [reflexivity|].
  apply CborDecProof.dec_len_sfx in E. apply CborDecProof.sfx_len in E.
  destruct (cap <? Z.of_nat (length acc) + n);
    destruct (readn n r2) as [[c0 r3]|e] eqn:E2; try reflexivity;
    apply CborDecProof.readn_sfx in E2; apply CborDecProof.sfx_len in E2; apply IH; lia.
Qed.

Lemma tr_dec_indef_string want : tr0 (fun bs => of_sum (fst (dec_indef_string want bs))).
Proof.
  intros bs. unfold dec_indef_string.
  apply tr_at_ext with (h := fun p => of_sum (fst (dec_chunks (S (length bs)) want [] 16 16 p))).
  - intros p L. rewrite (dec_chunks_fuel (S (length p)) (S (length bs))) by lia. reflexivity.
  - apply tr_dec_chunks.
Qed.

(* ====================================================================== *)
(* 3. The CBOR reference reading                                           *)
(* ====================================================================== *)

Definition tr_item (f : nat) := forall c, tr0 (pitem f c).
Definition tr_body (f : nat) := forall c mb tg, tr0 (pbody f c mb tg).
Definition tr_ai (f : nat) := forall c, tr0 (pitems_indef f c).
Definition tr_ad (f : nat) := forall c n, tr0 (pitems_def f c n).
Definition tr_mi (f : nat) := forall c, tr0 (ppairs_indef f c).
Definition tr_md (f : nat) := forall c n, tr0 (ppairs_def f c n).

Lemma adv_pitem f c : adv (pitem f c).
Proof. intros bs a rest H. eapply CborDecProof.pitem_shorter; eauto. Qed.

Lemma tr_item_step f : tr_body f -> tr_item (S f).
Proof.
  intros Hb c.
  eapply tr_ext with (h := pcons (fun mb r =>
    if is_tag_byte mb then
      match dec_len mb r with
      | inl (t, r1) => pcons (fun mb2 r2 =>
          if is_tag_byte mb2 then PErr EMalformed else pbody f c mb2 (Some t) r2) r1
      | inr e => PErr e
      end
    else pbody f c mb None r)).
  - intros bs. rewrite pitem_S. destruct bs as [|mb r]; reflexivity.
  - apply tr0_cons. intros mb. destruct (is_tag_byte mb); [|apply Hb].
    apply (tr0_sum_bind (dec_len mb)); [apply tr_dec_len|].
    intros t. apply tr0_cons. intros mb2.
    destruct (is_tag_byte mb2); [apply tr_err|apply Hb].
Qed.

Lemma tr_body_step f : tr_ai f -> tr_ad f -> tr_mi f -> tr_md f -> tr_body (S f).
Proof.
  intros Hai Had Hmi Hmd c mb tg.
  eapply tr_ext; [intros bs; cbn [pbody]; unfold pscalar; reflexivity|].
  cbv beta.
  destruct (mb =? sigNil); [apply tr_ret|].
  destruct (mb =? sigUndef); [destruct c; [apply tr_ret|apply tr_err]|].
  destruct (mb =? sigFalse); [apply tr_ret|].
  destruct (mb =? sigTrue); [apply tr_ret|].
  destruct ((mb =? sigF16) || (mb =? sigF32) || (mb =? sigF64)).
  { apply (tr_sum_map nosoft nobad (dec_float mb) (fun b => Node tg (VFlt b))). apply tr_dec_float. }
  destruct (mb =? sigIndefBytes).
  { apply (tr_sum_map nosoft nobad (fun bs => fst (dec_indef_string majBytes bs)) (fun b => Node tg (VByt b))).
    apply tr_dec_indef_string. }
  destruct (mb =? sigIndefString).
  { apply (tr_sum_map nosoft nobad (fun bs => fst (dec_indef_string majString bs)) (fun b => Node tg (VStr b))).
    apply tr_dec_indef_string. }
  destruct (mb =? sigIndefArray).
  { apply (tr0_map (fun xs => Node tg (VArr (-1) xs))); apply Hai. }
  destruct (mb =? sigIndefMap).
  { apply (tr0_map (fun xs => Node tg (VMap (-1) xs))); apply Hmi. }
  destruct (mb <? majNegInt).
  { apply (tr_sum_map nosoft nobad (dec_uint mb) (fun b => Node tg (VUint b))). apply tr_dec_uint. }
  destruct (mb <? majBytes).
  { apply (tr_sum_map nosoft nobad (dec_negint mb) (fun b => Node tg (VInt b))). apply tr_dec_negint. }
  destruct (mb <? majString).
  { apply (tr_sum_map nosoft nobad (fun bs => fst (dec_bytes mb bs)) (fun b => Node tg (VByt b))).
    apply tr_dec_bytes. }
  destruct (mb <? majArray).
  { apply (tr_sum_map nosoft nobad (fun bs => fst (dec_bytes mb bs)) (fun b => Node tg (VStr b))).
    apply tr_dec_bytes. }
  destruct (mb <? majMap).
  { apply (tr0_sum_bind (dec_len mb)); [apply tr_dec_len|]. intros n.
    apply (tr0_map (fun xs => Node tg (VArr n xs))); apply Had. }
  destruct (mb <? majTag).
  { apply (tr0_sum_bind (dec_len mb)); [apply tr_dec_len|]. intros n.
    apply (tr0_map (fun xs => Node tg (VMap n xs))); apply Hmd. }
  apply tr_err.
Qed.

Lemma tr_ai_step f : tr_item f -> tr_ai f -> tr_ai (S f).
Proof.
  intros Hi Hai c.
  eapply tr_ext with (h := pcons (fun mb r =>
    if mb =? sigBreak then POk [] r
    else pbind (pitem f c) (fun x => pmap (cons x) (pitems_indef f c)) (mb :: r))).
  - intros bs. rewrite pitems_indef_S. destruct bs as [|mb r]; reflexivity.
  - apply tr0_cons. intros mb. destruct (mb =? sigBreak); [apply tr_ret|].
    assert (Hk : forall x, tr0 (pmap (cons x) (pitems_indef f c))).
    { intros x. apply tr0_map; apply Hai. }
    apply tr0_uncons.
    + apply tr0_bind; [apply Hi|exact Hk].
    + eapply adv_bind; [apply adv_pitem|exact Hk].
Qed.

Lemma tr_ad_step f : tr_item f -> tr_ad f -> tr_ad (S f).
Proof.
  intros Hi Had c n.
  eapply tr_ext with (h := fun bs =>
    if n =? 0 then POk [] bs
    else pbind (pitem f c) (fun x => pmap (cons x) (pitems_def f c (n - 1))) bs).
  - intros bs. rewrite pitems_def_S. reflexivity.
  - destruct (n =? 0); [apply tr_ret|].
    apply tr0_bind; [apply Hi|].
    intros x. apply tr0_map; apply Had.
Qed.

Lemma tr_mi_step f : tr_item f -> tr_mi f -> tr_mi (S f).
Proof.
  intros Hi Hmi c.
  eapply tr_ext with (h := pcons (fun mb r =>
    if mb =? sigBreak then POk [] r
    else pbind (pitem f c) (fun k => pcons (fun mb2 r2 =>
           if mb2 =? sigBreak then PErr EMalformed
           else pbind (pitem f c) (fun v => pmap (cons (k, v)) (ppairs_indef f c)) (mb2 :: r2)))
         (mb :: r))).
  - intros bs. rewrite ppairs_indef_S. destruct bs as [|mb r]; [reflexivity|]. cbn [pcons].
    destruct (mb =? sigBreak); [reflexivity|]. unfold pbind at 1.
    destruct (pitem f c (mb :: r)) as [k r1|e|]; try reflexivity.
    destruct r1 as [|mb2 r2]; reflexivity.
  - apply tr0_cons. intros mb. destruct (mb =? sigBreak); [apply tr_ret|].
    assert (Hv : forall k, tr0
              (pbind (pitem f c) (fun v => pmap (cons (k, v)) (ppairs_indef f c)))).
    { intros k. apply tr0_bind; [apply Hi|].
      intros v. apply tr0_map; apply Hmi. }
    assert (Hk : forall k, tr0 (pcons (fun mb2 r2 =>
           if mb2 =? sigBreak then PErr EMalformed
           else pbind (pitem f c) (fun v => pmap (cons (k, v)) (ppairs_indef f c)) (mb2 :: r2)))).
    { intros k. apply tr0_cons. intros mb2. destruct (mb2 =? sigBreak); [apply tr_err|].
      apply tr0_uncons; [apply Hv|].
      eapply adv_bind with (s := nosoft) (bad := nobad); [apply adv_pitem|].
      intros v. apply tr0_map; apply Hmi. }
    apply tr0_uncons.
    + apply tr0_bind; [apply Hi|exact Hk].
    + eapply adv_bind; [apply adv_pitem|exact Hk].
Qed.

Lemma tr_md_step f : tr_item f -> tr_md f -> tr_md (S f).
Proof.
  intros Hi Hmd c n.
  eapply tr_ext with (h := fun bs =>
    if n =? 0 then POk [] bs
    else pbind (pitem f c) (fun k =>
           pbind (pitem f c) (fun v => pmap (cons (k, v)) (ppairs_def f c (n - 1)))) bs).
  - intros bs. rewrite ppairs_def_S. reflexivity.
  - destruct (n =? 0); [apply tr_ret|].
    apply tr0_bind; [apply Hi|]. intros k.
    apply tr0_bind; [apply Hi|]. intros v.
    apply tr0_map; apply Hmd.
Qed.

Lemma tr_all : forall f, tr_item f /\ tr_body f /\ tr_ai f /\ tr_ad f /\ tr_mi f /\ tr_md f.
Proof.
  induction f as [|f IH].
  { repeat split; repeat intro; discriminate. }
  destruct IH as (IHi & IHb & IHai & IHad & IHmi & IHmd).
  split; [|split; [|split; [|split; [|split]]]].
  - apply tr_item_step; assumption.
  - apply tr_body_step; assumption.
  - apply tr_ai_step; assumption.
  - apply tr_ad_step; assumption.
  - apply tr_mi_step; assumption.
  - apply tr_md_step; assumption.
Qed.

Lemma firstn_app_short {A} k (u r : list A) : (k <= length u)%nat -> firstn k (u ++ r) = firstn k u.
Proof.
  intros L. rewrite firstn_app. replace (k - length u)%nat with 0%nat by lia.
  cbn [firstn]. apply app_nil_r.
Qed.

(* STATEMENTS TO PROVE (do not change them) *)

Theorem cbor_truncation : forall c bs n rest k,
  parse_item c bs = POk n rest -> (k < length bs - length rest)%nat ->
  exists e toks a, dec_run c (firstn k bs) = DFail e toks a /\ eof_class e.
Proof.
  intros c bs n rest k H L. unfold parse_item in H.
  destruct (tr_all (4 * length bs + 4)) as [Hi _].
  destruct (Hi c bs n rest H) as (u & -> & _ & Tr).
  rewrite app_length in L.
  destruct (Tr (firstn k u) (skipn k u)) as [[e [E C]]|[[[] _]|[_ []]]].
  - symmetry. apply firstn_skipn.
  - intros Hq. apply (f_equal (@length _)) in Hq. rewrite skipn_length in Hq. cbn [length] in Hq. lia.
  - rewrite firstn_app_short by lia.
    apply dec_error in E. destruct E as [toks [a E]].
    exists e, toks, a. split; assumption.
Qed.

(* ====================================================================== *)
(* 4. JSON terminals                                                       *)
(* ====================================================================== *)

Lemma tr_at_cons {A} (soft : A -> Prop) (bad bad' : bytes -> Prop) (g g' : bytes -> pres A) c r :
  (forall x, g (c :: x) = g' x) -> eofr (g []) -> (forall p, bad' p -> bad (c :: p)) ->
  tr_at soft bad' g' r -> tr_at soft bad g (c :: r).
Proof.
  intros E E0 Hb H a rest G. rewrite E in G.
  destruct (H a rest G) as (u & Hu & St & Tr).
  exists (c :: u). split; [subst; reflexivity|]. split.
  - intros p2 q2 Hr. cbn [app]. rewrite E. eapply St; eauto.
  - intros p q Hp Hq. destruct p as [|x p].
    + left. exact E0.
    + cbn [app] in Hp. injection Hp as <- Hp. rewrite E.
      destruct (Tr p q Hp Hq) as [E1|[E1|[E1 Bd]]]; auto.
Qed.

(* whitespace *)
Lemma skip_ws_all w : forallb is_ws w = true -> forall x, skip_ws (w ++ x) = skip_ws x.
Proof.
  induction w as [|b w IH]; intros H x; [reflexivity|].
  cbn [forallb] in H. apply andb_prop in H. destruct H as [H1 H2].
  cbn [app skip_ws]. rewrite H1. apply IH. exact H2.
Qed.

Lemma skip_ws_nil w : forallb is_ws w = true -> skip_ws w = [].
Proof. intros H. rewrite <- (app_nil_r w). rewrite skip_ws_all by exact H. reflexivity. Qed.

Lemma skip_ws_decomp bs : exists w, forallb is_ws w = true /\ bs = w ++ skip_ws bs.
Proof.
  induction bs as [|b r IH].
  - exists []. split; reflexivity.
  - cbn [skip_ws]. destruct (is_ws b) eqn:E.
    + destruct IH as (w & Hw & Hr). exists (b :: w). split.
      * cbn [forallb]. rewrite E, Hw. reflexivity.
      * cbn [app]. rewrite <- Hr. reflexivity.
    + exists []. split; reflexivity.
Qed.

Lemma skip_ws_head bs mb r : skip_ws bs = mb :: r -> is_ws mb = false.
Proof.
  induction bs as [|b r' IH]; cbn [skip_ws]; [discriminate|].
  destruct (is_ws b) eqn:E; [exact IH|]. intros H. inversion H; subst. exact E.
Qed.

Lemma skip_ws_nonws mb r : is_ws mb = false -> skip_ws (mb :: r) = mb :: r.
Proof. intros H. cbn [skip_ws]. rewrite H. reflexivity. Qed.

Lemma tr_ws {A} (soft : A -> Prop) (badh : Z -> bytes -> Prop) (bad : bytes -> Prop)
  (h : Z -> bytes -> pres A) :
  (forall mb, tr_ok soft (badh mb) (h mb)) -> (forall w mb p, badh mb p -> bad (w ++ mb :: p)) ->
  tr_ok soft bad (fun bs => pcons h (skip_ws bs)).
Proof.
  intros H Hb bs a rest G. cbv beta in G.
  destruct (skip_ws bs) as [|mb r] eqn:E; [discriminate|]. cbn [pcons] in G.
  destruct (H mb r a rest G) as (u & Hu & St & Tr).
  destruct (skip_ws_decomp bs) as (w & Hw & Hbs). rewrite E in Hbs.
  pose proof (skip_ws_head _ _ _ E) as Hmb.
  exists (w ++ mb :: u). split; [subst; rewrite <- app_assoc; reflexivity|]. split.
  - intros p2 q2 Hr. rewrite <- app_assoc. cbn [app].
    rewrite skip_ws_all by exact Hw. rewrite skip_ws_nonws by exact Hmb. cbn [pcons].
    eapply St; eauto.
  - intros p q Hp Hq. symmetry in Hp. apply app_split in Hp.
    destruct Hp as [[q1 [N [Hp _]]]|[p2 [-> Hp]]].
    + left. rewrite skip_ws_nil; [apply eofr_eof|].
      subst w. rewrite forallb_app in Hw. apply andb_prop in Hw. apply Hw.
    + destruct p2 as [|x p2].
      * left. rewrite app_nil_r. rewrite skip_ws_nil by exact Hw. apply eofr_eof.
      * cbn [app] in Hp. injection Hp as <- Hp.
        rewrite skip_ws_all by exact Hw. rewrite skip_ws_nonws by exact Hmb. cbn [pcons].
        destruct (Tr p2 q Hp Hq) as [E1|[E1|[E1 Bd]]]; auto.
Qed.

(* literals *)
Lemma dec_literal_shape (w : bytes) (v : tnode) bs :
  match dec_literal w bs with inl rest => POk v rest | inr e => PErr e end =
  pbind (fun bs => of_sum (readn (Z.of_nat (length w)) bs))
        (fun got rest => if forallb (fun p => fst p =? snd p) (combine got w)
                         then POk v rest else PErr EMalformed) bs.
Proof.
  unfold dec_literal, pbind.
  destruct (readn (Z.of_nat (length w)) bs) as [[got rest]|e]; cbn [of_sum]; [|reflexivity].
  destruct (forallb (fun p => fst p =? snd p) (combine got w)); reflexivity.
Qed.

Lemma tr_literal {s : tnode -> Prop} {bad : bytes -> Prop} (w : bytes) (v : tnode) :
  tr_ok s bad (fun bs => match dec_literal w bs with inl rest => POk v rest | inr e => PErr e end).
Proof.
  eapply tr_ext; [intros bs; apply dec_literal_shape|].
  eapply tr_bind with (s1 := nosoft) (bad1 := nobad) (bad2 := nobad).
  - apply tr_readn.
  - intros got. destruct (forallb (fun p => fst p =? snd p) (combine got w)); [apply tr_ret|apply tr_err].
  - intros a [].
  - intros p [].
  - intros u p [].
Qed.

(* strings *)
Lemma tr_str_scan : forall bs st acc, tr_at nosoft nobad (fun bs => of_sum (str_scan st bs acc)) bs.
Proof.
  induction bs as [|c r IH]; intros st acc.
  { intros a rest H. discriminate H. }
  eapply tr_at_cons with (bad' := nobad);
    [intros x; cbn [str_scan]; reflexivity|apply eofr_eof|intros p []|].
  cbv beta.
  destruct st;
    repeat match goal with |- context [if ?b then _ else _] => destruct b end;
    cbn [of_sum];
    first [apply IH | apply (tr_ret nosoft nobad) | apply (tr_err nosoft nobad)].
Qed.

Lemma tr_dec_string : tr0 (fun bs => of_sum (dec_string bs)).
Proof.
  eapply tr_ext with (h := pmap
    (fun raw => match unescape (S (length raw)) raw with Some s => s | None => [] end)
    (fun bs => of_sum (str_scan SNormal bs []))).
  - intros bs. unfold dec_string, pmap.
    destruct (str_scan SNormal bs []) as [[raw rest]|e]; cbn [of_sum]; [|reflexivity].
    destruct (unescape (S (length raw)) raw); reflexivity.
  - apply tr0_map. intros bs. apply tr_str_scan.
Qed.

(* numbers *)
Definition num_start (first : Z) : nstate :=
  if first =? 45 then NNeg else if first =? 48 then N0 else N1.

(* [first :: more] is a complete number text whose value is not representable *)
Definition badnum (first : Z) (more : bytes) : Prop :=
  (first =? 45) || is_digit first = true /\
  num_scan (num_start first) more [] = inl (more, []) /\
  num_token (first :: more) = inr EMalformed.

(* the input ends in such a text *)
Definition ends_in_unrepresentable_number (p : bytes) : Prop :=
  exists pre first more, p = pre ++ first :: more /\ badnum first more.

Lemma badtail_app u p : ends_in_unrepresentable_number p -> ends_in_unrepresentable_number (u ++ p).
Proof.
  intros (pre & first & more & -> & H). exists (u ++ pre), first, more.
  split; [rewrite app_assoc; reflexivity|exact H].
Qed.

Definition badb (mb : Z) (p : bytes) : Prop := ends_in_unrepresentable_number (mb :: p).

Lemma badtail_badb mb p : ends_in_unrepresentable_number p -> badb mb p.
Proof. apply (badtail_app [mb]). Qed.

Lemma badb_tail w mb p : badb mb p -> ends_in_unrepresentable_number (w ++ mb :: p).
Proof. apply badtail_app. Qed.

Lemma badb_app mb u p : ends_in_unrepresentable_number p -> badb mb (u ++ p).
Proof. apply (badtail_app (mb :: u)). Qed.

Lemma num_step_none s c : num_step s c = (None, true) -> n_accepting s = true.
Proof.
  unfold num_step. destruct s;
    repeat match goal with |- context [if ?b then _ else _] => destruct b end;
    intros H; try discriminate H; reflexivity.
Qed.

Lemma num_token_err text e : num_token text = inr e -> e = EMalformed.
Proof.
  unfold num_token.
  remember (match text with 45 :: r => (true, r) | _ => (false, text) end) as nb eqn:Enb.
  clear Enb. destruct nb as [neg body].
  destruct (take_digits body []) as [ip r1].
  remember (match r1 with 46 :: r => take_digits r [] | _ => ([], r1) end) as fr eqn:Efr.
  clear Efr. destruct fr as [fp r2].
  destruct r1 as [|c r1'].
  - cbv beta iota zeta.
    repeat match goal with |- context [if ?b then _ else _] => destruct b end;
      intros H; inversion H; reflexivity.
  - match goal with |- context [nearest ?a ?b ?c ?d] => destruct (nearest a b c d) end.
    all: intros H; inversion H; reflexivity.
Qed.

Lemma num_scan_tr : forall bs s acc more rest,
  num_scan s bs acc = inl (more, rest) ->
  exists u, bs = u ++ rest /\ more = rev acc ++ u /\
    (forall p2 q2, rest = p2 ++ q2 -> num_scan s (u ++ p2) acc = inl (more, p2)) /\
    (forall p q, u = p ++ q -> q <> [] ->
       num_scan s p acc = inr EUnexpectedEof \/ num_scan s p acc = inl (rev acc ++ p, [])).
Proof.
  induction bs as [|c r IH]; intros s acc more rest H.
  - cbn [num_scan] in H. destruct (n_accepting s) eqn:Acc; inversion H; subst.
    exists []. split; [reflexivity|]. split; [rewrite app_nil_r; reflexivity|]. split.
    + intros p2 q2 Hr. symmetry in Hr. apply app_eq_nil in Hr. destruct Hr as [-> _].
      cbn [app num_scan]. rewrite Acc. reflexivity.
    + intros p q Hp Hq. symmetry in Hp. apply app_eq_nil in Hp. destruct Hp as [_ Hp]. contradiction.
  - cbn [num_scan] in H. destruct (num_step s c) as [[s'|] ok] eqn:St.
    + apply IH in H. destruct H as (u & Hu & Hm & Stab & Tr).
      exists (c :: u). split; [subst; reflexivity|]. split.
      { rewrite Hm. cbn [rev]. rewrite <- app_assoc. reflexivity. }
      split.
      * intros p2 q2 Hr. cbn [app num_scan]. rewrite St. eapply Stab; eauto.
      * intros p q Hp Hq. destruct p as [|x p].
        { cbn [num_scan]. destruct (n_accepting s); [right; rewrite app_nil_r; reflexivity|left; reflexivity]. }
        cbn [app] in Hp. injection Hp as <- Hp. cbn [num_scan]. rewrite St.
        destruct (Tr p q Hp Hq) as [E|E]; [left; exact E|right].
        rewrite E. cbn [rev]. rewrite <- app_assoc. reflexivity.
    + destruct ok; [|discriminate]. inversion H; subst.
      exists []. split; [reflexivity|]. split; [rewrite app_nil_r; reflexivity|]. split.
      * intros p2 q2 Hr. cbn [app]. destruct p2 as [|x p2].
        { cbn [num_scan]. rewrite (num_step_none _ _ St). reflexivity. }
        cbn [app] in Hr. injection Hr as <- Hr. cbn [num_scan]. rewrite St. reflexivity.
      * intros p q Hp Hq. symmetry in Hp. apply app_eq_nil in Hp. destruct Hp as [_ Hp]. contradiction.
Qed.

Definition numsoft (n : tnode) : Prop :=
  match n with Node _ (VInt _) | Node _ (VUint _) | Node _ (VFlt _) => True | _ => False end.

Definition numres (v : tokv) (rest : bytes) : pres tnode :=
  match v with
  | Int i => POk (Node None (VInt i)) rest
  | Uint u => POk (Node None (VUint u)) rest
  | Flt b => POk (Node None (VFlt b)) rest
  | _ => PErr EMalformed
  end.

Definition jnum (mb : Z) (r : bytes) : pres tnode :=
  match num_scan (num_start mb) r [] with
  | inr e => PErr e
  | inl (more, rest) =>
      match num_token (mb :: more) with
      | inl v => numres v rest
      | inr e => PErr e
      end
  end.

Lemma jnum_eq mb r :
  match dec_number mb r with
  | inl (Int i, rest) => POk (Node None (VInt i)) rest
  | inl (Uint u, rest) => POk (Node None (VUint u)) rest
  | inl (Flt b, rest) => POk (Node None (VFlt b)) rest
  | inl (_, _) => PErr EMalformed
  | inr e => PErr e
  end = jnum mb r.
Proof.
  unfold dec_number, jnum, num_start. cbv zeta.
  destruct (num_scan (if mb =? 45 then NNeg else if mb =? 48 then N0 else N1) r [])
    as [[more rest]|e]; [|reflexivity].
  destruct (num_token (mb :: more)) as [v|e]; [|reflexivity].
  destruct v; reflexivity.
Qed.

Lemma numres_ok v rest a rest' : numres v rest = POk a rest' ->
  rest' = rest /\ numsoft a /\ forall r2, numres v r2 = POk a r2.
Proof.
  destruct v; cbn [numres]; intros H; inversion H; subst;
    (split; [reflexivity|split; [exact I|reflexivity]]).
Qed.

Lemma numres_isnum v : is_num v = true -> exists a, numres v [] = POk a [].
Proof. destruct v; try discriminate; intros _; eexists; reflexivity. Qed.

Lemma tr_jnum mb : (mb =? 45) || is_digit mb = true -> tr_ok numsoft (badb mb) (jnum mb).
Proof.
  intros Hmb bs a rest G. unfold jnum in G.
  destruct (num_scan (num_start mb) bs []) as [[more rest']|e] eqn:E; [|discriminate].
  destruct (num_token (mb :: more)) as [v|e] eqn:T; [|discriminate].
  apply numres_ok in G. destruct G as (-> & Sa & Gr).
  apply num_scan_tr in E. destruct E as (u & Hu & Hm & St & Tr). cbn [rev app] in Hm. subst more.
  exists u. split; [exact Hu|]. split.
  - intros p2 q2 Hr. unfold jnum. rewrite (St p2 q2 Hr), T. apply Gr.
  - intros p q Hp Hq. unfold jnum. destruct (Tr p q Hp Hq) as [E|E]; rewrite E.
    + left. exists EUnexpectedEof. split; [reflexivity|right; reflexivity].
    + cbn [rev app]. destruct (num_token (mb :: p)) as [v'|e'] eqn:T'.
      * right. left. split; [exact Sa|]. apply numres_isnum. eapply num_token_isnum; eauto.
      * right. right. pose proof (num_token_err _ _ T') as ->. split; [reflexivity|].
        exists [], mb, p. split; [reflexivity|]. split; [exact Hmb|]. split; [exact E|exact T'].
Qed.

(* ====================================================================== *)
(* 5. The JSON reference reading                                           *)
(* ====================================================================== *)

Notation badtail := ends_in_unrepresentable_number.

Definition trj_value (f : nat) := forall l, tr_ok numsoft badtail (jpvalue f l).
Definition trj_body (f : nat) := forall l mb, tr_ok numsoft (badb mb) (jpbody f l mb).
Definition trj_elems (f : nat) := forall l some, tr_ok nosoft badtail (jpelements f l some).
Definition trj_membs (f : nat) := forall l some, tr_ok nosoft badtail (jpmembers f l some).

Lemma trj_value_step f : trj_body f -> trj_value (S f).
Proof.
  intros Hb l.
  eapply tr_ext with (h := fun bs => pcons (jpbody f l) (skip_ws bs)); [intros bs; reflexivity|].
  eapply tr_ws; [apply Hb|]. intros w mb p. apply badb_tail.
Qed.

Lemma trj_body_step f : trj_elems f -> trj_membs f -> trj_body (S f).
Proof.
  intros He Hm l mb.
  eapply tr_ext; [intros r; cbn [jpbody]; reflexivity|]. cbv beta.
  destruct (mb =? 123).
  { eapply tr_weaken with (s := numsoft) (b := badtail);
      [apply (tr_map nosoft numsoft badtail (fun es => Node None (VMap (-1) es))); [intros a []|apply Hm]
      |auto|apply badtail_badb]. }
  destruct (mb =? 91).
  { eapply tr_weaken with (s := numsoft) (b := badtail);
      [apply (tr_map nosoft numsoft badtail (fun xs => Node None (VArr (-1) xs))); [intros a []|apply He]
      |auto|apply badtail_badb]. }
  destruct (mb =? 110); [apply tr_literal|].
  destruct (mb =? 34).
  { apply (tr_sum_map numsoft (badb mb) dec_string (fun s => Node None (VStr s))). apply tr_dec_string. }
  destruct (mb =? 102); [apply tr_literal|].
  destruct (mb =? 116); [apply tr_literal|].
  destruct ((mb =? 45) || is_digit mb) eqn:Hmb; [|apply tr_err].
  eapply tr_ext; [intros r; apply jnum_eq|]. apply tr_jnum. exact Hmb.
Qed.

Lemma jpelements_nil f l : eofr (jpelements (S f) l true []).
Proof. apply eofr_eof. Qed.

Lemma jpmembers_nil f l : eofr (jpmembers (S f) l true []).
Proof. apply eofr_eof. Qed.

(* one element followed by the remaining ones *)
Lemma trj_element f l mb : trj_body f -> trj_elems f ->
  tr_ok nosoft (badb mb) (pbind (jpbody f l mb) (fun x => pmap (cons x) (jpelements f l true))).
Proof.
  intros Hb He. destruct f as [|f].
  { eapply tr_ext with (h := fun _ => PFuel); [intros bs; reflexivity|]. apply tr_fail. discriminate. }
  eapply tr_bind with (s1 := numsoft) (bad1 := badb mb) (bad2 := badtail).
  - apply Hb.
  - intros x. apply (tr_map nosoft); [auto|apply He].
  - intros a _ a'. unfold pmap. destruct (jpelements_nil f l) as [e [E C]].
    rewrite E. exists e. split; [reflexivity|exact C].
  - auto.
  - intros u p. apply badb_app.
Qed.

Lemma trj_elems_step f : trj_body f -> trj_elems f -> trj_elems (S f).
Proof.
  intros Hb He l some.
  eapply tr_ext with (h := fun bs => pcons (fun mb r =>
    if some then
      if mb =? 93 then POk [] r
      else if mb =? 44 then
        pcons (fun mb2 r2 =>
          if mb2 =? 93 then (if l then POk [] r2 else PErr EMalformed)
          else pbind (jpbody f l mb2) (fun x => pmap (cons x) (jpelements f l true)) r2) (skip_ws r)
      else PErr EMalformed
    else
      if mb =? 93 then POk [] r
      else pbind (jpbody f l mb) (fun x => pmap (cons x) (jpelements f l true)) r) (skip_ws bs)).
  { intros bs. reflexivity. }
  eapply tr_ws with (badh := badb); [|intros w mb p; apply badb_tail].
  intros mb. destruct some.
  - destruct (mb =? 93); [apply tr_ret|].
    destruct (mb =? 44); [|apply tr_err].
    eapply tr_weaken with (s := nosoft) (b := badtail); [|auto|apply badtail_badb].
    eapply tr_ws with (badh := badb); [|intros w mb2 p; apply badb_tail].
    intros mb2. destruct (mb2 =? 93); [destruct l; [apply tr_ret|apply tr_err]|].
    apply trj_element; assumption.
  - destruct (mb =? 93); [apply tr_ret|]. apply trj_element; assumption.
Qed.

(* one member (after its first byte) followed by the remaining ones *)
Lemma trj_member f l mb2 : trj_value f -> trj_membs f ->
  tr_ok nosoft (badb mb2) (fun r2 =>
    if mb2 =? 34 then
      match dec_string r2 with
      | inl (k, r3) =>
        pcons (fun c r4 =>
          if c =? 58 then
            pbind (jpvalue f l) (fun v => pmap (cons (Node None (VStr k), v)) (jpmembers f l true)) r4
          else PErr EMalformed) (skip_ws r3)
      | inr e => PErr e
      end
    else PErr EMalformed).
Proof.
  intros Hv Hm. destruct (mb2 =? 34); [|apply tr_err].
  apply (tr_sum_bind nosoft badtail (badb mb2) dec_string); [apply tr_dec_string| |intros u p; apply badb_app].
  intros k. eapply tr_ws with (badh := fun _ => badtail); [|intros w c p Hp; apply badtail_app; apply (badtail_app [c]); exact Hp].
  intros c. destruct (c =? 58); [|apply tr_err].
  destruct f as [|f].
  { eapply tr_ext with (h := fun _ => PFuel); [intros bs; reflexivity|]. apply tr_fail. discriminate. }
  eapply tr_bind with (s1 := numsoft) (bad1 := badtail) (bad2 := badtail).
  - apply Hv.
  - intros v. apply (tr_map nosoft); [auto|apply Hm].
  - intros a _ a'. unfold pmap. destruct (jpmembers_nil f l) as [e [E C]].
    rewrite E. exists e. split; [reflexivity|exact C].
  - auto.
  - intros u p. apply badtail_app.
Qed.

Lemma trj_membs_step f : trj_value f -> trj_membs f -> trj_membs (S f).
Proof.
  intros Hv Hm l some.
  pose (member := fun (mb2 : Z) (r2 : bytes) =>
    if mb2 =? 34 then
      match dec_string r2 with
      | inl (k, r3) =>
        pcons (fun c r4 =>
          if c =? 58 then
            pbind (jpvalue f l) (fun v => pmap (cons (Node None (VStr k), v)) (jpmembers f l true)) r4
          else PErr EMalformed) (skip_ws r3)
      | inr e => PErr e
      end
    else PErr EMalformed).
  eapply tr_ext with (h := fun bs => pcons (fun mb r =>
    if some then
      if mb =? 125 then POk [] r
      else if mb =? 44 then
        pcons (fun mb2 r2 =>
          if mb2 =? 125 then (if l then POk [] r2 else PErr EMalformed)
          else member mb2 r2) (skip_ws r)
      else PErr EMalformed
    else
      if mb =? 125 then POk [] r
      else member mb r) (skip_ws bs)).
  { intros bs. reflexivity. }
  assert (Hmem : forall mb2, tr_ok nosoft (badb mb2) (member mb2)).
  { intros mb2. apply trj_member; assumption. }
  clearbody member.
  eapply tr_ws with (badh := badb); [|intros w mb p; apply badb_tail].
  intros mb. destruct some.
  - destruct (mb =? 125); [apply tr_ret|].
    destruct (mb =? 44); [|apply tr_err].
    eapply tr_weaken with (s := nosoft) (b := badtail); [|auto|apply badtail_badb].
    eapply tr_ws with (badh := badb); [|intros w mb2 p; apply badb_tail].
    intros mb2. destruct (mb2 =? 125); [destruct l; [apply tr_ret|apply tr_err]|].
    apply Hmem.
  - destruct (mb =? 125); [apply tr_ret|]. apply Hmem.
Qed.

Lemma trj_all : forall f, trj_value f /\ trj_body f /\ trj_elems f /\ trj_membs f.
Proof.
  induction f as [|f IH].
  { repeat split; repeat intro; discriminate. }
  destruct IH as (IHv & IHb & IHe & IHm).
  split; [|split; [|split]].
  - apply trj_value_step; assumption.
  - apply trj_body_step; assumption.
  - apply trj_elems_step; assumption.
  - apply trj_membs_step; assumption.
Qed.

(* JSON: a bare top-level number has no terminator, so its prefixes can be
   complete numbers themselves; every other item is covered. *)
Definition not_bare_number (n : tnode) : Prop :=
  match n with Node _ (VInt _) | Node _ (VUint _) | Node _ (VFlt _) => False | _ => True end.

Lemma not_bare_number_soft n : not_bare_number n -> numsoft n -> False.
Proof. destruct n as [tg v]; destruct v; cbn; auto. Qed.

Theorem json_truncation_general : forall bs n rest k,
  jparse_item true bs = POk n rest -> not_bare_number n -> (k < length bs - length rest)%nat ->
  exists e toks, jdec_run (firstn k bs) = JDFail e toks /\
    (eof_class e \/ (e = EMalformed /\ ends_in_unrepresentable_number (firstn k bs))).
Proof.
  intros bs n rest k H Hn L. unfold jparse_item in H.
  destruct (trj_all (4 * length bs + 4)) as [Hv _].
  destruct (Hv true bs n rest H) as (u & -> & _ & Tr).
  rewrite app_length in L.
  rewrite firstn_app_short by lia.
  destruct (Tr (firstn k u) (skipn k u)) as [[e [E C]]|[[S _]|[E B]]].
  - symmetry. apply firstn_skipn.
  - intros Hq. apply (f_equal (@length _)) in Hq. rewrite skipn_length in Hq. cbn [length] in Hq. lia.
  - apply jdec_error in E. destruct E as [toks E]. exists e, toks. split; [exact E|left; exact C].
  - exfalso. eapply not_bare_number_soft; eauto.
  - apply jdec_error in E. destruct E as [toks E]. exists EMalformed, toks.
    split; [exact E|right; split; [reflexivity|exact B]].
Qed.

(* never a value *)
Corollary json_truncation_fails : forall bs n rest k,
  jparse_item true bs = POk n rest -> not_bare_number n -> (k < length bs - length rest)%nat ->
  exists e toks, jdec_run (firstn k bs) = JDFail e toks.
Proof.
  intros bs n rest k H Hn L.
  destruct (json_truncation_general bs n rest k H Hn L) as (e & toks & E & _). eauto.
Qed.

(* the intended conclusion holds whenever the cut does not fall right after an
   unrepresentable number text *)
Corollary json_truncation_eof : forall bs n rest k,
  jparse_item true bs = POk n rest -> not_bare_number n -> (k < length bs - length rest)%nat ->
  ~ ends_in_unrepresentable_number (firstn k bs) ->
  exists e toks, jdec_run (firstn k bs) = JDFail e toks /\ eof_class e.
Proof.
  intros bs n rest k H Hn L Nb.
  destruct (json_truncation_general bs n rest k H Hn L) as (e & toks & E & [C|[_ B]]).
  - exists e, toks. split; assumption.
  - contradiction.
Qed.

(* FALSE AS STATED (kept for the record; refuted by [json_truncation_false] below):

Theorem json_truncation : forall bs n rest k,
  jparse_item true bs = POk n rest -> not_bare_number n -> (k < length bs - length rest)%nat ->
  exists e toks, jdec_run (firstn k bs) = JDFail e toks /\ eof_class e.

   Counterexample: bs = "[123456789012345678901.5]" (25 bytes), k = 22.  The full
   text reads as an array holding one float.  The first 22 bytes are
   "[123456789012345678901": the number scanner reaches the end of the input
   in an accepting state, so decodeNumber converts the text read so far; it has
   integer syntax and exceeds uint64, hence a range error (EMalformed) instead
   of an end-of-input error.  The same happens for "-9223372036854775809.0",
   "123456789012345678901e1", ... cut before the '.' / 'e'.  The closest true
   statement is [json_truncation_general] above. *)

Definition cex_bs : bytes :=
  [91; 49;50;51;52;53;54;55;56;57;48; 49;50;51;52;53;54;55;56;57;48; 49; 46; 53; 93].

Lemma json_truncation_false :
  ~ (forall bs n rest k,
      jparse_item true bs = POk n rest -> not_bare_number n -> (k < length bs - length rest)%nat ->
      exists e toks, jdec_run (firstn k bs) = JDFail e toks /\ eof_class e).
Proof.
  intros H.
  assert (P : jparse_item true cex_bs =
              POk (Node None (VArr (-1) [Node None (VFlt 4907451598986591450)])) [])
    by (vm_compute; reflexivity).
  destruct (H _ _ _ 22%nat P I) as (e & toks & E & C).
  - cbn [cex_bs length]. lia.
  - vm_compute in E. inversion E; subst. destruct C as [C|C]; discriminate C.
Qed.

Print Assumptions cbor_truncation.
Print Assumptions json_truncation_general.
Print Assumptions json_truncation_false.
